"""props/C01.py — descriptor for property C01 (MDP planners return the optimal value function)."""
import math

REPO_SRCS = [
    "src/MDP/Utils.cpp", "src/MDP/Model.cpp", "src/MDP/SparseModel.cpp", "src/MDP/Experience.cpp",
    "src/MDP/Algorithms/ValueIteration.cpp", "src/MDP/Algorithms/PolicyIteration.cpp",
    "src/MDP/Policies/Policy.cpp", "src/MDP/Policies/PolicyWrapper.cpp",
    "src/MDP/Policies/QGreedyPolicy.cpp", "src/MDP/Policies/QPolicyInterface.cpp",
    "src/Utils/LP/LpSolveWrapper.cpp", "src/Seeder.cpp", "src/Utils/Probability.cpp",
]
EXTRA_LINK = ["/usr/lib/liblpsolve55.a", "-lcolamd", "-ldl"]
AXIOM_ALLOW = []
CASE_TIMEOUT = 30
THOROUGH_SEEDS = 3
RULE = ("cases from props/C01.py gen(): vi/pe cases run ValueIteration/PolicyEvaluation on MDP::Model, "
        "MDP::SparseModel, a user-defined query-only model and a query-only view of MDP::Model built from the "
        "same tables (dyadic regime: bit-exact comparison with the extracted model; general regime: 1e-9 abs+rel); "
        "solve cases cross-check VI / PolicyIteration / LinearProgramming by the Bellman residual; pi cases compare PolicyIteration "
        "with the model; seq cases reuse ONE ValueIteration / PolicyIteration / LinearProgramming object (and one PolicyEvaluation "
        "object per model over two policies) across 2-3 models of equal or different shape and all representations, each answer "
        "judged as a fresh solve; mixed-scale dyadic vi/pe cases (a 2^28..2^32 one-off reward next to unit rewards, gamma 1/2, "
        "tolerance 0, horizons up to 45) check vi_exact/pe_exact bit for bit at the requested horizon; mut cases mutate one Model / SparseModel object (setRewardFunction, setTransitionFunction, setDiscount) "
        "between calls of solvers built once, each call judged against the object's current tables; chain cases are 115-161 state "
        "corridors on which PolicyIteration needs > 100 improvement rounds (oracle only); via cases start VI from a ValueFunction with a short action vector; learn cases run VI on "
        "MaximumLikelihoodModel. non-trivial = horizon > 0 and more than one state (solve: also more than one action); "
        "distinct by md5 of the case line")
TRUSTED_BASE = [
    "IEEE doubles are modelled as exact rationals: agreement is bit-exact only inside the dyadic bit budget, 1e-9 abs+rel outside",
    "Eigen 3.4.0 kernels (matrix*vector, dot, maxCoeff first-index tie-break, sparse->dense conversion) modelled by their mathematical meaning",
    "lp_solve is not modelled; LinearProgramming results are checked by the exact Bellman residual of the returned values (1e-5 rel)",
    "PolicyIteration: outer loop modelled on explicit fuel (pi_run) and compared with the code on short tolerance-free evaluations; "
    "pi_fixpoint is proved under the premise that the evaluated QGreedy matrix has rows summing to one; termination is not proved "
    "(pi_terminates_partial = fuel independence); converged runs are also checked by the exact Bellman residual at run time",
    "equalToleranceSmall is modelled as the rational 1/10^6 (the double 1e-6 differs by 4.5e-23)",
]
ASSUMPTIONS = [
    "wf_mdp m: S>0, A>0, 0<gamma<1, every transition row non-negative and summing to exactly one (theorems); "
    "vi_exact/pe_exact/repr_independent need only A>0 resp. nothing",
    "tolerances <= 1e-6 are treated as 0 by the code (checkDifferentSmall(tol,0)) and by the model alike",
    "start value functions carry an action vector of size S (ValueFunction{values, Actions(S,0)})",
]


def q(n, d):
    return "%d/%d" % (n, d) if d != 1 else "%d" % n


def composition(rng, total, parts):
    """random composition of `total` into `parts` non-negative integers"""
    cuts = sorted(rng.randint(0, total) for _ in range(parts - 1))
    out, prev = [], 0
    for c in cuts + [total]:
        out.append(c - prev); prev = c
    rng.shuffle(out)
    return out


def dy_rows(rng, S, A, j):
    """t[s][a] = list of integer numerators over 2^j"""
    D = 1 << j
    structure = rng.choice(["dense", "dense", "deterministic", "absorbing", "unreachable", "selfloop", "mixed"])
    t = [[None] * A for _ in range(S)]
    for s in range(S):
        for a in range(A):
            if structure == "deterministic" or (structure == "mixed" and rng.random() < 0.4):
                row = [0] * S; row[rng.randrange(S)] = D
            elif structure == "absorbing" and (s == S - 1 or rng.random() < 0.2):
                row = [0] * S; row[s] = D
            elif structure == "unreachable" and S > 1:
                sub = composition(rng, D, S - 1); row = [0] + sub          # state 0 has no incoming edge
            elif structure == "selfloop":
                k = rng.randint(1, D); rest = composition(rng, D - k, S)
                row = rest; row[s] += k
            else:
                row = composition(rng, D, S)
            t[s][a] = row
    return t


def dy_rewards(rng, S, A):
    cls = rng.choice(["positive", "negative", "mixed", "mixed", "ties", "zero", "sdep"])
    def one():
        if cls == "positive": return rng.randint(0, 8)
        if cls == "negative": return -rng.randint(0, 8)
        if cls == "zero": return 0
        return rng.randint(-8, 8)
    r = [[[0] * S for _ in range(A)] for _ in range(S)]
    for s in range(S):
        for a in range(A):
            if cls == "sdep":
                r[s][a] = [one() for _ in range(S)]
            else:
                x = one(); r[s][a] = [x] * S
    return cls, r


def gen_dy(rng, kind):
    S = rng.choice([1, 2, 2, 3, 3, 4, 5]); A = rng.choice([1, 2, 2, 3, 4])
    tiny = rng.random() < 0.06 and S > 1
    j = 21 if tiny else rng.choice([1, 2, 3])
    gam_n, gam_d, bg = rng.choice([(1, 2, 1), (3, 4, 2)])
    jp = rng.choice([1, 2]) if kind == "pe" else 0
    usev0 = rng.random() < 0.25
    # bit budget: fractional bits grow by (j + bg + jp) per backup, start at j (rewards) + 2 (v0);
    # integer part below 2^7
    budget = 52 - 7 - j - 2
    hmax = max(0, min(8, budget // (j + bg + jp)))
    h = rng.randint(0, hmax)
    if tiny:
        D = 1 << j
        t = [[None] * A for _ in range(S)]
        for s in range(S):
            for a in range(A):
                row = [0] * S
                i1, i2 = rng.sample(range(S), 2)
                u = rng.random()
                if u < 0.55: row[i1] = 1; row[i2] = D - 1
                elif u < 0.7 and S > 2:
                    # two dropped entries: 2*2^-21 < 1e-6 is still accepted, 2*2^-20 > 1e-6 is rejected by SparseModel
                    i3 = rng.choice([i for i in range(S) if i not in (i1, i2)])
                    w = rng.choice([1, 2]); row[i1] = w; row[i3] = w; row[i2] = D - 2 * w
                else: row[i1] = D
                t[s][a] = row
    else:
        D = 1 << j
        t = dy_rows(rng, S, A, j)
    cls, r = dy_rewards(rng, S, A)
    if cls == "ties" and A > 1:
        for s in range(S):
            a0 = rng.randrange(A - 1)
            t[s][a0 + 1] = list(t[s][a0]); r[s][a0 + 1] = list(r[s][a0])
    tol = rng.choice(["0", "0", "0", "0", "1/8", "1/64", "1", "1/1048576", "1/524288", "1/4096"])
    toks = [kind, "dy", str(S), str(A), q(gam_n, gam_d), str(h), tol]
    for s in range(S):
        for a in range(A):
            toks += [q(x, D) if x not in (0, D) else ("0" if x == 0 else "1") for x in t[s][a]]
    for s in range(S):
        for a in range(A):
            toks += [str(x) for x in r[s][a]]
    if usev0:
        wrong = rng.random() < 0.15
        n = S + 1 if wrong else S
        toks += [str(n)] + [q(rng.randint(-32, 32), 4) for _ in range(n)]
    else:
        toks += ["0"]
    if kind == "pe":
        Dp = 1 << jp
        for s in range(S):
            row = composition(rng, Dp, A) if rng.random() < 0.7 else [Dp if a == rng.randrange(A) else 0 for a in range(A)]
            if sum(row) != Dp:
                row = [0] * A; row[rng.randrange(A)] = Dp
            toks += [q(x, Dp) for x in row]
    return " ".join(toks)


def hx(x):
    return float(x).hex()


def ge_rows(rng, S, A):
    t = [[None] * A for _ in range(S)]
    for s in range(S):
        for a in range(A):
            mode = rng.random()
            if mode < 0.15:
                row = [0.0] * S; row[rng.randrange(S)] = 1.0
            else:
                w = [rng.random() if rng.random() < 0.8 else 0.0 for _ in range(S)]
                if sum(w) == 0.0: w[rng.randrange(S)] = 1.0
                tot = sum(w); row = [x / tot for x in w]
                # keep clear of the sparse cut-off (entries in (0, 1e-5) would be dropped or nearly so)
                if any(0.0 < x < 1e-5 for x in row):
                    row = [0.0] * S; row[rng.randrange(S)] = 1.0
            t[s][a] = row
    return t


def ge_rewards(rng, S, A, allow_scale=True):
    scale = rng.choice([1.0, 1.0, 10.0, 1e6, 1e-3]) if allow_scale else rng.choice([1.0, 10.0])
    cls = rng.choice(["positive", "negative", "mixed", "mixed", "sdep"])
    def one():
        x = rng.random() * scale
        if cls == "negative": return -x
        if cls == "positive": return x
        return x if rng.random() < 0.5 else -x
    r = [[[0.0] * S for _ in range(A)] for _ in range(S)]
    for s in range(S):
        for a in range(A):
            if cls == "sdep": r[s][a] = [one() for _ in range(S)]
            else:
                x = one(); r[s][a] = [x] * S
    return r


def gen_ge(rng, kind):
    S = rng.choice([1, 2, 3, 3, 4, 5]); A = rng.choice([1, 2, 2, 3, 4])
    gamma = rng.choice([0.5, 0.75, 0.9, 0.99])
    # exact rational arithmetic on 53-bit inputs: cost grows quadratically with the horizon
    h = rng.choice([0, 1, 2, 2, 3, 3, 4, 4, 5, 6])
    tol = rng.choice([0.0, 0.0, 1e-3, 1e-2, 0.25])
    t = ge_rows(rng, S, A); r = ge_rewards(rng, S, A)
    toks = [kind, "ge", str(S), str(A), hx(gamma), str(h), hx(tol)]
    for s in range(S):
        for a in range(A): toks += [hx(x) for x in t[s][a]]
    for s in range(S):
        for a in range(A): toks += [hx(x) for x in r[s][a]]
    if rng.random() < 0.2:
        toks += [str(S)] + [hx(rng.uniform(-5, 5)) for _ in range(S)]
    else:
        toks += ["0"]
    if kind == "pe":
        for s in range(S):
            w = [rng.random() for _ in range(A)]; tot = sum(w)
            toks += [hx(x / tot) for x in w]
    return " ".join(toks)


def trap_model(rng, S, A, dy, j=2):
    """Sign-structured MDP (needs S >= 2): 'free' states whose own rewards are all zero / slightly positive but
    every action of which leads mostly into 'costly' states (all rewards negative, mostly staying costly), so
    the optimal value of a free state is negative although it never loses reward itself; optionally also
    'rich' states (all rewards positive).  Returns (t, r) in the dyadic (numerators over 2^j) or general form."""
    states = list(range(S)); rng.shuffle(states)
    ncost = rng.randint(1, S - 1)
    costly = set(states[:ncost]); rest = states[ncost:]
    rich = set()
    if len(rest) > 1 and rng.random() < 0.3:
        rich = {rest[-1]}
    free = [s for s in rest if s not in rich]
    D = 1 << j
    t = [[None] * A for _ in range(S)]
    r = [[None] * A for _ in range(S)]
    cl = sorted(costly)
    for s in range(S):
        for a in range(A):
            if s in costly:
                # stays costly with probability >= 3/4
                inside = rng.choice([D, D, D - D // 4]) if dy else rng.choice([1.0, 1.0, rng.uniform(0.75, 1.0)])
            elif s in rich:
                inside = 0
            else:
                inside = rng.choice([D, D - D // 4, D // 2]) if dy else rng.uniform(0.5, 1.0)
            row = [0] * S if dy else [0.0] * S
            if dy:
                for k, x in enumerate(composition(rng, inside, len(cl))): row[cl[k]] += x
                others = [x for x in range(S) if x not in costly] or cl
                for k, x in enumerate(composition(rng, D - inside, len(others))): row[others[k]] += x
            else:
                w = [rng.random() + 0.05 for _ in cl]; tw = sum(w)
                for k, x in enumerate(w): row[cl[k]] += inside * x / tw
                others = [x for x in range(S) if x not in costly] or cl
                w = [rng.random() + 0.05 for _ in others]; tw = sum(w)
                for k, x in enumerate(w): row[others[k]] += (1.0 - inside) * x / tw
                tot = sum(row); row = [x / tot for x in row]
                if any(0.0 < x < 1e-5 for x in row):
                    row = [0.0] * S; row[cl[0]] = 1.0
            t[s][a] = row
            if s in costly:
                x = -rng.randint(1, 8) if dy else -rng.uniform(1.0, 10.0)
            elif s in rich:
                x = rng.randint(1, 8) if dy else rng.uniform(1.0, 10.0)
            else:
                x = rng.choice([0, 0, 1]) if dy else rng.choice([0.0, 0.0, rng.uniform(0.0, 0.2)])
            r[s][a] = [x] * S
    return t, r


def gen_solve(rng):
    S = rng.choice([1, 2, 3, 4, 5, 6]); A = rng.choice([1, 2, 3, 4])
    gamma = rng.choice([0.5, 0.75, 0.9, 0.95])
    tol = rng.choice([1e-3, 1e-4, 1e-5])
    if S >= 2 and rng.random() < 0.4:
        t, r = trap_model(rng, S, A, False)
    else:
        t = ge_rows(rng, S, A); r = ge_rewards(rng, S, A, allow_scale=False)
    toks = ["solve", "ge", str(S), str(A), hx(gamma), hx(tol), "100000"]
    for s in range(S):
        for a in range(A): toks += [hx(x) for x in t[s][a]]
    for s in range(S):
        for a in range(A): toks += [hx(x) for x in r[s][a]]
    return " ".join(toks)


def gen_learn(rng):
    S = rng.choice([2, 3, 4]); A = rng.choice([1, 2, 3])
    gamma = rng.choice([0.5, 0.75, 0.9])
    h = rng.randint(0, 6)
    n = rng.randint(0, 25)
    toks = ["learn", "ge", str(S), str(A), hx(gamma), str(h), "0", str(n)]
    for _ in range(n):
        toks += [str(rng.randrange(S)), str(rng.randrange(A)), str(rng.randrange(S)), q(rng.randint(-16, 16), 4)]
    return " ".join(toks)


def gen_via(rng):
    """a vi.dy case with a start value function of the right size whose action vector is too short"""
    while True:
        c = gen_dy(rng, "vi").split()
        S = int(c[2])
        try: n = int(c[-(S + 1)]) if len(c) > S + 1 else -1
        except ValueError: n = -1
        # keep only cases that carry a start vector of size S (the last S+1 tokens are "S v0...")
        if c[-1] != "0" and n == S and int(c[5]) > 0:
            break
    c[0] = "via"
    c.append(str(rng.randrange(S)))
    return " ".join(c)


def gen_pi(rng):
    """PolicyIteration with a short, tolerance-free evaluation (modified policy iteration): model vs code"""
    if rng.random() < 0.7:
        S = rng.choice([1, 2, 2, 3, 3]); A = rng.choice([1, 2, 2])
        j = rng.choice([1, 1, 2]); D = 1 << j
        gam_n, gam_d, bg = rng.choice([(1, 2, 1), (3, 4, 2)])
        h = rng.choice([1, 1, 2, 3])
        t = dy_rows(rng, S, A, j)
        cls, r = dy_rewards(rng, S, A)
        if cls == "ties" and A > 1:
            for s in range(S):
                t[s][1] = list(t[s][0]); r[s][1] = list(r[s][0])
        toks = ["pi", "dy", str(S), str(A), q(gam_n, gam_d), str(h), "0", str(j + bg + 1)]
        for s in range(S):
            for a in range(A):
                toks += [q(x, D) if x not in (0, D) else ("0" if x == 0 else "1") for x in t[s][a]]
        for s in range(S):
            for a in range(A):
                toks += [str(x) for x in r[s][a]]
        return " ".join(toks)
    S = rng.choice([1, 2, 3]); A = rng.choice([1, 2, 3])
    gamma = rng.choice([0.5, 0.75])
    h = rng.choice([1, 2])
    t = ge_rows(rng, S, A); r = ge_rewards(rng, S, A, allow_scale=False)
    toks = ["pi", "ge", str(S), str(A), hx(gamma), str(h), "0", "0"]
    for s in range(S):
        for a in range(A): toks += [hx(x) for x in t[s][a]]
    for s in range(S):
        for a in range(A): toks += [hx(x) for x in r[s][a]]
    return " ".join(toks)


def gen_seq(rng):
    """solver-object reuse: one ValueIteration / PolicyIteration / LinearProgramming object (and one
    PolicyEvaluation object per model, over two policies) across 2-3 models of equal or different shape"""
    dy = rng.random() < 0.8
    k = rng.choice([2, 2, 3])
    def shape():
        return (rng.choice([1, 2, 2, 3]), rng.choice([1, 2, 2]) if dy else rng.choice([1, 2, 3]))
    def fresh(S, A, j):
        if S >= 2 and rng.random() < 0.35:
            return trap_model(rng, S, A, dy, j)
        if dy:
            t = dy_rows(rng, S, A, j); _, r = dy_rewards(rng, S, A)
        else:
            t = ge_rows(rng, S, A); r = ge_rewards(rng, S, A, allow_scale=False)
        return t, r
    def policy(S, A):
        rows = []
        for s in range(S):
            if dy:
                row = composition(rng, 2, A)
                rows.append([q(x, 2) for x in row])
            else:
                w = [rng.random() for _ in range(A)]; tot = sum(w)
                rows.append([hx(x / tot) for x in w])
        return rows
    j = rng.choice([1, 2])
    gams = [(1, 2, 1), (3, 4, 2)] if dy else [(0.5,), (0.75,), (0.9,)]
    S, A = shape(); gam = rng.choice(gams); t, r = fresh(S, A, j)
    models = [(S, A, gam, t, r)]
    for i in range(1, k):
        S, A, gam, t, r = models[-1]
        mode = rng.choice(["rewards", "rewards", "transitions", "both", "gamma", "shape", "first"])
        if mode == "rewards": _, r = fresh(S, A, j)
        elif mode == "transitions": t, _ = fresh(S, A, j)
        elif mode == "both": t, r = fresh(S, A, j)
        elif mode == "gamma": gam = rng.choice([g for g in gams if g != gam])
        elif mode == "first" and i >= 2: S, A, gam, t, r = models[0]
        else:
            S, A = shape(); gam = rng.choice(gams); t, r = fresh(S, A, j)
        models.append((S, A, gam, t, r))
    if dy:
        # bit budget as in gen_dy: (j + bits gamma + 1 policy bit) per sweep
        h = rng.randint(1, min(6, (52 - 7 - j - 2) // (j + 2 + 1)))
        tol = rng.choice(["0", "0", "1/8", "1/64"])
    else:
        h = rng.choice([1, 2, 3]); tol = rng.choice([hx(0.0), hx(1e-2)])
    hpi = rng.choice([1, 2])
    toks = ["seq", "dy" if dy else "ge", str(k), str(h), tol, str(hpi)]
    if rng.random() < 0.3:
        S0 = models[0][0]
        toks += [str(S0)] + ([q(rng.randint(-32, 32), 4) for _ in range(S0)] if dy else [hx(rng.uniform(-5, 5)) for _ in range(S0)])
    else:
        toks += ["0"]
    D = 1 << j
    for (S, A, gam, t, r) in models:
        if dy:
            toks += [str(S), str(A), q(gam[0], gam[1]), str(j + gam[2] + 1)]
            for s in range(S):
                for a in range(A):
                    toks += [q(x, D) if x not in (0, D) else ("0" if x == 0 else "1") for x in t[s][a]]
            for s in range(S):
                for a in range(A): toks += [str(x) for x in r[s][a]]
        else:
            toks += [str(S), str(A), hx(gam[0]), "0"]
            for s in range(S):
                for a in range(A): toks += [hx(x) for x in t[s][a]]
            for s in range(S):
                for a in range(A): toks += [hx(x) for x in r[s][a]]
        for _ in range(2):
            for row in policy(S, A): toks += row
    return " ".join(toks)


def gen_scales(rng, kind):
    """mixed scales, tolerance 0: one state collects a one-off reward of 2^28..2^32 (then an absorbing zero
    state) next to states earning unit-size rewards; gamma = 1/2 and deterministic / half-half transitions so
    that all h-step values (h up to 45) are exactly representable: vi_exact / pe_exact are checked bit for
    bit at the REQUESTED horizon although the vector as a whole stops changing relatively after ~11 sweeps"""
    nsmall = rng.choice([1, 2, 2]); S = nsmall + 2
    A = rng.choice([1, 2, 2]) if kind == "vi" else rng.choice([1, 2])
    order = list(range(S)); rng.shuffle(order)
    b, z, small = order[0], order[1], order[2:]
    big = 1 << rng.randint(28, 32)
    half = kind == "vi" and rng.random() < 0.3          # some half/half rows: 2 fractional bits per sweep
    h = rng.randint(14, 22) if (half or kind == "pe") else rng.randint(14, 45)
    t = [[None] * A for _ in range(S)]; r = [[None] * A for _ in range(S)]
    for s in range(S):
        for a in range(A):
            row = [0] * S
            if s == z: row[z] = 2; x = 0
            elif s == b and a == 0: row[z] = 2; x = big
            else:
                targets = small + [z] if s != b else small
                if half and len(targets) > 1:
                    i1, i2 = rng.sample(targets, 2); row[i1] = 1; row[i2] = 1
                else:
                    row[rng.choice(targets)] = 2
                x = rng.randint(-4, 4) if s != b else rng.randint(0, 4)
            t[s][a] = row; r[s][a] = [x] * S
    toks = [kind, "dy", str(S), str(A), "1/2", str(h), "0"]
    for s in range(S):
        for a in range(A): toks += [q(x, 2) if x == 1 else ("0" if x == 0 else "1") for x in t[s][a]]
    for s in range(S):
        for a in range(A): toks += [str(x) for x in r[s][a]]
    toks += ["0"]
    if kind == "pe":
        for s in range(S):
            if s == b or rng.random() < 0.4:
                # deterministic choice (at the big state always: 2^30 and h fractional bits do not fit together)
                a0 = 0 if s == b else rng.randrange(A)
                toks += ["1" if a == a0 else "0" for a in range(A)]
            else:
                toks += [q(x, 2) for x in composition(rng, 2, A)]
    return " ".join(toks)


def gen_mut(rng):
    """one Model and one SparseModel object mutated through setRewardFunction / setTransitionFunction /
    setDiscount between calls of solvers built once (PolicyEvaluation keeps a reference to its model)"""
    dy = rng.random() < 0.75
    S = rng.choice([1, 2, 2, 3]); A = rng.choice([1, 2, 2]) if dy else rng.choice([1, 2, 3])
    j = rng.choice([1, 2]); D = 1 << j
    gams = [(1, 2, 1), (3, 4, 2)] if dy else [(0.5,), (0.75,), (0.9,)]
    def fresh():
        if S >= 2 and rng.random() < 0.3: return trap_model(rng, S, A, dy, j)
        if dy:
            t = dy_rows(rng, S, A, j); _, r = dy_rewards(rng, S, A)
        else:
            t = ge_rows(rng, S, A); r = ge_rewards(rng, S, A, allow_scale=False)
        return t, r
    def tt(t):
        out = []
        for s in range(S):
            for a in range(A):
                out += [q(x, D) if x not in (0, D) else ("0" if x == 0 else "1") for x in t[s][a]] if dy else [hx(x) for x in t[s][a]]
        return out
    def rr(r):
        out = []
        for s in range(S):
            for a in range(A): out += [str(x) for x in r[s][a]] if dy else [hx(x) for x in r[s][a]]
        return out
    def gtok(g): return q(g[0], g[1]) if dy else hx(g[0])
    def pol():
        out = []
        for s in range(S):
            if dy: out += [q(x, 2) for x in composition(rng, 2, A)]
            else:
                w = [rng.random() for _ in range(A)]; tot = sum(w); out += [hx(x / tot) for x in w]
        return out
    k = rng.choice([1, 2, 2, 3])
    if dy:
        h = rng.randint(1, min(6, (52 - 7 - j - 2) // (j + 2 + 1))); tol = rng.choice(["0", "0", "1/8", "1/64"])
    else:
        h = rng.choice([1, 2, 3]); tol = rng.choice([hx(0.0), hx(1e-2)])
    hpi = rng.choice([1, 2])
    gam = rng.choice(gams)
    t, r = fresh()
    toks = ["mut", "dy" if dy else "ge", str(S), str(A), gtok(gam), str(k), str(h), tol, str(hpi), str(j + 2 + 1) if dy else "0"]
    if rng.random() < 0.3:
        toks += [str(S)] + ([q(rng.randint(-32, 32), 4) for _ in range(S)] if dy else [hx(rng.uniform(-5, 5)) for _ in range(S)])
    else:
        toks += ["0"]
    toks += tt(t) + rr(r) + pol()
    for _ in range(k):
        ops = rng.choice(["R", "R", "R", "T", "D", "TR", "RT", "RD", "TRD"])
        toks.append(ops)
        for ch in ops:
            if ch == "T": t2, _ = fresh(); toks += tt(t2)
            elif ch == "R": _, r2 = fresh(); toks += rr(r2)
            else:
                gam = rng.choice([g for g in gams if g != gam]); toks.append(gtok(gam))
        toks += pol()
    return " ".join(toks)


def gen_chain(rng, small=False):
    """deterministic corridor (see harness runChain): Howard policy iteration repairs one state per
    improvement round starting from the goal, i.e. needs about n rounds (n = 110..160)"""
    n = rng.randint(114, 128) if small else rng.randint(114, 160)
    gamma = rng.choice([1.0 - 2.0 ** -5, 1.0 - 2.0 ** -6, 1.0 - 2.0 ** -7])
    tol = rng.choice([1e-4, 1e-5])
    M = 1.0 / (1.0 - gamma)
    b0 = rng.uniform(0.8, 0.95); slope = rng.uniform(0.25, 0.4)
    pay = [gamma ** (n - 1 - i) * M * (b0 - slope * i / n) for i in range(n - 1)]
    return " ".join(["chain", "ge", str(n + 1), "2", hx(gamma), hx(tol), "1000000", str(n - 1)] + [hx(x) for x in pay])


def gen(rng, tier):
    n = {"quick": 420, "thorough": 1900, "search": 1200}[tier]
    out = []
    # long corridors are expensive (about n policy-iteration rounds): a fixed small number per run
    # (exact-rational oracle on ~150 states costs ~10 s per case; the corpus holds one more chain)
    for _ in range({"quick": 1, "thorough": 2, "search": 1}[tier]):
        out.append(gen_chain(rng, small=(tier != "thorough")))
    for _ in range(n):
        u = rng.random()
        if u < 0.015: out.append(gen_scales(rng, "vi"))
        elif u < 0.02: out.append(gen_scales(rng, "pe"))
        elif u < 0.45: out.append(gen_dy(rng, "vi"))
        elif u < 0.65: out.append(gen_dy(rng, "pe"))
        elif u < 0.78: out.append(gen_ge(rng, "vi"))
        elif u < 0.86: out.append(gen_ge(rng, "pe"))
        elif u < 0.91: out.append(gen_solve(rng))
        elif u < 0.93: out.append(gen_pi(rng))
        elif u < 0.95: out.append(gen_seq(rng))
        elif u < 0.965: out.append(gen_mut(rng))
        elif u < 0.972: out.append(gen_via(rng))
        else: out.append(gen_learn(rng))
    return out
