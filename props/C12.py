"""props/C12.py — descriptor for property C12 (pruning preserves the value surface; bound
interpolation is exact)."""
from fractions import Fraction as F

REPO_SRCS = ["src/Utils/Polytope.cpp", "src/Utils/LP/LpSolveWrapper.cpp"]
EXTRA_LINK = ["/usr/lib/liblpsolve55.a", "-lcolamd", "-ldl"]
AXIOM_ALLOW = []
THOROUGH_SEEDS = 3
SEARCH_SEEDS = 2
CASE_TIMEOUT = 10
TRUSTED_BASE = [
    "lp_solve (through AIToolbox::LP) is an oracle: WitnessLP::findWitness and the LPInterpolation LP are Section variables with soundness/completeness hypotheses; the driver re-checks the certificate clauses (weights >= 0, reconstruction, value <= weighted sum) exactly on every implementation output",
    "doubles are exact on the dyadic inputs generated (entries k/2^j, |k| < 2^13, j <= 30; beliefs k/2^j, j <= 6); equalToleranceSmall/General are modelled as the rationals 1e-6 / 1e-11",
    "Eigen dot/maxCoeff/minCoeff modelled by their mathematical meaning",
]
ASSUMPTIONS = [
    "all hyperplanes of a set have the same dimension; beliefs have that dimension",
    "incremental_eq_union: the old range is internally non-dominated (documented precondition) and the dominance test is a preorder on the input (true for tolerance 0, and for inputs whose entries are equal or differ by more than the tolerances)",
    "interpolation theorems: query and stored points are beliefs whose coordinates are exactly 0 or > 1e-6; LP answers are feasible (lp_sound)",
]
RULE = ("cases from props/C12.py gen(): hyperplane sets of dimension 1..5 and size 1..25 with duplicates, exact ties, "
        "near-parallel pairs (difference 2^-k), spike (corner-only) and face-only maximisers, dyadic entries; "
        "interpolation point sets/queries with zero coordinates and queries equal to a stored point; "
        "ubp: 0..8 hyperplanes and 0..14 belief points (duplicates, corners) for extractBestUsefulPoints; "
        "fbdd: up to 12 hyperplanes, a belief, a plane and a dyadic delta (exact 3-4-5 ties) for findBestDeltaDominated. "
        "non-trivial = something was pruned and something kept / a tie was broken / a stored point entered the bound; "
        "distinct by md5 of the case line")


def q(x):
    x = F(x)
    return "%d/%d" % (x.numerator, x.denominator) if x.denominator != 1 else "%d" % x.numerator


def vecs(l, d):
    return "%d %d %s" % (len(l), d, " ".join(q(x) for v in l for x in v)) if l else "0 %d" % d


EPS_S = F(1, 10**6)
EPS_G = F(1, 10**11)


def dominates(u, v):
    return all(a - b >= -EPS_S for a, b in zip(u, v)) or all(a - b >= -min(a, b) * EPS_G for a, b in zip(u, v))


def rand_entry(rng):
    return F(rng.randint(-8, 16), rng.choice([1, 1, 2, 4]))


def rand_belief(rng, d, zeros=True):
    den = rng.choice([4, 8, 16, 64])
    while True:
        cuts = sorted(rng.randint(0, den) for _ in range(d - 1))
        parts = [b - a for a, b in zip([0] + cuts, cuts + [den])]
        if zeros or all(p > 0 for p in parts):
            return [F(p, den) for p in parts]


def rand_vecset(rng, d, n):
    """n hyperplanes of dimension d mixing the regimes the property lists."""
    l = []
    while len(l) < n:
        r = rng.random()
        if not l or r < 0.35:
            v = [rand_entry(rng) for _ in range(d)]
        elif r < 0.45:                       # duplicate
            v = list(rng.choice(l))
        elif r < 0.60:                       # near-parallel: differs by 2^-k (below / above the tolerances)
            base = rng.choice(l)
            k = rng.choice([8, 10, 18, 19, 20, 21, 24, 30])
            sgn = rng.choice([1, -1])
            if rng.random() < 0.5:
                v = [x + sgn * F(1, 2**k) for x in base]
            else:
                i = rng.randrange(d)
                v = [x + (sgn * F(1, 2**k) if j == i else 0) for j, x in enumerate(base)]
        elif r < 0.70:                       # exactly dominated / dominating copy
            base = rng.choice(l)
            sgn = rng.choice([1, -1])
            v = [x + sgn * F(rng.randint(0, 3), rng.choice([1, 2])) for x in base]
        elif r < 0.82:                       # spike: best only at one corner
            i = rng.randrange(d)
            h = F(rng.randint(10, 20)); lo = F(rng.randint(-30, -10))
            v = [h if j == i else lo for j in range(d)]
        elif r < 0.90 and d >= 2:            # face: high on two corners, exact tie with others along an edge
            i, j = rng.sample(range(d), 2)
            h = F(rng.randint(6, 12), 2)
            v = [h if t in (i, j) else F(-20) for t in range(d)]
        else:                                # mixture of two existing ones (below the envelope, not dominated pairwise)
            a, b = rng.choice(l), rng.choice(l)
            v = [(x + y) / 2 - F(rng.randint(0, 2), 4) for x, y in zip(a, b)]
        l.append(v)
    rng.shuffle(l)
    return l


def prune_exact(l):
    out = []
    for v in l:
        if any(dominates(u, v) for u in out):
            continue
        out = [u for u in out if not dominates(v, u)] + [v]
    return out


def gen_interp(rng, kind):
    S = rng.choice([1, 2, 2, 3, 3, 3, 4])
    A = rng.choice([1, 2, 3])
    ubq = [[F(rng.randint(-4, 12), rng.choice([1, 2])) for _ in range(A)] for _ in range(S)]
    cv = [max(r) for r in ubq]
    n = rng.choice([0, 1, 1, 2, 3, 4, 6])
    pts = []
    for _ in range(n):
        if pts and rng.random() < 0.15:
            pts.append(list(rng.choice(pts)))
        else:
            pts.append(rand_belief(rng, S, zeros=rng.random() < 0.6))
    vals = []
    for b in pts:
        top = sum(x * c for x, c in zip(b, cv))
        gap = F(rng.randint(0, 12), 4)
        vals.append(top - gap if rng.random() < 0.8 else top + F(rng.randint(1, 4), 4))
    r = rng.random()
    if pts and r < 0.3:
        query = list(rng.choice(pts))
    elif r < 0.7:
        query = rand_belief(rng, S, zeros=True)
    else:
        query = rand_belief(rng, S, zeros=False)
    flat = " ".join(q(x) for row in ubq for x in row)
    return "%s %d %d %s %s %d %s %s" % (kind, S, A, flat, vecs(pts, S), len(vals),
                                        " ".join(q(x) for x in vals), " ".join(q(x) for x in query))


def belief_on(rng, S, support):
    """dyadic belief with exactly the given support (all listed coordinates > 0)."""
    k = len(support)
    den = rng.choice([8, 16, 32, 64])
    while den < k:
        den *= 2
    cuts = sorted(rng.sample(range(1, den), k - 1)) if k > 1 else []
    parts = [b - a for a, b in zip([0] + cuts, cuts + [den])]
    v = [F(0)] * S
    for s_, p_ in zip(support, parts):
        v[s_] = F(p_, den)
    return v


def gen_interp_faces(rng, kind):
    """Query on a proper face of the simplex; stored points of three sorts in random order: on the
    query's face (same support), on a strict sub-face (support strictly inside the query's), and
    unusable ones (mass outside the query's support).  Values are mostly well below the corner
    surface so that usable points really enter the bound (non-zero weights)."""
    S = rng.choice([3, 4, 4, 5])
    A = rng.choice([1, 2, 3])
    ubq = [[F(rng.randint(4, 12), rng.choice([1, 2])) for _ in range(A)] for _ in range(S)]
    cv = [max(r) for r in ubq]
    ksup = rng.randint(2, S - 1)
    support = sorted(rng.sample(range(S), ksup))
    outside = [s_ for s_ in range(S) if s_ not in support]
    query = belief_on(rng, S, support)
    n = rng.choice([1, 2, 3, 3, 4, 5, 6])
    pts = []
    for _ in range(n):
        r = rng.random()
        if r < 0.35:                                   # same support
            b = belief_on(rng, S, support)
        elif r < 0.65 and ksup >= 3:                   # strict sub-face (never a corner)
            sub = sorted(rng.sample(support, rng.randint(2, ksup - 1)))
            b = belief_on(rng, S, sub)
        elif r < 0.70:                                 # the query itself
            b = list(query)
        else:                                          # unusable: mass outside the query's support
            extra = rng.sample(outside, rng.randint(1, len(outside)))
            inside = rng.sample(support, rng.randint(1, ksup))
            b = belief_on(rng, S, sorted(extra + inside))
        pts.append(b)
    vals = []
    for b in pts:
        top = sum(x * c for x, c in zip(b, cv))
        vals.append(top - F(rng.randint(1, 24), 4) if rng.random() < 0.9 else top + F(rng.randint(0, 4), 4))
    flat = " ".join(q(x) for row in ubq for x in row)
    return "%s %d %d %s %s %d %s %s" % (kind, S, A, flat, vecs(pts, S), len(vals),
                                        " ".join(q(x) for x in vals), " ".join(q(x) for x in query))


def gen(rng, tier):
    n = {"quick": 700, "thorough": 5000, "search": 1500}[tier]
    out = []
    kinds = ["ed"] * 5 + ["edi"] * 4 + ["fbp", "fbp", "fbc", "ebp", "ebc", "dom", "dom"] + ["prune"] * 2 + ["prune2"] + ["fvn", "fvn", "fvr"] + ["saw"] * 3 + ["lpi"] * 3 + ["ubp"] * 3 + ["fbdd"] * 2
    for _ in range(n):
        kind = rng.choice(kinds)
        d = rng.choice([1, 2, 2, 3, 3, 4, 5])
        sz = rng.choice([1, 2, 3, 4, 5, 6, 8, 10, 12, 16, 20, 25])
        if kind == "dom":
            l = rand_vecset(rng, d, 2)
            out.append("dom %d %s %s" % (d, " ".join(q(x) for x in l[0]), " ".join(q(x) for x in l[1])))
        elif kind == "ed":
            out.append("ed " + vecs(rand_vecset(rng, d, sz), d))
        elif kind == "edi":
            l = rand_vecset(rng, d, sz + 1)
            k = rng.randint(0, len(l))
            old, new = l[:k], l[k:]
            if rng.random() < 0.85:
                old = prune_exact(old)
            out.append("edi %d %s" % (len(old), vecs(old + new, d)))
        elif kind == "fbp":
            l = rand_vecset(rng, d, sz)
            out.append("fbp %s %s" % (vecs(l, d), " ".join(q(x) for x in rand_belief(rng, d))))
        elif kind == "fbc":
            l = rand_vecset(rng, d, sz)
            out.append("fbc %s %d" % (vecs(l, d), rng.randrange(d)))
        elif kind == "ebp":
            l = rand_vecset(rng, d, sz)
            out.append("ebp %s %d %s" % (vecs(l, d), rng.randint(0, len(l)), " ".join(q(x) for x in rand_belief(rng, d))))
        elif kind == "ebc":
            l = rand_vecset(rng, d, sz)
            out.append("ebc %s %d" % (vecs(l, d), rng.randint(0, len(l))))
        elif kind == "prune":
            out.append("prune " + vecs(rand_vecset(rng, d, min(sz, 16)), d))
        elif kind in ("fvn", "fvr"):          # vertex enumeration: small integer / half-integer planes, dims 2..4
            dd = rng.choice([2, 2, 3, 3, 4])
            def plane():
                r = rng.random()
                if r < 0.6:
                    return [F(rng.randint(-6, 12), rng.choice([1, 1, 2])) for _ in range(dd)]
                i = rng.randrange(dd)                      # spike: crosses the others inside faces
                return [F(rng.randint(8, 14)) if j == i else F(rng.randint(-10, 0)) for j in range(dd)]
            if kind == "fvn":
                news = [plane() for _ in range(rng.choice([1, 1, 2]))]
                alphas = [plane() for _ in range(rng.choice([1, 2, 3, 4, 5]))]
                out.append("fvn %s %s" % (vecs(news, dd), vecs(alphas, dd)))
            else:
                rg = [plane() for _ in range(rng.choice([2, 3, 4, 5]))]
                if rng.random() < 0.1:
                    rg.append(list(rng.choice(rg)))        # duplicate plane: singular systems
                out.append("fvr %s" % vecs(rg, dd))
        elif kind == "ubp":                   # extractBestUsefulPoints: planes (possibly none), belief points with duplicates
            nw = rng.choice([0, 1, 1, 2, 2, 3, 4, 6, 8])
            w = rand_vecset(rng, d, nw) if nw else []
            npts = rng.choice([0, 1, 2, 3, 4, 5, 6, 8, 10, 14])
            pts = []
            for _ in range(npts):
                r = rng.random()
                if pts and r < 0.2:
                    pts.append(list(rng.choice(pts)))          # duplicate point: equal values on the same plane
                elif r < 0.35:
                    i = rng.randrange(d)
                    pts.append([F(1) if j == i else F(0) for j in range(d)])   # corner
                else:
                    pts.append(rand_belief(rng, d))
            out.append("ubp %s %s" % (vecs(w, d), vecs(pts, d)))
        elif kind == "fbdd":                  # findBestDeltaDominated: integer / quarter entries, dyadic delta
            l = rand_vecset(rng, d, min(sz, 12))
            plane = list(rng.choice(l)) if rng.random() < 0.3 else [rand_entry(rng) - 4 for _ in range(d)]
            delta = rng.choice([F(-1), F(0), F(0), F(1, 8), F(1, 4), F(1, 2), F(3, 4), F(1), F(1), F(2), F(5)])
            if rng.random() < 0.2 and d >= 2:  # exact ties: difference vector (3,4,0..)*t has norm 5t
                t = F(rng.randint(1, 4), 4)
                l.insert(rng.randrange(len(l) + 1), [x + t * (3 if j == 0 else 4 if j == 1 else 0) for j, x in enumerate(plane)])
            out.append("fbdd %s %s %s %s" % (vecs(l, d), " ".join(q(x) for x in rand_belief(rng, d)),
                                             " ".join(q(x) for x in plane), q(delta)))
        elif kind == "prune2":                # one Pruner object reused on two sets of different sizes
            big = rng.choice([8, 10, 12, 16]); small = rng.choice([3, 4, 5, 6])
            a, b = (big, small) if rng.random() < 0.7 else (small, big)
            out.append("prune2 %s %s" % (vecs(rand_vecset(rng, d, a), d), vecs(rand_vecset(rng, d, b), d)))
        else:
            out.append(gen_interp_faces(rng, kind) if rng.random() < 0.5 else gen_interp(rng, kind))
    return out
