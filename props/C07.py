"""props/C07.py — descriptor for property C07 (experience and learned models mirror the history)."""
REPO_SRCS = ["src/MDP/Experience.cpp", "src/MDP/SparseExperience.cpp", "src/Bandit/Experience.cpp",
             "src/Seeder.cpp", "src/Factored/MDP/CooperativeExperience.cpp",
             "src/Factored/MDP/CooperativeMaximumLikelihoodModel.cpp",
             "src/Factored/MDP/CooperativeThompsonModel.cpp", "src/Factored/Utils/BayesianNetwork.cpp",
             "src/Factored/Utils/Core.cpp", "src/Factored/Utils/FactoredMatrix.cpp",
             "src/Factored/Bandit/Experience.cpp"]
# Eigen's documented debugging switch: storage the library never writes reads back as NaN, so an
# uninitialised model cell is observable deterministically (DESIGN §6, C07/C10 row).
EXTRA_CXXFLAGS = ["-DEIGEN_INITIALIZE_MATRICES_BY_NAN"]
AXIOM_ALLOW = []
THOROUGH_SEEDS = 3
CASE_TIMEOUT = 60
TRUSTED_BASE = [
    "doubles vs exact rationals: counts compared exactly, means/M2/probabilities within 1e-9 (abs+rel); "
    "sparse-model rewards within 2e-6 (the library's own checkDifferentSmall threshold)",
    "-DEIGEN_INITIALIZE_MATRICES_BY_NAN on every TU of the harness binary: Eigen fills freshly allocated dense "
    "storage with NaN; only the value of otherwise-indeterminate cells changes",
    "size_t / unsigned long counters modelled as unbounded nat",
]
ASSUMPTIONS = ["indices in range (the C++ accessors are unchecked)",
               "histories short enough that counters do not overflow and double rounding stays below 1e-9"]
RULE = ("op sequences record/reset/model-construction/sync()/sync(s,a)/sync(s,a,s1)/dump over Experience, "
        "SparseExperience and a non-Eigen experience wrapper; non-trivial = at least one record and one "
        "sync that found data; distinct by md5 of the case line")

REW = ["0", "1", "-1", "2", "-3", "5", "1/2", "-1/2", "3/4", "-5/4", "7/8", "10", "-16", "1/8", "25/2"]


class Trk:
    """python twin of Spec.trk (only used to *generate* precondition-respecting sequences;
       the driver uses the Coq-extracted tracker)."""
    def __init__(self, n, last, flag):
        self.st = {}
        for k, v in n.items():
            if flag: self.st[k] = "I" if v == 0 else "S"
            else: self.st[k] = "I" if v == 0 else "X"
    def get(self, k): return self.st.get(k, "I")
    def record(self, k):
        self.st[k] = {"I": "IP", "S": "SP"}.get(self.get(k), "X")
    def reset(self, keys):
        for k in keys: self.st[k] = "I" if self.get(k) in ("I", "IP") else "X"
    def sync2(self, k, n):
        if n > 0: self.st[k] = "S"
    def can_incr(self, k, n, last, s1):
        return n % 10000 == 0 or (self.get(k) in ("IP", "SP") and last == s1)
    def sync3(self, k, n, last, s1):
        if n % 10000 == 0: self.sync2(k, n)
        elif self.get(k) in ("IP", "SP") and last == s1: self.st[k] = "S"
        else: self.st[k] = "X"


def gen_mdp(rng, length, S=None, A=None, ek=None, strict=True, kinds=("d",), focus=False, dump_every=None):
    S = S or rng.randint(1, 5); A = A or rng.randint(1, 3)
    ek = ek or rng.choice(["D", "D", "D", "S", "N"])
    keys = [(s, a) for s in range(S) for a in range(A)]
    n = {k: 0 for k in keys}; last = {k: 0 for k in keys}
    models = []          # (kind, Trk)
    ops = []
    rews = rng.sample(REW, rng.randint(1, 6))
    hot = rng.sample(keys, min(len(keys), rng.randint(1, 3)))   # pairs visited most
    if focus: hot = hot[:1]
    def mk():
        kind = rng.choice(kinds) if ek != "D" else "d"; flag = 1 if (rng.random() < 0.3 and not focus) else 0
        models.append((kind, Trk(n, last, flag)))
        ops.append("m %s %d" % (kind, flag))
    if rng.random() < 0.5: mk()
    nt = 0                      # Thompson models (constructor syncs every row)
    thompson = (not focus) and rng.random() < 0.6
    while len(ops) < length:
        if thompson and rng.random() < 0.12:
            v = rng.random()
            if nt < 2 and (nt == 0 or v < 0.2): ops.append("tm"); nt += 1
            elif v < 0.5: ops.append("ty %d" % rng.randrange(nt))
            else:
                k = rng.choice(hot) if rng.random() < 0.7 else rng.choice(keys)
                ops.append("tp %d %d %d" % (rng.randrange(nt), k[0], k[1]))
            continue
        u = rng.random()
        if focus and models:                       # long run on few pairs: record + incremental sync,
            u = 0.0 if rng.random() < 0.995 else rng.choice([0.6, 0.67, 0.84])   # rare sync(s,a) / sync() / dump
        if u < 0.55 or not models:
            if not models and rng.random() < 0.15: mk(); continue
            k = rng.choice(hot) if rng.random() < (0.97 if focus else 0.8) else rng.choice(keys)
            s1 = rng.randrange(S) if rng.random() < 0.7 else (k[0] + 1) % S
            ops.append("r %d %d %d %s" % (k[0], k[1], s1, rng.choice(rews)))
            n[k] += 1; last[k] = s1
            for (_, t) in models: t.record(k)
            for mi, (_, t) in enumerate(models):
                v = rng.random()
                if focus: v = 0.0
                if v < 0.65:
                    if t.can_incr(k, n[k], last[k], s1) or not strict:
                        s1x = s1 if (strict or rng.random() < 0.8) else rng.randrange(S)
                        ops.append("i %d %d %d %d" % (mi, k[0], k[1], s1x)); t.sync3(k, n[k], last[k], s1x)
                    elif rng.random() < 0.6:
                        ops.append("p %d %d %d" % (mi, k[0], k[1])); t.sync2(k, n[k])
        elif u < 0.65:
            mi = rng.randrange(len(models)); k = rng.choice(keys)
            ops.append("p %d %d %d" % (mi, k[0], k[1])); models[mi][1].sync2(k, n[k])
        elif u < 0.69:
            mi = rng.randrange(len(models))
            ops.append("y %d" % mi)
            for k in keys: models[mi][1].sync2(k, n[k])
        elif u < 0.715:
            ops.append("z")
            for (_, t) in models: t.reset(keys)
            for k in keys: n[k] = 0
        elif u < 0.77 and len(models) < 3:
            mk()
        elif u < 0.82 and not strict and models:
            mi = rng.randrange(len(models)); k = rng.choice(keys); s1 = rng.randrange(S)
            ops.append("i %d %d %d %d" % (mi, k[0], k[1], s1)); models[mi][1].sync3(k, n[k], last[k], s1)
        elif u < 0.86 and dump_every is None:
            ops.append("d")
        if dump_every and len(ops) % dump_every == 0: ops.append("d")
    ops.append("d")
    return "mdp %s %d %d %d %s" % (ek, S, A, len(ops), " ".join(ops))


def gen_cross(rng, ek="D", kind="d"):
    """many plain records on one pair, full sync, then record+incremental sync across visitSum = 10000"""
    S = rng.randint(2, 3); A = rng.randint(1, 2)
    s = rng.randrange(S); a = rng.randrange(A)
    rews = rng.sample(REW, 3)
    ops = ["m %s 0" % kind]
    for _ in range(9990): ops.append("r %d %d %d %s" % (s, a, rng.randrange(S), rng.choice(rews)))
    ops.append("p 0 %d %d" % (s, a))
    for _ in range(20):
        s1 = rng.randrange(S)
        ops.append("r %d %d %d %s" % (s, a, s1, rng.choice(rews))); ops.append("i 0 %d %d %d" % (s, a, s1))
    ops.append("d")
    return "mdp %s %d %d %d %s" % (ek, S, A, len(ops), " ".join(ops))


def gen_cross_multi(rng, ek, kinds, bounds=(10000, 20000)):
    """one hot pair driven across each forced-resync boundary (visitSum % 10000 == 0) with several models
       (dense and sparse side by side).  Per boundary and per model either 'warm' (full sync a few records
       before the boundary, then record + sync(s,a,s1) after every record across it: the documented
       incremental use) or 'cold' (no sync at all since the last burst: the first sync(s,a,s1) is issued at
       exactly the boundary count, where the forced full re-normalisation alone must produce the empirical
       row, and the incremental form continues from there).  >= 2 distinct successors; a few records on
       other pairs in between."""
    S = rng.randint(2, 4); A = rng.randint(1, 2)
    keys = [(s, a) for s in range(S) for a in range(A)]
    hs, ha = rng.choice(keys)
    rews = rng.sample(REW, 3)
    ops = ["m %s 0" % k for k in kinds]
    n = 0
    def rec(k, s1):
        ops.append("r %d %d %d %s" % (k[0], k[1], s1, rng.choice(rews)))
    for b in bounds:
        lead = rng.randint(2, 12); tail = rng.randint(4, 12)
        warm = [rng.random() < 0.6 for _ in kinds]
        if not any(warm) and rng.random() < 0.5: warm[rng.randrange(len(kinds))] = True
        while n < b - lead:
            if len(keys) > 1 and rng.random() < 0.002:
                k = rng.choice([k for k in keys if k != (hs, ha)]); rec(k, rng.randrange(S)); continue
            rec((hs, ha), rng.randrange(S)); n += 1
        for mi, w in enumerate(warm):
            if w: ops.append("p %d %d %d" % (mi, hs, ha))
        for _ in range(lead + tail):
            s1 = rng.randrange(S); rec((hs, ha), s1); n += 1
            for mi, w in enumerate(warm):
                if w or n >= b: ops.append("i %d %d %d %d" % (mi, hs, ha, s1))
        ops.append("d")
    return "mdp %s %d %d %d %s" % (ek, S, A, len(ops), " ".join(ops))


def gen_svt(rng):
    S = rng.randint(1, 4); A = rng.randint(1, 3)
    t = [str(rng.choice([0, 0, 1, 2, 7, 100])) for _ in range(A * S * S)]
    return "svt %d %d %s" % (S, A, " ".join(t))


def gen_bandit(rng):
    A = rng.randint(1, 4); n = rng.randint(1, 60)
    ops = []
    for _ in range(n):
        if rng.random() < 0.05: ops.append("z")
        else: ops.append("r %d %s" % (rng.randrange(A), rng.choice(REW)))
    return "bandit %d %d %s" % (A, n, " ".join(ops))


def gen_coop(rng, maxops=60):
    nf = rng.randint(1, 3); na = rng.randint(1, 2)
    S = [rng.randint(2, 3) for _ in range(nf)]; A = [rng.randint(2, 3) for _ in range(na)]
    def L(xs): return "%d %s" % (len(xs), " ".join(map(str, xs)))
    parts = ["coop", L(S), L(A)]
    for i in range(nf):
        ag = sorted(rng.sample(range(na), rng.randint(1, na)))
        n = 1
        for x in ag: n *= A[x]
        parts.append(L(ag)); parts.append(str(n))
        for _ in range(n):
            parts.append(L(sorted(rng.sample(range(nf), rng.randint(1, nf)))))
    ops = []; nm = 0; ntm = 0
    rews = rng.sample(REW, rng.randint(2, 6))
    n = rng.randint(3, maxops)
    pool = [([rng.randrange(x) for x in S], [rng.randrange(x) for x in A]) for _ in range(rng.randint(1, 4))]
    while len(ops) < n:
        u = rng.random()
        if u < 0.6 or (nm == 0 and u < 0.75):
            s, a = rng.choice(pool) if rng.random() < 0.8 else ([rng.randrange(x) for x in S], [rng.randrange(x) for x in A])
            s1 = [rng.randrange(x) for x in S]
            ops.append("r %s %s %s %s" % (" ".join(map(str, s)), " ".join(map(str, a)), " ".join(map(str, s1)),
                                          " ".join(rng.choice(rews) for _ in S)))
            if nm and rng.random() < 0.5: ops.append("ci %d" % rng.randrange(nm))
        elif u < 0.66: ops.append("z")
        elif u < 0.72: ops.append("d")
        elif u < 0.76:
            v = rng.random()
            if ntm < 2 and (ntm == 0 or v < 0.25): ops.append("ctm"); ntm += 1
            elif v < 0.5: ops.append("cty %d" % rng.randrange(ntm))
            elif v < 0.75: ops.append("cti %d" % rng.randrange(ntm))
            else:
                s, a = rng.choice(pool)
                ops.append("ctp %d %s %s" % (rng.randrange(ntm), " ".join(map(str, s)), " ".join(map(str, a))))
        elif u < 0.84 and nm < 2: ops.append("cm %d" % rng.randint(0, 1)); nm += 1
        elif nm and u < 0.90: ops.append("cy %d" % rng.randrange(nm))
        elif nm:
            s, a = rng.choice(pool)
            ops.append("cp %d %s %s" % (rng.randrange(nm), " ".join(map(str, s)), " ".join(map(str, a))))
    ops.append("d")
    return " ".join(parts) + " %d %s" % (len(ops), " ".join(ops))


def gen_fbandit(rng):
    na = rng.randint(1, 4); A = [rng.randint(2, 3) for _ in range(na)]
    ng = rng.randint(1, 3)
    deps = [sorted(rng.sample(range(na), rng.randint(1, min(na, 3)))) for _ in range(ng)]
    def L(xs): return "%d %s" % (len(xs), " ".join(map(str, xs)))
    rews = rng.sample(REW, rng.randint(2, 6))
    pool = [[rng.randrange(x) for x in A] for _ in range(rng.randint(1, 4))]
    ops = []
    for _ in range(rng.randint(2, 50)):
        u = rng.random()
        if u < 0.8:
            a = rng.choice(pool) if rng.random() < 0.7 else [rng.randrange(x) for x in A]
            ops.append("r %s %s" % (" ".join(map(str, a)), " ".join(rng.choice(rews) for _ in range(ng))))
        elif u < 0.9: ops.append("z")
        else: ops.append("d")
    ops.append("d")
    return "fbandit %s %d %s %d %s" % (L(A), ng, " ".join(L(d) for d in deps), len(ops), " ".join(ops))


def gen(rng, tier):
    out = []
    nshort = {"quick": 300, "thorough": 1200, "search": 600}[tier]
    kinds = ("d", "d", "s")
    for i in range(nshort):
        L = rng.choice([5, 10, 20, 40, 80, 150, 300])
        out.append(gen_mdp(rng, L, strict=(rng.random() < 0.75), kinds=kinds))
    for i in range(nshort // 10):
        out.append(gen_svt(rng)); out.append(gen_bandit(rng)); out.append(gen_fbandit(rng))
    for i in range(nshort // 3):
        out.append(gen_coop(rng))
    # histories crossing the forced-resync threshold (visitSum % 10000 == 0)
    if tier == "quick":
        out.append(gen_cross(rng))
        # dense and sparse models side by side over the Eigen sparse experience and the non-Eigen wrapper,
        # across visitSum = 10000 and 20000 (both model classes have the forced resync)
        out.append(gen_cross_multi(rng, "S", ["s", "d"]))
        out.append(gen_cross_multi(rng, "N", ["d", "s"], bounds=(10000,)))
    elif tier == "thorough":
        out.append(gen_cross(rng, ek="S", kind=rng.choice(["d", "s"])))
        out.append(gen_cross_multi(rng, "S", ["s", "d", "s"]))
        out.append(gen_cross_multi(rng, "N", ["s", "d"]))
        out.append(gen_cross_multi(rng, "D", ["d", "d"], bounds=(10000, 20000, 30000)))
        out.append(gen_mdp(rng, 25000, S=2, A=1, ek=rng.choice(["D", "N"]), strict=True, kinds=("d",), focus=True, dump_every=8000))
    return out
