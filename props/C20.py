"""props/C20.py — descriptor for property C20 (rule indexes return exactly the matching entries)."""
import itertools

REPO_SRCS = ["src/Factored/Utils/Trie.cpp", "src/Factored/Utils/FasterTrie.cpp", "src/Seeder.cpp"]
AXIOM_ALLOW = []
ASAN_QUICK = True          # 3 small TUs + harness: the ASan variant builds in a few seconds
THOROUGH_SEEDS = 2
TRUSTED_BASE = [
    "size_t modelled as unbounded nat (ids and sizes stay far below 2^64)",
    "std::lower_bound / upper_bound / inplace_merge / min_element / vector::erase modelled by their documented meaning on sorted ranges",
    "FasterTrie::reconstruct: the three std::shuffle calls are not modelled; its output is judged only through the spec (mutually compatible, compatible with the query, maximal)",
]
ASSUMPTIONS = [
    "keys of every PartialFactors are strictly increasing, inside the factor space, values inside the factor's range",
    "erase(id, pf) is called with the pf the id was inserted with, or with an id that is not stored",
    "refine is called with a strictly increasing id list",
    "FasterTrie keys are non-empty",
]
RULE = ("operation histories over every factor-space shape with 2..4 factors of sizes 1..4 (all orders), "
        "generated with a tracked set of live entries so that preconditions hold; non-trivial = the history "
        "contains an erasure and a query whose answer is neither empty nor everything")


def L(xs):
    return "%d %s" % (len(xs), " ".join(map(str, xs))) if xs else "0"


def PF(pf):
    return L(pf[0]) + " " + L(pf[1])


ALL_SHAPES = [s for n in (2, 3, 4) for s in itertools.product((1, 2, 3, 4), repeat=n)]


def rand_pf(rng, F, allow_empty=True, dense=None):
    n = len(F)
    if dense is None:
        dense = rng.choice([0.3, 0.5, 0.8])
    keys = [k for k in range(n) if rng.random() < dense]
    if not keys and not allow_empty:
        keys = [rng.randrange(n)]
    return (keys, [rng.randrange(F[k]) for k in keys])


def bad_shape(F):
    return F[0] > min(F)


import copy as _copy

COPY_OPS = ["cc", "ca", "mv", "ma"]


class Slots:
    """Several objects side by side (copies).  Each has its own tracked state (a dict); a copy op
       duplicates the current state and continues on the copy, `sw k` continues on object k."""
    def __init__(self, state):
        self.all = [state]; self.cur = 0

    @property
    def st(self):
        return self.all[self.cur]

    def copy(self, rng, ops, extra=()):
        ops.append(rng.choice(COPY_OPS + list(extra)))
        self.all.append(_copy.deepcopy(self.st)); self.cur = len(self.all) - 1

    def switch(self, rng, ops):
        self.cur = rng.randrange(len(self.all)); ops.append("sw %d" % self.cur)


def hot_prefix(rng, F):
    """'Large index' regime: 40..200 inserts concentrated on one or two cells (so that single id lists
       hold far more than 32 ids), then a few recent inserts elsewhere.  Returns the keys to insert and
       queries aimed at the boundary: a value only recent ids have on one factor together with a hot
       cell's value on another (every id of the long list lies below the candidate)."""
    n = len(F)
    def full(): return (list(range(n)), [rng.randrange(F[k]) for k in range(n)])
    def some():
        keys = sorted(rng.sample(range(n), rng.randint(1, n)))
        return (keys, [rng.randrange(F[k]) for k in keys])
    hot = [rng.choice([full, full, some])() for _ in range(rng.choice([1, 1, 2]))]
    pre = [rng.choice(hot) if rng.random() < 0.93 else some() for _ in range(rng.choice([40, 48, 70, 120, 200]))]
    recent = [full() if rng.random() < 0.6 else some() for _ in range(rng.randint(1, 4))]
    pre += recent
    targets = []
    for _ in range(rng.randint(3, 7)):
        h = rng.choice(hot); r = rng.choice(recent)
        a, b = rng.sample(range(n), 2)
        va = dict(zip(*r)).get(a, rng.randrange(F[a])); vb = dict(zip(*h)).get(b, rng.randrange(F[b]))
        kv = sorted([(a, va), (b, vb)])
        q = ([k for k, _ in kv], [v for _, v in kv])
        kind = rng.choice(["p", "p", "f", "r"])
        if kind == "p": targets.append("p " + PF(q))
        elif kind == "r": targets.append("r %s %s" % (L(list(range(len(pre)))), PF(q)))
        else:
            f = [dict(kv).get(k, rng.randrange(F[k])) for k in range(n)]
            targets.append("f %s 0" % L(f))
    return pre, targets


def trie_case(rng, F, nops, stale=False, allids=True, copies=False, prefix=(), targets=()):
    """One Trie history.  stale: include erase(id, pf) calls on ids that are not stored (token X).
       allids: include size / getAllIds calls.  copies: copy/move the object and go on with both.
       prefix: keys inserted first (large-index regime)."""
    ops = []
    sl = Slots(dict(counter=0, live={}, dead=[]))
    for pf in prefix:
        st = sl.st; ops.append("i " + PF(pf)); st["live"][st["counter"]] = pf; st["counter"] += 1
    ops += list(targets)
    weights = {"i": 8 if not prefix else 2, "e": 2, "E": 2, "f": 3, "p": 4, "r": 2, "z": 1 if allids else 0, "a": 0.5 if allids else 0,
               "A": 0.3 if allids else 0, "X": 1.0 if stale else 0, "copy": 1.2 if copies else 0, "sw": 0}
    kinds = list(weights)
    for _ in range(nops):
        weights["sw"] = 1.5 if len(sl.all) > 1 else 0
        k = rng.choices(kinds, [weights[x] for x in kinds])[0]
        st = sl.st; live = st["live"]; dead = st["dead"]; counter = st["counter"]
        if k == "copy":
            if len(sl.all) < 5: sl.copy(rng, ops)
        elif k == "sw":
            sl.switch(rng, ops)
        elif k == "i":
            pf = rand_pf(rng, F, allow_empty=rng.random() < 0.3)
            ops.append("i " + PF(pf)); live[counter] = pf; st["counter"] += 1
        elif k == "e":
            if live and rng.random() < 0.7:
                i = rng.choice(sorted(live)); dead.append((i, live.pop(i)))
            else:
                i = rng.randrange(counter + 2)
                if i in live: dead.append((i, live.pop(i)))
            ops.append("e %d" % i)
        elif k == "E":
            if not live: continue
            i = rng.choice(sorted(live)); pf = live.pop(i); dead.append((i, pf))
            ops.append("E %d %s" % (i, PF(pf)))
        elif k == "X":
            if dead and rng.random() < 0.8:
                i, pf = rng.choice(dead)
                if i in live: continue          # (re-inserted ids do not exist: ids are never reused)
            else:
                i, pf = counter + rng.randrange(3), rand_pf(rng, F)
            ops.append("X %d %s" % (i, PF(pf)))
        elif k == "f":
            off = rng.randrange(len(F))
            ln = rng.randint(1, len(F) - off)
            if rng.random() < 0.5: off, ln = 0, len(F)
            f = [rng.randrange(F[off + j]) for j in range(ln)]
            ops.append("f %s %d" % (L(f), off))
        elif k == "p":
            ops.append("p " + PF(rand_pf(rng, F, allow_empty=False)))
        elif k == "r":
            if counter > 60:
                ids = sorted(rng.sample(range(counter + 1), rng.randint(0, min(counter + 1, 60))))
            else:
                ids = sorted(rng.sample(range(counter + 1), rng.randint(0, counter + 1)))
            pf = rand_pf(rng, F, allow_empty=rng.random() < 0.15)
            ops.append("r %s %s" % (L(ids), PF(pf)))
        else:
            ops.append(k)
    return "trie %s ops %s" % (L(F), " ".join(ops))


def ftrie_case(rng, F, nops, recon=True, copies=False):
    """One FasterTrie history (keys non-empty; queries are prefixes of the factor space)."""
    ops = []
    sl = Slots(dict(counter=0, live={}, dead=[], vouch=True))
    weights = {"i": 8, "E": 3, "X": 0.7, "F": 6, "z": 1, "R": 1.5 if recon else 0, "copy": 1.5 if copies else 0, "sw": 0}
    kinds = list(weights)
    for _ in range(nops):
        weights["sw"] = 1.5 if len(sl.all) > 1 else 0
        k = rng.choices(kinds, [weights[x] for x in kinds])[0]
        st = sl.st; live = st["live"]; dead = st["dead"]; counter = st["counter"]
        if k == "copy":
            if len(sl.all) < 5: sl.copy(rng, ops)
        elif k == "sw":
            sl.switch(rng, ops)
        elif k == "i":
            pf = rand_pf(rng, F, allow_empty=False)
            ops.append("i " + PF(pf)); live[counter] = pf; st["counter"] += 1
        elif k == "E":
            if not live or not st["vouch"]: continue
            i = rng.choice(sorted(live)); pf = live.pop(i); dead.append((i, pf))
            ops.append("E %d %s" % (i, PF(pf)))
        elif k == "X":
            if dead and rng.random() < 0.8: i, pf = rng.choice(dead)
            else: i, pf = counter + rng.randrange(3), rand_pf(rng, F, allow_empty=False)
            ops.append("X %d %s" % (i, PF(pf)))
        elif k == "F":
            ln = rng.choice([len(F), len(F), rng.randint(0, len(F))])
            ops.append("F " + L([rng.randrange(F[j]) for j in range(ln)]))
        elif k == "R":
            remove = 1 if rng.random() < 0.3 else 0
            ops.append("R %s %d" % (PF(rand_pf(rng, F, dense=rng.choice([0.0, 0.3, 0.6]))), remove))
            if remove:
                # which entries go is decided by the implementation's shuffles: stop issuing E on this
                # object for ids we can no longer vouch for (X stays valid: erase of a non-stored id is a
                # no-op, and for a stored id we pass the right key)
                st["dead"] = dead + list(live.items()); st["live"] = {}; st["vouch"] = False
        else:
            ops.append("z")
    return "ftrie %s ops %s" % (L(F), " ".join(ops))


def fmap_case(rng, F, nops, kind, copies=False, prefix=(), targets=()):
    ops = ["i " + PF(pf) for pf in prefix] + [t for t in targets if not t.startswith("r ")]
    nobj = 1
    for _ in range(nops):
        k = rng.choices(["i", "F", "f", "p", "z", "copy", "sw"],
                        [6 if not prefix else 1, 3, 4 if kind == "fmT" else 0, 3 if kind == "fmT" else 0, 1,
                         1.2 if copies else 0, 1.5 if nobj > 1 else 0])[0]
        if k == "i": ops.append("i " + PF(rand_pf(rng, F, allow_empty=False)))
        elif k == "copy":
            if nobj < 5: ops.append(rng.choice(COPY_OPS + ["gt"])); nobj += 1
        elif k == "sw": ops.append("sw %d" % rng.randrange(nobj))
        elif k == "F":
            ln = len(F) if kind == "fmT" or rng.random() < 0.6 else rng.randint(0, len(F))
            ops.append("F " + L([rng.randrange(F[j]) for j in range(ln)]))
        elif k == "f":
            # offsets 0 .. len(F)-1, non-zero offsets favoured (offset 0 coincides with filter(f))
            off = rng.randrange(1, len(F)) if rng.random() < 0.7 else 0
            ln = rng.randint(1, len(F) - off)
            ops.append("f %s %d" % (L([rng.randrange(F[off + j]) for j in range(ln)]), off))
        elif k == "p": ops.append("p " + PF(rand_pf(rng, F, allow_empty=False)))
        else: ops.append("z")
    return "%s %s ops %s" % (kind, L(F), " ".join(ops))


def gen(rng, tier):
    out = []
    if tier == "quick":
        shapes = [rng.choice(ALL_SHAPES) for _ in range(360)]
        maxops = 60
    elif tier == "thorough":
        shapes = list(ALL_SHAPES) * 3
        maxops = 400
    else:
        shapes = [rng.choice(ALL_SHAPES) for _ in range(600)]
        maxops = 40
    for F in shapes:
        F = list(F)
        nops = rng.choice([5, 12, 25, maxops]) if tier != "thorough" else rng.choice([10, 40, 120, maxops])
        # (both defects these calls used to hit are fixed in /repo: 817ad81, 954bcff)
        stale = rng.random() < 0.3
        allids = True
        out.append(trie_case(rng, F, nops, stale=stale, allids=allids, copies=rng.random() < 0.35))
    nf = {"quick": 140, "thorough": len(ALL_SHAPES), "search": 200}[tier]
    fshapes = list(ALL_SHAPES) if tier == "thorough" else [rng.choice(ALL_SHAPES) for _ in range(nf)]
    for F in fshapes:
        F = list(F)
        out.append(ftrie_case(rng, F, rng.choice([6, 15, 30, maxops]), copies=rng.random() < 0.5))
    for _ in range({"quick": 80, "thorough": 400, "search": 120}[tier]):
        F = list(rng.choice(ALL_SHAPES))
        kind = rng.choice(["fmT", "fmF"])
        out.append(fmap_case(rng, F, rng.choice([8, 20, 40]), kind, copies=rng.random() < 0.5))
    # large-index regime: id lists with 40..200 ids, queried together with keys that only recent ids have
    small = [sh for sh in ALL_SHAPES if len(sh) <= 3 and max(sh) <= 3 and min(sh) >= 2]
    for _ in range({"quick": 20, "thorough": 80, "search": 30}[tier]):
        F = list(rng.choice(small))
        pre, targets = hot_prefix(rng, F)
        out.append(trie_case(rng, F, rng.choice([10, 25]), stale=False, allids=True, copies=rng.random() < 0.2, prefix=pre, targets=targets))
    for _ in range({"quick": 5, "thorough": 20, "search": 8}[tier]):
        F = list(rng.choice(small))
        pre, targets = hot_prefix(rng, F)
        out.append(fmap_case(rng, F, rng.choice([8, 16]), "fmT", prefix=pre, targets=targets))
    # IndexMap / IndexSkipMap used directly
    for _ in range({"quick": 25, "thorough": 150, "search": 40}[tier]):
        n = rng.randint(1, 8)
        items = [rng.randrange(50) for _ in range(n)]
        ids = [rng.randrange(n) for _ in range(rng.randint(0, 8))]
        skip = sorted(rng.sample(range(n), rng.randint(0, n)))
        out.append("imap %s %s %s" % (L(items), L(ids), L(skip)))
    out.append("imap 0 0 0")
    # the constructor rejects fewer than two factors
    out.append("trie 1 3 ops")
    out.append("trie 0 ops")
    return out
