"""props/C16.py — descriptor for property C16 (results are reproducible and independent of unrelated
history).  PARTIAL claim: see TRUSTED_BASE / ASSUMPTIONS / RULE below and notes/C16.md.

Besides the case generator this file holds the HIDDEN-STATE INVENTORY (DESIGN §2.2): `scan_repo()`
re-reads /repo's current sources on every run, lists every variable with static storage that can
carry information from one call to the next (function-local `static` unless constexpr,
namespace-scope and static data members unless const/constexpr, `thread_local`) and every
`mutable` member, and compares that list with COVERED, the committed list of carriers the
theorems / differential scenarios were built for.  One case `carrier …` per discovered carrier goes
through the normal pipeline; a carrier that is in the source but not in COVERED is judged
`disagree hidden_state_inventory <file>:<name>` by the driver, so the check fails naming it."""
import os, re, sys
from fractions import Fraction as F

sys.path.insert(0, os.path.join(os.path.dirname(os.path.dirname(os.path.abspath(__file__))), "lib"))
from pomdpgen import gen_mdp, gen_pomdp, fmt_mdp, fmt_pomdp, gen_beliefs, L, Qs, q

REPO_SRCS = [
    "src/Seeder.cpp", "src/MDP/Model.cpp", "src/MDP/SparseModel.cpp", "src/MDP/Utils.cpp",
    "src/MDP/Policies/Policy.cpp", "src/MDP/Policies/PolicyWrapper.cpp", "src/MDP/Policies/QGreedyPolicy.cpp",
    "src/MDP/Policies/QPolicyInterface.cpp", "src/Bandit/Policies/RandomPolicy.cpp",
    "src/MDP/Algorithms/ValueIteration.cpp", "src/MDP/Algorithms/PolicyIteration.cpp",
    "src/POMDP/Utils.cpp", "src/POMDP/Algorithms/AMDP.cpp", "src/POMDP/Algorithms/IncrementalPruning.cpp",
    "src/POMDP/Algorithms/Witness.cpp", "src/POMDP/Algorithms/LinearSupport.cpp", "src/POMDP/Algorithms/SARSOP.cpp",
    "src/POMDP/Algorithms/PBVI.cpp", "src/POMDP/Algorithms/PERSEUS.cpp", "src/POMDP/Algorithms/BlindStrategies.cpp",
    "src/POMDP/Algorithms/FastInformedBound.cpp", "src/POMDP/Algorithms/GapMin.cpp", "src/POMDP/Algorithms/QMDP.cpp",
    "src/Utils/Polytope.cpp", "src/Utils/Probability.cpp", "src/Utils/Combinatorics.cpp", "src/Utils/LP/LpSolveWrapper.cpp",
    "src/Factored/Utils/Core.cpp", "src/Factored/Bandit/Algorithms/Utils/VariableElimination.cpp",
    "src/Factored/Bandit/Algorithms/Utils/LocalSearch.cpp",
    "src/Factored/Bandit/Algorithms/Utils/ReusingIterativeLocalSearch.cpp",
]
EXTRA_LINK = ["/usr/lib/liblpsolve55.a", "-lcolamd", "-ldl", "-pthread"]
AXIOM_ALLOW = []
CASE_TIMEOUT = 60
THOROUGH_SEEDS = 3

RULE = ("every case runs the SAME call under test 2-3 times in one process (forked children for the AMDP static) after "
        "different unrelated histories and the runs are compared bitwise (hex floats, string equality): prog = random "
        "Seeder programs (getSeed / setRootSeed / getRootSeed / construct one of 5 object types / sample from it) after 2 "
        "different prefixes, with the object engines compared to std::mt19937(k-th reference draw); vi, pi, pomdp "
        "(IncrementalPruning/Witness/LinearSupport), sarsop (delta-sensitive general-regime 3x3x2 POMDPs after a first solve that moves "
        "delta_), gapmin, pbreuse (PBVI/PERSEUS with engines re-seeded) = fresh solver vs. solver reused after a differently sized "
        "problem and twice on the same problem (dense/sparse/mixed), complete returned tuples; fg = random FactorGraph programs (getFactor/write data/erase/reset/copy over 1-3 "
        "graphs) with empty vs. stale-filled pool, also compared with the extracted model; ve, rils = maximiser + graph "
        "reuse; seeded = POMCP / MCTS / PBVI / PERSEUS twice with the same root seed; amdp, amdpm = discretizer / whole "
        "AMDP in a fresh child vs. after another AMDP; heap = LinearSupport / IncrementalPruning / Witness / PBVI / PERSEUS / QMDP / "
        "FastInformedBound / BlindStrategies on mirror-symmetric 2-state POMDPs (tiger and random relatives, exact ties) in forked "
        "children: alone vs. after another solve of a differently sized problem, after a solve of the same problem with another "
        "horizon, and after two malloc/free churn patterns, complete ValueFunction incl. order, actions and observation links; carrier = one case per hidden-state carrier found by scanning "
        "/repo's sources now. non-trivial = the unrelated histories really differ (different prefix lengths, first "
        "problem of a different size, stale nodes actually recycled, different S or bucket count)")
TRUSTED_BASE = [
    "NOT covered by proof: bit-identical floating-point results across runs / processes are a property of the compiled "
    "code, Eigen and libm; they are observed only by the differential scenarios (string-equal hex floats)",
    "only four carriers have Coq models and theorems (Seeder root engine + per-object engines, ValueIteration scratch, "
    "FactorGraph node pool, AMDP static); Witness/LinearSupport/SARSOP/PolicyIteration/RILS scratch state and the "
    "mutable per-object buffers are covered by the differential scenarios and the source inventory only",
    "the hidden-state scanner in props/C16.py is a comment/string-aware tokenizer with brace-context tracking, not a C++ "
    "front end: it finds `static`, `thread_local`, namespace-scope and `mutable` declarations; state hidden behind "
    "pointers, in third-party libraries (lp_solve, libstdc++ locale/iostream) or ordinary private members is out of its reach",
    "std::mt19937 / std::uniform_*_distribution are abstract in the model (any state type, any seeding and draw function); "
    "the correspondence checks that Seeder::getSeed returns exactly the successive outputs of std::mt19937(root) and that "
    "every constructed object's engine equals std::mt19937(k-th such output)",
    "std::log is abstract in the AMDP model; the extracted model is run with an exact base-2 logarithm on beliefs whose "
    "entries are powers of two (the bucket index depends only on a ratio of logarithms)",
    "`#define private public` in harness/C16/h.cpp (that translation unit only) is assumed not to change object layout",
]
ASSUMPTIONS = [
    "Seeder theorems: the program under test is the whole sequence of library calls after Seeder::setRootSeed (objects "
    "constructed before it keep their own engines and are part of the declared input)",
    "FactorGraph model: iterators are identified with the variable set of the node they point to (the class keeps one "
    "FactorNode per variable set); variables passed to getFactor are in range, sorted and non-empty (unchecked in C++)",
    "AMDP model: S >= 2 and at least one bucket (S = 1 gives log(1) = 0 and a 0/0 in the C++)",
    "ValueIteration model: dense exact-rational arithmetic; what is proved is independence from the scratch member, "
    "not the numerical result (that is C01)",
]

# ================================================================== hidden-state inventory
# key "<file relative to the repo>::<name>"  ->  (class, what covers it)
COVERED = {
    "include/AIToolbox/Seeder.hpp::instance_": ("seeder-root", "seeder_deterministic, seeder_is_stream, program_deterministic"),
    "src/Seeder.cpp::Seeder::instance_": ("seeder-root", "seeder_deterministic (definition of the static member)"),
    "src/Seeder.cpp::dist": ("stateless-distribution", "full-range uniform_int_distribution over mt19937: the draw is the engine output (checked against std::mt19937 by every prog case)"),
    "include/AIToolbox/Utils/Probability.hpp::probabilityDistribution": ("stateless-distribution", "uniform_real_distribution(0,1) holds parameters only; every sampler takes the engine explicitly (prog/seeded scenarios)"),
    "include/AIToolbox/Factored/Utils/FactorGraph.hpp::factorAdjacenciesPool_": ("node-pool", "pool_recycle_independent, pool_is_unobservable, pool_unrelated_graphs"),
    "include/AIToolbox/Factored/Utils/FactorGraph.hpp::FactorGraph<FD>::factorAdjacenciesPool_": ("node-pool", "pool_recycle_independent (definition of the static member)"),
    # /verif's own instrumentation (compiled only with -DAITOOLBOX_VERIF): process-wide observer callbacks.  Written
    # only by a harness, never by the library; unset (empty) they change nothing.
    "src/POMDP/Algorithms/GapMin.cpp::observer": ("verif-hook", "C03 observer hook (commit 43e6710): function-local static std::function inside verifObserver(), set by the C03 harness only"),
    "src/POMDP/Algorithms/SARSOP.cpp::observer": ("verif-hook", "C03 observer / event hooks (commits 43e6710, 9062f5a): function-local static std::function objects, set by the C03 harness only"),
    "include/AIToolbox/POMDP/Algorithms/Witness.hpp::observer": ("verif-hook", "C02 event hook (commit 8fdad9c): function-local static std::function of the witness queries, set by the C02 harness only"),
    "include/AIToolbox/Factored/Bandit/Algorithms/Utils/UCVE.hpp::verifBoundsObserver": ("verif-hook", "C13 hook (commit c2b3fd6): static inline std::function reporting the variance bounds of every agent removal, set by the C13 harness only"),
}
_BG = "include/AIToolbox/POMDP/Algorithms/Utils/BeliefGenerator.hpp::"
_SCR = "mutable-scratch"
COVERED.update({
    "include/AIToolbox/Bandit/Model.hpp::arms_": ("object-sampling-state", "the arms' distribution objects (std::normal_distribution caches a value): sampling state of that object, like its engine (Seeder model: PDraw)"),
    "include/AIToolbox/Factored/Bandit/Model.hpp::arms_": ("object-sampling-state", "as Bandit::Model::arms_"),
    "include/AIToolbox/Factored/Bandit/Model.hpp::rews_": (_SCR, "return buffer, every entry written by sampleR before it is returned"),
    "include/AIToolbox/Factored/Utils/FasterTrie.hpp::orders_": ("object-sampling-state", "visit orders reshuffled in place with the object's engine on every reconstruct(): sampling state of that object"),
    "include/AIToolbox/Factored/Bandit/Environments/MiningProblem.hpp::helper_": (_SCR, "return buffer, every entry written by sampleR before it is read"),
    "include/AIToolbox/Factored/Bandit/FlattenedModel.hpp::helper_": (_SCR, "toFactors() output buffer, written before it is read"),
    "include/AIToolbox/Factored/Bandit/Policies/QGreedyPolicy.hpp::max_": ("maximizer-object", "the maximiser (VE / LocalSearch / RILS ...) owned by the policy: covered as those objects are (ve / rils scenarios)"),
    "include/AIToolbox/Factored/Bandit/Policies/QGreedyPolicy.hpp::graph_": (_SCR, "graph refreshed by UpdateGraph before every maximisation (ve scenario reuses a graph the same way)"),
    "include/AIToolbox/Factored/MDP/Policies/QGreedyPolicy.hpp::max_": ("maximizer-object", "as Factored::Bandit::QGreedyPolicy::max_"),
    "include/AIToolbox/Factored/MDP/Policies/QGreedyPolicy.hpp::graph_": (_SCR, "as Factored::Bandit::QGreedyPolicy::graph_"),
    "include/AIToolbox/Factored/Bandit/Policies/RandomPolicy.hpp::action_": (_SCR, "return buffer, every entry written by sampleAction"),
    "include/AIToolbox/Factored/Bandit/Policies/RandomPolicy.hpp::randomDistributions_": ("stateless-distribution", "uniform_int_distribution objects: parameters only"),
    "include/AIToolbox/Logging.hpp::AILogger": ("logger-hook", "user-installed logging callback; written only by the client, read only to emit log text (AI_LOGGING_ENABLED off in the harness build)"),
    "include/AIToolbox/Logging.hpp::logBuffer": ("logger-hook", "text buffer of the AI_LOGGER macro: written and read only to format a log line (logging is compiled out unless AI_LOGGING_ENABLED)"),
    _BG + "blp_": (_SCR, "pointer to the caller's list, set at the start of operator() (seeded pbvi/perseus, amdpm scenarios)"),
    _BG + "sop_": (_SCR, "pointer to a local of operator(), set before use"),
    _BG + "up_": (_SCR, "pointer to a local of operator(), set before use"),
    _BG + "dp_": (_SCR, "pointer to a local of operator(), set before use"),
    _BG + "goodBeliefsSize_": (_SCR, "assigned at the start of operator()"),
    _BG + "allBeliefsSize_": (_SCR, "assigned at the start of operator()"),
    _BG + "productiveBeliefs_": (_SCR, "assigned at the start of operator()"),
    _BG + "helper_": (_SCR, "updateBeliefPartial output buffer, written before it is read"),
})
# every `mutable RandomEngine rand_` / `rnd_`: the per-object engine of the Seeder model (PNew / PDraw)
ENGINE_NAMES = {"rand_", "rnd_"}
# mutable members that are pure per-call scratch (overwritten before being read) or parameter-only distributions
SCRATCH_MUTABLE = {
    "bestActions_": "scratch buffer filled by QGreedyPolicyWrapper/QSoftmaxPolicyWrapper before it is read",
    "vbuffer_": "scratch buffer filled by QSoftmaxPolicyWrapper before it is read",
    "randomDistribution_": "uniform_int_distribution member: parameters only",
    "sampleDistribution_": "uniform_real_distribution member: parameters only",
}


def _strip(src):
    """remove comments, string/char literals and preprocessor lines (keeps newlines)"""
    out = []; i = 0; n = len(src)
    while i < n:
        c = src[i]
        if src.startswith("//", i):
            j = src.find("\n", i); j = n if j < 0 else j
            i = j; continue
        if src.startswith("/*", i):
            j = src.find("*/", i + 2); j = n - 2 if j < 0 else j
            out.append("\n" * src.count("\n", i, j + 2)); i = j + 2; continue
        if c == '"':
            if src.startswith('R"', i - 1) and i > 0:
                m = re.match(r'"([^()\\ ]*)\(', src[i:])
                if m:
                    end = src.find(")" + m.group(1) + '"', i)
                    end = n if end < 0 else end + len(m.group(1)) + 2
                    out.append('""'); i = end; continue
            j = i + 1
            while j < n and src[j] != '"':
                j += 2 if src[j] == "\\" else 1
            out.append('""'); i = j + 1; continue
        if c == "'":
            # character literal (not a digit separator)
            if i > 0 and (src[i - 1].isalnum() or src[i - 1] == "_") and i + 1 < n and src[i + 1].isalnum() and not (i + 2 < n and src[i + 2] == "'"):
                out.append(c); i += 1; continue
            j = i + 1
            while j < n and src[j] != "'":
                j += 2 if src[j] == "\\" else 1
            out.append("' '"); i = j + 1; continue
        if c == "#" and (not out or "".join(out[-1:]).endswith("\n") or "".join(out).rstrip(" \t").endswith("\n") or not "".join(out).strip()):
            j = i
            while True:
                k = src.find("\n", j); k = n if k < 0 else k
                if k > 0 and src[k - 1] == "\\" and k < n:
                    j = k + 1; continue
                break
            out.append("\n" * src.count("\n", i, k)); i = k; continue
        out.append(c); i += 1
    return "".join(out)


def _drop_angles(s):
    """remove balanced <...> template argument lists (best effort)"""
    prev = None
    while prev != s:
        prev = s
        s = re.sub(r"<[^<>;{}()]*>", " ", s)
    # template arguments that contain a function type: std::function<void(int, double)>
    prev = None
    while prev != s:
        prev = s
        s = re.sub(r"(?<=\w)\s*<[^<>;{}=]*\([^<>;{}=]*\)[^<>;{}=]*>", " ", s)
    return s


_LIT_ARG = re.compile(r"^[\s\d.+\-eEfuUlL]*$|numeric_limits")


def _split_top(s, sep=","):
    parts = []; depth = 0; cur = []
    for ch in s:
        if ch in "([{<": depth += 1
        elif ch in ")]}>": depth -= 1
        if ch == sep and depth <= 0:
            parts.append("".join(cur)); cur = []
        else:
            cur.append(ch)
    parts.append("".join(cur))
    return parts


def _decl_names(stmt):
    """names declared by a variable declaration statement (`T a, b = 1, *c;`)"""
    out = []
    for part in _split_top(stmt):
        head = re.split(r"=|\{|\(|\[", part, 1)[0]
        ids = re.findall(r"[A-Za-z_~][\w:~]*", _drop_angles(head))
        if ids:
            out.append(ids[-1])
    return out


def _decl_name(stmt):
    ns = _decl_names(stmt)
    return ns[0] if len(ns) == 1 else (ns[-1] if ns else None)


def scan_file(path, rel):
    src = _strip(open(path, errors="replace").read())
    found = []          # (rel, line, name, kind)
    stack = [("ns", 0)]
    start = 0
    i = 0; n = len(src)
    line_of = lambda pos: src.count("\n", 0, pos) + 1
    paren = 0
    while i < n:
        c = src[i]
        if c == "(":
            paren += 1
        elif c == ")":
            paren = max(0, paren - 1)
        if c in "{}" or (c == ";" and paren == 0):
            head = src[start:i]
            stmt = " ".join(head.split())
            stmt = re.sub(r"^(?:(?:public|private|protected)\s*:\s*)+", "", stmt)
            ctx = stack[-1][0]
            if c == "{":
                nt = _drop_angles(stmt)
                if paren > 0:
                    # inside a parenthesised list: a lambda body `[..](..) {` or a braced value `T{}`
                    tail = nt.rstrip()
                    kind = "func" if (tail.endswith(")") or tail.endswith("]") or re.search(r"(\)|\])\s*(mutable|noexcept|const|->\s*[\w:<>&*\s]+)*$", tail)) else "init"
                    stack.append((kind, paren)); paren = 0
                    if kind == "init":
                        # keep accumulating the enclosing statement
                        i += 1
                        depth = 1
                        while i < n and depth:
                            if src[i] == "{": depth += 1
                            elif src[i] == "}": depth -= 1
                            i += 1
                        k, paren = stack.pop()
                        continue
                    start = i + 1; i += 1; continue
                np_ = nt
                prev = None
                while prev != np_:
                    prev = np_
                    np_ = re.sub(r"\([^()]*\)", "()", np_)
                top_eq = re.search(r"(?<![=!<>+\-*/%&|^])=(?!=)", np_.replace("()", "")) is not None and not re.search(r"\boperator\b", np_)
                lambda_like = re.search(r"(\)|\])\s*(mutable|noexcept|constexpr|->\s*[\w:<>&*\s]+)*\s*$", np_) is not None
                where = line_of(start + len(head) - len(head.lstrip()))
                if re.search(r"\bnamespace\b", nt) and "(" not in nt:
                    kind = "ns"
                elif re.search(r"\benum\b", nt) and "(" not in nt:
                    kind = "enum"
                elif re.search(r"\b(class|struct|union)\b", nt) and not nt.rstrip().endswith(")") and not top_eq and not re.search(r"\)\s*(const|noexcept|override|final|->|\s)*$", nt):
                    kind = "class"
                elif ctx == "enum":
                    kind = "init"
                elif ctx == "init":
                    kind = "func" if lambda_like else "init"
                elif top_eq:
                    # `T x = {…}` / `T x = [..](..) {…}`: the declaration is judged now
                    _judge(found, rel, where, stmt, ctx)
                    kind = "func" if (lambda_like or ctx == "func") else "init"
                elif ctx == "func":
                    if re.search(r"^\s*(static|thread_local)\b", nt) and not lambda_like:
                        _judge(found, rel, where, stmt, ctx)      # `static T x{…};`
                    kind = "func"
                elif ")" in nt or lambda_like:
                    kind = "func"
                elif re.search(r"[\w>\]]\s*$", nt) and ctx in ("class", "ns") and nt.strip() and not re.search(r"\bextern\b", nt):
                    _judge(found, rel, where, stmt, ctx)          # `T x{…};`
                    kind = "init"
                else:
                    kind = "ns"
                stack.append((kind, 0))
            elif c == "}":
                if len(stack) > 1:
                    k, paren = stack.pop()
                else:
                    paren = 0
            else:
                if ctx != "init" and ctx != "enum" and stmt:
                    _judge(found, rel, line_of(start + len(head) - len(head.lstrip())), stmt, ctx)
            start = i + 1
        i += 1
    return found


_SKIP_NS = re.compile(r"^(using|typedef|extern|friend|class|struct|union|enum|namespace|return|static_assert|template\s*<[^;]*>\s*(class|struct|using|friend)|concept|requires|operator)\b")


def _judge(found, rel, line, stmt, ctx):
    s = stmt
    # drop leading template headers and attributes
    while True:
        m = re.match(r"^template\s*<", s)
        if not m:
            break
        depth = 0; j = m.end() - 1
        while j < len(s):
            if s[j] == "<": depth += 1
            elif s[j] == ">":
                depth -= 1
                if depth == 0: break
            j += 1
        head = s[:j + 1]
        s2 = s[j + 1:].strip()
        if re.match(r"^(class|struct|using|friend|concept)\b", s2):
            return
        s = s2
    s = re.sub(r"^(inline|\[\[[^\]]*\]\])\s+", "", s)
    nt = _drop_angles(s)
    pre_init = re.split(r"=", nt, 1)[0]
    specs = re.split(r"\(|\{|\[", pre_init, 1)[0]
    is_static = re.search(r"\b(static|thread_local)\b", specs) is not None
    tl = "thread-local-" if re.search(r"\bthread_local\b", specs) else ""
    is_constexpr = re.search(r"\b(constexpr|consteval|constinit)\b", specs) is not None
    is_const = re.search(r"\bconst\b", specs) is not None
    has_call = "(" in pre_init
    args_literal = False
    if has_call:
        m = re.search(r"\((.*)\)\s*$", pre_init)
        if m and m.group(1).strip():
            args_literal = all(_LIT_ARG.search(a) for a in m.group(1).split(","))
    is_function_decl = has_call and not args_literal
    if re.search(r"\boperator\b", specs):
        return
    if ctx == "func":
        if is_static and not is_constexpr:
            # inside a body `static T f(args);` cannot be a function worth the name: always a variable
            for name in _decl_names(nt):
                found.append((rel, line, name, tl + "function-local-static"))
        return
    if ctx == "class":
        if re.match(r"^(using|typedef|friend|static_assert|template|enum|class|struct)\b", s):
            return
        if re.search(r"\bmutable\b", specs) and not is_function_decl:
            for name in _decl_names(nt):
                found.append((rel, line, name, "mutable-member"))
            return
        if is_static and not is_constexpr and not is_const and not is_function_decl:
            for name in _decl_names(nt):
                found.append((rel, line, name, tl + "static-data-member"))
        return
    if ctx == "ns":
        if _SKIP_NS.match(s) or is_function_decl or is_constexpr or is_const:
            return
        ids = re.findall(r"[A-Za-z_][\w:]*", _drop_angles(re.split(r"\(|\{|\[", pre_init, 1)[0]))
        ids = [x for x in ids if x not in ("static", "inline", "typename", "thread_local", "volatile", "unsigned", "signed", "long", "short", "struct", "class")]
        if len(ids) < 2:
            return      # an expression statement / macro, not `type name`
        name = _decl_name(re.sub(r"\btypename\b", "", nt))
        if name:
            # keep the qualifier of out-of-class static member definitions readable
            toks = re.split(r"=|\{|\(", s, 1)[0].split()
            qual = toks[-1].lstrip("*&") if toks and toks[-1].endswith(name.split("::")[-1]) else name
            found.append((rel, line, qual, tl + "namespace-scope-variable"))


# ---------------------------------------------------------------- per-object state carried across calls
# Cheap syntactic criterion (DESIGN §2.2 extension): for every class that has an `operator()`
# DEFINITION, a data member `name_` is *per-call state* if some method other than a constructor or a
# `set…` setter writes it.  Such a member is fine if the first textual mention of it in the body of every
# operator() is a re-initialising write (`m_ = …`, `m_.clear()`, `m_.reset(…)`, `m_.assign(…)`,
# `m_.setZero()`, `m_.seed(…)`).  Otherwise (first mention is a read / compound update / it is only touched in
# helper methods) the member can carry information from one call to the next and must be in CARRIED.
_INIT_WRITE = r"\s*(?:=(?!=)|\.\s*(?:clear|reset|assign|setZero|seed|fill)\s*\()"
_ANY_WRITE = (r"\s*(?:=(?!=)|\+=|-=|\*=|/=|%=|\|=|&=|\^=|<<=|>>=|\+\+|--|\[[^\]]*\]\s*(?:\.\w+\s*)*(?:=(?!=)|\+=|-=|\*=|/=|\+\+|--)|"
              r"\.\s*(?:clear|push_back|emplace_back|emplace|insert|erase|resize|reserve|assign|pop_back|pop|push|reset|swap|"
              r"seed|setZero|fill)\b|"
              r"\.\s*(?:noalias|row|col|coeffRef|head|tail|topLeftCorner|back|front)\s*\([^;()]*\)\s*(?:\.\s*\w+\s*\(\s*\)\s*)*(?:=(?!=)|\+=|-=|\*=|/=))")


def _match_brace(src, i):
    """index just after the brace group opening at src[i] == '{'"""
    depth = 0; n = len(src)
    while i < n:
        if src[i] == "{": depth += 1
        elif src[i] == "}":
            depth -= 1
            if depth == 0: return i + 1
        i += 1
    return n


def _match_paren(src, i):
    depth = 0; n = len(src)
    while i < n:
        if src[i] == "(": depth += 1
        elif src[i] == ")":
            depth -= 1
            if depth == 0: return i + 1
        i += 1
    return n


_CLASS_RE = re.compile(r"(?<!enum\s)\b(class|struct)\s+([A-Za-z_]\w*)\s*(?:final\s*)?(?::[^;{()]*)?\{")
_FUNC_RE = re.compile(r"(?:\b([A-Za-z_]\w*)\s*(?:<[^<>;{}()]*>)?\s*::\s*)?(operator\s*\(\s*\)|~?[A-Za-z_]\w*)\s*\(")


def _functions(src):
    """(qualifier or None, name, position, body text) for every function DEFINITION in stripped text"""
    out = []
    for m in _FUNC_RE.finditer(src):
        name = re.sub(r"\s+", "", m.group(2))
        if name in ("if", "for", "while", "switch", "return", "catch", "sizeof", "decltype", "static_assert", "requires", "noexcept", "alignof"):
            continue
        j = _match_paren(src, m.end() - 1)
        k = j
        # qualifiers, trailing return type, constructor initialiser list
        mm = re.match(r"\s*(?:const\b|noexcept\b|override\b|final\b|mutable\b|\s)*(?:->\s*[^{;]*?)?\s*(?::(?!:)[^;]*?)?\{", src[k:k + 2000], re.S)
        if not mm:
            continue
        tail = mm.group(0)
        if ";" in tail or "=" in tail.split("{")[0].split(":")[0]:
            continue
        b = k + mm.end() - 1
        # a constructor initialiser list may contain braces: take the last '{' that starts the body
        e = _match_brace(src, b)
        while True:
            mm2 = re.match(r"\s*,\s*[A-Za-z_]\w*\s*[({]", src[e:e + 200])
            if not mm2: break
            nb = src.find("{", e + mm2.end() - 1) if src[e + mm2.end() - 1] == "(" else e + mm2.end() - 1
            if src[e + mm2.end() - 1] == "(":
                e2 = _match_paren(src, e + mm2.end() - 1)
                mm3 = re.match(r"\s*\{", src[e2:e2 + 50])
                if mm3: b = e2 + mm3.end() - 1; e = _match_brace(src, b); continue
                e = e2; continue
            e = _match_brace(src, nb)
        out.append((m.group(1), name, m.start(), src[b:e]))
    return out


def scan_object_state(repo=None):
    """-> list of (rel header, class, member, why) for members that may carry state across operator() calls"""
    repo = repo or os.environ.get("VERIF_REPO", "/repo")
    texts = {}
    for top in ("include", "src"):
        for d, _, fs in os.walk(os.path.join(repo, top)):
            if os.sep + "Python" in d:
                continue
            for f in sorted(fs):
                if f.endswith((".hpp", ".cpp")):
                    p = os.path.join(d, f)
                    texts[os.path.relpath(p, repo)] = _strip(open(p, errors="replace").read())
    classes = {}        # name -> dict(rel, members=set, methods=[(name, body)])
    for rel, src in sorted(texts.items()):
        ranges = []
        for m in _CLASS_RE.finditer(src):
            b = m.end() - 1; e = _match_brace(src, b)
            ranges.append((m.group(2), b, e))
        def owner(pos):
            best = None
            for (nm, b, e) in ranges:
                if b < pos < e and (best is None or b > best[1]):
                    best = (nm, b, e)
            return best[0] if best else None
        for (nm, b, e) in ranges:
            c = classes.setdefault(nm, dict(rel=rel, members=set(), methods=[]))
            if rel.startswith("include"):
                c["rel"] = rel
            # member declarations: statements at depth 1 of the class body
            body = src[b + 1:e - 1]
            depth = 0; cur = []; stmts = []
            for ch in body:
                if ch == "{": depth += 1
                elif ch == "}":
                    depth -= 1
                    if depth == 0: cur = []
                    continue
                if depth == 0:
                    if ch == ";": stmts.append("".join(cur)); cur = []
                    else: cur.append(ch)
            for st in stmts:
                st = re.sub(r"\b(public|private|protected)\s*:", " ", " ".join(st.split())).strip()
                nt = _drop_angles(st)
                if not st or "(" in nt.split("=")[0] or re.match(r"^(using|typedef|friend|static|template|enum|class|struct|union)\b", st):
                    continue
                if re.search(r"\bconst\b", nt.split("=")[0]) and "*" not in nt and "&" not in nt:
                    continue
                for name in _decl_names(nt):
                    if name.endswith("_"):
                        c["members"].add(name)
        for (qual, name, pos, body) in _functions(src):
            cls = qual or owner(pos)
            if cls:
                classes.setdefault(cls, dict(rel=rel, members=set(), methods=[]))["methods"].append((name, body))
    out = []
    for cls, c in sorted(classes.items()):
        calls = [b for (n, b) in c["methods"] if n == "operator()" and not re.search(r"operator\s*\(\s*\)\s*\(|\(\s*\*\s*this\s*\)\s*\(", b)]
        if not calls or not c["members"]:
            continue
        for mname in sorted(c["members"]):
            pat = re.compile(r"(?<![\w.>])" + re.escape(mname) + r"\b")
            writers = []
            for (n, b) in c["methods"]:
                if n == cls or n == "~" + cls or re.match(r"^set[A-Z_]", n):
                    continue
                if re.search(r"(?<![\w.>])" + re.escape(mname) + r"\b" + _ANY_WRITE, b) or re.search(r"(\+\+|--|std::move\s*\(\s*|&\s*)" + re.escape(mname) + r"\b", b):
                    writers.append(n)
            if not writers:
                continue        # a parameter: written only by constructors / setters
            bad = None
            for b in calls:
                m = pat.search(b)
                if not m:
                    bad = "never mentioned in operator() although %s writes it" % "/".join(sorted(set(writers)))
                    break
                if not re.match(_INIT_WRITE, b[m.end():m.end() + 40]):
                    bad = "first mention in operator() is not a re-initialising write"
                    break
            if bad:
                out.append((c["rel"], cls, mname, bad))
    return out


# ---------------------------------------------------------------- ordering / keying by address
# A comparator, sort key or hash key that uses an object's ADDRESS makes iteration / extraction order a
# function of the heap layout, i.e. of every unrelated allocation made before (glibc reuses freed
# chunks in LIFO order).  Purely syntactic patterns, on comment- and string-stripped text:
_ADDR_PATTERNS = [
    ("address-comparison", re.compile(r"(?<![&\w])&\s*\(?\s*\*?\s*[\w.:\[\]]+(?:\s*(?:->|\.)\s*\w+)*\s*\)?\s*(?:<=?|>=?)\s*&(?!&)\s*\(?\s*\*?\s*[\w(]")),
    ("pointer-comparator", re.compile(r"std\s*::\s*(?:less|greater|less_equal|greater_equal)\s*<[^<>;]*\*\s*(?:const\s*)?>")),
    ("pointer-to-integer", re.compile(r"reinterpret_cast\s*<\s*(?:const\s+)?(?:std\s*::\s*)?(?:u?intptr_t|size_t|unsigned\s+long(?:\s+long)?|long)\s*>|\(\s*(?:std\s*::\s*)?u?intptr_t\s*\)")),
    ("pointer-keyed-container", re.compile(r"std\s*::\s*(?:unordered_)?(?:multi)?(?:set|map)\s*<\s*(?:const\s+)?[\w:]+(?:\s*<[^<>;]*>)?\s*(?:const\s*)?\*")),
    ("pointer-hash", re.compile(r"(?:std|boost)\s*::\s*hash\s*<[^<>;]*\*\s*(?:const\s*)?>")),
    ("smart-pointer-comparison", re.compile(r"\.\s*get\s*\(\s*\)\s*(?:<=?|>=?)\s*[\w&(]")),
]


def scan_address_ordering(repo=None):
    """-> sorted list of (rel file, line, pattern kind, matched text)"""
    repo = repo or os.environ.get("VERIF_REPO", "/repo")
    out = []
    for top in ("include", "src"):
        for d, _, fs in os.walk(os.path.join(repo, top)):
            if os.sep + "Python" in d:
                continue
            for f in sorted(fs):
                if f.endswith((".hpp", ".cpp", ".h", ".cc", ".tpp", ".ipp")):
                    p = os.path.join(d, f)
                    src = _strip(open(p, errors="replace").read())
                    for kind, rx in _ADDR_PATTERNS:
                        for m in rx.finditer(src):
                            txt = re.sub(r"\s+", "", m.group(0))[:60]
                            out.append((os.path.relpath(p, repo), src.count("\n", 0, m.start()) + 1, kind, txt))
    return sorted(set(out))


# ---------------------------------------------------------------- closures that outlive the call that made them
# A lambda RETURNED from a function (directly, or through a local that is returned / packed into the returned
# tuple) must be a value: if it captures `this`, or anything by reference (`[&]`, `[&x]`), or uses the implicit-this
# default `[=]`, what it computes later depends on what happens to the producing object afterwards.
_LAMBDA_RE = re.compile(r"\[([^\[\]]*)\]\s*(?:\(|\{|mutable|->)")


def _risky_capture(cap):
    parts = [c.strip() for c in cap.split(",") if c.strip()]
    for c in parts:
        if c in ("this", "&", "=") or c.startswith("&") or c.startswith("this"):
            return c
    return None


def scan_returned_closures(repo=None):
    """-> sorted list of (rel file, line, function, capture)"""
    repo = repo or os.environ.get("VERIF_REPO", "/repo")
    out = []
    for top in ("include", "src"):
        for d, _, fs in os.walk(os.path.join(repo, top)):
            if os.sep + "Python" in d:
                continue
            for f in sorted(fs):
                if not f.endswith((".hpp", ".cpp")):
                    continue
                p = os.path.join(d, f); rel = os.path.relpath(p, repo)
                src = _strip(open(p, errors="replace").read())
                for (qual, name, pos, body) in _functions(src):
                    fn = (qual + "::" if qual else "") + name
                    base = src.find(body, pos)
                    # (a) `return [cap](…) {…}`
                    for m in re.finditer(r"\breturn\s*\[([^\[\]]*)\]\s*(?:\(|\{)", body):
                        c = _risky_capture(m.group(1))
                        if c:
                            out.append((rel, src.count("\n", 0, base + m.start()) + 1, fn, "[" + c + "]"))
                    # (b) `auto / std::function<…> x = [cap]…;  …  return … x …;`
                    for m in re.finditer(r"\b([A-Za-z_]\w*)\s*=\s*\[([^\[\]]*)\]\s*(?:\(|\{|mutable)", body):
                        c = _risky_capture(m.group(2))
                        if c and re.search(r"\breturn\b[^;]*\b" + re.escape(m.group(1)) + r"\b", body[m.end():]):
                            out.append((rel, src.count("\n", 0, base + m.start()) + 1, fn, m.group(1) + "=[" + c + "]"))
    return sorted(set(out))


# returned closures with a risky capture that are known and argued harmless: "<file>::<function>::<capture>" -> why
RETURNED_CLOSURE_OK = {
}


# address-dependent orderings that are known and argued harmless: "<file>::<kind>::<text>" -> why
ADDRESS_ORDER_OK = {
}


def scan_repo(repo=None):
    repo = repo or os.environ.get("VERIF_REPO", "/repo")
    res = []
    for top in ("include", "src"):
        for d, _, fs in os.walk(os.path.join(repo, top)):
            if os.sep + "Python" in d:
                continue        # the Python bindings are not part of the C++ library under verification
            for f in sorted(fs):
                if f.endswith((".hpp", ".cpp", ".h", ".cc", ".tpp", ".ipp")):
                    p = os.path.join(d, f)
                    res += scan_file(p, os.path.relpath(p, repo))
    return sorted(set(res))


# the storage class of the carriers that have a Coq model: a change (e.g. `static` -> `static thread_local`)
# changes what the model must say and is reported as an inventory difference
EXPECTED_KIND = {
    "include/AIToolbox/Seeder.hpp::instance_": "static-data-member",
    "src/Seeder.cpp::Seeder::instance_": "namespace-scope-variable",
    "src/Seeder.cpp::dist": "function-local-static",
    "include/AIToolbox/Factored/Utils/FactorGraph.hpp::factorAdjacenciesPool_": "static-data-member",
    "include/AIToolbox/Factored/Utils/FactorGraph.hpp::FactorGraph<FD>::factorAdjacenciesPool_": "namespace-scope-variable",
}
# thread_local variables are per-thread process-wide carriers; none exists today
THREAD_LOCAL_OK = {}


def classify(rel, name, kind):
    key = rel + "::" + name
    if kind.startswith("thread-local-") and key not in THREAD_LOCAL_OK:
        return "THREAD-LOCAL-UNLISTED", False
    if key in EXPECTED_KIND and kind != EXPECTED_KIND[key]:
        return "STORAGE-CLASS-CHANGED", False
    if key in COVERED:
        return COVERED[key][0], True
    base = name.split("::")[-1]
    if kind == "mutable-member":
        if base in ENGINE_NAMES:
            return "object-engine", True
        if base in SCRATCH_MUTABLE:
            return "mutable-scratch", True
    return "UNLISTED", False


# per-object members that the syntactic criterion of scan_object_state() cannot clear, with the reason
# why each is nevertheless not a carrier (or is a declared one)
CARRIED = {
    "LinearSupport::agenda_": "drained invariant: the do-while of every timestep leaves only through `agenda_.size() == 0` (pomdp ls scenario: reuse, same problem twice)",
    "ReusingIterativeLocalSearch::action_": "declared feature (re-use of the last best action unless forceResetAction); with forceResetAction it is assigned before use (rils scenario)",
    "LocalSearch::agents_": "resize(A.size()) + std::iota over the whole vector at the start of operator(): fully overwritten (rils / ve scenarios)",
    "SARSOP::backuppedActions_": "resize(A) in operator(), std::fill(false) at the start of every backupNode before any read (sarsop scenario)",
    "SARSOP::intermediateBeliefTmp_": "output buffer of updateBeliefPartial, written before every read in expandLeaf (sarsop scenario)",
    "SARSOP::nextBeliefTmp_": "output buffer of updateBeliefPartialUnnormalized, written before every read in expandLeaf (sarsop scenario)",
    "Projecter::immediateRewards_": "computed once by computeImmediateRewards(), which only the constructor calls; read-only afterwards",
    "BeliefGenerator::helper_": "output buffer of updateBeliefPartial (passed as &helper_), written before every read (seeded / pbreuse / amdpm scenarios)",
    "SARSOP::sampledNodes_": "cleared at the start of samplePoints(), which operator() calls before reading it (sarsop scenario)",
}


def inventory_cases():
    found = scan_repo()
    out = []
    seen = set()
    for (rel, line, kind, txt) in scan_address_ordering():
        ok = (rel + "::" + kind + "::" + txt) in ADDRESS_ORDER_OK
        out.append("carrier %s %d %s address-ordering-%s %s %s" % (rel, line, txt, kind, "covered" if ok else "unlisted", "address-order-argued" if ok else "UNLISTED"))
    for (rel, line, fn, cap) in scan_returned_closures():
        ok = (rel + "::" + fn + "::" + cap) in RETURNED_CLOSURE_OK
        out.append("carrier %s %d %s returned-closure-capture %s %s" % (rel, line, re.sub(r"\s+", "", fn + cap), "covered" if ok else "unlisted", "closure-argued" if ok else "UNLISTED"))
    for (rel, cls, member, why) in scan_object_state():
        key = cls + "::" + member
        ok = key in CARRIED
        out.append("carrier %s 0 %s per-object-carried-state %s %s" % (rel, key, "covered" if ok else "unlisted", "object-scratch-argued" if ok else "UNLISTED"))
    for (rel, line, name, kind) in found:
        cls, ok = classify(rel, name, kind)
        seen.add(rel + "::" + name)
        out.append("carrier %s %d %s %s %s %s" % (rel, line, name.replace(" ", ""), kind, "covered" if ok else "unlisted", cls))
    for key, (cls, _) in sorted(COVERED.items()):
        if key not in seen:
            rel, name = key.split("::", 1)
            out.append("carrier %s 0 %s committed stale %s" % (rel, name, cls))
    return out


# ================================================================== case generators
def g_prog(rng):
    nops = rng.randint(3, 14)
    ops = []; nobj = 0
    for _ in range(nops):
        r = rng.random()
        if r < 0.28:
            ops.append("G")
        elif r < 0.36:
            ops.append("Q")
        elif r < 0.46:
            ops.append("R %d" % rng.choice([0, 1, 42, rng.randrange(2 ** 32)]))
        elif r < 0.72 or nobj == 0:
            ops.append("N %d" % rng.randrange(5)); nobj += 1
        else:
            ops.append("D %d" % rng.randrange(nobj))
    pre1 = rng.randint(0, 6); pre2 = rng.randint(0, 6)
    if rng.random() < 0.8 and pre1 == pre2:
        pre2 = pre1 + 1 + rng.randint(0, 3)
    root = rng.choice([0, 1, 7, 12345, rng.randrange(2 ** 32)])
    return "prog %d %d %d %d %s" % (pre1, pre2, root, len(ops), " ".join(ops))


def pow2_belief(rng, S):
    """belief whose entries are 0 or powers of two"""
    while True:
        k = rng.randint(1, min(S, 4))
        # compositions of 1 into k powers of two
        parts = [F(1)]
        while len(parts) < k:
            i = rng.randrange(len(parts))
            p = parts.pop(i); parts += [p / 2, p / 2]
        if len(parts) <= S:
            b = parts + [F(0)] * (S - len(parts))
            rng.shuffle(b)
            return b


def g_amdp(rng):
    S1 = rng.choice([2, 2, 3, 4, 5]); B1 = rng.choice([1, 1, 2, 3, 5])
    S2 = rng.choice([2, 4, 4, 8]) if rng.random() < 0.7 else rng.choice([3, 5, 6])
    B2 = rng.choice([2, 3, 4, 4, 6, 8])
    if rng.random() < 0.12:
        S1, B1 = S2, B2          # same grid: the stale step happens to be right
    nb = rng.randint(2, 6)
    bs = []
    for _ in range(nb):
        if rng.random() < 0.75:
            bs.append(pow2_belief(rng, S2))
        else:
            b = gen_beliefs(rng, S2, 1)[0]; bs.append(b)
    return "amdp %d %d %d %d %d %s" % (S1, B1, S2, B2, nb, " ".join(Qs(b) for b in bs))


def g_amdpkeep(rng):
    S1 = rng.choice([2, 2, 3]); m1 = gen_pomdp(rng, S1, rng.choice([1, 2]), 2)
    m2 = gen_pomdp(rng, rng.choice([2, 3]), rng.choice([1, 2]), rng.choice([1, 2]))
    B1 = rng.choice([4, 6, 10]); B2 = rng.choice([1, 2, 3])
    nb = rng.randint(3, 7)
    bs = [[F(1, S1)] * S1] + [pow2_belief(rng, S1) if rng.random() < 0.5 else gen_beliefs(rng, S1, 1)[0] for _ in range(nb - 1)]
    return "amdpkeep %d %d %d %d %d %s %s %d %s" % (rng.randrange(10 ** 6), rng.choice([10, 30]), B1, B2, rng.choice([5, 50]),
                                              fmt_pomdp(m1), fmt_pomdp(m2), nb, " ".join(Qs(b) for b in bs))


def g_amdpm(rng):
    m1 = gen_pomdp(rng, rng.choice([2, 3]), rng.choice([1, 2]), rng.choice([1, 2]))
    m2 = gen_pomdp(rng, rng.choice([2, 3]), rng.choice([1, 2]), rng.choice([2, 3]))
    B1 = rng.choice([1, 2, 3]); B2 = rng.choice([2, 3, 4, 5])
    return "amdpm %d %d %d %s %d %s" % (rng.randrange(10 ** 6), rng.choice([8, 20, 40]), B1, fmt_pomdp(m1), B2, fmt_pomdp(m2))


def two_sizes(rng, lo=1, hi=4):
    a = rng.randint(lo, hi); b = rng.randint(lo, hi)
    if rng.random() < 0.85 and a == b:
        b = a + 1 if a < hi else a - 1
    return a, max(lo, b)


def g_vi(rng, kind):
    S1, S2 = two_sizes(rng, 1, 5)
    A1, A2 = two_sizes(rng, 1, 3)
    m1 = gen_mdp(rng, S1, A1); m2 = gen_mdp(rng, S2, A2)
    h = rng.choice([0, 1, 2, 3, 5, 12])
    tol = rng.choice(["0", "0", "1/1024", "1/8", "1/1048576"])
    if kind == "pi":
        h = rng.choice([1, 2, 3, 6]); tol = rng.choice(["1/1024", "1/8", "1/64"])
    return "%s %d %s %s %s %s" % (kind, h, tol, rng.choice(["dense", "sparse", "mixed"]), fmt_mdp(m1), fmt_mdp(m2))


def g_pomdp(rng):
    alg = rng.choice(["ip", "wit", "wit", "wit", "ls", "ls"])
    S1, S2 = two_sizes(rng, 2, 3)
    O2 = rng.choice([2, 2, 3]); A2 = rng.choice([2, 2, 3])
    # scratch keyed by observation vectors (Witness::triedVectors_) can only collide when O agrees
    O1 = O2 if rng.random() < 0.6 else rng.choice([1, 2, 3])
    m1 = gen_pomdp(rng, S1, rng.choice([1, 2]), O1, rew=rng.choice(["mixed", "frac", "pos"]))
    m2 = gen_pomdp(rng, S2, A2, O2, rew=rng.choice(["mixed", "frac", "pos"]))
    h = rng.choice([2, 2, 3]) if (A2 * O2 <= 6) else 2
    return "pomdp %s %d %s %s" % (alg, h, fmt_pomdp(m1), fmt_pomdp(m2))


def hexf(x):
    return float.hex(float(x))


def xorshift_pomdp(S, A, O, salt, discount):
    """small deterministic pseudo-random POMDP with general (non-dyadic) double entries: squared
    xorshift draws, normalised in double arithmetic exactly as a C++ client would"""
    x = [(2463534242 + salt * 977) & 0xFFFFFFFF]

    def nxt():
        v = x[0]
        v ^= (v << 13) & 0xFFFFFFFF; v ^= v >> 17; v ^= (v << 5) & 0xFFFFFFFF
        x[0] = v
        return (v % 1000) + 1
    T = [[[0.0] * S for _ in range(S)] for _ in range(A)]      # T[a][s][s1]
    R = [[0.0] * A for _ in range(S)]
    Ob = [[[0.0] * O for _ in range(S)] for _ in range(A)]     # Ob[a][s1][o]
    for s in range(S):
        for a in range(A):
            vs = []
            for s1 in range(S):
                v = float(nxt()); vs.append(v * v)
            tot = 0.0
            for v in vs: tot += v
            T[a][s] = [v / tot for v in vs]
            R[s][a] = nxt() / 100.0
    for s in range(S):
        for a in range(A):
            vs = []
            for o in range(O):
                v = float(nxt()); vs.append(v * v)
            tot = 0.0
            for v in vs: tot += v
            Ob[a][s] = [v / tot for v in vs]
    toks = [str(S), str(A), str(O), hexf(discount)]
    for a in range(A):
        for s in range(S):
            toks += [hexf(v) for v in T[a][s]]
    for s in range(S):
        toks += [hexf(v) for v in R[s]]
    for a in range(A):
        for s1 in range(S):
            toks += [hexf(v) for v in Ob[a][s1]]
    return " ".join(toks)


def uniform_belief(S):
    return "%d %s" % (S, " ".join([hexf(1.0 / S)] * S))


def g_sarsop(rng, salt=None):
    """delta-sensitive SARSOP reuse: problem 2 is a 3x3x2 general-regime POMDP at discount 0.9 solved to
    tolerance 1/2; problem 1 (differently sized) is solved coarsely first and moves delta_"""
    # salts vetted on the real solver: SARSOP converges within the alarm; the first list is where a
    # left-over delta_ changes the result (found with the seeded change of notes/C16.md)
    sensitive = [10, 22, 35, 41, 84, 102, 112, 120]
    converging = [1, 3, 4, 5, 6, 7, 8, 9, 12, 13, 14, 15, 17, 18, 20, 21, 23, 24, 26, 27, 28, 29, 30, 31, 32, 34, 36, 37, 38, 39, 40]
    salt2 = (rng.choice(sensitive) if rng.random() < 0.7 else rng.choice(converging)) if salt is None else salt
    S1, A1, O1 = rng.choice([(4, 2, 2), (4, 3, 2), (3, 2, 3), (5, 2, 2), (2, 3, 2)])
    m1 = xorshift_pomdp(S1, A1, O1, rng.randrange(1, 10 ** 6), 0.9)
    m2 = xorshift_pomdp(3, 3, 2, salt2, 0.9)
    tol1 = rng.choice(["100", "50", "100"])
    return "sarsop %s 1/2 %s %s %s %s" % (tol1, m1, uniform_belief(S1), m2, uniform_belief(3))


def g_gapmin(rng):
    S1, A1, O1 = rng.choice([(3, 2, 2), (2, 2, 2), (3, 2, 3), (2, 3, 2)])
    m1 = xorshift_pomdp(S1, A1, O1, rng.randrange(1, 10 ** 6), 0.75)
    S2 = 2 if S1 == 3 else 3
    m2 = xorshift_pomdp(S2, 2, 2, rng.randrange(1, 200), 0.75)
    return "gapmin %s %d %s %s %s %s" % (rng.choice(["1/2", "1/4", "1"]), rng.choice([2, 3]), m1, uniform_belief(S1), m2, uniform_belief(S2))


def g_pbreuse(rng):
    S1, S2 = two_sizes(rng, 2, 3)
    O2 = rng.choice([2, 2, 3])
    m1 = gen_pomdp(rng, S1, rng.choice([1, 2]), rng.choice([2, O2]), rew=rng.choice(["mixed", "pos"]))
    m2 = gen_pomdp(rng, S2, rng.choice([2, 3]), O2, rew=rng.choice(["mixed", "pos"]))
    return "pbreuse %s %d %s %s" % (rng.choice(["pbvi", "perseus"]), rng.randrange(2 ** 31), fmt_pomdp(m1), fmt_pomdp(m2))


def _fmt_sym(S, A, O, g, T, R, Ob):
    toks = [str(S), str(A), str(O), g if isinstance(g, str) else q(g)]
    for a in range(A):
        for s in range(S):
            toks += [q(x) for x in T[a][s]]
    for s in range(S):
        toks += [q(x) for x in R[s]]
    for a in range(A):
        for s1 in range(S):
            toks += [q(x) for x in Ob[a][s1]]
    return " ".join(toks)


def sym_pomdp(rng):
    """mirror-symmetric 2-state POMDPs (swap the states, the mirrored actions and the observations): mirror-image
    beliefs have bitwise equal values, so exact ties occur everywhere (tiger and random relatives, dyadic)"""
    g = rng.choice([F(1, 2), F(3, 4), F(7, 8), F(15, 16), F(1), hexf(0.95), hexf(0.9)])
    half = [F(1, 2), F(1, 2)]
    if rng.random() < 0.5:
        p = rng.choice([F(3, 4), F(7, 8), F(5, 8)])
        c = -rng.choice([F(1), F(2), F(1, 2)]); good = rng.choice([F(10), F(8), F(4)]); bad = -rng.choice([F(100), F(16), F(20)])
        T = [[[F(1), F(0)], [F(0), F(1)]], [half, half], [half, half]]
        R = [[c, bad, good], [c, good, bad]]
        Ob = [[[p, 1 - p], [1 - p, p]], [half, half], [half, half]]
        return _fmt_sym(2, 3, 2, g, T, R, Ob)
    # random action + its mirror image (+ optionally a self-symmetric action)
    def row(n):
        k = rng.choice([1, 2, 3]); tot = 1 << k
        a = rng.randint(0, tot); return [F(a, tot), F(tot - a, tot)]
    Ta = [row(2), row(2)]; Oa = [row(2), row(2)]; Ra = [F(rng.randint(-8, 8)), F(rng.randint(-8, 8))]
    mir = lambda M: [[M[1][1], M[1][0]], [M[0][1], M[0][0]]]
    T = [Ta, mir(Ta)]; Ob = [Oa, mir(Oa)]; R = [[Ra[0], Ra[1]], [Ra[1], Ra[0]]]
    if rng.random() < 0.6:
        t = row(2); o = row(2); r = F(rng.randint(-4, 4))
        T.append([t, [t[1], t[0]]]); Ob.append([o, [o[1], o[0]]]); R[0].append(r); R[1].append(r)
    return _fmt_sym(2, len(T), 2, g, T, R, Ob)


def g_heap(rng, alg=None):
    alg = alg or rng.choice(["ls", "ls", "ls", "ip", "wit", "pbvi", "perseus", "qmdp", "fib", "blind"])
    m = sym_pomdp(rng)
    while alg == "perseus" and m.split()[3] == "1":       # PERSEUS rejects an undiscounted model
        m = sym_pomdp(rng)
    mp = gen_pomdp(rng, 3, rng.choice([1, 2]), rng.choice([2, 3]))
    if alg in ("ls", "ip", "wit"):
        h = rng.choice([3, 4, 4]); hp = rng.choice([2, 3])
    else:
        h = rng.choice([3, 5, 8]); hp = rng.choice([2, 4, 7])
    return "heap %s %d %d %s %s" % (alg, h, hp, fmt_pomdp(mp), m)


def g_seeded(rng):
    alg = rng.choice(["pomcp", "mcts", "pbvi", "perseus"])
    S = rng.choice([2, 3]); m = gen_pomdp(rng, S, rng.choice([2, 3]), 2)
    b = gen_beliefs(rng, S, 1)[0]
    pre1 = rng.randint(0, 5); pre2 = pre1 + rng.randint(1, 4)
    return "seeded %s %d %d %d %s %s" % (alg, pre1, pre2, rng.randrange(2 ** 32), fmt_pomdp(m), L(Qs(b).split()))


def g_fg(rng):
    ng = rng.choice([1, 2, 2, 3])
    sizes = [rng.randint(2, 5) for _ in range(ng)]
    st = [dict(n=n, active=set(range(n)), keys=[]) for n in sizes]
    ops = []
    nops = rng.randint(3, 16)
    for _ in range(nops):
        i = rng.randrange(ng); g = st[i]
        r = rng.random()
        act = sorted(g["active"])
        if r < 0.45 and act:
            k = rng.randint(1, min(3, len(act)))
            vs = sorted(rng.sample(act, k))
            if rng.random() < 0.3 and g["keys"]:
                vs = rng.choice(g["keys"])
                if not set(vs) <= g["active"]:
                    continue
            if list(vs) not in g["keys"]:
                g["keys"].append(list(vs))
            if rng.random() < 0.5:
                ops.append("g %d %s" % (i, L(vs)))
            else:
                ops.append("s %d %s %d" % (i, L(vs), rng.randint(1, 50)))
        elif r < 0.75 and g["n"] > 0:
            a = rng.randrange(g["n"])
            ops.append("e %d %d" % (i, a))
            if a in g["active"]:
                g["active"].discard(a)
                g["keys"] = [k for k in g["keys"] if a not in k]
        elif r < 0.82:
            n = rng.randint(2, 5)
            ops.append("r %d %d" % (i, n)); st[i] = dict(n=n, active=set(range(n)), keys=[])
        elif ng > 1:
            j = rng.randrange(ng)
            ops.append("c %d %d" % (i, j))
            st[i] = dict(n=st[j]["n"], active=set(st[j]["active"]), keys=[list(k) for k in st[j]["keys"]])
    njunk = rng.choice([0, 1, 2, 3, 5, 8])
    return "fg %s %d %d %s" % (L(sizes), njunk, len(ops), " ".join(ops))


def g_rules(rng, A):
    n = rng.randint(1, 7)
    out = []
    for _ in range(n):
        k = rng.randint(1, min(3, len(A)))
        keys = sorted(rng.sample(range(len(A)), k))
        vals = [rng.randrange(A[x]) for x in keys]
        out.append("%s %s %s" % (L(keys), L(vals), q(F(rng.randint(-16, 24), rng.choice([1, 2, 4])))))
    return "%d %s" % (n, " ".join(out))


def g_ve(rng, kind):
    n1, n2 = two_sizes(rng, 2, 5)
    A1 = [rng.randint(1, 3) for _ in range(n1)]; A2 = [rng.randint(1, 3) for _ in range(n2)]
    pre = "ve" if kind == "ve" else "rils %d %d" % (rng.choice([0, 2, 5]), rng.randrange(10 ** 6))
    return "%s %s %s %s %s" % (pre, L(A1), g_rules(rng, A1), L(A2), g_rules(rng, A2))


def gen(rng, tier):
    mult = {"quick": 1, "thorough": 4, "search": 2}[tier]
    out = []
    plan = [(lambda: g_prog(rng), 90), (lambda: g_fg(rng), 90), (lambda: g_amdp(rng), 24), (lambda: g_amdpm(rng), 8), (lambda: g_amdpkeep(rng), 12), (lambda: g_prog(rng).replace('prog', 'thread', 1), 30),
            (lambda: g_vi(rng, "vi"), 40), (lambda: g_vi(rng, "pi"), 16), (lambda: g_pomdp(rng), 24),
            (lambda: g_sarsop(rng), 16), (lambda: g_gapmin(rng), 5), (lambda: g_pbreuse(rng), 12), (lambda: g_seeded(rng), 12), (lambda: g_heap(rng), 48), (lambda: g_ve(rng, "ve"), 30), (lambda: g_ve(rng, "rils"), 16)]
    for f, n in plan:
        for _ in range(n * mult):
            out.append(f())
    rng.shuffle(out)
    if tier != "search":
        out = inventory_cases() + out
    return out
