"""props/C18.py — descriptor for property C18 (Cassandra-format files parse to the model they
define, or are rejected).  Cases carry the text hex-encoded as their last token.

  wf  <mode> <n> <stmt…> <hex>   grammar-based well-formed file: the AST (spec side) and one printing
  rej <mode> <reason> <hex>      well-formed file with one construct broken so that it MUST be rejected
  mut <mode> <hex>               character/line mutations and truncations of a well-formed file
  ovf <mode> <hex>               declared sizes whose tables overflow size_t
  two <mode2> <mode1> <hex1> <hex2>  one CassandraParser object reads text1, then text2 (judged)
  load <mode> <ok|bad> <hex>     MDP::parseCassandra / POMDP::parseCassandra: parser + Model constructor validation
"""
from fractions import Fraction

REPO_SRCS = ["src/Tools/CassandraParser.cpp", "src/MDP/IO.cpp", "src/POMDP/IO.cpp", "src/MDP/Model.cpp",
             "src/Seeder.cpp", "src/Utils/Probability.cpp",
             "src/MDP/Policies/PolicyWrapper.cpp", "src/POMDP/Policies/Policy.cpp"]   # the last two: vtables UBSan refers to
# IO.cpp also holds the stream operators of many other classes; only parseCassandra is used here
EXTRA_CXXFLAGS = ["-ffunction-sections", "-fdata-sections"]
EXTRA_LINK = ["-Wl,--gc-sections"]
AXIOM_ALLOW = []
ASAN_QUICK = True
CASE_TIMEOUT = 10
THOROUGH_SEEDS = 3
TRUSTED_BASE = [
    "getline/boost::trim/boost::tokenizer/starts_with/std::count and std::stoul/std::stod are modelled in Gallina by their documented meaning (C18/Model.v lex_text, stoul, stod); parse_print is proved over these models down to the characters, the models themselves are tied to the C++ by correspondence",
    "MDP::Model / POMDP::Model constructor validation (setDiscount, isProbability) is modelled with exact rational sums; the C++ sums doubles (difference far below the 1e-6 tolerance except at the knife edge, which the generator avoids)",
    "allocation of tables that fit in size_t is assumed to succeed (no std::bad_alloc)",
]
ASSUMPTIONS = [
    "numeric tokens are decimal (optional sign, fraction, exponent of at most two digits, at most 100 digits), inf or nan; hex floats and out-of-range exponents are outside the model (reported Unsup, never UB)",
    "the theorems are about the repaired parser (fixes/C18-missing-throw.patch, fixes/C18-size-overflow.patch); the unrepaired behaviour is modelled by fixed=false and refuted",
]
RULE = ("grammar-based generator over all line forms (entry/row-inline/row-next-line/matrix/reward, declarations "
        "by number or by names, statements in any order, overrides, wildcard/name/number mixes, spacing, CRLF, "
        "ignored lines); >= 35% of the cases are malformed (labelled must-reject constructs, random mutations, "
        "truncations, overflowing sizes); 7% re-use one parser object for two texts; 7% go through MDP/POMDP::parseCassandra "
        "(complete models, and the same with one invalid row / missing row / invalid discount). Non-trivial = the model produced a table with a non-zero cell or "
        "rejected for a reason other than missing sizes; distinct by md5 of the case line. Every case also runs under ASan/UBSan.")

NAMES = ["a", "b", "north", "s0", "left", "x1", "up", "tiger-left", "o_1", "Q", "zz", "listen", "g7", "w", "east"]
DIGIT_NAMES = ["0", "1", "2", "3", "7", "+1", "01"]
# number spellings whose decimal -> double conversion is exact, with a few general-regime ones
VALS = ["0", "1", "0.5", "0.25", "0.75", "0.125", "1.0", ".5", "2", "-1", "0.375", "1e1", "5e-1", "10",
        "-0.5", "+0.25", "3.5", "0.50", "100", "-2.5", "0.0625", "1E0", "25e-2", "0.875"]
VALS_GENERAL = ["0.1", "0.3", "0.95", "0.9", "1e-3", "0.7", "-0.2", "1.1", "0.33333"]
VALS_ODD = ["inf", "-inf", "nan", "0.5x", "1e", "2.", "0.25abc", "Infinity", "1e+"]


def hx(s):
    return s.encode("latin-1").hex() if s else "-"


def val_ast(tok):
    t = tok.lower()
    if t.startswith("inf") or t.startswith("+inf"): return "inf"
    if t.startswith("-inf"): return "-inf"
    if "nan" in t: return "nan"
    # numeric prefix as strtod reads it
    import re
    m = re.match(r"[+-]?(\d+\.?\d*|\.\d+)([eE][+-]?\d+)?", tok)
    f = Fraction(m.group(0))
    return "%d/%d" % (f.numerator, f.denominator)


def pick_val(rng):
    r = rng.random()
    if r < 0.82: return rng.choice(VALS)
    if r < 0.94: return rng.choice(VALS_GENERAL)
    return rng.choice(VALS_ODD)


class Dim:
    """one declared dimension: size and (possibly) names"""
    def __init__(self, rng, lo, hi):
        self.n = rng.randint(lo, hi)
        r = rng.random()
        if r < 0.45:
            self.names = None
        elif r < 0.9 or self.n == 1:
            self.names = rng.sample(NAMES, self.n)
        else:
            self.names = rng.sample(DIGIT_NAMES, self.n)   # names that look like numbers (names win)

    def decl_ast(self):
        if self.names is None: return "N %d" % self.n
        return "L %d %s" % (self.n, " ".join(hx(x) for x in self.names))

    def decl_text(self, rng):
        if self.names is None:
            return rng.choice(["%d", "%d", "+%d", "0%d"]) % self.n
        return rng.choice([" ", "  ", " \t", "\t "]).join(self.names)

    def idx(self, rng, star=0.25):
        """returns (ast token, text token)"""
        r = rng.random()
        if r < star: return "*", "*"
        k = rng.randrange(self.n)
        if self.names is not None and rng.random() < 0.7:
            return "@" + hx(self.names[k]), self.names[k]
        forms = ["%d", "+%d", "0%d", "%d"] + (["-%d", "-0%d"] if k == 0 else [])   # stoul: "-0" is 0
        for sp in rng.sample(forms, len(forms)):
            t = sp % k
            if self.names is None or t not in self.names:
                return "#%d" % k, t
        return "@" + hx(self.names[k]), self.names[k]


def colon(rng): return rng.choice([" : ", ": ", ":", " :", "  :  ", " : "])
def gap(rng): return rng.choice([" ", " ", "  ", " \t", "\t "])
def head(rng, letter):
    return letter + rng.choice(["", "", "", {"T": "rans", "O": "bs", "R": "ew"}[letter]])


class File:
    def __init__(self, rng, pomdp):
        self.rng = rng; self.pomdp = pomdp
        self.S = Dim(rng, 1, 4); self.A = Dim(rng, 1, 3); self.O = Dim(rng, 1, 3)
        self.items = []      # (ast string, [text lines], info)

    def d3(self, t): return self.S if t == "T" else self.O

    def vec(self, n):
        toks = [pick_val(self.rng) for _ in range(n)]
        return [val_ast(t) for t in toks], toks

    def body_stmt(self, force=None):
        rng = self.rng
        forms = ["e", "e", "ri", "rn", "m", "rw", "rw"]
        f = force or rng.choice(forms)
        t = "T"
        if f != "rw" and (self.pomdp and rng.random() < 0.45 or (not self.pomdp) and rng.random() < 0.08): t = "O"
        A, S, D3 = self.A, self.S, self.d3(t)
        a_ast, a_tx = A.idx(rng); s_ast, s_tx = S.idx(rng)
        h = head(rng, t)
        if f == "e":
            e_ast, e_tx = D3.idx(rng); v = pick_val(rng)
            line = h + colon(rng) + a_tx + colon(rng) + s_tx + colon(rng) + e_tx + gap(rng) + v + rng.choice(["", "", "", " junk", "  7 8"])
            return ("e %s %s %s %s %s" % (t, a_ast, s_ast, e_ast, val_ast(v)), [line], dict(form=f, t=t))
        if f == "ri":
            va, vt = self.vec(D3.n)
            line = h + colon(rng) + a_tx + colon(rng) + s_tx + gap(rng) + gap(rng).join(vt)
            return ("ri %s %s %s %d %s" % (t, a_ast, s_ast, len(va), " ".join(va)), [line], dict(form=f, t=t))
        if f == "rn":
            va, vt = self.vec(D3.n)
            line = h + colon(rng) + a_tx + colon(rng) + s_tx
            return ("rn %s %s %s %d %s" % (t, a_ast, s_ast, len(va), " ".join(va)), [line, gap(rng).join(vt)], dict(form=f, t=t))
        if f == "m":
            rows = [self.vec(D3.n) for _ in range(S.n)]
            line = h + colon(rng) + a_tx + rng.choice(["", "", " ignored"])
            ast = "m %s %s %d %s" % (t, a_ast, len(rows), " ".join("%d %s" % (len(r[0]), " ".join(r[0])) for r in rows))
            return (ast, [line] + [gap(rng).join(r[1]) for r in rows], dict(form=f, t=t))
        # reward
        e_ast, e_tx = S.idx(rng); v = pick_val(rng)
        o_tx = rng.choice(["*", "*", "0", "whatever", self.O.idx(rng)[1]])
        line = head(rng, "R") + colon(rng) + a_tx + colon(rng) + s_tx + colon(rng) + e_tx + colon(rng) + o_tx + gap(rng) + v
        return ("rw %s %s %s %s" % (a_ast, s_ast, e_ast, val_ast(v)), [line], dict(form="rw", t="R"))

    def build(self, nbody=None):
        rng = self.rng
        pre = []
        def decl(key, word, d):
            return ("%s %s" % (key, d.decl_ast()), [word + colon(rng) + d.decl_text(rng)], dict(form="decl"))
        # overridden earlier declarations (the last one wins)
        if rng.random() < 0.2:
            old = Dim(rng, 1, 6)
            pre.append(decl("states", "states", old))
        pre.append(decl("states", "states", self.S))
        pre.append(decl("actions", "actions", self.A))
        if self.pomdp or rng.random() < 0.4:
            pre.append(decl("obs", "observations", self.O))
        if rng.random() < 0.7:
            v = rng.choice(["0.5", "0.75", "1", "0.95", "0.9", "1.0", "0.25"])
            pre.append(("disc " + val_ast(v), ["discount" + colon(rng) + v], dict(form="decl")))
        if rng.random() < 0.5:
            pre.append(("values", ["values" + colon(rng) + rng.choice(["reward", "cost"])], dict(form="decl")))
        body = [self.body_stmt() for _ in range(nbody if nbody is not None else rng.randint(1, 8))]
        for _ in range(rng.choice([0, 0, 1, 2])):
            body.insert(rng.randrange(len(body) + 1),
                        ("other", [rng.choice(["# a comment", "start: 0.5 0.5", "#T: 0 : 0 : 0 1", "start include: 0", "; x"])], dict(form="other")))
        # declarations may stand anywhere (the preamble pass reads the whole file first)
        if rng.random() < 0.6:
            self.items = pre + body
        else:
            self.items = list(body)
            for p in pre:
                # keep the relative order of the two 'states' declarations
                self.items.insert(rng.randrange(len(self.items) + 1), p)
            st = [i for i, it in enumerate(self.items) if it[0].startswith("states ")]
            if len(st) == 2:
                want = [p for p in pre if p[0].startswith("states ")]
                self.items[st[0]], self.items[st[1]] = want[0], want[1]
        return self

    def ast(self):
        return "%d %s" % (len(self.items), " ".join(it[0] for it in self.items))

    def text(self, items=None):
        rng = self.rng
        out = []
        eol = rng.choice(["\n", "\n", "\n", "\r\n"])
        for it in (items if items is not None else self.items):
            for l in it[1]:
                if rng.random() < 0.15: out.append(rng.choice(["", "  ", "\t"]))
                out.append(rng.choice(["", "", "", " ", "  "]) + l + rng.choice(["", "", "", " ", " \t"]))
        s = eol.join(out)
        if rng.random() < 0.8: s += eol
        return s


def gen_wf(rng):
    pomdp = rng.random() < 0.5
    f = File(rng, pomdp).build()
    return "wf %s %s %s" % ("pomdp" if pomdp else "mdp", f.ast(), hx(f.text()))


def gen_rej(rng):
    pomdp = rng.random() < 0.5
    f = File(rng, pomdp).build()
    mode = "pomdp" if pomdp else "mdp"
    reason = rng.choice(["nosizes", "badcount", "badcount", "unkname", "idxhigh", "idxhigh", "idxneg", "idxneg", "idxneg",
                         "colons", "veclen", "badnum", "missing", "fewrows"])
    items = list(f.items)
    def live(t): return t in ("T", "R") or (t == "O" and pomdp)
    if reason == "nosizes":
        drop = rng.choice(["states ", "actions "] + (["obs "] if pomdp else []))
        items = [it for it in items if not it[0].startswith(drop)]
        if rng.random() < 0.3:
            items.insert(rng.randrange(len(items) + 1), ("x", [drop.strip().replace("obs", "observations") + ": 0"], {}))
        return "rej %s %s %s" % (mode, reason, hx(f.text(items)))
    # build one broken live statement
    t = "T" if (not pomdp or rng.random() < 0.6) else "O"
    A, S, D3 = f.A, f.S, f.d3(t)
    a = A.idx(rng)[1]; s = S.idx(rng)[1]; e = D3.idx(rng)[1]
    c = lambda: colon(rng)
    good = lambda n: " ".join(rng.choice(VALS) for _ in range(n))
    if reason == "badcount":
        n = rng.choice([k for k in [1, 2, 3, 4, 5, D3.n - 1, D3.n + 1, D3.n + 2] if k >= 1 and k != D3.n])
        lines = [t + c() + a + c() + s + " " + good(n)]
    elif reason == "unkname":
        bad = rng.choice(["nowhere", "Zed", "x-9", "**", "*x"])
        pos = rng.randrange(3)
        parts = [a, s, e]; parts[pos] = bad
        lines = [t + c() + parts[0] + c() + parts[1] + c() + parts[2] + " 0.5"]
    elif reason in ("idxhigh", "idxneg"):
        # a numeric index outside [0, size): at / above the bound, or NEGATIVE (std::stoul wraps "-1" to
        # 2^64-1, which the range check rejects), in every index position of every line form
        form = rng.choice(["e", "e", "ri", "rn", "m", "rw"])
        dims = [A, S, S] if form == "rw" else [A, S, D3]
        npos = {"e": 3, "ri": 2, "rn": 2, "m": 1, "rw": 3}[form]
        pos = rng.randrange(npos)
        dim = dims[pos]
        if reason == "idxhigh":
            cands = [str(dim.n), str(dim.n), str(dim.n + 1), "+%d" % dim.n, "0%d" % dim.n, "99", "1000000",
                     "18446744073709551615", "4294967296", "2147483648"]
        else:
            cands = ["-1", "-1", "-1", "-2", "-3", "-7", "-01", "-1000000", "-2147483648", "-2147483649", "-4294967295",
                     "-4294967296", "-9223372036854775808", "-99999999999999999999"]
        cands = [x for x in cands if dim.names is None or x not in dim.names]
        bad = rng.choice(cands)
        parts = [a, s, (S.idx(rng)[1] if form == "rw" else e)]; parts[pos] = bad
        if form == "e": lines = [head(rng, t) + c() + parts[0] + c() + parts[1] + c() + parts[2] + gap(rng) + "0.5"]
        elif form == "ri": lines = [head(rng, t) + c() + parts[0] + c() + parts[1] + gap(rng) + good(D3.n)]
        elif form == "rn": lines = [head(rng, t) + c() + parts[0] + c() + parts[1], good(D3.n)]
        elif form == "m": lines = [head(rng, t) + c() + parts[0]] + [good(D3.n) for _ in range(S.n)]
        else: lines = [head(rng, "R") + c() + parts[0] + c() + parts[1] + c() + parts[2] + c() + "*" + gap(rng) + "1"]
    elif reason == "colons":
        k = rng.choice(["none", "many", "reward3", "reward5"])
        if k == "none": lines = [t + " " + a + " " + s + " " + e + " 0.5"]
        elif k == "many": lines = [t + c() + a + c() + s + c() + e + c() + "0.5" + rng.choice(["", " : 1"])] if t != "R" else []
        elif k == "reward3": lines = ["R" + c() + a + c() + s + c() + S.idx(rng)[1] + " 1"]
        else: lines = ["R" + c() + a + c() + s + c() + S.idx(rng)[1] + c() + "*" + c() + "1"]
    elif reason == "veclen":
        n = rng.choice([k for k in [0, 1, 2, 3, 4, 5, D3.n + 1] if k != D3.n])
        v = good(n) if n else "#"
        lines = [t + c() + a + c() + s, v]
    elif reason == "badnum":
        bad = rng.choice(["abc", ".", "-", "e5", "+", "--1", "x0.5"])
        if rng.random() < 0.5: lines = [t + c() + a + c() + s + c() + e + " " + bad]
        else:
            vs = [rng.choice(VALS) for _ in range(D3.n)]; vs[rng.randrange(D3.n)] = bad
            lines = [t + c() + a + c() + s + " " + " ".join(vs)]
    elif reason == "missing":
        k = rng.choice(["noval", "noidx", "rewnoval"])
        if k == "noval": lines = [t + c() + a + c() + s + c() + e]
        elif k == "noidx": lines = [t + c() + c() + c() + " 0.5"]
        else: lines = ["R" + c() + a + c() + s + c() + S.idx(rng)[1] + c() + "*"]
    else:  # fewrows: matrix statement at the very end with too few rows
        rows = [good(D3.n) for _ in range(rng.randrange(S.n))]
        items = [it for it in items if it[2].get("form") == "decl"] + [it for it in items if it[2].get("form") != "decl"]
        items.append(("x", [t + c() + a] + rows, {}))
        return "rej %s %s %s" % (mode, reason, hx(f.text(items)))
    pos = rng.randrange(len(items) + 1)
    # a next-line / matrix statement just before would swallow our first line: never split an item
    items.insert(pos, ("x", lines, {}))
    return "rej %s %s %s" % (mode, reason, hx(f.text(items)))


MUT_ALPHABET = " :*0123456789.abTOR\n-+e#\t"


def gen_mut(rng):
    pomdp = rng.random() < 0.5
    f = File(rng, pomdp).build()
    s = f.text()
    for _ in range(rng.choice([1, 1, 2, 3])):
        k = rng.choice(["del", "ins", "rep", "trunc", "dupline", "delline", "swap", "join"])
        if not s: break
        if k == "del":
            i = rng.randrange(len(s)); s = s[:i] + s[i + 1:]
        elif k == "ins":
            i = rng.randrange(len(s) + 1); s = s[:i] + rng.choice(MUT_ALPHABET) + s[i:]
        elif k == "rep":
            i = rng.randrange(len(s)); s = s[:i] + rng.choice(MUT_ALPHABET) + s[i + 1:]
        elif k == "trunc":
            s = s[:rng.randrange(len(s) + 1)]
        else:
            ls = s.split("\n")
            i = rng.randrange(len(ls))
            if k == "dupline": ls.insert(rng.randrange(len(ls) + 1), ls[i])
            elif k == "delline": del ls[i]
            elif k == "swap":
                j = rng.randrange(len(ls)); ls[i], ls[j] = ls[j], ls[i]
            else:
                if i + 1 < len(ls): ls[i:i + 2] = [ls[i] + " " + ls[i + 1]]
            s = "\n".join(ls)
    return "mut %s %s" % ("pomdp" if pomdp else "mdp", hx(s))


def gen_ovf(rng):
    pomdp = rng.random() < 0.5
    big = rng.choice(["4294967296", "9223372036854775808", "-1", "18446744073709551615", "8589934592", "2147483648000"])   # products wrap to 0..4 elements (never to gigabytes)
    if pomdp and rng.random() < 0.5:
        s = "states: 2\nactions: 1\nobservations: %s\n" % rng.choice(["4611686018427387904", "9223372036854775808", "-1"])
        s += rng.choice(["", "O: 0 : 1 : 1 0.5\n", "T: 0 : 0 : 0 1\n"])
    else:
        a = rng.choice(["1", "2", "4"] + ([] if big in ("-1", "18446744073709551615") else ["4294967296"]))
        s = "states: %s\nactions: %s\n" % (big, a)
        if pomdp: s += "observations: 2\n"
        s += rng.choice(["", "T: 0 : 0 : 0 1\n", "T: 0 : 5 : 5 0.5\n", "R: 0 : 1 : 1 : * 2\n", "T: 0 : 1 : 70000 1\n"])
    return "ovf %s %s" % ("pomdp" if pomdp else "mdp", hx(s))


def gen_two(rng):
    """one parser object, two texts: the first leaves name maps behind (or aborts half-way), the
       second declares by number, omits a declaration, or re-uses / permutes the same names"""
    p1 = rng.random() < 0.6
    f1 = File(rng, p1).build()
    for d in (f1.S, f1.A, f1.O):
        if d.names is None and rng.random() < 0.7: d.names = rng.sample(NAMES, d.n)
    f1 = f1.build()
    t1 = f1.text()
    if rng.random() < 0.3:
        t1 = t1[:rng.randrange(len(t1) + 1)]          # aborted first parse
    p2 = rng.random() < 0.5
    f2 = File(rng, p2)
    k = rng.random()
    if k < 0.35:
        f2.S.names = f2.A.names = f2.O.names = None    # numeric re-declaration after names
    elif k < 0.6:                                      # same names, other order / other sizes
        for d, d1 in ((f2.S, f1.S), (f2.A, f1.A), (f2.O, f1.O)):
            if d1.names:
                pool = list(d1.names) + [x for x in NAMES if x not in d1.names]
                d.names = rng.sample(pool[:max(d.n, len(d1.names))], d.n) if len(pool) >= d.n else None
    f2.build()
    items = list(f2.items)
    if rng.random() < 0.25:                            # second file lacks a declaration
        drop = rng.choice(["states ", "actions ", "obs "])
        items = [it for it in items if not it[0].startswith(drop)]
        # statements may now use names the stale maps still know
    t2 = f2.text(items)
    if rng.random() < 0.3 and f1.S.names:              # a statement using a name only the first file declared
        t2 += "T: %s : %s : %s 0.5\n" % (rng.choice(["*", "0"]), rng.choice(f1.S.names), rng.choice(["*", "0"]))
    return "two %s %s %s %s" % ("pomdp" if p2 else "mdp", "pomdp" if p1 else "mdp", hx(t1), hx(t2))


DISTS = {1: [["1"], ["1.0"], ["1e0"]],
         2: [["0.5", "0.5"], ["1", "0"], ["0.25", "0.75"], ["0", "1.0"], ["0.1", "0.9"], ["0.3", "0.7"], ["0.5", "0.500000001"]],
         3: [["0.5", "0.25", "0.25"], ["1", "0", "0"], ["0.125", "0.125", "0.75"], ["0.1", "0.2", "0.7"], ["0.3", "0.3", "0.4"], ["0", "0.5", ".5"]]}
BAD_ROWS = {1: [["0.5"], ["2"], ["-1"], ["nan"], ["inf"], ["0"], ["1.001"]],
            2: [["0.5", "0.25"], ["1", "1"], ["-0.5", "1.5"], ["nan", "1"], ["0.5", "0.501"], ["0", "0"], ["inf", "0"], ["1.5", "-0.5"]],
            3: [["0.5", "0.25", "0.125"], ["1", "0", "1"], ["-0.25", "0.5", "0.75"], ["0.5", "nan", "0.5"], ["0.3", "0.3", "0.3"], ["0", "0", "0"]]}


def spell(dim, k, rng):
    if dim.names is not None and (rng.random() < 0.7 or str(k) in dim.names):
        return dim.names[k]
    forms = ["%d", "+%d", "0%d"] + (["-%d"] if k == 0 else [])
    for sp in rng.sample(forms, len(forms)):
        t = sp % k
        if dim.names is None or t not in dim.names: return t
    return dim.names[k]


def gen_load(rng):
    """a complete model file (every row of T and, for a POMDP, of O a distribution) for the public
       entry points MDP::parseCassandra / POMDP::parseCassandra, or the same with one invalid row /
       a missing row / an invalid discount"""
    pomdp = rng.random() < 0.5
    f = File(rng, pomdp)
    f.S = Dim(rng, 1, 3); f.A = Dim(rng, 1, 2); f.O = Dim(rng, 1, 3)
    S, A, O = f.S, f.A, f.O
    rows = {}
    for a in range(A.n):
        for s in range(S.n):
            rows[("T", a, s)] = list(rng.choice(DISTS[S.n]))
            if pomdp: rows[("O", a, s)] = list(rng.choice(DISTS[O.n]))
    disc = rng.choice(["0.5", "0.95", "1", "0.75", "1.0", "0.9"])
    label = "ok"
    if rng.random() < 0.5:
        label = "bad"
        k = rng.choice(["row", "row", "row", "missing", "discount"])
        key = rng.choice(sorted(rows))
        if k == "row":
            n = S.n if key[0] == "T" else O.n
            rows[key] = list(rng.choice(BAD_ROWS[n]))
        elif k == "missing":
            del rows[key]
        else:
            disc = rng.choice(["0", "1.5", "-0.5", "nan", "inf", "1.000001", "-1"])
    lines = []
    lines.append("states" + colon(rng) + S.decl_text(rng))
    lines.append("actions" + colon(rng) + A.decl_text(rng))
    if pomdp or rng.random() < 0.3: lines.append("observations" + colon(rng) + O.decl_text(rng))
    if disc != "1" or rng.random() < 0.5: lines.append("discount" + colon(rng) + disc)
    body = []
    keys = sorted(rows); rng.shuffle(keys)
    done = set()
    for key in keys:
        if key in done: continue
        t, a, s = key
        allrows = [(t, a, x) for x in range(S.n)]
        if rng.random() < 0.3 and all(k2 in rows and k2 not in done for k2 in allrows):
            body.append([head(rng, t) + colon(rng) + spell(A, a, rng)] + [gap(rng).join(rows[k2]) for k2 in allrows])
            done.update(allrows)
        elif rng.random() < 0.5:
            body.append([head(rng, t) + colon(rng) + spell(A, a, rng) + colon(rng) + spell(S, s, rng) + gap(rng) + gap(rng).join(rows[key])]); done.add(key)
        else:
            body.append([head(rng, t) + colon(rng) + spell(A, a, rng) + colon(rng) + spell(S, s, rng), gap(rng).join(rows[key])]); done.add(key)
    for _ in range(rng.randint(0, 3)):
        body.append([head(rng, "R") + colon(rng) + rng.choice(["*", spell(A, rng.randrange(A.n), rng)]) + colon(rng)
                     + rng.choice(["*", spell(S, rng.randrange(S.n), rng)]) + colon(rng) + rng.choice(["*", spell(S, rng.randrange(S.n), rng)])
                     + colon(rng) + "*" + gap(rng) + rng.choice(["1", "-1", "2.5", "10", "0.5", "-0.25"])])
    rng.shuffle(body)
    text = "\n".join(lines + [l for b in body for l in b]) + "\n"
    return "load %s %s %s" % ("pomdp" if pomdp else "mdp", label, hx(text))


def gen(rng, tier):
    n = {"quick": 1500, "thorough": 8000, "search": 2000}[tier]
    out = []
    for _ in range(n):
        r = rng.random()
        if r < 0.58: out.append(gen_wf(rng))
        elif r < 0.78: out.append(gen_rej(rng))
        elif r < 0.84: out.append(gen_mut(rng))
        elif r < 0.91: out.append(gen_load(rng))
        elif r < 0.98: out.append(gen_two(rng))
        else: out.append(gen_ovf(rng))
    return out
