"""props/C09.py — descriptor for property C09 (every policy is a coherent probability distribution)."""
REPO_SRCS = [
    "src/Seeder.cpp",
    "src/Bandit/Policies/QGreedyPolicy.cpp",
    "src/Bandit/Policies/EpsilonPolicy.cpp",
    "src/Bandit/Policies/LRPPolicy.cpp",
    "src/MDP/Policies/QGreedyPolicy.cpp",
    "src/MDP/Policies/QPolicyInterface.cpp",
    "src/Bandit/Policies/QSoftmaxPolicy.cpp",
    "src/MDP/Policies/QSoftmaxPolicy.cpp",
    "src/Bandit/Experience.cpp",
    "src/Bandit/Policies/ThompsonSamplingPolicy.cpp",
    "src/Bandit/Policies/TopTwoThompsonSamplingPolicy.cpp",
    "src/Bandit/Policies/T3CPolicy.cpp",
    "src/MDP/Policies/WoLFPolicy.cpp",
    "src/MDP/Policies/PGAAPPPolicy.cpp",
    "src/Bandit/Policies/ESRLPolicy.cpp",
    "src/Bandit/Policies/SuccessiveRejectsPolicy.cpp",
    "src/Bandit/Policies/RandomPolicy.cpp",
    "src/MDP/Policies/Policy.cpp",
    "src/MDP/Policies/PolicyWrapper.cpp",
    "src/Utils/Probability.cpp",
    "src/MDP/Policies/EpsilonPolicy.cpp",
    "src/Factored/Bandit/Policies/RandomPolicy.cpp",
    "src/Factored/Bandit/Policies/SingleActionPolicy.cpp",
    "src/Factored/Utils/Core.cpp",
]
AXIOM_ALLOW = []
TRUSTED_BASE = [
    "random draws are inputs of the models: the harness copies the policy's mt19937 before each call and replays the same std:: distribution on the copy (libstdc++ distributions are stateless)",
    "1.0/count, eps/A and the LRP updates are rounded in C++ and exact in the model: bit-exact comparison only on dyadic cases (flag x), 1e-9 otherwise",
]
ASSUMPTIONS = [
    "Q-values: exact ties or separated by more than the library's checkEqualGeneral tolerance (boolean predicate separatedb, checked by the driver on every case)",
    "std::uniform_real_distribution<double>(0,1) returns values in [0,1); uniform_int_distribution(0,n-1) returns values in [0,n-1]",
    "actions passed to stepUpdateP / getActionProbability are in range (the C++ does not check them)",
    "values given to unchecked setters are in the documented domain (LRP a,b in [0,1]; WoLF deltas >= 0, scaling > 0; ESRL a in [0,1], window >= 1)",
    "SuccessiveRejects: budget >= A; n_k compared with the exact ceiling only when the quotient is not within 1e-6 of an integer",
]
RULE = ("cases from props/C09.py gen(): Q-vectors on a k/16 grid of any sign with forced exact ties and shifts by +-1000; "
        "epsilon / temperature / learning-rate grids incl. 0 and 1 and random doubles; LRP histories of 0..25 updates; WoLF and "
        "PGA-APP stepUpdateP histories (PGA-APP: vertex regime with large learning rates, slow regime lRate~0.002 with 60-100 "
        "updates, random doubles); every public setter (setAParam/setBParam, setEpsilon, setTemperature, setDeltaW/L, setScaling, "
        "setLearningRate, setPredictionLength, ESRL setters) interleaved with the updates, out-of-range values included; "
        "Thompson / TopTwo / T3C on recorded experiences (all-negative rewards included); ESRL phase machine and "
        "SuccessiveRejects schedule against their models; Random at oracle level (kind rnd) and, round 6, Bandit/MDP RandomPolicy (brnd/mrnd: table, queries, distribution bounds, replayed draw), Factored::Bandit::RandomPolicy + Factored::MDP::BanditPolicyAdaptor (frnd) and Factored::Bandit::SingleActionPolicy (fsa) against their models with the probabilities of EVERY joint action summed; non-trivial = ties present or maximiser not at index 0 (greedy), 0<eps<1 "
        "(epsilon), at least one update (LRP/WoLF/PGA-APP), T>1e-6 (softmax), all arms explored (Thompson), a phase change "
        "(ESRL/SR); distinct by md5 of the case line")
THOROUGH_SEEDS = 3


def L(xs):
    return "%d %s" % (len(xs), " ".join(map(str, xs))) if xs else "0"


def dy(num, den):
    return "%d/%d" % (num, den)


def pow2(n):
    return n > 0 and (n & (n - 1)) == 0


def gen_q(rng, A):
    """separated Q-values on a k/16 grid, any sign, with forced exact ties; returns (tokens, ints*16)"""
    mode = rng.choice(["neg", "pos", "mixed", "mixed", "big"])
    lo, hi = {"neg": (-160, -1), "pos": (1, 160), "mixed": (-80, 80), "big": (-16000, 16000)}[mode]
    vals = [rng.randint(lo, hi) for _ in range(A)]
    # force ties with the maximum (and sometimes among others)
    t = rng.choice([0, 0, 1, 1, 2, 3])
    m = max(vals)
    for _ in range(t):
        vals[rng.randrange(A)] = m
    if rng.random() < 0.2 and A > 2:
        i, j = rng.sample(range(A), 2)
        vals[i] = vals[j]
    if rng.random() < 0.15 and A > 2:
        # ties among lower values first, a strictly larger value later (the tie count must be reset)
        k = rng.randint(2, A - 1)
        low = min(vals) - rng.randint(1, 40)
        for i in range(k): vals[i] = low
    return vals


def q_tokens(vals):
    return [dy(v, 16) for v in vals]


def ties_of(vals):
    m = max(vals)
    return sum(1 for v in vals if v == m)


EPS_GRID = ["0", "1", "1/2", "1/4", "1/8", "3/4", "1/16", "7/8"]
AB_GRID = ["0", "1", "1/2", "1/4", "3/4", "1/8"]


def rand_unit(rng):
    return float(rng.random()).hex()


def gen_gr(rng):
    A = rng.choice([1, 2, 2, 3, 3, 4, 4, 5, 6, 8])
    vals = gen_q(rng, A)
    sh = rng.choice(["1000", "-1000", "1000", "-1000", "1/4", "-37/8", "0"])
    flag = "x" if pow2(ties_of(vals)) else "c"
    return "gr %s %s %s %d %d" % (flag, L(q_tokens(vals)), sh, rng.randrange(1 << 30), rng.choice([1, 2, 3]))


def gen_esets(rng, eps, flag):
    """a list of setEpsilon calls applied after construction (values outside [0,1] must throw and
       change nothing); the constructor value is then only a starting point"""
    n = rng.choice([0, 0, 1, 2, 3])
    sets = []
    for _ in range(n):
        if rng.random() < 0.7:
            sets.append(rng.choice(EPS_GRID + ["-1/4", "5/4", "-1", "2"]))
        else:
            sets.append(rng.choice([rand_unit(rng), "-0x1p-3", "0x1.8p0"])); flag = "c"
    return sets, eps, flag


def gen_epg(rng):
    A = rng.choice([1, 2, 2, 3, 4, 4, 5, 8])
    vals = gen_q(rng, A)
    if rng.random() < 0.7:
        eps = rng.choice(EPS_GRID)
        flag = "x" if pow2(A) and pow2(ties_of(vals)) else "c"
    else:
        eps = rand_unit(rng); flag = "c"
    esets, eps, flag = gen_esets(rng, eps, flag)
    return "epg %s %s %s %s %d %d" % (flag, L(q_tokens(vals)), eps, L(esets), rng.randrange(1 << 30), rng.choice([1, 2, 4]))


def gen_mgr(rng):
    S = rng.choice([1, 2, 3, 4])
    A = rng.choice([2, 3, 4, 4, 5])
    rows = [gen_q(rng, A) for _ in range(S)]
    if rng.random() < 0.7:
        eps = rng.choice(EPS_GRID)
        flag = "x" if pow2(A) and all(pow2(ties_of(r)) for r in rows) else "c"
    else:
        eps = rand_unit(rng); flag = "c"
    toks = []
    for r in rows:
        toks += q_tokens(r)
    esets, eps, flag = gen_esets(rng, eps, flag)
    return "mgr %s %d %d %s %s %s %d" % (flag, S, A, " ".join(toks), eps, L(esets), rng.randrange(1 << 30))


def gen_lrp(rng, tier):
    """LRP histories: stepUpdateP interleaved with setAParam / setBParam; then an EpsilonPolicy around
       the learned policy receives a list of setEpsilon calls (some outside [0,1], which must throw)."""
    A = rng.choice([2, 2, 3, 4, 4, 5, 7])
    dyadic = rng.random() < 0.6
    setters = rng.random() < 0.6
    if dyadic:
        val = lambda: rng.choice(AB_GRID)
        a = val(); b = rng.choice(AB_GRID + ["0", "0"]); eps = rng.choice(EPS_GRID)
        nops = rng.choice([0, 1, 2, 3, 5, 8, 10])
    else:
        val = lambda: rand_unit(rng)
        a = val(); b = val(); eps = rand_unit(rng)
        nops = rng.choice([1, 3, 6, 12, 25 if tier != "quick" else 12])
    ops = []; bs = [b]
    for _ in range(nops):
        r = rng.random()
        if setters and r < 0.15:
            ops.append("a %s" % val())
        elif setters and r < 0.35:
            v = val(); bs.append(v); ops.append("b %s" % v)
        else:
            # penalties are what exercises invB/divB: make them as likely as rewards
            ops.append("u %d %d" % (rng.randrange(A), rng.randrange(2)))
    flag = "x" if dyadic and (A == 2 or (all(x == "0" for x in bs) and pow2(A))) else "c"
    esets = [rng.choice(EPS_GRID + ["-1/4", "5/4", "2", "-1"]) if dyadic else rng.choice([rand_unit(rng), "-0x1p-3", "0x1.8p0"])
             for _ in range(rng.choice([0, 0, 1, 2, 3]))]
    return "lrp %s %d %s %s %s %d %s %s %d %d" % (flag, A, a, b, eps, nops, " ".join(ops), L(esets),
                                                 rng.randrange(1 << 30), rng.choice([1, 2, 3]))


from fractions import Fraction as Fr

T_GRID = ["1", "1", "1/2", "2", "4", "10", "100", "1/4", "1/16", "0", "1/4194304"]


def regime(vals16, T, sh):
    """'under' if for q or q+sh the largest exponent max/T is <= -15 (where the code before d617783 lost the
       distribution), else 'ok'.  No case is rejected any more: /repo subtracts the row maximum, so shifts
       by +-1000 at T = 1 (exponents of +-1000) are legitimate inputs."""
    if T <= Fr(1, 1000000):
        return "ok"
    for c in (Fr(0), sh):
        m = max(Fr(v, 16) + c for v in vals16) / T
        if m <= -15:
            return "under"
    return "ok"


def gen_softmax(rng, want):
    """/repo now subtracts the maximum before exponentiating, so no regime restriction is needed any
       more: 'smx' = moderate exponents, 'smu' = exponents <= -15 (where the unrepaired code failed).
       A list of setTemperature calls (negative ones must throw) is applied after construction; the
       regime is decided by the temperature finally in force."""
    for _ in range(200):
        A = rng.choice([1, 2, 2, 3, 3, 4, 5, 6])
        vals = gen_q(rng, A)
        if want == "under" and rng.random() < 0.7:
            vals = [-abs(v) - rng.choice([16, 240, 320, 1600]) for v in vals]
        T0 = rng.choice(T_GRID)
        tsets = [rng.choice(T_GRID + ["-1", "-1/8"]) for _ in range(rng.choice([0, 0, 1, 2, 3]))]
        T = T0
        for t in tsets:
            if Fr(t) >= 0: T = t
        sh = rng.choice(["1000", "-1000", "1/4", "-37/8", "0", "2", "-2", "-20", "-100"])
        reg = regime(vals, Fr(T), Fr(sh))
        if reg == want:
            return "%s c %s %s %s %s %d %d" % ("smx" if want == "ok" else "smu", T0, L(tsets), L(q_tokens(vals)), sh,
                                               rng.randrange(1 << 30), rng.choice([1, 2, 3]))
    return "smx c 1 0 2 0 1/2 0 1 1"


def gen_thompson(rng, kind):
    """ts/tt: one anchor arm has identical positive rewards (posterior sample = its mean > 0, exactly);
       tsn/ttn: every reward is negative (the regime where the unrepaired running maximum never moves)."""
    A = rng.choice([2, 3, 3, 4, 5])
    neg = kind.endswith("n")
    recs = []
    anchor = rng.randrange(A)
    under = rng.random() < 0.15          # leave one arm under-explored
    skip = rng.randrange(A) if under else -1
    for a in range(A):
        n = rng.choice([2, 3, 5, 8])
        if a == skip:
            n = rng.choice([0, 1])
        if kind.startswith("tt"):      # overlapping posteriors, so that a second-best arm exists
            base = rng.randint(12, 22)
            if neg: base = -base
        else:
            base = rng.randint(-40, 40)
            if neg: base = -abs(base) - 40
        for _ in range(n):
            if a == anchor and not neg:
                recs.append((a, dy(64 + 16 * (anchor % 3), 16)))
            else:
                recs.append((a, dy(base * 4 + rng.randint(-12, 12), 16)))
    rng.shuffle(recs)
    beta = rng.choice(["1/2", "1/4", "3/4", "0", "1"])
    return "%s %d %d %s %s %d %d" % (kind, A, len(recs), " ".join("%d %s" % r for r in recs), beta,
                                     rng.randrange(1 << 30), rng.choice([1, 2, 4]))


def gen_t3c(rng):
    """T3C: per-arm reward sequences (some arms get the very same sequence, or all-higher means, so that
       exact cost ties and zero costs occur); records are interleaved keeping each arm's own order."""
    A = rng.choice([2, 3, 3, 4, 5])
    seqs = []
    for a in range(A):
        n = rng.choice([2, 3, 5, 8]) if rng.random() > 0.1 else rng.choice([0, 1])
        base = rng.randint(8, 24) * rng.choice([1, 1, -1])
        seqs.append([dy(base * 4 + rng.randint(-12, 12), 16) for _ in range(n)])
    if A > 2 and rng.random() < 0.5:
        i, j = rng.sample(range(A), 2)
        seqs[j] = list(seqs[i])
    queues = [list(s) for s in seqs]
    recs = []
    while any(queues):
        a = rng.choice([i for i in range(A) if queues[i]])
        recs.append((a, queues[a].pop(0)))
    beta = rng.choice(["1/2", "1/4", "3/4", "0", "0", "1"])
    var = rng.choice(["1", "1/4", "4", "25"])
    return "t3c %d %d %s %s %s %d %d" % (A, len(recs), " ".join("%d %s" % r for r in recs), beta, var,
                                        rng.randrange(1 << 30), rng.choice([1, 2, 4]))


def gen_msm(rng):
    """multi-state Q-table whose rows sit at very different offsets relative to the temperature
       (row r shifted by -k*T*c, c = 100..3000, or by +-1000): per state, table == queries"""
    S = rng.choice([2, 2, 3, 4]); A = rng.choice([2, 3, 3, 4, 5])
    T = rng.choice(["1", "1/2", "1/4", "1/16", "1/64", "2", "10", "0"])
    rows = [gen_q(rng, A) for _ in range(S)]
    toks = []
    for r in rows:
        toks += q_tokens(r)
    Tf = Fr(T) if Fr(T) > 0 else Fr(1)
    mode = rng.choice(["down", "down", "mixed", "pm1000"])
    offs = []
    ks = list(range(S)); rng.shuffle(ks)
    for r in range(S):
        if mode == "down": o = -ks[r] * Tf * rng.choice([100, 300, 1000, 3000])
        elif mode == "mixed": o = rng.choice([-1, 1, 0]) * Tf * rng.choice([100, 800, 2000])
        else: o = Fr(rng.choice([-1000, 0, 1000]))
        if abs(o) > 9000: o = Fr(9000) * (1 if o > 0 else -1)
        offs.append("%d/%d" % (o.numerator, o.denominator))
    eps = rng.choice(EPS_GRID)
    return "msm %s %d %d %s %s %s %d" % (T, S, A, " ".join(toks), L(offs), eps, rng.randrange(1 << 30))


def gen_wolf(rng, tier):
    S = rng.choice([1, 2, 3])
    A = rng.choice([2, 2, 4, 4, 4, 3, 5, 8])
    rows = [gen_q(rng, A) for _ in range(S)]
    toks = []
    for r in rows:
        toks += q_tokens(r)
    if rng.random() < 0.3:
        dw = dl = rng.choice(["1/8", "1/2", "1/64", "0"])
    else:
        dw = rng.choice(["1/80", "1/16", "1/4", "0", "3/2"]); dl = rng.choice(["1/20", "1/8", "1/2", "1", "3"])
    sc = rng.choice(["5000", "4", "1", "1/2"])
    nops = rng.choice([0, 1, 2, 4, 8, 16 if tier != "quick" else 8])
    setters = rng.random() < 0.5
    ops = []
    for _ in range(nops):
        r = rng.random()
        if setters and r < 0.12: ops.append("w %s" % rng.choice(["1/80", "1/16", "1/4", "0", "3/2", "1/8"]))
        elif setters and r < 0.24: ops.append("l %s" % rng.choice(["1/20", "1/8", "1/2", "1", "3"]))
        elif setters and r < 0.33: ops.append("s %s" % rng.choice(["5000", "4", "1", "1/2", "16"]))
        else: ops.append("u %d" % rng.randrange(S))
    return "wolf %d %d %s %s %s %s %d %s %d" % (S, A, " ".join(toks), dw, dl, sc, len(ops), " ".join(ops), rng.randrange(1 << 30))


def gen_mpol(rng):
    """MDP::Policy built from a matrix: valid tables, one bad row, COMPENSATING bad rows (row sums 1-d and
       1+d), column-stochastic ("transposed") square tables, all mass in one state, a negative entry made
       up for elsewhere.  Row sums are exactly one or at least 1/64 away from it."""
    S = rng.choice([1, 2, 2, 3, 3]); A = rng.choice([2, 3, 4])
    def valid_row():
        w = [rng.choice([0, 0, 1, 2, 3, 5]) for _ in range(A)]
        if sum(w) == 0: w[rng.randrange(A)] = 1
        tot = sum(w); units = [64 * x // tot for x in w]; units[w.index(max(w))] += 64 - sum(units)
        return units
    rows = [valid_row() for _ in range(S)]
    mode = rng.choice(["valid", "valid", "onebad", "comp", "comp", "transposed", "onestate", "negcomp"])
    if mode == "onebad":
        r = rng.randrange(S); rows[r][rng.randrange(A)] += rng.choice([-1, 1, 8, 16]) * 1
        if min(rows[r]) < 0: rows[r] = [abs(x) for x in rows[r]]; rows[r][0] += 3
    elif mode == "comp" and S >= 2:
        i, j = rng.sample(range(S), 2); d = rng.choice([1, 4, 13, 32])
        a = max(range(A), key=lambda k: rows[i][k])
        if rows[i][a] >= d:
            rows[i][a] -= d; rows[j][rng.randrange(A)] += d
    elif mode == "transposed":
        A = S = rng.choice([2, 3]) if True else S
        cols = []
        for _ in range(A):
            w = [rng.choice([0, 1, 2, 3, 5]) for _ in range(S)]
            if sum(w) == 0: w[0] = 1
            tot = sum(w); u = [64 * x // tot for x in w]; u[w.index(max(w))] += 64 - sum(u); cols.append(u)
        rows = [[cols[a][s_] for a in range(A)] for s_ in range(S)]
    elif mode == "onestate" and S >= 2:
        rows = [[0] * A for _ in range(S)]
        rows[rng.randrange(S)] = [64 * S // A + (64 * S - (64 * S // A) * A if k == 0 else 0) for k in range(A)]
    elif mode == "negcomp":
        r = rng.randrange(S)
        a, b = rng.sample(range(A), 2)
        rows[r][a] -= (rows[r][a] + 4); rows[r][b] += 0   # a negative entry
        rows[r][b] += 64 - sum(rows[r])                    # row still sums to one
    toks = []
    for r in rows:
        toks += [dy(u, 64) for u in r]
    return "mpol %d %d %s %d" % (len(rows), len(rows[0]), " ".join(toks), rng.randrange(1 << 30))


def gen_pga(rng, tier):
    """histories that reach the boundary of the simplex: large learning rates / clear best actions /
       small prediction length (a vertex after one or two updates, then more updates), the slow
       regime (lRate ~0.002, predictionLength 1/2, 60-100 updates of one state), and random doubles."""
    mode = rng.choice(["vertex", "vertex", "slow", "rand"])
    S = rng.choice([1, 1, 2, 3]); A = rng.choice([2, 3, 3, 4, 5])
    rows = [gen_q(rng, A) for _ in range(S)]
    toks = []
    for r in rows:
        toks += q_tokens(r)
    if mode == "vertex":
        lr = rng.choice(["1/10", "1/4", "1/2", "1", "1/16"]); pl = rng.choice(["0", "1/2", "1", "3", "1/4"])
        nops = rng.choice([2, 3, 5, 8, 12])
        ops = [rng.randrange(S) for _ in range(nops)]
    elif mode == "slow":
        lr = rng.choice(["1/512", "1/256", "0x1.0624dd2f1a9fcp-9"]); pl = rng.choice(["1/2", "1/2", "1/4", "0", "3"])
        nops = rng.choice([60, 80, 100]) if tier != "search" else 60
        s0 = rng.randrange(S)
        ops = [s0 if rng.random() < 0.9 else rng.randrange(S) for _ in range(nops)]
    else:
        lr = float(rng.random() * rng.choice([0.01, 0.1, 1.0])).hex(); pl = float(rng.random() * 4).hex()
        nops = rng.choice([1, 4, 10, 20])
        ops = [rng.randrange(S) for _ in range(nops)]
    toks_ops = []
    setters = rng.random() < 0.4
    for s_ in ops:
        r = rng.random()
        if setters and r < 0.06: toks_ops.append("r %s" % rng.choice(["1/10", "1/4", "1/2", "1/512", "-1/4", "0"]))
        elif setters and r < 0.12: toks_ops.append("p %s" % rng.choice(["0", "1/2", "1", "3", "-1", "1/4"]))
        toks_ops.append("u %d" % s_)
    return "pga %d %d %s %s %s %d %s %d" % (S, A, " ".join(toks), lr, pl, len(toks_ops), " ".join(toks_ops), rng.randrange(1 << 30))


def gen_pga_qswitch(rng, tier):
    """the policy only holds a reference to the Q-function: drive a state onto a face / vertex of the
       simplex with a clear best action and a large learning rate, then rewrite its Q-values (op q) —
       one action gets the value that makes its gradient (about) zero (op z) — and update again; repeated.
       After such a switch the gradient step can leave a row with no negative entry and a sum above one."""
    S = rng.choice([1, 1, 2]); A = rng.choice([3, 4, 4, 5, 6])
    rows = [gen_q(rng, A) for _ in range(S)]
    toks = []
    for r in rows:
        toks += q_tokens(r)
    lr = rng.choice(["1/4", "1/8", "1/2", "0x1.999999999999ap-3", "1/16", "0x1.999999999999ap-5"])
    pl = rng.choice(["0", "0", "1/2", "1", "3"])
    ops = []
    s0 = rng.randrange(S)
    if rng.random() < 0.5:      # a clear best action first
        b = rng.randrange(A)
        for a in range(A): ops.append("q %d %d %s" % (s0, a, "1" if a == b else rng.choice(["-1", "0", "0", "-1/2"])))
    for _ in range(rng.choice([6, 10, 12, 14])): ops.append("u %d" % s0)
    for _ in range(rng.choice([1, 2, 3, 4])):
        z = rng.randrange(A)
        for a in range(A):
            if a != z: ops.append("q %d %d %s" % (s0, a, rng.choice(["1", "1", "-1", "1/2", "-1/2", "0", dy(rng.randint(-32, 32), 16)])))
        ops.append("z %d %d %s" % (s0, z, rng.choice(["0", "0", "1/64", "1/16", "-1/64"])))
        for _ in range(rng.choice([1, 1, 2, 3])): ops.append("u %d" % s0)
        if S > 1 and rng.random() < 0.3: ops.append("u %d" % (1 - s0))
    return "pga %d %d %s %s %s %d %s %d" % (S, A, " ".join(toks), lr, pl, len(ops), " ".join(ops), rng.randrange(1 << 30))


def gen_pga_qsweep(rng, tier):
    """random rewrites of a whole Q row every few updates (larger learning rates, >= 3 actions)"""
    A = rng.choice([3, 4, 6]); S = 1
    toks = q_tokens(gen_q(rng, A))
    lr = rng.choice(["1/4", "0x1.999999999999ap-3", "0x1.999999999999ap-5", "1/16"]); pl = rng.choice(["0", "1", "3"])
    ops = []
    n = 40 if tier == "quick" else 80
    for i in range(n):
        if i % 8 == 0:
            for a in range(A): ops.append("q 0 %d %s" % (a, dy(rng.randint(-16, 16), 16)))
        ops.append("u 0")
    return "pga %d %d %s %s %s %d %s %d" % (S, A, " ".join(toks), lr, pl, len(ops), " ".join(ops), rng.randrange(1 << 30))


def gen_esrl(rng):
    A = rng.choice([2, 3, 4, 5])
    a = rng.choice(AB_GRID + [rand_unit(rng)])
    N = rng.choice([1, 2, 3, 5]); phases = rng.choice([1, 2, 3, A, A + 2]); window = rng.choice([1, 2, 4])
    nops = rng.choice([3, 8, 15, 30])
    setters = rng.random() < 0.5
    ops = []
    for _ in range(nops):
        r = rng.random()
        if setters and r < 0.08: ops.append("a %s" % rng.choice(AB_GRID))
        elif setters and r < 0.14: ops.append("t %d" % rng.choice([1, 2, 4]))
        elif setters and r < 0.20: ops.append("e %d" % rng.choice([0, 1, 2, A + 1]))
        elif setters and r < 0.25: ops.append("w %d" % rng.choice([1, 2, 8]))
        else: ops.append("u %d %d" % (rng.randrange(A), rng.randrange(2)))
    return "esrl %d %s %d %d %d %d %s %d" % (A, a, N, phases, window, nops, " ".join(ops), rng.randrange(1 << 30))


def gen_sr(rng):
    A = rng.choice([2, 3, 4, 5])
    budget = A + rng.choice([0, 1, 3, 8, 20, 40])
    n = rng.choice([5, 15, 40, 70])
    rews = [dy(rng.randint(-64, 64), 16) for _ in range(n)]
    return "sr %d %d %s %d" % (A, budget, L(rews), rng.randrange(1 << 30))


def gen_rnd(rng):
    return "rnd %d %d %d" % (rng.choice([1, 2, 3, 5, 8]), rng.choice([1, 3, 6]), rng.randrange(1 << 30))


def gen_brnd(rng):
    return "brnd %d %d %d" % (rng.choice([1, 2, 3, 4, 5, 7, 8, 16]), rng.choice([1, 4, 12, 30]), rng.randrange(1 << 30))


def gen_mrnd(rng):
    return "mrnd %d %d %d %d" % (rng.choice([1, 2, 3, 5, 9]), rng.choice([1, 2, 3, 4, 5, 7, 8]), rng.choice([1, 4, 12, 30]), rng.randrange(1 << 30))


def _space(rng):
    while True:
        A = [rng.choice([1, 2, 2, 3, 4, 5]) for _ in range(rng.choice([1, 2, 2, 3, 3, 4]))]
        n = 1
        for x in A: n *= x
        if n <= 96: return A


def gen_frnd(rng):
    A = _space(rng)
    S = [rng.choice([1, 2, 3]) for _ in range(rng.choice([1, 2, 3]))]
    return "frnd %s %s %d %d" % (L(A), L(S), rng.choice([1, 4, 10]), rng.randrange(1 << 30))


def gen_fsa(rng):
    A = _space(rng)
    nu = rng.choice([0, 1, 3, 6])
    ups = [[rng.randrange(x) for x in A] for _ in range(nu)]
    return "fsa %s %d %s" % (L(A), nu, " ".join(L(u) for u in ups))


def gen(rng, tier):
    n = {"quick": 900, "thorough": 4500, "search": 1500}[tier]
    out = []
    for _ in range(n):
        k = rng.choice(["gr", "gr", "epg", "mgr", "lrp", "lrp", "smx", "smx", "smu", "ts", "tsn", "tt", "ttn", "wolf", "wolf", "mpol", "pga", "pga", "pga", "esrl", "sr", "rnd", "brnd", "mrnd", "frnd", "fsa", "t3c", "msm", "msm"])
        if k == "gr": out.append(gen_gr(rng))
        elif k == "epg": out.append(gen_epg(rng))
        elif k == "mgr": out.append(gen_mgr(rng))
        elif k == "lrp": out.append(gen_lrp(rng, tier))
        elif k == "smx": out.append(gen_softmax(rng, "ok"))
        elif k == "smu": out.append(gen_softmax(rng, "under"))
        elif k == "wolf": out.append(gen_wolf(rng, tier))
        elif k == "mpol": out.append(gen_mpol(rng))
        elif k == "pga":
            m = rng.random()
            out.append(gen_pga(rng, tier) if m < 0.5 else gen_pga_qswitch(rng, tier) if m < 0.85 else gen_pga_qsweep(rng, tier))
        elif k == "esrl": out.append(gen_esrl(rng))
        elif k == "sr": out.append(gen_sr(rng))
        elif k == "rnd": out.append(gen_rnd(rng))
        elif k == "brnd": out.append(gen_brnd(rng))
        elif k == "frnd": out.append(gen_frnd(rng))
        elif k == "fsa": out.append(gen_fsa(rng))
        elif k == "mrnd": out.append(gen_mrnd(rng))
        elif k == "t3c": out.append(gen_t3c(rng))
        elif k == "msm": out.append(gen_msm(rng))
        else: out.append(gen_thompson(rng, k))
    return [" ".join(c.split()) for c in out]
