"""props/C17.py — descriptor for property C17 (saved models, experiences and policies load back
identically; a failed load signals it and leaves the destination untouched)."""
import struct
from fractions import Fraction

REPO_SRCS = [
    "src/Utils/IO.cpp", "src/MDP/IO.cpp", "src/POMDP/IO.cpp",
    "src/MDP/Model.cpp", "src/MDP/SparseModel.cpp", "src/MDP/Experience.cpp", "src/MDP/SparseExperience.cpp",
    "src/MDP/Policies/Policy.cpp", "src/MDP/Policies/PolicyWrapper.cpp", "src/POMDP/Policies/Policy.cpp",
    "src/POMDP/Utils.cpp", "src/Utils/Probability.cpp", "src/Seeder.cpp", "src/Tools/CassandraParser.cpp",
]
AXIOM_ALLOW = []
THOROUGH_SEEDS = 3
RULE = ("random objects of all eight kinds (MDP::Model, SparseModel, Experience, SparseExperience, MDP::Policy, "
        "POMDP::Model, POMDP::SparseModel, POMDP::Policy with horizon 0..4), dyadic and general (random 53-bit "
        "mantissa, incl. subnormal/huge) values; each object is written with the real operator<<, read back into a "
        "destination pre-filled with different content — once as written and once with the trailing whitespace stripped "
        "(last number = last byte of the stream) —, then every token-level truncation (ending at a token's last character), a list of random "
        "single-token corruptions and (one case in four) every position x vocabulary corruption is loaded; "
        "plus `fmt` cases: the object is written through a stream whose formatting state the caller preset (precision "
        "0..25, scientific/showpos/showpoint/uppercase/left/right/showbase/boolalpha/unitbuf, pending width) and must load "
        "back identically; values include 17-significant-digit results of arithmetic (0.1+0.2, 1/3, ...) and probability rows "
        "that sum to 1 only within the library tolerance (off by up to 9.5e-7); "
        "non-trivial = the written text has more than two tokens")
TRUSTED_BASE = [
    "H_digits17: reading the max_digits10 (17 significant digits) decimal rendering of a double returns that double "
    "(hypothesis of the round-trip theorems, exercised by every general-regime case)",
    "driver.ml emulation of libstdc++ num_get/num_put (read_double, read_ulong, %.17g) instantiating the abstract tokens; "
    "checked against the real streams on every case",
    "whitespace layout (spaces/newlines, Eigen column padding) is not modelled: a stream is its token list",
    "Q has no negative zero, NaN or infinity: generators emit finite non-negative-zero doubles; std::istream rejects nan/inf",
    "isProbability row sums are exact in the model and rounded in C++ (generated rows are exact, or off by at most 9.5e-7: never within 5e-8 of the 1e-6 tolerance)",
]
ASSUMPTIONS = [
    "objects satisfy their class invariants (shapes match S/A/O, transition/observation/policy rows are probabilities, "
    "discount in (0,1], Experience::visitsSum_ equals the row sums of visits_, sparse storage sorted without duplicates)",
    "POMDP::Policy: horizon 0 is the makeValueFunction entry, later horizons non-empty, observation links < size of the previous horizon",
]

VOCAB = ["x", "@", "7", "0", "1", "-3", "0.5", "1.5", "2e-1", "99999", "<del>", "1e999",
         "18446744073709551616", "0.5x", "@2", ".5", "1e", "3@", "-1e-3", "+2", "0+0+0+0+0+0", "1-1+1"]


def hexf(x):
    return float.hex(float(x))


def dyadic(rng, signed=True):
    j = rng.choice([0, 0, 1, 2, 3])
    k = rng.randint(0, 40)
    if signed and rng.random() < 0.4:
        k = -k
    return "%d/%d" % (k, 2 ** j)


def general(rng, signed=True):
    r = rng.random()
    if rng.random() < 0.15:
        return tricky(rng, signed)
    if r < 0.03:
        v = struct.unpack("<d", struct.pack("<Q", rng.randint(1, 2 ** 52 - 1)))[0]       # subnormal
    elif r < 0.06:
        v = rng.uniform(1.0, 1.7) * 1e308
    elif r < 0.5:
        v = rng.uniform(0, 100)
    else:
        m = rng.randint(2 ** 52, 2 ** 53 - 1)
        v = float(m) * 2.0 ** rng.randint(-90, 20)
    if signed and rng.random() < 0.4:
        v = -v
    if v == 0.0:
        v = 0.0
    return hexf(v)


def prob_row(rng, n, gen):
    if not gen:
        j = rng.choice([0, 1, 2, 3, 4])
        cells = [0] * n
        for _ in range(2 ** j):
            cells[rng.randrange(n)] += 1
        return ["%d/%d" % (c, 2 ** j) for c in cells]
    w = [rng.random() if rng.random() < 0.8 else 0.0 for _ in range(n)]
    if sum(w) == 0.0:
        w[rng.randrange(n)] = 1.0
    s = sum(w)
    row = [x / s for x in w]
    r = rng.random()
    if r < 0.35:
        # a row that is a distribution only within the library's tolerance (|sum - 1| <= 1e-6, absolute):
        # legal for the validating constructors and for isProbability, so it must load back
        cand = list(row)
        if r < 0.12:
            cand = [round(x, 7) for x in row]                 # 0.3333333 x 3
        elif r < 0.2:
            cand = [round(x, 6) for x in row]
        else:
            i = max(range(n), key=lambda k: row[k])
            cand[i] = row[i] + rng.choice([-1, 1]) * rng.choice([9e-7, 5e-7, 1e-7, 1e-9, 1e-11, rng.uniform(0, 9e-7)])
        exact = sum(Fraction(x) for x in cand)
        # keep 5e-8 away from the tolerance: the model sums exactly, C++ in floating point
        if all(x >= 0.0 for x in cand) and abs(exact - 1) <= Fraction(95, 10 ** 8):
            row = cand
    return [hexf(x) for x in row]


def val(rng, gen, signed=True, zero_p=0.0):
    if rng.random() < zero_p:
        return "0"
    return general(rng, signed) if gen else dyadic(rng, signed)


def discount(rng, gen):
    if gen:
        return hexf(1.0 - rng.random() * 0.999)
    return rng.choice(["1/2", "3/4", "1", "7/8", "1/4"])


def g_model(rng, S, A, gen, zp):
    out = [discount(rng, gen)]
    for a in range(A):
        for s in range(S):
            out += prob_row(rng, S, gen)
    out += [val(rng, gen, True, zp) for _ in range(S * A)]
    return out


def g_exp(rng, S, A, gen, zp):
    out = [str(rng.randint(0, 30))]
    for _ in range(A * S * S):
        r = rng.random()
        if r < zp:
            out.append("0")
        elif r < 0.93:
            out.append(str(rng.randint(0, 50)))
        else:
            out.append(str(rng.randint(2 ** 31, 2 ** 62)))
    out += [val(rng, gen, True, zp) for _ in range(S * A)]
    out += [val(rng, gen, False, zp) for _ in range(S * A)]
    return out


def g_pol(rng, S, A, gen):
    out = []
    for s in range(S):
        out += prob_row(rng, A, gen)
    return out


def g_pmodel(rng, S, A, O, gen, zp):
    out = g_model(rng, S, A, gen, zp)
    for a in range(A):
        for s in range(S):
            out += prob_row(rng, O, gen)
    return out


def g_ppol(rng, S, A, O, gen):
    H = rng.choice([0, 1, 1, 2, 2, 3, 4])
    out = [str(H)]
    prev = 1
    for h in range(H):
        n = rng.randint(1, 3)
        out.append(str(n))
        for _ in range(n):
            out += [val(rng, gen) for _ in range(S)]
            out.append(str(rng.randrange(A)))
            out += [str(rng.randrange(prev)) for _ in range(O)]
        prev = n
    return out


# values whose shortest round-tripping decimal rendering needs 17 significant digits (results of
# arithmetic), at several magnitudes
TRICKY = [0.1 + 0.2, 1.0 / 3.0, 2.0 / 3.0, 0.1 * 3, 1.1 * 1.1, 0.7 + 0.1, 100.0 / 3.0, 1e15 / 3.0, 1e22 / 7.0,
          123456789.0 / 7.0, 1e-5 / 3.0, 1e-9 * 1.1, 4.35 * 100, 1e300 / 3.0, 5e-324 * 3e15, 1e100 / 9.0]


def tricky(rng, signed=True):
    v = rng.choice(TRICKY)
    if rng.random() < 0.3:
        v = v * rng.choice([0.5, 2.0, 1024.0, 2.0 ** -30])
    if signed and rng.random() < 0.4:
        v = -v
    return hexf(v)


KINDS = ["model", "smodel", "exp", "sexp", "pol", "pmodel", "spmodel", "ppol"]


def one_case(rng, kind, sweep):
    S = rng.choice([1, 2, 2, 3]); A = rng.choice([1, 2, 2, 3]); O = rng.choice([1, 2, 2, 3])
    gen = rng.random() < 0.5
    zp = 0.5 if kind in ("smodel", "sexp", "spmodel") else 0.1

    def obj(g):
        if kind in ("model", "smodel"): return g_model(rng, S, A, g, zp)
        if kind in ("exp", "sexp"): return g_exp(rng, S, A, g, zp)
        if kind == "pol": return g_pol(rng, S, A, g)
        if kind in ("pmodel", "spmodel"): return g_pmodel(rng, S, A, O, g, zp)
        return g_ppol(rng, S, A, O, g)
    dims = [str(S), str(A)] + ([str(O)] if kind in ("pmodel", "spmodel", "ppol") else [])
    X = obj(gen)
    D = obj(False)
    nc = rng.randint(4, 12)
    pairs = []
    for _ in range(nc):
        pairs += [str(rng.randrange(10 ** 6)), rng.choice(VOCAB)]
    voc = rng.sample(VOCAB, rng.randint(2, 5)) if sweep else []
    return " ".join([kind] + dims + X + D + [str(nc)] + pairs + [str(len(voc))] + voc)


# stream states preset by the caller before the write: (precision, flag mask, width, fill)
# flag mask bits as in harness/C17/h.cpp runFmt.  Generated: every precision below, scientific, showpos,
# showpoint, uppercase, left/right adjustment, showbase, boolalpha, unitbuf, a pending width (space fill).
# NOT generated (the unchanged writers do not round-trip under them, see notes/C17.md "Round 6 seeds"):
# fixed (1), hexfloat (1|2), internal adjustment (64), hex basefield (256), a non-space fill character.
PRECISIONS = [0, 3, 6, 10, 14, 15, 16, 17, 18, 25]
SAFE_BITS = (2, 4, 8, 16, 32, 128, 512, 1024, 2048)


def fmt_case(rng, kind, prec=None):
    if prec is None:
        prec = rng.choice(PRECISIONS)
    mask = 0; width = 0; fill = 32
    if rng.random() < 0.5:
        for bit in SAFE_BITS:
            if rng.random() < 0.25:
                mask |= bit
        if (mask & 32) and (mask & 128):
            mask &= ~128
        if rng.random() < 0.4:
            width = rng.choice([1, 5, 12, 30])
    S = rng.choice([1, 2, 2, 3]); A = rng.choice([1, 2, 2, 3]); O = rng.choice([1, 2, 2, 3])
    zp = 0.5 if kind in ("smodel", "sexp", "spmodel") else 0.1

    def obj(g):
        if kind in ("model", "smodel"): return g_model(rng, S, A, g, zp)
        if kind in ("exp", "sexp"): return g_exp(rng, S, A, g, zp)
        if kind == "pol": return g_pol(rng, S, A, g)
        if kind in ("pmodel", "spmodel"): return g_pmodel(rng, S, A, O, g, zp)
        return g_ppol(rng, S, A, O, g)
    dims = [str(S), str(A)] + ([str(O)] if kind in ("pmodel", "spmodel", "ppol") else [])
    return " ".join(["fmt", str(prec), str(mask), str(width), str(fill), kind] + dims + obj(rng.random() < 0.9) + obj(False))


def gen(rng, tier):
    n = {"quick": 320, "thorough": 1600, "search": 600}[tier]
    out = ["digits %s %s" % (hexf(0.1234567), hexf(0.1234568))]
    for i in range(n // 40 + 2):
        S = rng.choice([1, 2, 3]); A = rng.choice([2, 3])
        out.append(" ".join(["polcopy", str(S), str(A)] + g_pol(rng, S, A, rng.random() < 0.5) + g_pol(rng, S, A, False)))
    for i in range(3 * n // 4):
        out.append(fmt_case(rng, KINDS[i % len(KINDS)], PRECISIONS[(i // len(KINDS)) % len(PRECISIONS)]))
    for i in range(n):
        kind = KINDS[i % len(KINDS)] if rng.random() < 0.7 else rng.choice(KINDS)
        out.append(one_case(rng, kind, rng.random() < 0.25))
    return out
