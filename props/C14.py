"""props/C14.py — descriptor for property C14 (factored objects = flat expansion)."""
REPO_SRCS = ["src/Factored/Utils/Core.cpp", "src/Factored/Utils/FactoredVectorOps.cpp", "src/Factored/Utils/FactoredMatrix.cpp",
             "src/Factored/Utils/BayesianNetwork.cpp", "src/Factored/Utils/FactoredMatrix2DOps.cpp", "src/Seeder.cpp",
             "src/Factored/MDP/Algorithms/CooperativeQLearning.cpp", "src/Factored/MDP/Algorithms/JointActionLearner.cpp",
             "src/Factored/MDP/Utils.cpp", "src/Factored/MDP/CooperativeModel.cpp", "src/Factored/Utils/FasterTrie.cpp",
             "src/Factored/Bandit/Algorithms/Utils/VariableElimination.cpp", "src/MDP/Algorithms/QLearning.cpp", "src/MDP/Utils.cpp",
             "src/Factored/MDP/Algorithms/SparseCooperativeQLearning.cpp", "src/Factored/Utils/Trie.cpp"]
AXIOM_ALLOW = []
TRUSTED_BASE = ["size_t modelled as unbounded nat (no wrap-around in the modelled range)",
                "Eigen vectors/matrices modelled as lists of exact rationals; unchecked reads default to 0 in the model "
                "(theorems carry the well-formedness hypotheses that keep every read in range)",
                "minusEqual is modelled as repaired by fixes/C14-minusEqual.patch (the unrepaired code is minusEqual_orig)",
                "std::move / rvalue overloads modelled as their const& twins"]
ASSUMPTIONS = ["factor spaces small enough that indices do not overflow size_t",
               "all factor sizes positive; tags non-empty, in range (sorted where the C++ requires it)",
               "operator*=(Vector) with a constant term needs at least one basis",
               "DDN: one parent set per state factor, the action selects an existing parent set, rows of the "
               "conditional tables used are probability distributions"]
RULE = ("random factor spaces (1..5 factors of sizes 1..5, size-1 factors included), random sorted key subsets, "
        "all PartialFactorsEnumerator constructors (plain, all, skip present/missing, skip-all), PartialIndexEnumerator, "
        "merge/match/removeFactor/checkTag on random (also invalid, for checkTag) tags; factored vectors with 0..3 bases "
        "of random overlapping tags (subset / superset / equal / unrelated to the operand's) and dyadic values k/4, all "
        "plus/minus/dot/plusEqual/minusEqual/scale/weights overloads, flat value compared at EVERY joint assignment; "
        "random DDNs (1..3 state factors, 1..2 agents, a different parent set per action value, dyadic CPT rows), "
        "getId/getIds both ways, transition probabilities for all next states, backProject against the exact "
        "expectation; invalid parent sets for push; non-trivial = more than one key / more than one visited element / "
        "a non-default branch taken / more than one basis or factor")

def L(xs): return "%d %s" % (len(xs), " ".join(map(str, xs))) if xs else "0"

def rspace(rng, lo=1):
    nf = rng.choice([1, 2, 2, 3, 3, 4, 5])
    return [rng.choice([lo, 2, 2, 3, 4, 5]) for _ in range(nf)]

def rkeys(rng, nf, kmin=1):
    k = rng.randint(kmin, nf)
    return sorted(rng.sample(range(nf), k))

def prod(xs):
    t = 1
    for x in xs: t *= x
    return t

def match_oob(bk, sk):
    """does Core.cpp:match read bigger[i] past its end?"""
    i = j = 0
    while j < len(sk):
        if i >= len(bk): return True
        if bk[i] < sk[j]: i += 1
        elif bk[i] > sk[j]: j += 1
        else: i += 1; j += 1
    return False

def gen_core(rng, kind):
    space = rspace(rng)
    nf = len(space)
    tot = prod(space)
    f = [rng.randrange(s) for s in space]
    keys = rkeys(rng, nf)
    sub = prod(space[k] for k in keys)
    if kind == "idx":
        return "idx %s %d" % (L(space), rng.choice([0, tot - 1, rng.randrange(tot)]))
    if kind == "fac":
        return "fac %s %s" % (L(space), L(f))
    if kind == "pidx":
        return "pidx %s %s %d" % (L(space), L(keys), rng.choice([0, sub - 1, rng.randrange(sub)]))
    if kind == "pfac":
        return "pfac %s %s %s" % (L(space), L(keys), L(f))
    if kind == "enum":
        if rng.random() < 0.05: keys = []
        return "enum %s %s" % (L(space), L(keys))
    if kind == "enumall":
        return "enumall %s" % L(space)
    if kind == "enumskip":
        if rng.random() < 0.5:
            skip = rng.choice(keys)
            return "enumskip %s %s %d 0" % (L(space), L(keys), skip)
        others = [k for k in range(nf) if k not in keys]
        if not others:
            keys = keys[:-1] if len(keys) > 1 else []
            others = [k for k in range(nf) if k not in keys]
        skip = rng.choice(others)
        return "enumskip %s %s %d 1" % (L(space), L(keys), skip)
    if kind == "enumskipall":
        return "enumskipall %s %d" % (L(space), rng.randrange(nf + (1 if rng.random() < 0.1 else 0)))
    if kind == "ienum":
        if rng.random() < 0.5:
            fixed = rng.choice(keys)
            return "ienum %s %s %d %d 0" % (L(space), L(keys), fixed, rng.randrange(space[fixed]))
        others = [k for k in range(nf) if k not in keys]
        if not others:
            keys = keys[:-1] if len(keys) > 1 else []
            others = [k for k in range(nf) if k not in keys]
        fixed = rng.choice(others)
        return "ienum %s %s %d %d 1" % (L(space), L(keys), fixed, rng.randrange(space[fixed]))
    if kind == "ienumall":
        fixed = rng.randrange(nf)
        return "ienumall %s %d %d" % (L(space), fixed, rng.randrange(space[fixed]))
    if kind in ("merge", "match", "matchp"):
        n = rng.randint(2, 7)
        lk = sorted(rng.sample(range(n), rng.randint(0 if kind == "merge" else 1, n)))
        rk = sorted(rng.sample(range(n), rng.randint(0 if kind == "merge" else 1, n)))
        agree = rng.random() < 0.6
        full = [rng.randrange(3) for _ in range(n)]
        lv = [full[k] for k in lk]
        rv = [full[k] if agree or rng.random() < 0.7 else (full[k] + 1) % 3 for k in rk]
        if kind == "merge":
            return "merge %s %s %s %s" % (L(lk), L(lv), L(rk), L(rv))
        if kind == "matchp":
            full2 = [x if rng.random() < 0.8 else (x + 1) % 3 for x in full]
            return "matchp %s %s %s %s" % (L(lk), L(rk), L(lv), L([full2[k] for k in rk]))
        return "match %s %s %s %s" % (L(lk), L(lv), L(rk), L(rv))
    if kind == "rmf":
        vals = [f[k] for k in keys]
        return "rmf %s %s %d" % (L(keys), L(vals), rng.randrange(nf + 1))
    if kind == "matchf":
        vals = [f[k] if rng.random() < 0.8 else (f[k] + 1) % 7 for k in keys]
        return "matchf %s %s %s" % (L(f), L(keys), L(vals))
    if kind == "matchk":
        g = [x if rng.random() < 0.8 else x + 1 for x in f]
        return "matchk %s %s %s" % (L(keys), L(f), L(g))
    if kind == "chk":
        r = rng.random()
        tag = list(keys)
        if r < 0.15: tag = []
        elif r < 0.3: tag[rng.randrange(len(tag))] = nf + rng.randrange(2)
        elif r < 0.45 and len(tag) > 1: rng.shuffle(tag)
        elif r < 0.6: tag.insert(rng.randrange(len(tag) + 1), rng.choice(tag))
        elif r < 0.65: tag = tag + [rng.randrange(nf) for _ in range(nf)]
        return "chk %s %s" % (L(space), L(tag))
    if kind == "kpf":
        pk = keys
        # round 6 (seed C14-r6b-1): half of the cases leave the leading factor(s) unspecified, and values are
        # mostly non-zero, so that the multiplier of every skipped lower factor matters
        if nf >= 2 and rng.random() < 0.5:
            drop = rng.randint(1, nf - 1)
            pk = [k for k in keys if k >= drop] or [rng.randrange(drop, nf)]
        pv = [f[k] if (f[k] > 0 or rng.random() < 0.2) else space[k] - 1 for k in pk]
        ids = sorted(rng.sample(pk, rng.randint(1, len(pk))))
        return "kpf %s %s %s %s" % (L(ids), L(space), L(pk), L(pv))
    if kind == "iskip":
        m = rng.choice(keys) if rng.random() < 0.8 else rng.randrange(nf)
        return "iskip %s %s %s %d" % (L(keys), L(space), L(f), m)
    raise ValueError(kind)


# ---------------------------------------------------------------- factored vector algebra -----
def Q(k, d=4):
    return "%d/%d" % (k, d) if k % d else str(k // d)

def LQ(xs): return "%d %s" % (len(xs), " ".join(xs)) if xs else "0"

def rvals(rng, n, zero=False):
    return [Q(0 if zero else rng.randint(-8, 8)) for _ in range(n)]

def rbasis(rng, space, tag=None, zero=False):
    nf = len(space)
    if tag is None: tag = rkeys(rng, nf)
    return (tag, rvals(rng, prod(space[k] for k in tag), zero))

def B(b): return "%s %s" % (L(b[0]), LQ(b[1]))
def FV(fv): return ("%d " % len(fv) + " ".join(B(b) for b in fv)) if fv else "0"

def aspace(rng):
    nf = rng.choice([1, 2, 2, 3, 3, 4])
    return [rng.choice([1, 2, 2, 3]) for _ in range(nf)]

def rfv(rng, space, lo=0, hi=3):
    return [rbasis(rng, space) for _ in range(rng.randint(lo, hi))]

def related_basis(rng, space, fv):
    """a basis whose tag is often a subset / superset / equal to one in fv"""
    nf = len(space)
    if fv and rng.random() < 0.7:
        t = list(rng.choice(fv)[0])
        r = rng.random()
        if r < 0.35 and len(t) > 1:
            t = sorted(rng.sample(t, rng.randint(1, len(t) - 1)))
        elif r < 0.7:
            extra = [k for k in range(nf) if k not in t]
            if extra: t = sorted(t + rng.sample(extra, rng.randint(1, len(extra))))
        return rbasis(rng, space, t)
    return rbasis(rng, space)

def gen_alg(rng, kind):
    space = aspace(rng)
    if kind == "bfop":
        return "bfop %s %s %s %s" % (rng.choice(["plus", "minus", "dot"]), L(space), B(rbasis(rng, space)), B(rbasis(rng, space)))
    if kind == "subop":
        big = rbasis(rng, space)
        t = big[0] if rng.random() < 0.3 else sorted(rng.sample(big[0], rng.randint(1, len(big[0]))))
        return "subop %s %s %s %s" % (rng.choice(["plus", "minus"]), L(space), B(big), B(rbasis(rng, space, t)))
    fv = rfv(rng, space)
    op = rng.choice(["plus", "plus", "plusrv", "plusc", "minus", "minus", "minus", "minusc", "plusfv", "plusfvrv", "minusfv",
                     "minusfv", "scale", "scalew", "scalew", "getw"])
    head = "fv %s %s %s" % (op, L(space), FV(fv))
    if op in ("plus", "plusrv", "plusc"):
        return "%s %s" % (head, B(related_basis(rng, space, fv)))
    if op in ("minus", "minusc"):
        cz = 1 if rng.random() < 0.5 else 0
        if fv and rng.random() < 0.25:
            b = rng.choice(fv)          # subtracting a basis from itself: erased when clearZero
        else:
            b = related_basis(rng, space, fv)
        return "%s %s %d" % (head, B(b), cz)
    if op in ("plusfv", "plusfvrv"):
        return "%s %s" % (head, FV([related_basis(rng, space, fv) for _ in range(rng.randint(0, 3))]))
    if op == "minusfv":
        rhs = [related_basis(rng, space, fv) for _ in range(rng.randint(0, 3))]
        if fv and rng.random() < 0.3: rhs = list(fv)
        return "%s %s %d" % (head, FV(rhs), 1 if rng.random() < 0.5 else 0)
    if op == "scale":
        return "%s %s" % (head, Q(rng.randint(-6, 6)))
    nb = len(fv)
    if op == "scalew":
        if nb == 0:
            fv = rfv(rng, space, 1, 3); nb = len(fv)
            head = "fv %s %s %s" % (op, L(space), FV(fv))
        w = [Q(rng.randint(-6, 6)) for _ in range(nb)]
        if rng.random() < 0.5: w.append(Q(nb * rng.randint(-6, 6)))
        return "%s %s" % (head, LQ(w))
    w = [Q(rng.randint(-6, 6)) for _ in range(nb + (1 if rng.random() < 0.5 else 0))]
    return "%s %s" % (head, LQ(w))

ALG_KINDS = ["bfop", "bfop", "subop", "fv", "fv", "fv", "fv", "fv", "fv"]

# ---------------------------------------------------------------- DDN -------------------------
def rdist_small(rng, n, kmax=12):
    """a probability row with one or more tiny dyadic entries 2^-7 .. 2^-kmax (exact in doubles)"""
    if n == 1: return ["1"]
    ks = [rng.randint(7, kmax) for _ in range(n - 1)]
    big = 2 ** kmax
    parts = [big >> k for k in ks]
    parts.append(big - sum(parts))
    rng.shuffle(parts)
    return ["%d/%d" % (p, big) for p in parts]

def rdist(rng, n):
    """a probability row with entries k/4"""
    cuts = sorted(rng.randint(0, 4) for _ in range(n - 1))
    parts = [b - a for a, b in zip([0] + cuts, cuts + [4])]
    return [Q(k) for k in parts]

def rparentset(rng, S, A):
    agents = rkeys(rng, len(A))
    feats = [rkeys(rng, len(S)) for _ in range(prod(A[k] for k in agents))]
    return agents, feats

def PS(ps): return "%s %d %s" % (L(ps[0]), len(ps[1]), " ".join(L(f) for f in ps[1]))

def gen_ddn(rng, kind):
    S = [rng.choice([1, 2, 2, 3]) for _ in range(rng.choice([1, 2, 2, 3]))]
    A = [rng.choice([1, 2, 2, 3]) for _ in range(rng.choice([1, 2]))]
    if kind == "cmodel":
        S = [rng.choice([2, 2, 3]) for _ in range(rng.choice([2, 2, 3]))]
        A = [rng.choice([2, 3, 3, 4]) for _ in range(rng.choice([2, 2, 3]))]
        if rng.random() < 0.7:          # make S[k] != A[k] on the shared positions
            A = [a if k >= len(S) or a != S[k] else a + 1 for k, a in enumerate(A)]
    if kind == "ddnpush":
        out = []
        for _ in range(rng.randint(1, len(S) + 1)):
            ag, fs = rparentset(rng, S, A)
            r = rng.random()
            if r < 0.1: ag = []
            elif r < 0.2: ag = ag + [len(A)]
            elif r < 0.3: fs = fs + [rkeys(rng, len(S))]
            elif r < 0.4 and fs: fs = fs[:-1]
            elif r < 0.5 and fs: fs[rng.randrange(len(fs))] = []
            elif r < 0.6 and fs: fs[rng.randrange(len(fs))] = [len(S)]
            elif r < 0.7 and fs: fs[rng.randrange(len(fs))] = [0, 0]
            elif r < 0.75 and len(ag) > 1: ag = ag[::-1]
            out.append((ag, fs))
        return "ddnpush %s %s %d %s" % (L(S), L(A), len(out), " ".join(PS(p) for p in out))
    small = kind == "ddnsmall"
    if small:
        # >= 3 nodes with tiny (exact, dyadic) local probabilities: products of 2-4 nodes fall below 1e-6
        S = [rng.choice([2, 2, 3]) for _ in range(rng.choice([3, 3, 4]))]
        if prod(S) > 36: S = [2] * len(S)
    pss = [rparentset(rng, S, A) for _ in S]
    kmax = 12 if len(S) <= 3 else 10
    mats = []
    for i, (ag, fs) in enumerate(pss):
        rows = sum(prod(S[k] for k in f) for f in fs)
        mk = (lambda: rdist_small(rng, S[i], kmax)) if small else (lambda: rdist(rng, S[i]))
        mats.append("%d %d %s" % (rows, S[i], " ".join(" ".join(mk()) for _ in range(rows))))
    if kind == "cmodel":
        # reward bases with multi-agent action tags; S and A shapes differ
        rew = [rbm(rng, S, A, None, sorted(rng.sample(range(len(A)), rng.randint(1, len(A))))) for _ in range(rng.randint(1, 3))]
        qs = ["%s %s" % (L([rng.randrange(x) for x in S]), L([rng.randrange(x) if rng.random() < 0.3 else x - 1 for x in A])) for _ in range(3)]
        if rng.random() < 0.4:
            # corrupt one row of one table (any row index, the last rows included): the constructor must throw
            i = rng.randrange(len(S))
            toks = mats[i].split()
            rows, cols = int(toks[0]), int(toks[1])
            j = rows - 1 if rng.random() < 0.4 else rng.randrange(rows)
            bad = rng.choice([["3/4"] + ["0"] * (cols - 1), ["5/4"] + ["0"] * (cols - 1),
                              (["5/4", "-1/4"] + ["0"] * (cols - 2)) if cols > 1 else ["1/2"],
                              ["1/4"] * cols if cols != 4 else ["1/2"] * cols])
            toks[2 + j * cols: 2 + (j + 1) * cols] = bad
            mats[i] = " ".join(toks)
        return "cmodel %s %s %s %s %s %s 3 %s" % (L(S), L(A), " ".join(PS(p) for p in pss), " ".join(mats), FM(rew),
                                                  rng.choice(["1/2", "3/4", "1"]), " ".join(qs))
    qs = []
    for _ in range(2):
        qs.append("%s %s" % (L([rng.randrange(x) for x in S]), L([rng.randrange(x) for x in A])))
    tag = rkeys(rng, len(S))
    basis = (tag, [str(rng.randint(-4, 4)) for _ in range(prod(S[k] for k in tag))])
    return "ddn %s %s %s %s 2 %s %s" % (L(S), L(A), " ".join(PS(p) for p in pss), " ".join(mats), " ".join(qs), B(basis))


# ---------------------------------------------------------------- FactoredMatrix2D, reused buffers
def rbm(rng, S, A, tag=None, atag=None):
    if tag is None: tag = rkeys(rng, len(S))
    if atag is None: atag = rkeys(rng, len(A))
    rows, cols = prod(S[k] for k in tag), prod(A[k] for k in atag)
    return (tag, atag, rows, cols, rvals(rng, rows * cols))

def BM(b): return "%s %s %d %d %s" % (L(b[0]), L(b[1]), b[2], b[3], " ".join(b[4]))
def FM(fm): return ("%d " % len(fm) + " ".join(BM(b) for b in fm)) if fm else "0"

def related_tag(rng, t, n):
    """a tag in a chosen relation to t within range(n): equal, prefix, non-prefix subset, superset,
       disjoint, interleaved (overlapping, neither contains the other)"""
    t = list(t)
    rel = rng.choice(["equal", "prefix", "subset", "subset", "superset", "disjoint", "interleaved"])
    others = [k for k in range(n) if k not in t]
    if rel == "prefix" and len(t) > 1: return t[:rng.randint(1, len(t) - 1)]
    if rel == "subset" and len(t) > 1:
        # drop the first key (so the rest is not a prefix), maybe more
        keep = [k for k in t[1:] if rng.random() < 0.7] or [t[-1]]
        return keep
    if rel == "superset" and others: return sorted(t + rng.sample(others, rng.randint(1, len(others))))
    if rel == "disjoint" and others: return sorted(rng.sample(others, rng.randint(1, len(others))))
    if rel == "interleaved" and others and len(t) > 1:
        return sorted(rng.sample(t, rng.randint(1, len(t) - 1)) + rng.sample(others, rng.randint(1, len(others))))
    return t

def related_bm(rng, S, A, fm):
    if fm and rng.random() < 0.85:
        b = rng.choice(fm)
        return rbm(rng, S, A, related_tag(rng, b[0], len(S)), related_tag(rng, b[1], len(A)))
    return rbm(rng, S, A)

def gen_2d(rng, kind):
    if kind == "facout":
        space = rspace(rng)
        tot = prod(space)
        ids = [rng.randrange(tot) for _ in range(rng.randint(2, 5))]
        if rng.random() < 0.6: ids = [tot - 1] + ids + [0, rng.randrange(min(tot, 2))]
        return "facout %s %d %s" % (L(space), rng.choice([0, 1, 7]), L(ids))
    if kind == "flatb":
        A = [rng.choice([1, 2, 2, 3]) for _ in range(rng.choice([1, 2, 3, 3]))]
        groups = [rkeys(rng, len(A)) for _ in range(rng.randint(1, 3))]
        tot = prod(A)
        pulls = [rng.randrange(tot) for _ in range(rng.randint(2, 6))]
        if rng.random() < 0.6: pulls = [tot - 1, 0] + pulls
        return "flatb %s %d %s %s" % (L(A), len(groups),
                                     " ".join("%s %s" % (L(g), LQ(rvals(rng, prod(A[k] for k in g)))) for g in groups), L(pulls))
    S = [rng.choice([1, 2, 2, 3]) for _ in range(rng.choice([1, 2, 2, 3]))]
    A = [rng.choice([2, 2, 3]) for _ in range(rng.choice([1, 2, 3, 3]))]
    if prod(S) * prod(A) > 216: S = S[:2]
    if kind == "subop2d":
        big = rbm(rng, S, A)
        def sub_of(t):
            r = rng.random()
            if r < 0.25 or len(t) == 1: return list(t)
            if r < 0.45: return t[:rng.randint(1, len(t) - 1)]                 # prefix
            return ([k for k in t[1:] if rng.random() < 0.7] or [t[-1]])      # non-prefix subset
        return "subop2d %s %s %s %s" % (L(S), L(A), BM(big), BM(rbm(rng, S, A, sub_of(big[0]), sub_of(big[1]))))
    fm = [rbm(rng, S, A) for _ in range(rng.randint(0, 3))]
    op = rng.choice(["plus", "plus", "plusrv", "plusfm", "plusfmrv", "scale", "scalew", "scalew", "scalewc", "getw"])
    if op in ("scalew", "scalewc") and not fm:
        fm = [rbm(rng, S, A) for _ in range(rng.randint(1, 3))]
    head = "fm %s %s %s %s" % (op, L(S), L(A), FM(fm))
    nb = len(fm)
    if op in ("plus", "plusrv"): return "%s %s" % (head, BM(related_bm(rng, S, A, fm)))
    if op in ("plusfm", "plusfmrv"): return "%s %s" % (head, FM([related_bm(rng, S, A, fm) for _ in range(rng.randint(0, 3))]))
    if op == "scale": return "%s %s" % (head, Q(rng.randint(-6, 6)))
    if op in ("scalew", "scalewc"):
        w = [Q(rng.randint(-6, 6)) for _ in range(nb)]
        if rng.random() < 0.6: w.append(Q(nb * rng.choice([-6, -5, -3, -2, -1, 1, 2, 3, 5, 6])))
        return "%s %s" % (head, LQ(w))
    w = [Q(rng.randint(-6, 6)) for _ in range(nb + (1 if rng.random() < 0.5 else 0))]
    return "%s %s" % (head, LQ(w))


# ---------------------------------------------------------------- learners --------------------
def gen_learn(rng, kind):
    disc = rng.choice(["1/2", "3/4", "1"]); alpha = rng.choice(["1/2", "1/4", "1"])
    if kind in ("sparse1", "sparseg"):
        S = [rng.choice([1, 2, 2, 3]) for _ in range(rng.choice([1, 2]))]
        A = [rng.choice([1, 2, 2]) for _ in range(rng.choice([1, 2, 2, 4]) if kind == "sparse1" else 2)]
        NS, NA = prod(S), prod(A)
        def digits(sp, i):
            out = []
            for x in sp: out.append(i % x); i //= x
            return out
        rules = []
        if kind == "sparse1":           # one rule per full (s, a): a flat table in disguise
            for si in range(NS):
                for ai in range(NA):
                    rules.append((list(range(len(S))), digits(S, si), list(range(len(A))), digits(A, ai), Q(rng.randint(-4, 4))))
        else:
            # every agent alone for every (partial state, own action), plus a few pair rules: each agent is
            # then in 1 or 2 matching rules for any (s, a)
            for ag in range(len(A)):
                sk = rkeys(rng, len(S))
                for si in range(prod(S[k] for k in sk)):
                    for av in range(A[ag]):
                        rules.append((sk, digits([S[k] for k in sk], si), [ag], [av], Q(rng.randint(-4, 4))))
            sk = rkeys(rng, len(S))
            for si in range(prod(S[k] for k in sk)):
                for ai in range(NA):
                    rules.append((sk, digits([S[k] for k in sk], si), [0, 1], digits(A, ai), Q(rng.randint(-4, 4))))
        hist = []
        for _ in range(rng.randint(1, 5)):
            hist.append("%s %s %s %s" % (L([rng.randrange(x) for x in S]), L([rng.randrange(x) for x in A]),
                                         L([rng.randrange(x) for x in S]),
                                         LQ([Q(rng.choice([-8, -5, -3, -2, -1, 1, 2, 3, 4, 6, 7])) for _ in A])))
        return "sparse %s %s %d %s %s %s %d %s" % (L(S), L(A), len(rules),
                " ".join("%s %s %s %s %s" % (L(r[0]), L(r[1]), L(r[2]), L(r[3]), r[4]) for r in rules), disc, alpha, len(hist), " ".join(hist))
    if kind == "jal":
        nS = rng.randint(1, 3)
        A = [rng.choice([1, 2, 2, 3]) for _ in range(rng.choice([1, 2, 2, 3]))]
        idd = rng.randrange(len(A))
        hist = []
        for _ in range(rng.randint(1, 6)):
            hist.append("%d %s %d %s" % (rng.randrange(nS), L([rng.randrange(x) for x in A]), rng.randrange(nS), Q(rng.randint(-8, 8))))
        return "jal %d %s %d %s %s %d %s" % (nS, L(A), idd, disc, alpha, len(hist), " ".join(hist))
    S = [rng.choice([1, 2, 2, 3]) for _ in range(rng.choice([1, 2, 2]))]
    A = [rng.choice([1, 2, 2]) for _ in range(rng.choice([1, 2, 2, 4]) if kind == "coop1" else rng.choice([1, 2]))]
    allS, allA = list(range(len(S))), list(range(len(A)))
    if kind == "coop1":          # a single factor spanning every state factor and every agent
        pss = [(allA, [allS] * prod(A)) for _ in S]
        domains = [allS if rng.random() < 0.5 else [rng.randrange(len(S))]]
    else:
        pss = [rparentset(rng, S, A) for _ in S]
        domains = [sorted(rng.sample(allS, rng.randint(1, len(S)))) for _ in range(rng.randint(1, 2))]
        # every agent must belong to some basis (agentNormRews_ would be 0 otherwise)
        used = set(k for d in domains for f in d for k in pss[f][0])
        if used != set(allA): domains.append(allS); 
        used = set(k for d in domains for f in d for k in pss[f][0])
        if used != set(allA): return None
        # keep the arithmetic dyadic: every agent in 1, 2 or 4 bases
        for ag in allA:
            if sum(1 for d in domains if any(ag in pss[f][0] for f in d)) not in (1, 2, 4): return None
    hist = []
    for _ in range(rng.randint(1, 6)):
        hist.append("%s %s %s %s" % (L([rng.randrange(x) for x in S]), L([rng.randrange(x) for x in A]),
                                     L([rng.randrange(x) for x in S]),
                                     LQ([Q(rng.choice([-8, -5, -3, -2, -1, 1, 2, 3, 4, 6, 7])) for _ in A])))
    return "coop %s %s %s %d %s %s %s %d %s" % (L(S), L(A), " ".join(PS(p) for p in pss), len(domains),
                                               " ".join(L(d) for d in domains), disc, alpha, len(hist), " ".join(hist))


CORE_KINDS = ["idx", "fac", "pidx", "pfac", "enum", "enum", "enumall", "enumskip", "enumskip", "enumskip",
              "enumskipall", "ienum", "ienum", "ienumall", "merge", "merge", "match", "matchp", "rmf", "matchf",
              "matchk", "chk", "chk", "kpf", "kpf", "kpf", "iskip"]

def gen(rng, tier):
    n = {"quick": 800, "thorough": 8000, "search": 3000}[tier]
    out = []
    while len(out) < n:
        u = rng.random()
        if u < 0.40:
            c = gen_core(rng, rng.choice(CORE_KINDS))
        elif u < 0.72:
            c = gen_alg(rng, rng.choice(ALG_KINDS))
        elif u < 0.80:
            c = gen_learn(rng, rng.choice(["jal", "jal", "coop1", "coop1", "coopg", "coopg", "sparse1", "sparse1", "sparseg"]))
        elif u < 0.88:
            c = gen_2d(rng, rng.choice(["facout", "flatb", "fm", "fm", "fm", "fm", "subop2d", "subop2d"]))
        else:
            c = gen_ddn(rng, rng.choice(["ddn", "ddn", "ddnsmall", "ddnsmall", "cmodel", "cmodel", "ddnpush"]))
        if c is not None:
            out.append(c)
    return out
