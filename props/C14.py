"""props/C14.py — descriptor for property C14 (factored objects = flat expansion)."""
REPO_SRCS = ["src/Factored/Utils/Core.cpp"]
AXIOM_ALLOW = []
TRUSTED_BASE = ["size_t modelled as unbounded nat (no wrap-around in the modelled range)"]
ASSUMPTIONS = ["factor spaces small enough that indices do not overflow size_t"]

def L(xs): return "%d %s" % (len(xs), " ".join(map(str, xs))) if xs else "0"

def gen(rng, tier):
    n = {"quick": 400, "thorough": 4000, "search": 1500}[tier]
    out = []
    for _ in range(n):
        nf = rng.choice([1, 2, 2, 3, 3, 4, 5])
        space = [rng.choice([1, 2, 2, 3, 4, 5]) for _ in range(nf)]
        tot = 1
        for s in space: tot *= s
        f = [rng.randrange(s) for s in space]
        k = rng.randint(1, nf)
        keys = sorted(rng.sample(range(nf), k))
        sub = 1
        for kk in keys: sub *= space[kk]
        kind = rng.choice(["idx", "fac", "pidx", "pfac"])
        if kind == "idx":
            out.append("idx %s %d" % (L(space), rng.choice([0, tot - 1, rng.randrange(tot)])))
        elif kind == "fac":
            out.append("fac %s %s" % (L(space), L(f)))
        elif kind == "pidx":
            out.append("pidx %s %s %d" % (L(space), L(keys), rng.choice([0, sub - 1, rng.randrange(sub)])))
        else:
            out.append("pfac %s %s %s" % (L(space), L(keys), L(f)))
    return out
