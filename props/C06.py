"""props/C06.py — descriptor for property C06 (model objects always describe a valid (PO)MDP)."""
REPO_SRCS = ["src/MDP/Model.cpp", "src/MDP/SparseModel.cpp", "src/Utils/Probability.cpp", "src/Seeder.cpp",
             "src/POMDP/Algorithms/AMDP.cpp", "src/Factored/MDP/CooperativeModel.cpp",
             "src/Factored/Utils/BayesianNetwork.cpp", "src/Factored/Utils/Core.cpp", "src/Factored/Utils/FactoredMatrix.cpp"]
AXIOM_ALLOW = []
TRUSTED_BASE = [
    "harness/C06/h.cpp glue (table layouts, RawModel/RawPOMDP sources of the copy constructors, dumps through every getter)",
    "ml/C06/driver.ml (case parsing, exact comparison of hex-float dumps)",
    "sparse Eigen matrices represented by their dense expansion (coeff(i,j)); Eigen sum()/minCoeff() modelled by their documented meaning",
    "double summation modelled exactly in Q: accept/reject decisions whose exact margin is < 1e-9 are excluded (ill_conditioned)",
]
ASSUMPTIONS = [
    "containers passed to constructors/setters have the declared dimensions (the library documents that it does not check sizes); result Pre otherwise",
    "supplied rewards are finite doubles",
    "NoCheck constructors are outside the property (documented as unchecked)",
]
RULE = ("op sequences on MDP::Model, MDP::SparseModel, POMDP::Model<MDP::Model>, POMDP::SparseModel<MDP::SparseModel>: "
        "constructors (s,a,discount)/(s,a,t,r,d)/copy-from-IsModel and every setter, with valid (dyadic and general), "
        "off-by-rounding (1 +- {0.9,1.1}e-6), negative, NaN, +-inf, wrong-sum tables and discounts "
        "{-1,0,1e-300,1/2,3/4,1,1+2^-52,2,NaN,inf,-inf}; single isProbability calls for all 7 overloads; AMDP discretisations of small POMDPs; "
        "DDNGraph::push sequences (malformed tags, wrong number of feature sets, too many pushes) followed by "
        "CooperativeModel constructor / setDiscount calls. "
        "non-trivial = the sequence contains both an accepted and a rejected call (isprob: a rejected table)")
THOROUGH_SEEDS = 2
CASE_TIMEOUT = 20

EPS9 = 0.9e-6
EPS11 = 1.1e-6

def fx(x):
    """exact token of a python float"""
    if x != x: return "nan"
    if x == float("inf"): return "inf"
    if x == float("-inf"): return "-inf"
    if x == int(x) and abs(x) < 2**40: return str(int(x))
    return float(x).hex()

def dy(n, d):
    return "%d/%d" % (n, d) if d != 1 else str(n)

def dyadic_row(rng, n):
    j = rng.choice([1, 2, 2, 3, 4])
    tot = 2 ** j
    cuts = sorted(rng.randint(0, tot) for _ in range(n - 1))
    parts = [b - a for a, b in zip([0] + cuts, cuts + [tot])]
    return [p / tot for p in parts]

def general_row(rng, n):
    w = [rng.random() + 1e-3 for _ in range(n)]
    s = sum(w)
    return [x / s for x in w]

ROW_KINDS_BAD = ["off_out_hi", "off_out_lo", "neg", "neg_small", "nan", "inf", "ninf", "sum_lo", "sum_hi", "zeros"]
ROW_KINDS_OK = ["dyadic", "dyadic", "dyadic", "general", "off_in_hi", "off_in_lo", "smalls"]

def make_row(rng, n, kind):
    base = dyadic_row(rng, n) if kind != "general" else general_row(rng, n)
    i = max(range(n), key=lambda k: base[k])
    r = list(base)
    if kind in ("dyadic", "general"): pass
    elif kind == "off_in_hi": r[i] = base[i] + EPS9
    elif kind == "off_in_lo": r[i] = base[i] - EPS9
    elif kind == "off_out_hi": r[i] = base[i] + EPS11
    elif kind == "off_out_lo": r[i] = base[i] - EPS11
    elif kind == "neg":
        if n == 1: r[0] = -1.0
        else:
            j = (i + 1) % n
            r[j] = -0.25; r[i] = base[i] + base[j] + 0.25
    elif kind == "neg_small":      # sums to 1 within rounding, one entry -2^-22 (about -2.4e-7)
        if n == 1: r[0] = -1.0
        else:
            j = (i + 1) % n
            r = [0.0] * n; r[j] = -(2.0 ** -22); r[i] = 1.0 + 2.0 ** -22
    elif kind == "nan": r[rng.randrange(n)] = float("nan")
    elif kind == "inf": r[rng.randrange(n)] = float("inf")
    elif kind == "ninf": r[rng.randrange(n)] = float("-inf")
    elif kind == "sum_lo": r[i] = base[i] - 0.25 if base[i] >= 0.25 else 0.0; r = r if sum(r) < 0.999 else [x / 2 for x in r]
    elif kind == "sum_hi": r[i] = base[i] + 0.25
    elif kind == "zeros": r = [0.0] * n
    elif kind == "smalls":         # valid row with entries below / above the sparsification threshold
        if n >= 2:
            j = (i + 1) % n
            small = rng.choice([2.0 ** -21, 2.0 ** -19, EPS9, EPS11])
            r = [0.0] * n; r[j] = small; r[i] = 1.0 - small
    elif kind == "smalls2":        # valid row, two entries below the sparsification threshold
        if n >= 3:
            j = (i + 1) % n; k = (i + 2) % n
            r = [0.0] * n; r[j] = EPS9; r[k] = EPS9; r[i] = 1.0 - 2 * EPS9
    else: raise ValueError(kind)
    return r

def table(rng, n1, n2, n3, bad):
    """n1*n2 rows of length n3 (flat, row-major); bad=None -> all rows fine, else one row of that kind"""
    rows = [[make_row(rng, n3, rng.choice(ROW_KINDS_OK)) for _ in range(n2)] for _ in range(n1)]
    if n3 >= 3 and rng.random() < 0.04:
        rows[rng.randrange(n1)][rng.randrange(n2)] = make_row(rng, n3, "smalls2")
    if bad is not None:
        rows[rng.randrange(n1)][rng.randrange(n2)] = make_row(rng, n3, bad)
    flat = [x for m in rows for r in m for x in r]
    return "%d %s" % (len(flat), " ".join(fx(x) for x in flat)) if flat else "0"

def rewards(rng, n, sparse_small=False):
    vals = []
    for _ in range(n):
        c = rng.random()
        if c < 0.3: vals.append("0")
        elif c < 0.7: vals.append(str(rng.randint(-4, 8)))
        elif c < 0.9 or not sparse_small: vals.append(dy(rng.randint(-16, 16), 4))
        else: vals.append(fx(rng.choice([2.0 ** -21, -(2.0 ** -21), EPS9, EPS11, 2.0 ** -19])))
    return "%d %s" % (n, " ".join(vals)) if n else "0"

DISCOUNTS_OK = ["1/2", "3/4", "1", fx(1e-300), "1/2", "1"]
DISCOUNTS_BAD = ["-1", "0", "0x1.0000000000001p+0", "2", "nan", "inf", "-inf"]

def discount(rng, bad):
    return rng.choice(DISCOUNTS_BAD) if bad else rng.choice(DISCOUNTS_OK)

def maybe(rng, p): return rng.random() < p

# ---------------------------------------------------------------- CooperativeModel / DDNGraph::push
def L(xs): return "%d %s" % (len(xs), " ".join(map(str, xs))) if len(xs) else "0"

def py_tag_ok(space, tag):
    return len(tag) > 0 and all(a < b for a, b in zip(tag, tag[1:])) and all(v < len(space) for v in tag)

def py_fsp(ids, space):
    r = 1
    for i in ids: r *= space[i]
    return r

def rand_tag(rng, space, maxlen=2):
    k = rng.randint(1, min(maxlen, len(space)))
    return sorted(rng.sample(range(len(space)), k))

def bad_tag(rng, space):
    t = rand_tag(rng, space)
    k = rng.choice(["empty", "high", "dup", "unsorted", "toomany"])
    if k == "empty": return []
    if k == "high": return t[:-1] + [len(space) + rng.randint(0, 1)]
    if k == "dup": return [t[0], t[0]]
    if k == "unsorted": return [t[0] + 1, t[0]] if t[0] + 1 < len(space) else [t[0], t[0]]
    return list(range(len(space))) + [len(space) - 1]

def gen_coop(rng):
    S = [rng.choice([2, 2, 3]) for _ in range(rng.randint(1, 3))]
    A = [rng.choice([2, 2, 3]) for _ in range(rng.randint(1, 2))]
    pushes = []; accepted = []
    npush = len(S) + (1 if maybe(rng, 0.15) else 0) - (1 if maybe(rng, 0.1) else 0)
    tries = 0
    while len(pushes) < npush + 0 and tries < 8:
        tries += 1
        agents = rand_tag(rng, A); feats = [rand_tag(rng, S) for _ in range(py_fsp(agents, A))]
        if maybe(rng, 0.2):
            k = rng.choice(["agents", "count", "feat"])
            if k == "agents": agents = bad_tag(rng, A)
            elif k == "count": feats = feats + [rand_tag(rng, S)] if maybe(rng, 0.5) else feats[:-1]
            else: feats[rng.randrange(len(feats))] = bad_tag(rng, S)
        pushes.append((agents, feats))
        ok = (len(accepted) < len(S) and py_tag_ok(A, agents) and len(feats) == (py_fsp(agents, A) if py_tag_ok(A, agents) else -1)
              and all(py_tag_ok(S, f) for f in feats))
        if ok: accepted.append((agents, feats))
        elif maybe(rng, 0.7): npush += 1      # usually retry the node after a rejected push
    toks = ["coop", L(S), L(A), str(len(pushes))]
    for agents, feats in pushes:
        toks += [L(agents), str(len(feats))] + [L(f) for f in feats]
    def ctor():
        mats = []
        for i, (agents, feats) in enumerate(accepted):
            rows = sum(py_fsp(f, S) for f in feats); cols = S[i] if i < len(S) else 2
            data = [dyadic_row(rng, cols) for _ in range(rows)]
            mats.append([rows, cols, data])
        if maybe(rng, 0.3) and mats:
            k = rng.choice(["rows", "cols", "badrow", "drop", "extra"])
            m = mats[rng.randrange(len(mats))]
            if k == "rows": m[2].append(dyadic_row(rng, m[1])); m[0] += 1
            elif k == "cols": m[1] += 1; m[2] = [r + [0.0] for r in m[2]]
            elif k == "badrow" and m[0] > 0: m[2][rng.randrange(m[0])] = make_row(rng, m[1], rng.choice(["nan", "inf", "sum_lo", "sum_hi", "neg", "zeros"]))
            elif k == "drop": mats.pop()
            elif k == "extra": mats.append([1, 2, [[0.5, 0.5]]])
        bases = []
        for _ in range(rng.randint(0, 2)):
            tag = rand_tag(rng, S); atag = rand_tag(rng, A)
            rows = py_fsp(tag, S); cols = py_fsp(atag, A)
            if maybe(rng, 0.2):
                k = rng.choice(["tag", "atag", "rows", "cols"])
                if k == "tag": tag = bad_tag(rng, S); rows = 1
                elif k == "atag": atag = bad_tag(rng, A); cols = 1
                elif k == "rows": rows += 1
                else: cols += 1
            bases.append((tag, atag, rows, cols))
        t = ["cctor", discount(rng, maybe(rng, 0.25)), str(len(mats))]
        for rows, cols, data in mats:
            flat = [x for r in data for x in r]
            t += [str(rows), str(cols), ("%d %s" % (len(flat), " ".join(fx(x) for x in flat))) if flat else "0"]
        t.append(str(len(bases)))
        for tag, atag, rows, cols in bases: t += [L(tag), L(atag), str(rows), str(cols)]
        return " ".join(t)
    ops = []
    for i in range(rng.randint(1, 4)):
        ops.append(ctor() if (i == 0 or maybe(rng, 0.4)) else "csetd %s" % discount(rng, maybe(rng, 0.45)))
    toks += [str(len(ops))] + ops
    return " ".join(toks)

# ---------------------------------------------------------------- converting constructors, arbitrary sources
def gen_conversions(rng, full):
    """every converting constructor (MDP::Model(M), MDP::SparseModel(M), POMDP::Model<..>(PM),
    POMDP::SparseModel<..>(PM)) from (g) a user-defined generic model and from a library model of the other
    representation (d dense / s sparse) built through NO_CHECK, with every discount of the lists: the source's tables are valid, so the discount alone
    decides; plus a few sources with an invalid table and a valid discount."""
    out = []
    discs = [(d, True) for d in DISCOUNTS_BAD] + [("1/2", False), ("1", False), (fx(1e-300), False)]
    for cls in ["md", "ms", "pd", "ps"]:
        pomdp = cls in ("pd", "ps")
        # a library source of the SAME representation would select the implicit copy constructor (a plain
        # copy, not a conversion), so library sources are always of the other representation
        for src in ["g", "s" if cls in ("md", "pd") else "d"]:
            chosen = discs if full else rng.sample(discs[:len(DISCOUNTS_BAD)], 3) + [rng.choice(discs[len(DISCOUNTS_BAD):])]
            for d, _ in chosen:
                S = rng.choice([1, 2, 2, 3]); A = rng.choice([1, 2]); O = rng.choice([1, 2, 3])
                badT = rng.choice(ROW_KINDS_BAD) if maybe(rng, 0.1) else None
                if badT == "neg_small": badT = "neg"
                # a valid object first (so that "unchanged on throw" is observable), then the conversion, then a setter
                first = "ctor3 %d %d 3/4" % (S, A)
                if pomdp: first = "pctor %d %s" % (O, first)
                if src == "g":
                    body = "%d %d %s %s %s" % (S, A, d, table(rng, S, A, S, badT), rewards(rng, S * A * S, cls in ("ms", "ps")))
                    op = ("pctorc %d %s %s" % (O, table(rng, S, A, O, None), body)) if pomdp else ("ctorc " + body)
                else:
                    body = "%d %d %s %s %s" % (S, A, d, table(rng, A, S, S, badT), rewards(rng, S * A, cls in ("ms", "ps")))
                    op = ("pctorlib %s %d %s %s" % (src, O, table(rng, A, S, O, None), body)) if pomdp else ("ctorlib %s %s" % (src, body))
                out.append("%s 3 %s %s setd 1/2" % (cls, first, op))
    return out

# ---------------------------------------------------------------- rejected setters must not half-update
def table_at(rng, n1, n2, n3, bad, i, j):
    """all rows valid (never crumb rows), except row (i,j) of kind `bad`"""
    rows = [[make_row(rng, n3, rng.choice(["dyadic", "dyadic", "general", "off_in_hi", "off_in_lo"])) for _ in range(n2)] for _ in range(n1)]
    if bad is not None: rows[i][j] = make_row(rng, n3, bad)
    flat = [x for m in rows for r in m for x in r]
    return "%d %s" % (len(flat), " ".join(fx(x) for x in flat))

def gen_half_update(rng, full):
    """object with identity dynamics -> accepted setter with DIFFERENT valid dynamics -> rejected setter whose only bad
    row sits in the last or a middle action (and any state) -> the dump must be unchanged.  For the sparse template
    setters the bad row is a crumb row (valid on the plain check, fails only once entries <= 1e-6 are dropped)."""
    out = []
    for cls in ["md", "ms", "pd", "ps"]:
        sparse = cls in ("ms", "ps"); pomdp = cls in ("pd", "ps")
        setters = ["sett3", "settm"] + (["seto3", "setom"] if pomdp else [])
        for st in setters:
            for rep in range(3 if full else 1):
                S = 3; A = rng.choice([2, 3, 3]); O = 3
                a_bad = A - 1 if (rep % 2 == 0 or A == 2) else rng.randrange(1, A)
                s_bad = rng.randrange(S)
                template = st in ("sett3", "seto3")
                bad = "smalls2" if (sparse and template and (rep == 0 or maybe(rng, 0.6))) else rng.choice(["sum_lo", "nan", "neg", "off_out_hi", "off_out_lo", "inf"])
                n3 = O if st in ("seto3", "setom") else S
                if template: good = table_at(rng, S, A, n3, None, 0, 0); badt = table_at(rng, S, A, n3, bad, s_bad, a_bad)
                else:        good = table_at(rng, A, S, n3, None, 0, 0); badt = table_at(rng, A, S, n3, bad, a_bad, s_bad)
                first = "ctor3 %d %d 3/4" % (S, A)
                if pomdp: first = "pctor %d %s" % (O, first)
                # also through the (s,a,t,r,d) constructor: a throwing constructor leaves the old object
                tail = "setd 1/2"
                if st == "sett3" and maybe(rng, 0.5):
                    c = "ctort %d %d 1/2 %s %s" % (S, A, table_at(rng, S, A, S, bad, s_bad, a_bad), rewards(rng, S * A * S, sparse))
                    tail = (("pctor %d %s" % (O, c)) if pomdp else c) + " setd 1/2"
                out.append("%s %d %s %s %s %s %s %s" % (cls, 4 + tail.count("ctort"), first, st, good, st, badt, tail))
    return out

def gen(rng, tier):
    n = {"quick": 420, "thorough": 4000, "search": 1500}[tier]
    out = []
    # -- single validator calls
    for _ in range(n // 6):
        ov = rng.choice(["t1", "t2", "t3", "m2", "m3", "s2", "s3"])
        rows = 1 if ov == "t1" else rng.choice([1, 2, 3]); cols = rng.choice([1, 2, 3, 4])
        bad = rng.choice(ROW_KINDS_BAD) if maybe(rng, 0.6) else None
        if ov in ("s2", "s3") and bad == "neg_small" and not maybe(rng, 0.15): bad = "neg"
        out.append("isprob %s %d %d %s" % (ov, rows, cols, table(rng, 1, rows, cols, bad)))
    # -- AMDP discretisations of small valid POMDPs (S >= 2: for S = 1 the library divides by log(1) = 0).
    #    Regimes of the observation function: "dy" dyadic rows; "few" 4..12 observations of probability in
    #    (0, 1e-6] each (skipped by the accumulation loop one by one, together well above 1e-6); "many" 1100..2000 such
    #    observations (together 1e-3..2e-3): the derived rows must still be normalised by the accumulated mass.
    for i in range(max(10, n // 25)):
        S = rng.choice([2, 2, 3]); A = rng.choice([1, 2])
        regime = "many" if i < 2 else rng.choice(["dy", "dy", "few", "few"])
        def dyt(n1, n2, n3):
            flat = [x for _ in range(n1 * n2) for x in dyadic_row(rng, n3)]
            return "%d %s" % (len(flat), " ".join(fx(x) for x in flat))
        if regime == "dy":
            O = rng.choice([1, 2, 3]); obs = dyt(S, A, O)
        else:
            ntiny = rng.randint(4, 12) if regime == "few" else rng.randint(1100, 2000)
            nbig = rng.choice([1, 2]); O = nbig + ntiny
            flat = []
            for _ in range(S * A):
                tiny = [rng.choice([2.0 ** -20, 2.0 ** -21, EPS9]) for _ in range(ntiny)]
                rest = 1.0 - sum(tiny)
                big = [rest] if nbig == 1 else [rest * 0.25, rest * 0.75]
                flat += big + tiny
            obs = "%d %s" % (len(flat), " ".join(fx(x) for x in flat))
        variant = rng.choice(["d", "s", "ds", "ss"]) if regime != "many" else ["d", "ss"][i % 2]
        nb = rng.choice([1, 2, 5, 20, 60]) if regime != "many" else rng.choice([3, 8])
        out.append("amdp %s %d %d %d %d %s %d %d %s %s %s" % (
            variant, rng.randrange(1, 10 ** 6), nb, rng.choice([1, 2, 3, 4]),
            O, obs, S, A, rng.choice(["1/2", "3/4", "1"]), dyt(S, A, S),
            "%d %s" % (S * A * S, " ".join(str(rng.randint(-4, 8)) for _ in range(S * A * S)))))
    # -- converting constructors from arbitrary sources (generic wrapper / NO_CHECK library models)
    out += gen_conversions(rng, tier != "quick")
    # -- rejected setters whose only bad row is in a late action: no half-update
    out += gen_half_update(rng, tier != "quick")
    # -- factored models: DDNGraph::push sequences, then CooperativeModel constructor / setDiscount
    for _ in range(max(30, n // 8)):
        out.append(gen_coop(rng))
    # -- op sequences.  Setter dimensions must match the object that exists, so the generator
    #    mirrors the accept/reject rule just enough to know which constructor succeeded: it builds
    #    constructors that are either entirely valid or contain exactly one planted defect.
    for _ in range(n - n // 6):
        cls = rng.choice(["md", "md", "ms", "ms", "pd", "ps"])
        out.append(gen_seq(rng, cls))
    return out

def gen_seq(rng, cls):
    sparse = cls in ("ms", "ps"); pomdp = cls in ("pd", "ps")
    nops = rng.randint(2, 7)
    toks = []
    pbad = 0.3
    # Setter payloads must have the dimensions of the object that exists.  All constructors of a
    # sequence therefore use the same S, A, O, except "resize" constructors that are certainly
    # accepted ((s,a,discount) with a valid discount).
    S = rng.choice([1, 2, 2, 3, 3]); A = rng.choice([1, 2, 2, 3]); O = rng.choice([1, 2, 2, 3])
    def bad_row():
        k = rng.choice(ROW_KINDS_BAD)
        # rows the SparseMatrix overload wrongly accepts are generated rarely (known finding)
        if k == "neg_small" and not maybe(rng, 0.1): k = "neg"
        return k
    def mk_base():
        k = rng.choice(["ctor3", "ctor3", "ctort", "ctort", "ctorc", "ctorc"])
        if k == "ctor3":
            return "ctor3 %d %d %s" % (S, A, discount(rng, maybe(rng, pbad)))
        kind = bad_row() if maybe(rng, pbad) else None
        return "%s %d %d %s %s %s" % (k, S, A, discount(rng, maybe(rng, pbad * 0.4)), table(rng, S, A, S, kind),
                                      rewards(rng, S * A * S, sparse))
    for i in range(nops):
        if (i == 0 and maybe(rng, 0.95)) or (i > 0 and maybe(rng, 0.15)):
            if i > 0 and maybe(rng, 0.3):       # resize: certainly accepted
                S = rng.choice([1, 2, 3]); A = rng.choice([1, 2, 3]); O = rng.choice([1, 2, 3])
                t = "ctor3 %d %d %s" % (S, A, discount(rng, False))
                toks.append(("pctor %d %s" % (O, t)) if pomdp else t)
                continue
            if not pomdp:
                t = mk_base()
            else:
                k = rng.choice(["pctor", "pctorob", "pctorc"])
                if k == "pctor":
                    t = "pctor %d %s" % (O, mk_base())
                elif k == "pctorob":
                    kind = bad_row() if maybe(rng, pbad) else None
                    t = "pctorob %d %s %s" % (O, table(rng, S, A, O, kind), mk_base())
                else:
                    ko = bad_row() if maybe(rng, pbad) else None
                    kt = bad_row() if maybe(rng, pbad) else None
                    t = "pctorc %d %s %d %d %s %s %s" % (O, table(rng, S, A, O, ko), S, A, discount(rng, maybe(rng, pbad * 0.4)),
                                                        table(rng, S, A, S, kt), rewards(rng, S * A * S, sparse))
            toks.append(t)
            continue
        setters = ["setd", "setd", "sett3", "settm", "setr3", "setrm"] + (["seto3", "setom"] if pomdp else ["conv"])
        k = rng.choice(setters)
        if k == "conv": toks.append("conv")
        elif k == "setd": toks.append("setd %s" % discount(rng, maybe(rng, 0.45)))
        elif k == "sett3": toks.append("sett3 %s" % table(rng, S, A, S, bad_row() if maybe(rng, 0.4) else None))
        elif k == "settm": toks.append("settm %s" % table(rng, A, S, S, bad_row() if maybe(rng, 0.4) else None))
        elif k == "setr3": toks.append("setr3 %s" % rewards(rng, S * A * S, sparse))
        elif k == "setrm": toks.append("setrm %s" % rewards(rng, S * A, sparse))
        elif k == "seto3": toks.append("seto3 %s" % table(rng, S, A, O, bad_row() if maybe(rng, 0.4) else None))
        elif k == "setom": toks.append("setom %s" % table(rng, A, S, O, bad_row() if maybe(rng, 0.4) else None))
    return "%s %d %s" % (cls, nops, " ".join(toks))
