"""props/C13.py — descriptor for property C13 (coordination-graph maximisers return what they claim)."""
REPO_SRCS = [
    "src/Seeder.cpp",
    "src/Factored/Utils/Core.cpp",
    "src/Factored/Bandit/Algorithms/Utils/VariableElimination.cpp",
    "src/Factored/Bandit/Algorithms/Utils/MultiObjectiveVariableElimination.cpp",
    "src/Factored/Bandit/Algorithms/Utils/UCVE.cpp",
    "src/Factored/Bandit/Algorithms/Utils/MaxPlus.cpp",
    "src/Factored/Bandit/Algorithms/Utils/LocalSearch.cpp",
    "src/Factored/Bandit/Algorithms/Utils/ReusingIterativeLocalSearch.cpp",
]
AXIOM_ALLOW = ["ClassicalDedekindReals.sig_forall_dec", "ClassicalDedekindReals.sig_not_dec",
               "FunctionalExtensionality.functional_extensionality_dep"]   # Coq's Reals, used only by the UCVE theorems
RULE = ("random rule sets: 1..6 agents with 1..4 actions, 0..10 rules over 1..3 agents each (repeated, nested, "
        "overlapping, disconnected key sets; unmentioned agents; negative / zero dyadic payoffs), 1..3 rule sets "
        "per case run on the same maximiser/graph objects; *mix kinds: one maximiser (VE: and graph) object over 2..4 "
        "problems with DIFFERENT action spaces; veq/lsq/mpq/rilsq: QFunction (FactoredVector) inputs with several "
        "bases on the same tag and nested/overlapping tags, through the QFunction overloads of Make/UpdateGraph; non-trivial = at least two rules and one rule over "
        ">= 2 agents")
TRUSTED_BASE = [
    "size_t modelled as unbounded nat; doubles as exact rationals (dyadic payoffs: sums are exact)",
    "toIndexPartial / PartialFactorsEnumerator modelled by their mixed-radix meaning (property C14)",
    "std::lower_bound modelled as a linear scan for the first id >= key (equal on sorted rule lists)",
    "FactorGraph adjacency bookkeeping (per-variable factor lists, vNeighbors) modelled by its meaning: "
    "sub-sequences of the creation-ordered factor list / sorted union of adjacent variables",
    "payoffs are never numeric_limits<double>::lowest() (used by the code as a 'nothing found' marker)",
    "MOVE model = the code repaired by fixes/C13-move-ucve-unmentioned-zero.patch; extractDominated modelled by its "
    "meaning on exactly represented vectors (results compared as sets of value vectors); LS/MaxPlus/RILS search, "
    "message passing and RNG are not modelled (any in-range action + evaluateGraph); UCVE: executable model of the repaired code "
    "(value and, with the hook UCVE::verifBoundsObserver, the pruning bounds of every removal are compared), its "
    "optimality is NOT proved; comparisons a+sqrt(b) use the Coq function sqrt_sum_le (proved exact, ProofsSqrt.v) "
    "where the C++ uses doubles; extractDominated by meaning",
    "AITOOLBOX_VERIF hook UCVE::verifBoundsObserver (/repo c2b3fd6): reports (agent, x_l, x_u) at the end of "
    "Global::beginRemoval; trusted to pass the values the pruning of that removal actually uses",
    "UCVE theorems over the reals rely on Coq's standard-library real-number axioms (sig_forall_dec, sig_not_dec, "
    "functional_extensionality_dep)",
]
ASSUMPTIONS = [
    "every agent has at least one action; rule keys are non-empty, strictly increasing, name existing agents; "
    "rule values are in range",
    "the elimination order is a permutation of the agents (bestVariableToRemove returns an active variable)",
]
CASE_TIMEOUT = 20


def L(xs):
    return "%d %s" % (len(xs), " ".join(map(str, xs))) if xs else "0"


def dy(rng, lo=-32, hi=32, den=4):
    n = rng.randint(lo, hi)
    if rng.random() < 0.15:
        n = 0
    d = rng.choice([1, 2, den])
    return "%d/%d" % (n, d) if d != 1 else "%d" % n


def gen_A(rng, maxn=6, maxa=4):
    n = min(rng.choice([1, 2, 2, 3, 3, 3, 4, 4, 5, 6]), maxn)
    return [min(rng.choice([1, 2, 2, 3, 3, 4]), maxa) for _ in range(n)]


def gen_keysets(rng, A, maxk=3):
    """a pool of key sets: overlapping, nested, repeated, possibly leaving agents unmentioned"""
    n = len(A)
    pool = []
    for _ in range(rng.randint(1, 4)):
        k = rng.randint(1, min(maxk, n))
        ks = sorted(rng.sample(range(n), k))
        pool.append(ks)
        if k > 1 and rng.random() < 0.4:     # nested subset
            pool.append(sorted(rng.sample(ks, rng.randint(1, k - 1))))
    return pool


def gen_rules(rng, A, pool, payload, maxr=10):
    nr = rng.choice([0, 1, 2, 3, 4, 5, 6, 7, 8, 9, 10])
    nr = min(nr, maxr)
    rules = []
    for _ in range(nr):
        if rules and rng.random() < 0.15:      # exact duplicate of an earlier rule's local action
            ks, vs, _ = rng.choice(rules)
        else:
            ks = rng.choice(pool)
            vs = [rng.randrange(A[k]) for k in ks]
        rules.append((ks, vs, payload(rng)))
    return rules


def gen_complete_rules(rng, A, pool, payload, maxr=40):
    """every key set used gets a rule for each local joint action (plus a few duplicates)"""
    import itertools
    rules = []
    for ks in rng.sample(pool, rng.randint(1, len(pool))):
        if any(r[0] == ks for r in rules):
            continue
        for vs in itertools.product(*[range(A[k]) for k in ks]):
            rules.append((ks, list(vs), payload(rng)))
    for _ in range(rng.randint(0, 2)):
        ks, vs, _ = rng.choice(rules)
        rules.append((ks, vs, payload(rng)))
    rng.shuffle(rules)
    return rules[:maxr] if len(rules) <= maxr else gen_complete_rules(rng, A, pool[:1], payload, 10 ** 6)


def fmt_rules(rules):
    return "%d %s" % (len(rules), " ".join("%s %s %s" % (L(ks), L(vs), p) for ks, vs, p in rules)) if rules else "0"


def gen_ucve_connected(rng):
    """connected graph, complete tables, several overlapping factors (regime of the UCVE pruning defect)"""
    import itertools
    n = rng.randint(3, 5)
    A = [rng.choice([2, 2, 3]) for _ in range(n)]
    ksets = []
    perm = list(range(n)); rng.shuffle(perm)
    for i in range(1, n):
        ks = sorted({perm[i], perm[rng.randrange(i)]})
        if rng.random() < 0.3:
            ks = sorted(set(ks) | {rng.randrange(n)})
        if ks not in ksets:
            ksets.append(ks)
    for _ in range(rng.randint(0, 2)):
        ks = sorted(rng.sample(range(n), rng.randint(1, 2)))
        if ks not in ksets:
            ksets.append(ks)
    den = rng.choice([4, 16, 64])
    rules = []
    for ks in ksets:
        for vs in itertools.product(*[range(A[k]) for k in ks]):
            rules.append((ks, list(vs), "%d/%d %d/%d" % (rng.randint(0, den), den, rng.randint(0, den), den)))
    logtA = rng.choice(["1/2", "1", "2", "4", "8", "25/2"])
    return "ucve %s %s 1 %s" % (L(A), logtA, fmt_rules(rules))


def gen_ucve_mixed(rng):
    """several disconnected components, tables with unmentioned (implicitly (0,0)) local actions, a mix of
    'bad' entries (very negative mean, large bonus) and mean-vs-bonus trade-offs: the regime where the
    bounds carried over from finished components and the implicit zero entries interact"""
    import itertools
    n = rng.randint(2, 5)
    A = [rng.choice([2, 2, 2, 3]) for _ in range(n)]
    agents = list(range(n)); rng.shuffle(agents)
    k = rng.randint(2, min(3, n))
    cuts = sorted(rng.sample(range(1, n), k - 1))
    parts = [sorted(agents[i:j]) for i, j in zip([0] + cuts, cuts + [n])]
    rules = []

    def entry(bad):
        if bad:
            return "%d %d" % (-rng.choice([3, 10, 50, 100]), rng.choice([4, 9, 25, 50]))
        style = rng.random()
        if style < 0.5:      # trade-off: decent mean / no bonus  versus  low mean / some bonus
            return rng.choice(["%d/16 0" % rng.randint(8, 20), "0 %d/4" % rng.randint(1, 8),
                               "%d/16 %d/16" % (rng.randint(0, 16), rng.randint(0, 32))])
        return "%s %s" % (dy(rng, -8, 16, 16), dy(rng, 0, 32, 16))

    for part in parts:
        ksets = []
        if len(part) == 1:
            ksets = [part]
        else:
            for i in range(1, len(part)):
                ksets.append(sorted([part[i], part[rng.randrange(i)]]))
            if rng.random() < 0.3:
                ksets.append([rng.choice(part)])
        bad_part = rng.random() < 0.5
        for ks in ksets:
            locs = list(itertools.product(*[range(A[x]) for x in ks]))
            keep = [l for l in locs if rng.random() < 0.6] or [rng.choice(locs)]
            if len(keep) == len(locs) and rng.random() < 0.7:
                keep.pop(rng.randrange(len(keep)))            # leave at least one action unmentioned
            for vs in keep:
                rules.append((ks, list(vs), entry(bad_part and rng.random() < 0.8)))
    rng.shuffle(rules)
    logtA = rng.choice(["1/2", "2", "2", "8", "25/2"])
    return "ucve %s %s 1 %s" % (L(A), logtA, fmt_rules(rules))


def gen_ucve_holes_components(rng):
    """directed at the bookkeeping of finished components: one small component whose mentioned actions
    are all bad (very negative mean, large bonus) and which has unmentioned actions (so the optimum takes an
    implicit (0,0) there), next to a chain of >= 2 agents whose entries trade mean against bonus"""
    import itertools
    nb = rng.choice([1, 1, 2])                 # agents of the bad component
    nt = rng.choice([2, 2, 3])                 # agents of the trade-off chain
    n = nb + nt
    perm = list(range(n)); rng.shuffle(perm)
    bad, chain = sorted(perm[:nb]), perm[nb:]
    A = [2] * n
    for x in range(n):
        if rng.random() < 0.25:
            A[x] = 3
    rules = []
    ks = bad
    locs = list(itertools.product(*[range(A[x]) for x in ks]))
    rng.shuffle(locs)
    for vs in locs[:rng.randint(1, len(locs) - 1)]:      # at least one local action stays unmentioned
        rules.append((ks, list(vs), "%d %d" % (-rng.choice([20, 100]), rng.choice([16, 25, 50, 64]))))
    for i in range(1, len(chain)):
        ks = sorted([chain[i - 1], chain[i]])
        locs = list(itertools.product(*[range(A[x]) for x in ks]))
        for vs in locs:
            r = rng.random()
            if r < 0.25:
                continue                                  # unmentioned
            if r < 0.6:
                rules.append((ks, list(vs), "%d/32 0" % rng.randint(8, 40)))          # mean, no bonus
            else:
                rules.append((ks, list(vs), "%d/32 %d/16" % (rng.randint(0, 8), rng.randint(4, 40))))   # bonus
    rng.shuffle(rules)
    logtA = rng.choice(["1/2", "2", "2", "8"])
    return "ucve %s %s 1 %s" % (L(A), logtA, fmt_rules(rules))


def gen_ucve_sparse_pairs(rng):
    """three independent rule sets (see gen_ucve_sparse_pairs1) over one action space, run on one UCVE object"""
    first = gen_ucve_sparse_pairs1(rng, None)
    toks = first.split()
    n = int(toks[1]); A = [int(x) for x in toks[2:2 + n]]; logtA = toks[2 + n]
    sets = [" ".join(toks[4 + n:])]
    for _ in range(2):
        t = gen_ucve_sparse_pairs1(rng, (A, logtA)).split()
        sets.append(" ".join(t[4 + n:]))
    return "ucve %s %s 3 %s" % (L(A), logtA, " ".join(sets))


def gen_ucve_sparse_pairs1(rng, fixed):
    """directed at the bounds taken from sparse factors still in the graph: two or more disjoint sparse
    pair factors; in one every mentioned entry has a huge bonus and a very negative mean (the optimum avoids
    it and takes the implicit (0,0)); in the others entries trade a low / negative mean against some bonus"""
    import itertools
    if fixed is None:
        npairs = rng.choice([2, 2, 3])
        n = 2 * npairs + rng.choice([0, 0, 1])
        A = [2 if rng.random() < 0.8 else 3 for _ in range(n)]
    else:
        A = fixed[0]; n = len(A); npairs = n // 2
    perm = list(range(n)); rng.shuffle(perm)
    rules = []
    huge = rng.randrange(npairs)
    logtA = rng.choice(["1/2", "2", "2", "8"]) if fixed is None else fixed[1]
    ldiv = {"1/2": 16, "2": 64, "8": 256}[logtA]                  # bonus = (j/8)^2 / (logtA/2) = j^2 / ldiv

    def marginal():
        # negative mean, bonus worth slightly more than the mean costs: better than the implicit (0,0)
        # only as long as the rest of the graph adds little bonus
        j = rng.randint(2, 12)
        return "%d/8 %d/%d" % (-(j - rng.randint(1, min(j, 3))), j * j, ldiv)

    for i in range(npairs):
        ks = sorted(perm[2 * i: 2 * i + 2])
        locs = list(itertools.product(*[range(A[x]) for x in ks]))
        rng.shuffle(locs)
        for vs in locs[:rng.randint(1, len(locs) - 1)]:          # sparse: at least one local action unmentioned
            if i == huge:
                rules.append((ks, list(vs), "%d %d" % (-rng.choice([5, 20, 100]), rng.choice([36, 64, 100, 400]))))
            else:
                r = rng.random()
                if r < 0.65:
                    rules.append((ks, list(vs), marginal()))
                elif r < 0.8:
                    rules.append((ks, list(vs), "%d/8 0" % rng.randint(-4, 2)))
                else:
                    rules.append((ks, list(vs), "%s %s" % (dy(rng, -8, 8, 8), dy(rng, 0, 16, 4))))
    if n > 2 * npairs and rng.random() < 0.7:                        # a pendant agent on one of the pairs
        ks = sorted([perm[-1], perm[rng.randrange(2 * npairs)]])
        vs = [rng.randrange(A[x]) for x in ks]
        rules.append((ks, vs, "%d/8 %d/4" % (-rng.randint(0, 8), rng.randint(0, 8))))
    rng.shuffle(rules)
    return "ucve %s %s 1 %s" % (L(A), logtA, fmt_rules(rules))


def gen_qf(rng, A, tags):
    """a QFunction: 2..5 bases drawn WITH repetition from the tags (several bases on one tag), dense dyadic values"""
    nb = rng.randint(1, 5)
    bases = []
    for i in range(nb):
        tag = tags[i] if i < len(tags) and rng.random() < 0.5 else rng.choice(tags)
        size = 1
        for k in tag:
            size *= A[k]
        bases.append("%s %d %s" % (L(tag), size, " ".join(dy(rng) for _ in range(size))))
    return "%d %s" % (nb, " ".join(bases))


def gen_case_q(rng, kind):
    A = gen_A(rng, maxn=5)
    pool = gen_keysets(rng, A)                      # overlapping / nested tags
    tags = [list(t) for t in {tuple(t) for t in pool}]
    tags = tags[:rng.randint(1, len(tags))]
    nsets = rng.choice([1, 2, 2, 3])
    extra = ""
    if kind == "mpq":
        extra = " %d" % rng.choice([0, 1, 2, 5, 10])
    if kind == "rilsq":
        extra = " %d %d" % (rng.choice([0, 1, 3, 10]), rng.choice([0, 1]))
    first = gen_qf(rng, A, tags)
    # the first QFunction fixes the graph structure: make sure it mentions every tag
    first_all = "%d %s" % (len(tags) + int(first.split()[0]),
                           " ".join("%s %d %s" % (L(t), _sz(A, t), " ".join(dy(rng) for _ in range(_sz(A, t)))) for t in tags)
                           + " " + first.split(" ", 1)[1])
    sets = [first_all] + [gen_qf(rng, A, tags) for _ in range(nsets - 1)]
    return "%s %s%s %d %s" % (kind, L(A), extra, nsets, " ".join(sets))


def _sz(A, tag):
    s = 1
    for k in tag:
        s *= A[k]
    return s


def gen_case(rng, kind):
    if kind in ("veq", "lsq", "mpq", "rilsq"):
        return gen_case_q(rng, kind)
    if kind in ("move", "ucve"):
        A = gen_A(rng, maxn=5, maxa=3)
    else:
        A = gen_A(rng)
    pool = gen_keysets(rng, A)
    nsets = rng.choice([1, 1, 2, 2, 3])
    if kind == "ve":
        order = list(range(len(A))); rng.shuffle(order)
        sets = []
        for _ in range(nsets):
            sets.append(gen_rules(rng, A, pool if rng.random() < 0.5 else gen_keysets(rng, A), dy))
        return "ve %s %s %d %s" % (L(A), L(order), nsets, " ".join(fmt_rules(s) for s in sets))
    if kind in ("ls", "mp", "rils"):
        first = gen_rules(rng, A, pool, dy)
        used = [ks for ks, _, _ in first] or None
        sets = [first]
        for _ in range(nsets - 1):
            sets.append(gen_rules(rng, A, used, dy) if used else [])
        extra = ""
        if kind == "mp":
            extra = " %d" % rng.choice([0, 1, 2, 5, 10])
        if kind == "rils":
            extra = " %d %d" % (rng.choice([0, 1, 3, 10]), rng.choice([0, 1]))
        return "%s %s%s %d %s" % (kind, L(A), extra, nsets, " ".join(fmt_rules(s) for s in sets))
    if kind.endswith("mix"):
        nseg = rng.choice([2, 3, 3, 4])
        segs = []
        first = None
        for _ in range(nseg):
            As = gen_A(rng)
            first = first or As
            segs.append("%s %s" % (L(As), fmt_rules(gen_rules(rng, As, gen_keysets(rng, As), dy))))
        return "%s %s %d %s" % (kind, L(first), nseg, " ".join(segs))
    if kind == "move":
        nobj = rng.choice([2, 2, 3])
        pay = lambda r: "%d %s" % (nobj, " ".join(dy(r, -8, 8) for _ in range(nobj)))
        sets = [(gen_complete_rules(rng, A, pool, pay) if rng.random() < 0.6 else gen_rules(rng, A, pool, pay, maxr=7)) for _ in range(nsets)]
        return "move %s %d %d %s" % (L(A), nobj, nsets, " ".join(fmt_rules(s) for s in sets))
    if kind == "ucve" and rng.random() < 0.3:
        return gen_ucve_connected(rng)
    if kind == "ucve" and rng.random() < 0.35:
        return gen_ucve_mixed(rng)
    if kind == "ucve" and rng.random() < 0.4:
        return gen_ucve_holes_components(rng)
    if kind == "ucve" and rng.random() < 0.7:
        return gen_ucve_sparse_pairs(rng)
    if kind == "ucve":
        logtA = rng.choice(["1/2", "1", "2", "4", "8", "25/2"])
        lo = -16 if rng.random() < 0.3 else 0
        pay = lambda r: "%s %s" % (dy(r, lo, 16, 16), dy(r, 0, 16, 16))
        sets = [(gen_complete_rules(rng, A, pool, pay) if rng.random() < 0.6 else gen_rules(rng, A, pool, pay, maxr=7)) for _ in range(nsets)]
        return "ucve %s %s %d %s" % (L(A), logtA, nsets, " ".join(fmt_rules(s) for s in sets))
    raise ValueError(kind)


def gen(rng, tier):
    n = {"quick": 1500, "thorough": 12000, "search": 4000}[tier]
    kinds = ["ve"] * 9 + ["ls", "ls", "mp", "mp", "rils", "rils", "move", "move", "ucve", "ucve",
                          "vemix", "lsmix", "mpmix", "rilsmix", "ucve",
                          "veq", "lsq", "mpq", "rilsq"]
    return [gen_case(rng, rng.choice(kinds)) for _ in range(n)]
