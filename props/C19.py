"""props/C19.py — descriptor for property C19 (online planners respect the horizon and keep a
consistent tree): MCTS (fixed and variable action space), POMCP and rPOMCP driven through a scripted, logging generative model."""
REPO_SRCS = ["src/Seeder.cpp"]
AXIOM_ALLOW = []
CASE_TIMEOUT = 20
THOROUGH_SEEDS = 3
SEARCH_SEEDS = 2
TRUSTED_BASE = [
    "UCB action selection (log/sqrt), rollout action draws, root-particle draws and makeSampledBelief are inputs of the "
    "machine, observed through the logged arguments of the scripted model's sampleSR/sampleSOR calls",
    "the scripted model reads the planner's root visit counter through the public getGraph() to delimit simulations",
    "unsigned/size_t modelled as unbounded nat; unordered_map modelled as an association list with unique keys",
]
ASSUMPTIONS = [
    "the theorems are stated for a fixed action space A >= 1; MCTS with a variable action space getA(s) is covered by the same machine (correspondence) and the oracle; rPOMCP is covered at oracle level only",
    "the first call of a history is sampleAction(s|b, horizon); sampleAction(a, ., h) is called with a < A",
    "doubles: V compared within 1e-9 (the mean is not dyadic); N, particles, simulation boundaries compared exactly",
]
RULE = ("cases from props/C19.py gen(): random tabulated generative models (1-4 states, 1-3 actions, 1-3 observations, "
        "1-3 outcomes per (s,a), terminal states, rewards of either sign, discount in {1/4,1/2,3/4,1}), horizons 0-6, "
        "0-40 iterations, histories of 1-4 calls advancing with simulated and never-simulated states/observations; "
        "in about 40 % of the cases the model's discount / a reward is changed through the model AFTER the planner was built (before any call and between calls); "
        "non-trivial = the final tree has depth >= 2 or a subtree was promoted; distinct by md5 of the case line")


def q(n, d):
    return "%d/%d" % (n, d) if d != 1 else "%d" % n


# Boundary mode (about 25 % of the cases): force one or two of the case-split boundaries of the proofs -
# horizon 1 (no descent: every child is a leaf at the horizon), a single action, a single observation,
# a single state, one outcome per (s,a), a one-particle belief, a single iteration, rPOMCP's k in {0,1,2}
# (N == k / N > k on the first visits), and an advance with an observation no simulation can have
# produced (o = O: never simulated -> the tree is reset from the uniform belief).
_BD = {}


def bd_pick(rng):
    keys = ["h1", "A1", "O1", "S1", "K1", "b1", "it1", "k01", "unseen", "h2"]
    return {k: True for k in rng.sample(keys, rng.choice([1, 1, 2, 3]))}


def gen_model(rng, iso0=False):
    """iso0: state 0 is never produced by the model (S >= 2) - it is impossible under every history
    whose initial belief gives it no mass."""
    S = rng.choice([2, 3, 3, 4] if iso0 else [1, 2, 2, 3, 3, 4])
    A = rng.choice([1, 2, 2, 3])
    O = rng.choice([1, 2, 2, 3])
    K = rng.choice([1, 2, 2, 3])
    if _BD.get("S1") and not iso0: S = 1
    if _BD.get("A1"): A = 1
    if _BD.get("O1"): O = 1
    if _BD.get("K1"): K = 1
    disc = rng.choice(["1/2", "1/2", "1", "3/4", "1/4"])
    pterm = rng.choice([0.0, 0.2, 0.2, 0.4])
    term = [1 if rng.random() < pterm else 0 for _ in range(S)]
    style = rng.choice(["int", "int", "dyadic", "neg", "pos"])
    tab = []
    for _ in range(S * A * K):
        s1 = rng.randrange(1, S) if iso0 else rng.randrange(S); o = rng.randrange(O)
        if style == "int": r = q(rng.randint(-4, 4), 1)
        elif style == "dyadic": r = q(rng.randint(-12, 12), 4)
        elif style == "neg": r = q(rng.randint(-5, -1), 1)
        else: r = q(rng.randint(0, 5), 1)
        tab += [str(s1), str(o), r]
    head = "%d %d %d %d %d %s %s %s" % (rng.randrange(1, 2 ** 31), S, A, O, K, disc, " ".join(map(str, term)), " ".join(tab))
    return head, S, A, O


# Model-side setter calls between planner calls (round 6).  The planners hold the model by const reference
# and read getDiscount() / sample from it at use time, so the model may change AFTER the planner object
# exists: "D <disc>" = setDiscount, "W <idx> <r>" = one reward of the tabulated model changes.  They are
# written in front of an op (also in front of the first one: the planner is constructed before any op) and
# are not counted in <nops>.  _MUT["on"] is drawn once per case (about 40 % of the cases).
_MUT = {}


def setters(rng, ntab):
    if not _MUT.get("on"): return ""
    out = ""
    if rng.random() < 0.6:
        out += "D %s " % rng.choice(["1/4", "1/2", "3/4", "1", "1", "1/4"])
    if rng.random() < 0.2:
        out += "W %d %s " % (rng.randrange(ntab), rng.choice([q(rng.randint(-6, 6), 1), q(rng.randint(-12, 12), 4)]))
    return out


def ntab_of(head):
    t = head.split()
    return int(t[1]) * int(t[2]) * int(t[4])


def gen_horizon(rng):
    if _BD.get("h1"): return 1
    if _BD.get("h2"): return 2
    return rng.choice([1, 1, 2, 2, 3, 3, 4, 5, 6])


def bd_iters(rng, iters):
    return 1 if _BD.get("it1") else iters


def bd_bsize(rng, b):
    return 1 if _BD.get("b1") else b


def bd_obs(rng, O):
    """observation used to advance: in boundary mode 'unseen' one that no simulation can have produced"""
    return O if _BD.get("unseen") and rng.random() < 0.7 else rng.randrange(O)


def next_h(rng, h):
    r = rng.random()
    if r < 0.7: return max(0, h - 1)
    if r < 0.85: return h
    if r < 0.93: return gen_horizon(rng)
    return rng.choice([0, max(0, h - 2)])


def gen_mctsv(rng):
    """MCTS on a model with a variable action space getA(s) in 1..A."""
    head, S, A, O = gen_model(rng)
    if A < 2: return None
    acnt = [rng.randint(1, A) for _ in range(S)]
    if rng.random() < 0.5:      # action sets that shrink along the state order
        acnt = sorted(acnt, reverse=True)
    iters = bd_iters(rng, rng.choice([1, 2, 3, 5, 8, 12, 20, 30]))
    expl = rng.choice(["0", "1/2", "1", "5", "100"])
    h = 2 if _BD.get("h2") else rng.choice([2, 3, 3, 4, 5, 6])
    cur = rng.randrange(S)
    nt = ntab_of(head)
    ops = [setters(rng, nt) + "F %d %d" % (cur, h)]
    for _ in range(rng.choice([0, 1, 1, 2])):
        h = next_h(rng, h)
        a = rng.randrange(acnt[cur]); cur = rng.randrange(S)
        ops.append(setters(rng, nt) + "A %d %d %d" % (a, cur, h))
    return "mctsv %s %s %d %s %d %s" % (head, " ".join(map(str, acnt)), iters, expl, len(ops), " ".join(ops))


def gen_rpomcp(rng):
    iso0 = rng.random() < 0.5
    head, S, A, O = gen_model(rng, iso0)
    entropy = rng.choice([0, 0, 1])
    bsize = bd_bsize(rng, rng.choice([1, 2, 3, 5, 8]))
    iters = bd_iters(rng, rng.choice([1, 3, 8, 15, 25, 40, 60]))
    expl = rng.choice(["0", "1/2", "1", "5", "100"])
    k = rng.choice([0, 1, 2]) if _BD.get("k01") else rng.choice([1, 2, 3, 5, 500])

    def belief():
        w = [rng.choice([0, 1, 1, 2, 3]) for _ in range(S)]
        if iso0: w[0] = 0
        if sum(w) == 0: w[S - 1] = 1
        tot = sum(w); p = 1
        while p < tot: p *= 2
        w[w.index(max(w))] += p - tot
        return " ".join(q(x, p) for x in w)
    h = gen_horizon(rng)
    nt = ntab_of(head)
    ops = [setters(rng, nt) + "F %s %d" % (belief(), h)]
    for _ in range(rng.choice([0, 1, 1, 2, 3])):
        h = next_h(rng, h)
        if rng.random() < 0.1:
            ops.append(setters(rng, nt) + "F %s %d" % (belief(), h))
        else:
            ops.append(setters(rng, nt) + "A %d %d %d" % (rng.randrange(A), bd_obs(rng, O), h))
    return "rpomcp %d %s %d %d %s %d %d %s" % (entropy, head, bsize, iters, expl, k, len(ops), " ".join(ops))


def gen_case(rng):
    _BD.clear()
    if rng.random() < 0.25: _BD.update(bd_pick(rng))
    _MUT.clear()
    if rng.random() < 0.4: _MUT["on"] = True
    r = rng.random()
    if r < 0.2:
        c = gen_mctsv(rng)
        if c: return c
    elif r < 0.4:
        return gen_rpomcp(rng)
    head, S, A, O = gen_model(rng)
    iters = bd_iters(rng, rng.choice([0, 1, 2, 3, 5, 8, 12, 20, 30, 40]))
    expl = rng.choice(["0", "1/2", "1", "5", "100"])
    nadv = rng.choice([0, 1, 1, 2, 3])
    h = gen_horizon(rng)
    nt = ntab_of(head)
    if rng.random() < 0.5:
        ops = [setters(rng, nt) + "F %d %d" % (rng.randrange(S), h)]
        for _ in range(nadv):
            h = next_h(rng, h)
            if rng.random() < 0.12:
                ops.append(setters(rng, nt) + "F %d %d" % (rng.randrange(S), h))
            else:
                ops.append(setters(rng, nt) + "A %d %d %d" % (rng.randrange(A), rng.randrange(S), h))
        return "mcts %s %d %s %d %s" % (head, iters, expl, len(ops), " ".join(ops))
    else:
        bsize = bd_bsize(rng, rng.choice([1, 2, 3, 5, 8]))

        def belief():
            w = [rng.choice([0, 1, 1, 2, 3]) for _ in range(S)]
            if sum(w) == 0: w[rng.randrange(S)] = 1
            # make it dyadic: scale to denominators 2^k by repeating until the sum is a power of two
            tot = sum(w); p = 1
            while p < tot: p *= 2
            w[w.index(max(w))] += p - tot
            return " ".join(q(x, p) for x in w)
        ops = [setters(rng, nt) + "F %s %d" % (belief(), h)]
        for _ in range(nadv):
            h = next_h(rng, h)
            if rng.random() < 0.12:
                ops.append(setters(rng, nt) + "F %s %d" % (belief(), h))
            else:
                ops.append(setters(rng, nt) + "A %d %d %d" % (rng.randrange(A), bd_obs(rng, O), h))
        return "pomcp %s %d %d %s %d %s" % (head, bsize, iters, expl, len(ops), " ".join(ops))


def gen(rng, tier):
    n = {"quick": 1200, "thorough": 5000, "search": 1500}[tier]
    return [gen_case(rng) for _ in range(n)]
