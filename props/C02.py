"""props/C02.py — exact POMDP solvers compute the true finite-horizon value."""
REPO_SRCS = ["src/POMDP/Algorithms/IncrementalPruning.cpp", "src/POMDP/Algorithms/Witness.cpp",
             "src/POMDP/Algorithms/LinearSupport.cpp", "src/POMDP/Utils.cpp", "src/POMDP/Policies/Policy.cpp",
             "src/MDP/Model.cpp", "src/MDP/SparseModel.cpp", "src/MDP/Utils.cpp", "src/Utils/Polytope.cpp",
             "src/Utils/Probability.cpp", "src/Utils/Combinatorics.cpp", "src/Utils/LP/LpSolveWrapper.cpp", "src/Seeder.cpp"]
EXTRA_LINK = ["/usr/lib/liblpsolve55.a", "-lcolamd", "-ldl"]
AXIOM_ALLOW = []
CASE_TIMEOUT = 60
from pomdpgen import gen_pomdp, fmt_pomdp, gen_beliefs, L, Qs

def gen(rng, tier):
    n = {"quick": 160, "thorough": 700, "search": 300}[tier]
    from fractions import Fraction as F
    out = []
    # warm-up: every solver and representation first sees a ONE-state problem, so that anything a solver keeps
    # from its first call (sizes, LP dimensions, caches) is wrong for every later case
    for alg in ("ip", "wit", "ls"):
        for repr_ in ("dense", "sparse", "generic", "mixed1", "mixed2", "byvalue"):
            m = gen_pomdp(rng, 1, 2, 2, gammas=(F(1, 2),))
            bs = gen_beliefs(rng, 1, 1)
            out.append("solve %s %s 2 %s %d %s" % (alg, repr_, fmt_pomdp(m), len(bs), " ".join(Qs(b) for b in bs)))
    # LinearSupport on four and five states: the faces of the simplex have faces of their own, and the corners can be
    # covered by fewer than S-1 vectors
    for k in range({"quick": 40, "thorough": 150, "search": 80}[tier]):
        S = rng.choice([4, 4, 5]); A = rng.choice([2, 2, 3]); O = rng.choice([1, 2, 2])
        m = gen_pomdp(rng, S, A, O, gammas=(F(1, 2), F(3, 4)))
        r = rng.random()
        if r < 0.3:      # one action is best at most corners
            for srow in m["R"]:
                srow[0] = srow[0] + rng.choice([2, 4, 8])
        elif r < 0.75:   # a compromise action that is best only in the interior: the corners are covered by two vectors,
                         # every other useful vector must come from the vertex search
            A = 3
            m = gen_pomdp(rng, S, A, O, gammas=(F(1, 2), F(3, 4)))
            for srow in m["R"]:
                good = rng.randrange(2)
                srow[good] = F(rng.randint(8, 16), 2); srow[1 - good] = -F(rng.randint(8, 16), 2); srow[2] = F(rng.randint(2, 4), 2)
        bs = gen_beliefs(rng, S, 6)
        out.append("solve ls %s %d %s %d %s" % (rng.choice(["dense", "dense", "sparse", "generic"]), rng.choice([1, 2, 2]), fmt_pomdp(m), len(bs), " ".join(Qs(b) for b in bs)))
    # many observations: the merge schedule of IncrementalPruning has forward passes that do not start at list 0
    # only from seven observations on (the schedule theorem covers every n; the correspondence must see them too)
    for k in range({"quick": 14, "thorough": 50, "search": 30}[tier]):
        O = rng.choice([5, 6, 7, 7, 8, 9, 11, 12, 13, 16])
        m = gen_pomdp(rng, 2, 2, O, gammas=(F(1, 2), F(3, 4)))
        bs = gen_beliefs(rng, 2, 4)
        out.append("solve %s %s 2 %s %d %s" % (rng.choice(["ip", "ip", "wit"]), rng.choice(["dense", "sparse"]), fmt_pomdp(m), len(bs), " ".join(Qs(b) for b in bs)))
    # large magnitudes (money in cents): absolute tolerances inside the solvers must not lose vectors
    for k in range({"quick": 12, "thorough": 40, "search": 24}[tier]):
        S = rng.choice([3, 3, 4]); A = rng.choice([2, 3]); O = rng.choice([1, 2])
        m = gen_pomdp(rng, S, A, O, gammas=(F(1, 2), F(3, 4)))
        scale = rng.choice([1 << 12, 1 << 14, 1 << 16])
        m["R"] = [[x * scale for x in row] for row in m["R"]]
        bs = gen_beliefs(rng, S, 6)
        out.append("solve %s dense %d %s %d %s" % (rng.choice(["ls", "ls", "ip"]), rng.choice([2, 3]), fmt_pomdp(m), len(bs), " ".join(Qs(b) for b in bs)))
    # one solver object, two problems in a row (different sizes and horizons): nothing may carry over
    for k in range({"quick": 30, "thorough": 120, "search": 60}[tier]):
        alg = rng.choice(["ip", "wit", "wit", "ls"])
        SA = rng.choice([2, 3]); S = rng.choice([2, 3])
        ma = gen_pomdp(rng, SA, rng.choice([2, 3]), rng.choice([1, 2, 3]), gammas=(F(1, 2), F(3, 4)))
        m = gen_pomdp(rng, S, rng.choice([1, 2, 3]), rng.choice([1, 2, 3]), gammas=(F(1, 2), F(3, 4), F(1)))
        bs = gen_beliefs(rng, S, 5)
        out.append("resolve %s %s %d %s %d %s %d %s" % (alg, rng.choice(["dense", "sparse", "generic"]), rng.randint(1, 3), fmt_pomdp(ma),
                   rng.randint(1, 3), fmt_pomdp(m), len(bs), " ".join(Qs(b) for b in bs)))
    for k in range(n):
        S = rng.choice([2, 2, 3, 3]); A = rng.choice([1, 2, 2, 3]); O = rng.choice([1, 2, 2, 3, 4])
        m = gen_pomdp(rng, S, A, O, gammas=(F(1, 2), F(3, 4), F(3, 4), F(1)))
        if rng.random() < 0.25:     # all rewards strictly negative (a negative valid bound maxR)
            top = max(max(row) for row in m["R"])
            m["R"] = [[x - top - 1 for x in row] for row in m["R"]]
        bud = {1: 4, 2: 3, 3: 3, 4: 2}[O]
        if A == 3: bud = min(bud, 2 if O >= 3 else 3)
        h = rng.randint(1, bud)
        r = rng.random()
        if r < 0.3:
            b = gen_beliefs(rng, S, 1)[0]
            maxr = max(max(row) for row in m["R"])
            maxR = rng.choice([maxr, maxr + 1, maxr + rng.choice([0, 2, 5])])
            out.append("rtbss %s %d %s %s %s" % (rng.choice(["dense", "sparse", "generic", "mixed1", "mixed2", "byvalue"]), min(h + 1, 4), Qs([maxR]), fmt_pomdp(m), L(Qs(b).split())))
        else:
            alg = rng.choice(["ip", "ip", "wit", "wit", "wit", "ls", "ls"])
            if alg == "ls" and rng.random() < 0.35:     # four states: the faces of the simplex have faces of their own
                S = 4; A = rng.choice([2, 3]); O = rng.choice([1, 2]); h = rng.randint(1, 2)
                m = gen_pomdp(rng, S, A, O, gammas=(F(1, 2), F(3, 4)))
            bs = gen_beliefs(rng, S, 6)
            out.append("solve %s %s %d %s %d %s" % (alg, rng.choice(["dense", "dense", "sparse", "generic", "mixed1", "mixed2", "byvalue"]), h, fmt_pomdp(m), len(bs), " ".join(Qs(b) for b in bs)))
    return out
