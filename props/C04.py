"""props/C04.py — POMDP value functions are executable conditional plans."""
REPO_SRCS = ["src/POMDP/Algorithms/IncrementalPruning.cpp", "src/POMDP/Algorithms/Witness.cpp",
             "src/POMDP/Algorithms/LinearSupport.cpp", "src/POMDP/Algorithms/PBVI.cpp", "src/POMDP/Algorithms/PERSEUS.cpp",
             "src/POMDP/Algorithms/QMDP.cpp", "src/MDP/Algorithms/ValueIteration.cpp", "src/POMDP/Utils.cpp", "src/POMDP/Policies/Policy.cpp",
             "src/MDP/Model.cpp", "src/MDP/SparseModel.cpp", "src/MDP/Utils.cpp", "src/MDP/Policies/PolicyWrapper.cpp",
             "src/Utils/Polytope.cpp", "src/Utils/Probability.cpp", "src/Utils/Combinatorics.cpp",
             "src/Utils/LP/LpSolveWrapper.cpp", "src/Seeder.cpp"]
EXTRA_LINK = ["/usr/lib/liblpsolve55.a", "-lcolamd", "-ldl"]
AXIOM_ALLOW = []
CASE_TIMEOUT = 60
RULE = ("random dyadic POMDPs (S 2..3, A 1..3, O 1..4, deterministic/noisy/impossible observations, duplicate actions), "
        "solver in {IP, Witness, LinearSupport, PBVI, PERSEUS, QMDP}, dense or sparse, horizon 1..4; POMDP::Policy executed from 4 beliefs "
        "along all observation histories; non-trivial = horizon >= 2 and O >= 2; distinct by md5 of the case line")
TRUSTED_BASE = ["pruning (LP) is not modelled: theorems hold for any pruning returning a non-empty sub-list; the implementation's value functions are checked directly by the Coq-extracted plan checker",
                "Witness/LinearSupport/PBVI/PERSEUS construction is covered by the oracle on their outputs, not by a model"]
ASSUMPTIONS = ["observation probabilities are 0 or above 1e-6 (obs_clean)", "values compared within 1e-8 (doubles vs exact rationals)"]
from pomdpgen import gen_pomdp, fmt_pomdp, gen_beliefs, L, Qs

def gen(rng, tier):
    n = {"quick": 110, "thorough": 500, "search": 200}[tier]
    from fractions import Fraction as F
    out = []
    # warm-up: every solver and representation first sees a ONE-state problem (see props/C02.py)
    for alg in ("ip", "wit", "ls", "pbvi", "perseus", "qmdp"):
        for repr_ in ("dense", "sparse", "generic", "mixed1", "mixed2", "byvalue"):
            m = gen_pomdp(rng, 1, 2, 2, gammas=(F(1, 2),))
            minr = min(min(row) for row in m["R"])
            bs = gen_beliefs(rng, 1, 1)
            out.append("plan %s %s 2 3 %s %d %s %d %s" % (alg, repr_, Qs([minr]), rng.randrange(1 << 30), fmt_pomdp(m), len(bs), " ".join(Qs(b) for b in bs)))
    # many observations (see props/C02.py): the links of IncrementalPruning's entries must come out in observation order
    for k in range({"quick": 14, "thorough": 50, "search": 30}[tier]):
        O = rng.choice([5, 6, 7, 7, 8, 9, 11, 12, 13, 16])
        m = gen_pomdp(rng, 2, 2, O, gammas=(F(1, 2), F(3, 4)))
        bs = gen_beliefs(rng, 2, 3)
        out.append("plan %s %s 2 3 %s %d %s %d %s" % (rng.choice(["ip", "ip", "wit", "pbvi"]), rng.choice(["dense", "sparse"]),
                   Qs([0]), rng.randrange(1 << 30), fmt_pomdp(m), len(bs), " ".join(Qs(b) for b in bs)))
    # long horizons on tiny models: the sizes of the lists go up AND down from one horizon to the next
    for k in range({"quick": 50, "thorough": 200, "search": 100}[tier]):
        m = gen_pomdp(rng, 2, 2, 2, gammas=(F(1, 2), F(3, 4), F(1)))
        bs = gen_beliefs(rng, 2, 3)
        out.append("plan %s %s %d 3 %s %d %s %d %s" % (rng.choice(["ip", "ip", "wit"]), rng.choice(["dense", "sparse"]), rng.randint(4, 6),
                   Qs([0]), rng.randrange(1 << 30), fmt_pomdp(m), len(bs), " ".join(Qs(b) for b in bs)))
    for k in range(n):
        S = rng.choice([2, 2, 3, 3]); A = rng.choice([1, 2, 2, 3]); O = rng.choice([1, 2, 2, 3, 4])
        m = gen_pomdp(rng, S, A, O, gammas=(F(1, 2), F(3, 4), F(3, 4), F(1)))
        bud = {1: 4, 2: 3, 3: 3, 4: 2}[O]
        if A == 3: bud = min(bud, 2 if O >= 3 else 3)
        h = rng.randint(1, bud)
        if rng.random() < 0.35:     # the point-based backup itself, on an arbitrary previous list
            from fractions import Fraction as F
            nw = rng.randint(1, 5)
            wv = [[F(rng.randint(-16, 16), rng.choice([1, 2, 4])) for _ in range(S)] for _ in range(nw)]
            if nw >= 2 and rng.random() < 0.3: wv[1] = list(wv[0])     # duplicate: exercises the tie-break
            bs = gen_beliefs(rng, S, 4)
            out.append("csbb %s %d %s %d %s" % (fmt_pomdp(m), nw, " ".join(Qs(v) for v in wv), len(bs), " ".join(Qs(b) for b in bs)))
            continue
        alg = rng.choice(["ip", "ip", "wit", "ls", "pbvi", "pbvi", "pbviw", "pbviw", "perseus", "perseus", "qmdp"])
        if alg in ("ip", "wit") and rng.random() < 0.4:     # long horizons on tiny models: list sizes go up AND down
            S, A, O = 2, 2, 2
            m = gen_pomdp(rng, S, A, O, gammas=(F(1, 2), F(3, 4), F(1)))
            h = rng.randint(4, 5)
        if alg == "pbviw": h = min(h, 2 if O <= 2 else 1)
        if alg in ("perseus", "qmdp") and m["g"] == 1:   # infinite-horizon bounds need discount < 1
            m["g"] = F(3, 4)
        minr = min(min(row) for row in m["R"])
        bs = gen_beliefs(rng, S, 4)
        out.append("plan %s %s %d %d %s %d %s %d %s" % (alg, rng.choice(["dense", "dense", "sparse", "generic", "mixed1", "mixed2", "byvalue"]), h, rng.choice([3, 6, 10]),
                   Qs([minr + rng.choice([0, 0, -1, -5, 1, 3, 8])]), rng.randrange(1 << 30), fmt_pomdp(m), len(bs), " ".join(Qs(b) for b in bs)))
    return out
