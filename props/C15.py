"""props/C15.py — descriptor for property C15 (factored linear programs equal their flat formulation)."""
REPO_SRCS = ["src/Factored/MDP/Algorithms/Utils/FactoredLP.cpp",
             "src/Factored/MDP/Algorithms/LinearProgramming.cpp",
             "src/Utils/LP/LpSolveWrapper.cpp",
             "src/Factored/Utils/Core.cpp",
             "src/Factored/MDP/CooperativeModel.cpp",
             "src/Factored/Utils/BayesianNetwork.cpp",
             "src/Factored/Utils/FactoredMatrix.cpp",
             "src/Factored/Utils/FactoredMatrix2DOps.cpp",
             "src/Seeder.cpp",
             "src/Utils/Probability.cpp"]
# link-time interposition on the two lp_solve entry points the wrapper uses for rows / solving:
# the harness records every row the real code pushes and the full primal solution (no /repo change)
EXTRA_LINK = ["-Wl,--wrap=add_constraint", "-Wl,--wrap=solve", "/usr/lib/liblpsolve55.a", "-lcolamd", "-ldl"]
AXIOM_ALLOW = []
CASE_TIMEOUT = 30
TRUSTED_BASE = ["lp_solve (behind AIToolbox::LP) returns an optimal vertex of the system it is given, to ~1e-6: it solves both "
                "the factored system under test and the flat reference LP; it is not modelled (the theorems are about feasible sets)",
                "size_t modelled as unbounded nat; doubles as exact rationals (1.0/C.bases.size() as the exact quotient)",
                "FactorGraph's node pool / iterator bookkeeping modelled by meaning (node list in creation order); "
                "toIndexPartial / PartialFactorsEnumerator by their mixed-radix meaning (property C14)",
                "harness glue: link-time interposition (-Wl,--wrap) on add_constraint/solve records the rows and the solution"]
ASSUMPTIONS = ["all factor sizes positive; every basis tag non-empty, in range, with one value per partial assignment",
               "FactoredLP with a constant basis and no explicit basis is modelled as repaired by "
               "fixes/C15-flp-constant-without-basis.patch (needs at least one state factor)",
               "the elimination order eliminates every variable (any order); proved for the modelled bestVariableToRemove order",
               "MDP LP, unclipped form: no entry of h, g, R is non-zero with |v| <= 1e-6 (the checkEqualSmall skip is then exact); "
               "DDN built by push, one parent set per state factor, stochastic rows (C14's hypotheses of backproject_is_expectation)",
               "makeResult of the MDP LP as repaired (committed fix 3dd4c83)"]
RULE = ("random factored state spaces (1..3 factors, sizes 1..3), 0..4 basis functions and 0..3 target functions with random "
        "non-empty sorted tags (overlapping, nested, repeated, variables mentioned by no function), dyadic values k/4, optional "
        "constant basis; the flat LP over every joint assignment is built and solved through the same wrapper; non-trivial = "
        "more than one state factor and at least one tag with more than one key; 40 % of the cases are cooperative factored MDPs "
        "(1..3 state factors, 1..2 agents, half of them products of independent components, random DDN, factored rewards with "
        "zeros, discount 1/4 1/2 3/4, bases incl. an all-ones basis) run through LinearProgramming and the flat LP over every (s,a); "
        "the returned Q-function is compared with its model and with R + gamma P V_w at every (s,a); object reuse: 15 % of the "
        "cases call ONE FactoredLP object 2..3 times (same inputs, new target, or different bases over the same space) and 8 % use "
        "ONE LinearProgramming object on two models — every call judged like a call on a fresh object; 30 % of the MDP cases "
        "have table rows with rare outcomes 2^-8..2^-13 (small non-zero joint transition probabilities), a basis over two state "
        "factors and scaled rewards/bases; P in the oracle is the exact product of the case's table entries (C14 model)")


def L(xs): return "%d %s" % (len(xs), " ".join(map(str, xs))) if xs else "0"


def prod(xs):
    t = 1
    for x in xs: t *= x
    return t


def dy(rng, lo=-12, hi=12):
    k = rng.randint(lo, hi)
    return "%d/4" % k if k % 4 else str(k // 4)


def rbasis(rng, S, indicator=False):
    nf = len(S)
    k = rng.choice([1, 1, 2, 2, 3]) if nf >= 3 else rng.randint(1, nf)
    k = min(k, nf)
    tag = sorted(rng.sample(range(nf), k))
    n = prod(S[i] for i in tag)
    if indicator:
        one = rng.randrange(n)
        vals = ["1" if i == one else "0" for i in range(n)]
    else:
        vals = [dy(rng) for _ in range(n)]
    return "%s %s" % (L(tag), L(vals))


def flp_call(rng, S):
    """<addConst> <C> <b> for one call on the state space S"""
    ac = 1 if rng.random() < 0.4 else 0
    nC = rng.choice([0, 1, 1, 2, 2, 3, 3, 4])
    if ac and nC == 0 and rng.random() < 0.6: nC = 1      # constant basis alone: kept in 40 % of those draws
    nB = rng.choice([0, 1, 1, 2, 2, 3])
    ind = rng.random() < 0.3
    C = [rbasis(rng, S, indicator=ind and rng.random() < 0.8) for _ in range(nC)]
    B = [rbasis(rng, S) for _ in range(nB)]
    return "%d %d %s %d %s" % (ac, nC, " ".join(C), nB, " ".join(B))


def rspace(rng):
    nf = rng.choice([1, 2, 2, 3, 3, 3])
    return [rng.choice([1, 2, 2, 3, 3]) for _ in range(nf)]


def gen_flp(rng):
    S = rspace(rng)
    return "flp %s %s" % (L(S), flp_call(rng, S))


def gen_flpr(rng):
    """ONE FactoredLP object called 2..3 times: same inputs again, a new target for the same bases (the
    approximate value-iteration use), or entirely different C / b over the same state space"""
    S = rspace(rng)
    n = rng.choice([2, 2, 3])
    calls = [flp_call(rng, S)]
    while len(calls) < n:
        u = rng.random()
        if u < 0.25:
            calls.append(calls[-1])
        elif u < 0.6:
            toks = calls[-1].split()
            # keep <ac> <C>, redraw <b>: re-emit by regenerating b only
            ac = int(toks[0]); nC = int(toks[1])
            # parse C to find where b starts
            pos = 2
            for _ in range(nC):
                k = int(toks[pos]); pos += 1 + k
                m = int(toks[pos]); pos += 1 + m
            nB = rng.choice([1, 1, 2, 3])
            B = [rbasis(rng, S) for _ in range(nB)]
            calls.append(" ".join(toks[:pos]) + " %d %s" % (nB, " ".join(B)))
        else:
            calls.append(flp_call(rng, S))
    return "flpr %s %d %s" % (L(S), n, " ".join(calls))


def rkeys(rng, n, kmax=None):
    k = rng.randint(1, min(n, kmax or n))
    return sorted(rng.sample(range(n), k))


def rdist(rng, n):
    cuts = sorted(rng.randint(0, 4) for _ in range(n - 1))
    parts = [b - a for a, b in zip([0] + cuts, cuts + [4])]
    return ["%d/4" % k if k % 4 else str(k // 4) for k in parts]


def qtok(fr):
    return str(fr.numerator) if fr.denominator == 1 else "%d/%d" % (fr.numerator, fr.denominator)


def rdist_tiny(rng, n):
    """a probability row with rare outcomes: some entries 2^-j (j = 8..13, each an ordinary probability
    well above the library's 1e-6 zero test), the rest of the mass on one entry; the product of two or
    three such entries (a joint transition of several state factors) lies in [2^-39, 2^-16] — around and
    below 1e-6 — and is exact in double"""
    from fractions import Fraction as F
    big = rng.randrange(n)
    row = [F(0)] * n
    for i in range(n):
        if i != big and rng.random() < 0.75:
            row[i] = F(1, 2 ** rng.randint(8, 13))
    row[big] = 1 - sum(row)
    return [qtok(x) for x in row]


def _tip(keys, space, f):
    idx, mult = 0, 1
    for k in keys:
        idx += f[k] * mult; mult *= space[k]
    return idx


def _factors(space, i):
    out = []
    for d in space:
        out.append(i % d); i //= d
    return out


def exact_g(S, A, pss, mats, tag, vals):
    """exact g(s,a) = sum_s1 P(s1|s,a) h(s1) over the DDN (Fractions), for every joint (s,a)"""
    from fractions import Fraction as F
    out = []
    sub = [S[k] for k in tag]
    for si in range(prod(S)):
        s = _factors(S, si)
        for ai in range(prod(A)):
            a = _factors(A, ai)
            rows = {}
            for i in tag:
                ag, fs = pss[i]
                aid = _tip(ag, A, a)
                start = sum(prod(S[k] for k in fs[j]) for j in range(aid))
                rows[i] = mats[i][start + _tip(fs[aid], S, s)]
            t = F(0)
            for x in range(prod(sub)):
                xs = _factors(sub, x)
                pr = F(1)
                for i, xi in zip(tag, xs): pr *= rows[i][xi]
                t += pr * vals[x]
            out.append(t)
    return out


def gen_mlp(rng, tiny=False):
    """cooperative factored MDP; with probability 1/2 the structure is a product of independent
    (state factor, agent) components (disconnected reward/transition structure).
    tiny=True: >= 2 state factors, connected structure, conditional probability rows with rare outcomes
    (2^-8 .. 2^-13) so that JOINT transitions have small non-zero probabilities (products down to
    ~1e-9 and below), at least one basis over two state factors, and (half of the cases) large exactly
    representable reward / basis values (scale 2^6 .. 2^10: larger spreads make lp_solve itself inaccurate); bases whose exact back-projection would
    have a non-zero entry within the code's own 1e-6 sparsity skip are redrawn"""
    from fractions import Fraction as F
    nS = rng.choice([2, 2, 3]) if tiny else rng.choice([1, 2, 2, 3])
    S = [rng.choice([2, 2, 3]) for _ in range(nS)]
    disconnected = (not tiny) and nS >= 2 and rng.random() < 0.5
    if disconnected:
        nA = min(nS, 2) if rng.random() < 0.7 else 1
    else:
        nA = rng.choice([1, 2])
    A = [rng.choice([1, 2, 2]) for _ in range(nA)]
    pss = []
    for i in range(nS):
        if disconnected:
            ag = [min(i, nA - 1)]
            fs = [[i] for _ in range(A[ag[0]])]
        else:
            ag = rkeys(rng, nA)
            fs = [rkeys(rng, nS, 2) for _ in range(prod(A[k] for k in ag))]
        pss.append((ag, fs))
    mats = []; matv = []
    for i, (ag, fs) in enumerate(pss):
        rows = sum(prod(S[k] for k in f) for f in fs)
        rr = [(rdist_tiny(rng, S[i]) if tiny and rng.random() < 0.7 else rdist(rng, S[i])) for _ in range(rows)]
        matv.append([[F(x) for x in r] for r in rr])
        mats.append("%d %d %s" % (rows, S[i], " ".join(" ".join(r) for r in rr)))
    rscale = rng.choice([1, 2 ** 6, 2 ** 10]) if tiny else 1
    # rewards
    R = []
    for j in range(rng.choice([1, 2, 2, 3])):
        if disconnected:
            i = rng.randrange(nS); tag = [i]; atag = [min(i, nA - 1)]
        else:
            tag = rkeys(rng, nS, 2); atag = rkeys(rng, nA)
        rows = prod(S[k] for k in tag); cols = prod(A[k] for k in atag)
        vals = [rng.choice(["0", "0", dy(rng, -8, 8)]) for _ in range(rows * cols)]
        if rscale != 1: vals = [qtok(F(v) * rscale) for v in vals]
        R.append("%s %s %d %d %s" % (L(tag), L(atag), rows, cols, " ".join(vals)))
    gam = rng.choice(["1/2", "3/4", "1/4"])
    # basis functions: an all-ones basis on one factor keeps the LP feasible (V can dominate); the
    # others are indicators / small dyadic tables
    H = []
    c0 = rng.randrange(nS)
    H.append("%s %s" % (L([c0]), L(["1"] * S[c0])))
    nH = rng.choice([1, 1, 2, 3]) if tiny else rng.choice([0, 1, 1, 2, 3])
    for j in range(nH):
        for attempt in range(20):
            if disconnected:
                tag = [rng.randrange(nS)]
            elif tiny and j == 0:
                tag = sorted(rng.sample(range(nS), 2))
            else:
                tag = rkeys(rng, nS, 2)
            n = prod(S[k] for k in tag)
            u = rng.random()
            if u < (0.25 if tiny else 0.6):
                one = rng.randrange(n); vals = ["1" if i == one else "0" for i in range(n)]
            else:
                vals = [dy(rng, -4, 8) for _ in range(n)]
            if tiny:
                # un-normalised bases (a common scale; spreads of 2^10 and more inside one basis make
                # lp_solve itself report well-posed systems unbounded, which is outside the property)
                if rng.random() < 0.5:
                    sc = rng.choice([2, 8, 16]); vals = [qtok(F(x) * sc) for x in vals]
                gv = exact_g(S, A, pss, matv, tag, [F(x) for x in vals])
                if any(x != 0 and abs(x) <= F(1, 10 ** 6) for x in gv): continue
            break
        H.append("%s %s" % (L(tag), L(vals)))
    rng.shuffle(H)
    return "mlp %s %s %s %s %d %s %s %d %s" % (L(S), L(A), " ".join("%s %d %s" % (L(ag), len(fs), " ".join(L(f) for f in fs)) for ag, fs in pss),
                                          " ".join(mats), len(R), " ".join(R), gam, len(H), " ".join(H))


def gen(rng, tier):
    n = {"quick": 400, "thorough": 4000, "search": 1500}.get(tier, 400)
    out = []
    for _ in range(n):
        u = rng.random()
        if u < 0.45: out.append(gen_flp(rng))
        elif u < 0.6: out.append(gen_flpr(rng))
        elif u < 0.92: out.append(gen_mlp(rng, tiny=rng.random() < 0.3))
        else:
            # ONE LinearProgramming object used on two different models
            out.append("mlpr 2 %s %s" % (gen_mlp(rng, tiny=rng.random() < 0.2)[4:], gen_mlp(rng)[4:]))
    return out
