"""props/C15.py — descriptor for property C15 (factored linear programs equal their flat formulation)."""
REPO_SRCS = ["src/Factored/MDP/Algorithms/Utils/FactoredLP.cpp",
             "src/Factored/MDP/Algorithms/LinearProgramming.cpp",
             "src/Utils/LP/LpSolveWrapper.cpp",
             "src/Factored/Utils/Core.cpp",
             "src/Factored/MDP/CooperativeModel.cpp",
             "src/Factored/Utils/BayesianNetwork.cpp",
             "src/Factored/Utils/FactoredMatrix.cpp",
             "src/Factored/Utils/FactoredMatrix2DOps.cpp",
             "src/Seeder.cpp",
             "src/Utils/Probability.cpp"]
# link-time interposition on the two lp_solve entry points the wrapper uses for rows / solving:
# the harness records every row the real code pushes and the full primal solution (no /repo change)
EXTRA_LINK = ["-Wl,--wrap=add_constraint", "-Wl,--wrap=solve", "/usr/lib/liblpsolve55.a", "-lcolamd", "-ldl"]
AXIOM_ALLOW = []
CASE_TIMEOUT = 30
TRUSTED_BASE = ["lp_solve (behind AIToolbox::LP) returns an optimal vertex of the system it is given, to ~1e-6: it solves both "
                "the factored system under test and the flat reference LP; it is not modelled (the theorems are about feasible sets)",
                "size_t modelled as unbounded nat; doubles as exact rationals (1.0/C.bases.size() as the exact quotient)",
                "FactorGraph's node pool / iterator bookkeeping modelled by meaning (node list in creation order); "
                "toIndexPartial / PartialFactorsEnumerator by their mixed-radix meaning (property C14)",
                "harness glue: link-time interposition (-Wl,--wrap) on add_constraint/solve records the rows and the solution"]
ASSUMPTIONS = ["all factor sizes positive; every basis tag non-empty, in range, with one value per partial assignment",
               "FactoredLP with a constant basis and no explicit basis is modelled as repaired by "
               "fixes/C15-flp-constant-without-basis.patch (needs at least one state factor)",
               "the elimination order eliminates every variable (any order); proved for the modelled bestVariableToRemove order",
               "MDP LP, unclipped form: no entry of h, g, R is non-zero with |v| <= 1e-6 (the checkEqualSmall skip is then exact); "
               "DDN built by push, one parent set per state factor, stochastic rows (C14's hypotheses of backproject_is_expectation)",
               "makeResult of the MDP LP as repaired (committed fix 3dd4c83)"]
RULE = ("random factored state spaces (1..3 factors, sizes 1..3), 0..4 basis functions and 0..3 target functions with random "
        "non-empty sorted tags (overlapping, nested, repeated, variables mentioned by no function), dyadic values k/4, optional "
        "constant basis; the flat LP over every joint assignment is built and solved through the same wrapper; non-trivial = "
        "more than one state factor and at least one tag with more than one key; 40 % of the cases are cooperative factored MDPs "
        "(1..3 state factors, 1..2 agents, half of them products of independent components, random DDN, factored rewards with "
        "zeros, discount 1/4 1/2 3/4, bases incl. an all-ones basis) run through LinearProgramming and the flat LP over every (s,a); "
        "the returned Q-function is compared with its model and with R + gamma P V_w at every (s,a); object reuse: 15 % of the "
        "cases call ONE FactoredLP object 2..3 times (same inputs, new target, or different bases over the same space) and 8 % use "
        "ONE LinearProgramming object on two models — every call judged like a call on a fresh object")


def L(xs): return "%d %s" % (len(xs), " ".join(map(str, xs))) if xs else "0"


def prod(xs):
    t = 1
    for x in xs: t *= x
    return t


def dy(rng, lo=-12, hi=12):
    k = rng.randint(lo, hi)
    return "%d/4" % k if k % 4 else str(k // 4)


def rbasis(rng, S, indicator=False):
    nf = len(S)
    k = rng.choice([1, 1, 2, 2, 3]) if nf >= 3 else rng.randint(1, nf)
    k = min(k, nf)
    tag = sorted(rng.sample(range(nf), k))
    n = prod(S[i] for i in tag)
    if indicator:
        one = rng.randrange(n)
        vals = ["1" if i == one else "0" for i in range(n)]
    else:
        vals = [dy(rng) for _ in range(n)]
    return "%s %s" % (L(tag), L(vals))


def flp_call(rng, S):
    """<addConst> <C> <b> for one call on the state space S"""
    ac = 1 if rng.random() < 0.4 else 0
    nC = rng.choice([0, 1, 1, 2, 2, 3, 3, 4])
    if ac and nC == 0 and rng.random() < 0.6: nC = 1      # constant basis alone: kept in 40 % of those draws
    nB = rng.choice([0, 1, 1, 2, 2, 3])
    ind = rng.random() < 0.3
    C = [rbasis(rng, S, indicator=ind and rng.random() < 0.8) for _ in range(nC)]
    B = [rbasis(rng, S) for _ in range(nB)]
    return "%d %d %s %d %s" % (ac, nC, " ".join(C), nB, " ".join(B))


def rspace(rng):
    nf = rng.choice([1, 2, 2, 3, 3, 3])
    return [rng.choice([1, 2, 2, 3, 3]) for _ in range(nf)]


def gen_flp(rng):
    S = rspace(rng)
    return "flp %s %s" % (L(S), flp_call(rng, S))


def gen_flpr(rng):
    """ONE FactoredLP object called 2..3 times: same inputs again, a new target for the same bases (the
    approximate value-iteration use), or entirely different C / b over the same state space"""
    S = rspace(rng)
    n = rng.choice([2, 2, 3])
    calls = [flp_call(rng, S)]
    while len(calls) < n:
        u = rng.random()
        if u < 0.25:
            calls.append(calls[-1])
        elif u < 0.6:
            toks = calls[-1].split()
            # keep <ac> <C>, redraw <b>: re-emit by regenerating b only
            ac = int(toks[0]); nC = int(toks[1])
            # parse C to find where b starts
            pos = 2
            for _ in range(nC):
                k = int(toks[pos]); pos += 1 + k
                m = int(toks[pos]); pos += 1 + m
            nB = rng.choice([1, 1, 2, 3])
            B = [rbasis(rng, S) for _ in range(nB)]
            calls.append(" ".join(toks[:pos]) + " %d %s" % (nB, " ".join(B)))
        else:
            calls.append(flp_call(rng, S))
    return "flpr %s %d %s" % (L(S), n, " ".join(calls))


def rkeys(rng, n, kmax=None):
    k = rng.randint(1, min(n, kmax or n))
    return sorted(rng.sample(range(n), k))


def rdist(rng, n):
    cuts = sorted(rng.randint(0, 4) for _ in range(n - 1))
    parts = [b - a for a, b in zip([0] + cuts, cuts + [4])]
    return ["%d/4" % k if k % 4 else str(k // 4) for k in parts]


def gen_mlp(rng):
    """cooperative factored MDP; with probability 1/2 the structure is a product of independent
    (state factor, agent) components (disconnected reward/transition structure)"""
    nS = rng.choice([1, 2, 2, 3])
    S = [rng.choice([2, 2, 3]) for _ in range(nS)]
    disconnected = nS >= 2 and rng.random() < 0.5
    if disconnected:
        nA = min(nS, 2) if rng.random() < 0.7 else 1
    else:
        nA = rng.choice([1, 2])
    A = [rng.choice([1, 2, 2]) for _ in range(nA)]
    pss = []
    for i in range(nS):
        if disconnected:
            ag = [min(i, nA - 1)]
            fs = [[i] for _ in range(A[ag[0]])]
        else:
            ag = rkeys(rng, nA)
            fs = [rkeys(rng, nS, 2) for _ in range(prod(A[k] for k in ag))]
        pss.append((ag, fs))
    mats = []
    for i, (ag, fs) in enumerate(pss):
        rows = sum(prod(S[k] for k in f) for f in fs)
        mats.append("%d %d %s" % (rows, S[i], " ".join(" ".join(rdist(rng, S[i])) for _ in range(rows))))
    # rewards
    R = []
    for j in range(rng.choice([1, 2, 2, 3])):
        if disconnected:
            i = rng.randrange(nS); tag = [i]; atag = [min(i, nA - 1)]
        else:
            tag = rkeys(rng, nS, 2); atag = rkeys(rng, nA)
        rows = prod(S[k] for k in tag); cols = prod(A[k] for k in atag)
        vals = [rng.choice(["0", "0", dy(rng, -8, 8)]) for _ in range(rows * cols)]
        R.append("%s %s %d %d %s" % (L(tag), L(atag), rows, cols, " ".join(vals)))
    gam = rng.choice(["1/2", "3/4", "1/4"])
    # basis functions: an all-ones basis on one factor keeps the LP feasible (V can dominate); the
    # others are indicators / small dyadic tables
    H = []
    c0 = rng.randrange(nS)
    H.append("%s %s" % (L([c0]), L(["1"] * S[c0])))
    for _ in range(rng.choice([0, 1, 1, 2, 3])):
        if disconnected:
            tag = [rng.randrange(nS)]
        else:
            tag = rkeys(rng, nS, 2)
        n = prod(S[k] for k in tag)
        if rng.random() < 0.6:
            one = rng.randrange(n); vals = ["1" if i == one else "0" for i in range(n)]
        else:
            vals = [dy(rng, -4, 8) for _ in range(n)]
        H.append("%s %s" % (L(tag), L(vals)))
    rng.shuffle(H)
    return "mlp %s %s %s %s %d %s %s %d %s" % (L(S), L(A), " ".join("%s %d %s" % (L(ag), len(fs), " ".join(L(f) for f in fs)) for ag, fs in pss),
                                          " ".join(mats), len(R), " ".join(R), gam, len(H), " ".join(H))


def gen(rng, tier):
    n = {"quick": 400, "thorough": 4000, "search": 1500}.get(tier, 400)
    out = []
    for _ in range(n):
        u = rng.random()
        if u < 0.45: out.append(gen_flp(rng))
        elif u < 0.6: out.append(gen_flpr(rng))
        elif u < 0.92: out.append(gen_mlp(rng))
        else:
            # ONE LinearProgramming object used on two different models
            out.append("mlpr 2 %s %s" % (gen_mlp(rng)[4:], gen_mlp(rng)[4:]))
    return out
