"""props/C03.py — approximate POMDP solvers return sound bounds."""
from fractions import Fraction as F
from pomdpgen import gen_pomdp, fmt_pomdp, gen_beliefs, L, Qs

REPO_SRCS = ["src/POMDP/Algorithms/BlindStrategies.cpp", "src/POMDP/Algorithms/FastInformedBound.cpp",
             "src/POMDP/Algorithms/QMDP.cpp", "src/POMDP/Algorithms/PBVI.cpp", "src/POMDP/Algorithms/PERSEUS.cpp",
             "src/POMDP/Algorithms/SARSOP.cpp", "src/POMDP/Algorithms/GapMin.cpp",
             "src/MDP/Algorithms/ValueIteration.cpp", "src/POMDP/Utils.cpp", "src/MDP/Utils.cpp",
             "src/MDP/Model.cpp", "src/MDP/SparseModel.cpp", "src/Utils/Polytope.cpp", "src/Utils/Probability.cpp",
             "src/Utils/Combinatorics.cpp", "src/Utils/LP/LpSolveWrapper.cpp", "src/Seeder.cpp"]
EXTRA_LINK = ["/usr/lib/liblpsolve55.a", "-lcolamd", "-ldl"]
AXIOM_ALLOW = []
CASE_TIMEOUT = 30

RULE = ("dyadic POMDPs with S<=4, A<=3, O<=3 (noisy / deterministic / impossible observations, positive, negative "
        "and mixed rewards, discount 1/4, 1/2, 3/4); every solver output is bracketed by the exact expectimax "
        "EV_n +/- g^n R/(1-g) for all n up to the affordable depth on a belief grid (corners, face midpoints, "
        "interior points); non-trivial = at least one iteration of every direct solver with O>=2, a converged run, "
        "an anytime run that returned vectors, a clean-up that removed a point")
TRUSTED_BASE = ["ml/C03/driver.ml (parsing, tolerances 1e-9 rel for direct solvers, 1e-5 for the anytime solvers)",
                "harness/C03/h.cpp (fork guard around SARSOP/GapMin; #define private public for GapMin::cleanUp)",
                "lib/pomdpgen.py"]
ASSUMPTIONS = ["finite-horizon solvers (PBVI from zero, Blind without fasterConvergence, QMDP with tolerance 0) are "
               "sound against EV of the matching horizon, not against V* (DESIGN §4 C03 S)",
               "PERSEUS is called with minReward <= min R",
               "SARSOP/GapMin control (sampling, pruning heuristics) is covered by certificates/brackets, not modelled"]


def _pomdp(rng, small=False):
    S = rng.choice([2, 2, 3, 3, 4]); A = rng.choice([1, 2, 2, 3]); O = rng.choice([1, 2, 2, 3])
    if small:
        S = rng.choice([2, 2, 3]); A = rng.choice([2, 2, 3]); O = rng.choice([2, 2, 3])
    m = gen_pomdp(rng, S, A, O, gammas=(F(1, 4), F(1, 2), F(1, 2), F(3, 4)))
    r = rng.random()
    if r < 0.2:      # all rewards strictly negative
        top = max(max(row) for row in m["R"]); m["R"] = [[x - top - 1 for x in row] for row in m["R"]]
    elif r < 0.3:    # all rewards strictly positive
        bot = min(min(row) for row in m["R"]); m["R"] = [[x - bot + 1 for x in row] for row in m["R"]]
    return m


def _beliefs(rng, S, n=6):
    bs = gen_beliefs(rng, S, n)
    return "%d %s" % (len(bs), " ".join(Qs(b) for b in bs)), bs


def _rrange(m):
    lo = min(min(r) for r in m["R"]); hi = max(max(r) for r in m["R"])
    return lo, hi


def gen_direct(rng):
    m = _pomdp(rng)
    boundary = rng.random() < 0.1
    if boundary:      # discount just below 1 (the 0.0001 guards), mostly with costs
        m["g"] = rng.choice([1 - F(1, 2 ** 14), 1 - F(1, 2 ** 17)])
        if rng.random() < 0.7:
            top = max(max(row) for row in m["R"]); m["R"] = [[x - top - rng.choice([0, 1]) for x in row] for row in m["R"]]
    exact = rng.random() < 0.75 and m["g"] in (F(1, 2), F(3, 4))   # 1/(1-g) = 4/3 is not dyadic
    hi = 5 if exact else (6 if boundary else 40)
    hB, hF, hQ = rng.randint(0, hi), rng.randint(0, hi), rng.randint(0, hi)
    hP = rng.randint(0, 3)
    lo, _ = _rrange(m)
    minRew = lo - rng.choice([0, 0, 1, 5])
    bstr, _ = _beliefs(rng, m["S"])
    repr_ = rng.choice(["dense", "dense", "generic", "generic", "sparse"])
    return "direct %s %d %d %d %d %d %s %s %s %s" % (repr_, hB, hF, hQ, hP, rng.choice([1, 3, 8]), Qs([minRew]),
                                                   fmt_pomdp(m), bstr, "exact" if exact else "approx")


def gen_conv(rng):
    m = _pomdp(rng)
    tol = F(1, 2 ** rng.choice([6, 10, 14, 18]))
    bstr, _ = _beliefs(rng, m["S"])
    return "conv %s %s %s" % (Qs([tol]), fmt_pomdp(m), bstr)


def gen_fibsparse(rng):
    m = _pomdp(rng)
    # make the reward matrix genuinely sparse (implicit zeros), sometimes with every stored value negative
    for s in range(m["S"]):
        for a in range(m["A"]):
            if rng.random() < 0.5: m["R"][s][a] = F(0)
    if rng.random() < 0.5:
        m["R"] = [[-abs(x) for x in row] for row in m["R"]]
    bstr, _ = _beliefs(rng, m["S"])
    return "fibsparse %d %s %s" % (rng.randint(0, 5), fmt_pomdp(m), bstr)


def gen_bca(rng):
    m = _pomdp(rng)
    S, A, g = m["S"], m["A"], m["g"]
    # sound lower-bound vectors: the blind constants min_s R(s,a)/(1-g) (self-certifying), a few copies shifted down
    vecs = []
    for a in range(A):
        c = min(m["R"][s][a] for s in range(S)) / (1 - g)
        vecs.append([c] * S)
        if rng.random() < 0.5:
            vecs.append([c - rng.randint(0, 3) for _ in range(S)])
    b = gen_beliefs(rng, S, 1)[0]
    bstr, _ = _beliefs(rng, S)
    return "bca %s %s %d %s %s" % (fmt_pomdp(m), Qs(b), len(vecs), " ".join(Qs(v) for v in vecs), bstr)


def gen_anytime(rng, which):
    m = _pomdp(rng, small=True)
    lo, hi = _rrange(m)
    span = max(F(1), hi - lo)
    b0 = gen_beliefs(rng, m["S"], 1)[0]
    bstr, _ = _beliefs(rng, m["S"], 5)
    maxIter = rng.choice([1, 2, 3, 5, 1000])
    if which == "sarsop":
        tol = span * rng.choice([F(1, 2), F(1, 8), F(1, 64), F(1, 1024)])
        delta = rng.choice([F(1, 2), F(1, 8), F(1, 64)])
        return "sarsop %s %s %d %s %s %s" % (Qs([tol]), Qs([delta]), maxIter, fmt_pomdp(m), Qs(b0), bstr)
    tol = rng.choice([F(1, 2), F(1, 16), F(1, 256)])
    digits = rng.choice([1, 2, 3, 4])
    return "gapmin %s %d %d %s %s %s" % (Qs([tol]), digits, maxIter, fmt_pomdp(m), Qs(b0), bstr)


def _switch(rng):
    """'hidden switch': bet on the position (reward r if right), or reset (LAST action, no reward) which puts the
       switch in position 0; observations carry no information.  V*(b) = max(r max_s b(s), g r)/(1-g)."""
    S = rng.choice([2, 2, 3]); A = S + 1; O = rng.choice([1, 2])
    g = rng.choice([F(3, 4), F(7, 8)])
    r = F(rng.choice([1, 2, 4]))
    P = [[[F(1) if j == s else F(0) for j in range(S)] for s in range(S)] for a in range(S)]
    P.append([[F(1) if j == 0 else F(0) for j in range(S)] for s in range(S)])
    R = [[(r if a == s else F(0)) for a in range(S)] + [F(-rng.choice([0, 0, 1]), 4)] for s in range(S)]
    Ob = [[[F(1, O)] * O for s1 in range(S)] for a in range(A)]
    b0 = rng.choice([[F(1, S)] * S if S == 2 else [F(1, 2), F(1, 4), F(1, 4)],
                     [F(1, 4), F(3, 4)] + [F(0)] * (S - 2), [F(5, 8), F(3, 8)] + [F(0)] * (S - 2)])
    return dict(S=S, A=A, O=O, P=P, R=R, Ob=Ob, g=g), b0


def gen_switch(rng, which):
    m, b0 = _switch(rng)
    bstr, _ = _beliefs(rng, m["S"], 5)
    if which == "sarsop":
        tol = rng.choice([F(1, 64), F(1, 256), F(1, 1024)])
        return "sarsop %s %s %d %s %s %s" % (Qs([tol]), Qs([rng.choice([F(1, 8), F(1, 64)])]), rng.choice([3, 10, 1000]),
                                            fmt_pomdp(m), Qs(b0), bstr)
    return "gapmin %s %d %d %s %s %s" % (Qs([rng.choice([F(1, 16), F(1, 256)])]), rng.choice([3, 4]), rng.choice([3, 1000]),
                                        fmt_pomdp(m), Qs(b0), bstr)


def gen_bpa(rng):
    if rng.random() < 0.4:
        m, b = _switch(rng)
    else:
        m = _pomdp(rng); b = gen_beliefs(rng, m["S"], 1)[0]
    bstr, _ = _beliefs(rng, m["S"], 4)
    return "bpa %d %s %s %s" % (rng.choice([0, 1, 3, 30]), fmt_pomdp(m), Qs(b), bstr)


def gen_reuse(rng):
    """one solver object per algorithm, 2-3 problems of the same shape in a row: first lower values (costs), then higher"""
    m = _pomdp(rng, small=True)
    if m["g"] == F(1, 4): m["g"] = F(1, 2)
    def shifted(k, mul=1):
        mm = dict(m); mm["R"] = [[x * mul + k for x in row] for row in m["R"]]; return mm
    lo = shifted(-rng.choice([8, 20, 50]), rng.choice([1, 2])); hi = shifted(rng.choice([8, 20]))
    seq = rng.choice([[lo, m], [lo, hi], [lo, m, hi], [hi, lo, m], [m, lo, hi]])
    span = F(rng.choice([2, 4, 8]))
    b0 = gen_beliefs(rng, m["S"], 1)[0]
    bstr, _ = _beliefs(rng, m["S"], 5)
    return "reuse %d %d %d %d %d %s %d %s %s %s" % (rng.randint(1, 5), rng.randint(1, 5), rng.randint(1, 5), rng.randint(1, 3),
            rng.choice([3, 8]), Qs([span]), len(seq), " ".join(fmt_pomdp(x) for x in seq), Qs(b0), bstr)


def gen_resume(rng):
    """PBVI solved h1 steps, then resumed for h2 more from the returned ValueFunction (negative / mixed rewards)"""
    m = _pomdp(rng, small=True)
    if rng.random() < 0.5:
        top = max(max(row) for row in m["R"]); m["R"] = [[x - top - rng.choice([1, 10]) for x in row] for row in m["R"]]
    ao = m["A"] * m["O"]
    hmax = 5 if ao <= 4 else (4 if ao <= 6 else 3)
    h1 = rng.randint(1, hmax - 1); h2 = rng.randint(1, hmax - h1)
    bstr, _ = _beliefs(rng, m["S"], 5)
    return "resume %d %d %s %s" % (h1, h2, fmt_pomdp(m), bstr)


def gen_perseus_d1(rng):
    m = _pomdp(rng); m["g"] = F(1)
    return "perseus_d1 %s" % fmt_pomdp(m)


def gen_cleanup(rng):
    S = rng.choice([2, 3]); A = rng.choice([1, 2])
    ubQ = [[F(rng.randint(8, 12)) for a in range(A)] for s in range(S)]
    np_ = rng.randint(2, 6)
    pts = []
    seen = set()
    while len(pts) < np_:
        b = gen_beliefs(rng, S, 1)[0]
        if tuple(b) in seen or max(b) == 1: continue
        seen.add(tuple(b))
        # value: either far below the corner plane (useful point) or on/above it (removable)
        plane = max(sum(b[s] * ubQ[s][a] for s in range(S)) for a in range(A))
        v = plane - rng.randint(2, 6) if rng.random() < 0.5 else plane + rng.randint(0, 2)
        pts.append((b, F(len(pts)) / 16 + v))
    return "cleanup %s %d %d %s %d %s" % (Qs([F(1, 1024)]), S, A, " ".join(Qs(r) for r in ubQ), np_,
                                         " ".join(Qs(b) + " " + Qs([v]) for b, v in pts))


def gen(rng, tier):
    n = {"quick": 300, "thorough": 1500, "search": 300}[tier]
    out = []
    for k in range(n):
        r = rng.random()
        if r < 0.40: out.append(gen_direct(rng))
        elif r < 0.49: out.append(gen_conv(rng))
        elif r < 0.55: out.append(gen_fibsparse(rng))
        elif r < 0.63: out.append(gen_bca(rng))
        elif r < 0.71: out.append(gen_bpa(rng))
        elif r < 0.79: out.append(gen_anytime(rng, "sarsop"))
        elif r < 0.85: out.append(gen_switch(rng, "sarsop"))
        elif r < 0.92: out.append(gen_anytime(rng, "gapmin"))
        elif r < 0.94: out.append(gen_switch(rng, "gapmin"))
        elif r < 0.947: out.append(gen_perseus_d1(rng))
        elif r < 0.975: out.append(gen_reuse(rng))
        elif r < 0.99: out.append(gen_resume(rng))
        else: out.append(gen_cleanup(rng))
    return out
