"""props/C10.py — descriptor for property C10 (usable API, no undefined behaviour) — PARTIAL.

   clause 1 (every member of every class template instantiates with every admissible library type):
       compile-time tie only (probe translation units generated from API_TABLE, extra_checks);
   clause 2 (no UB under the documented preconditions):
       theorems over checked-access models (coq/theories/C10, Properties_C10.v) + correspondence of
       those models with the real routines (harness/C10/h.cpp, plain and ASan+UBSan builds) +
       every other claimed property's cases re-run on its ASan+UBSan harness (extra_checks).
"""
import os, random, re, hashlib, json, time
from concurrent.futures import ThreadPoolExecutor

REPO_SRCS = ["src/MDP/Algorithms/Utils/OffPolicyTemplate.cpp", "src/MDP/Utils.cpp", "src/MDP/Model.cpp", "src/MDP/SparseModel.cpp",
             "src/Seeder.cpp", "src/Utils/Probability.cpp", "src/Factored/Utils/Core.cpp",
             # SARSOP.cpp defines addWit/rmWit/addMax/rmMax; the rest is what it and FastInformedBound need to link
             # (same translation units and flags as props/C03.py: the object cache is shared)
             "src/POMDP/Algorithms/SARSOP.cpp", "src/POMDP/Algorithms/FastInformedBound.cpp", "src/POMDP/Algorithms/BlindStrategies.cpp",
             "src/POMDP/Utils.cpp", "src/Utils/Polytope.cpp", "src/Utils/Combinatorics.cpp", "src/Utils/LP/LpSolveWrapper.cpp",
             # rt.cpp: learned models over both experiences; GapMin (reuse histories) and what it links
             "src/MDP/Experience.cpp", "src/MDP/SparseExperience.cpp", "src/POMDP/Algorithms/GapMin.cpp",
             "src/POMDP/Algorithms/PBVI.cpp", "src/POMDP/Algorithms/QMDP.cpp", "src/MDP/Algorithms/ValueIteration.cpp"]
EXTRA_LINK = ["/usr/lib/liblpsolve55.a", "-lcolamd", "-ldl"]
AXIOM_ALLOW = []
ASAN_QUICK = True
THOROUGH_SEEDS = 3
CASE_TIMEOUT = 20

RULE = ("own cases (harness/C10, plain + ASan/UBSan): updateTraces histories (S 1..4, A 1..3, 0..S*A stored traces, dyadic "
        "eligibilities so cut-off decisions are exact; shapes empty / singleton / full list, cut at index 0 / last / all), "
        "match on pairs of sorted key lists over <= 7 factors ('matchoob' = reads past the end), extractDominated on 0..9 vectors of "
        "dimension 1..3 with ties/duplicates, extractDominatedIncremental on 0..12 vectors with every old/new split (old range "
        "pre-pruned in 80 %, strong new vectors in 50 %), extractBestUsefulPoints on 0..8 points x 1..5 planes ('ebuempty' = empty plane range), "
        "SARSOP witness/max lists under 0..10 addWit/rmWit/addMax/rmMax, FastInformedBound sparse-reward maximum ('fibmaxz' = with "
        "implicit zeros), FactorGraph histories (n 1..6, <= 12 getFactor/erase ops, 51 fixed shapes), BeliefGenerator on random dyadic "
        "POMDPs (n in 0..20), {Sparse}MaximumLikelihoodModel<{Sparse}Experience> record/sync/reset histories ('mlm', oracle only), one "
        "SARSOP/GapMin object reused for 2-3 solves ('reuse'); all own cases also run on an ASan+UBSan build WITHOUT -DNDEBUG; non-trivial = a trace cut / both key lists >= 2 keys / a vector removed / > 2 list ops / a factor "
        "re-requested or erased / more than 3 beliefs.  extra phase 1 (sanitizer sweep): corpus + quick-tier cases of every other "
        "claimed property (quick: all of its quick-tier cases, stratified by case kind if more than 2000; thorough: its quick- and "
        "thorough-tier cases) executed on that property's ASan+UBSan harness, one evaluation per case, one 'non-trivial' per "
        "distinct case kind swept.  extra phase 2 (compile probes): probe TUs of "
        "harness/C10/probes/PROBES.json (quick: every known-failing probe + class-level probes + its quick-marked probes + a sample, <= 420; thorough: all), "
        "one evaluation per probe, non-trivial = it compiled (link probes: compiled and linked with the /repo sources they name).")
TRUSTED_BASE = [
    "CLAUSE 1 IS NOT PROVED: template instantiation is decided by g++ on the probe TUs listed in harness/C10/probes/PROBES.json "
    "(hand-made table of (class template, library type, member)); pairs not in the table are not covered",
    "absence of ASan/UBSan reports on the executed cases is an observation about those executions, not a proof; UB the sanitizers "
    "do not instrument (uninitialised reads: no MSan build; reads inside a vector's spare capacity; data races) is not observed",
    "the checked-access models cover index/iterator arithmetic only: containers are lists, list iterators are node identities, "
    "size_t is nat (the one wrap-around the code relies on, --i at 0 in updateTraces, is modelled with an explicit SIZE_MAX value; "
    "--x at 0 elsewhere is classified UB and proved unreachable), doubles are exact rationals",
    "BeliefGenerator / extractBestUsefulPoints / deltaPrune models abstract the numeric decisions (observations sampled, duplicate "
    "beliefs, max_element, findBestAtPoint, delta-domination) as arbitrary scripts/functions: the theorems hold for every behaviour of them",
    "re-exported theorems are about the models of the owning properties (C20, C08, C18, C19); their tie to the code is the owning "
    "property's correspondence",
    "helper agents wrote ModelFG/ProofsFG, ModelBG/BU + ProofsBG/BU and the probes; all re-compiled and re-checked here",
]
ASSUMPTIONS = [
    "updateTraces: s < S, a < A, every stored trace names a pair inside the Q-table (true for traces produced by the class; "
    "setTraces with foreign pairs is outside the precondition)",
    "match: each operand has one value per key (PartialFactors invariant); keys sorted for the meaning clause",
    "extractDominated: any range (including empty and singleton); extractBestUsefulPoints: findBestAtPoint returns an index inside "
    "the hyperplane range (true when it is non-empty)",
    "SARSOP witness lists: v[0] = k with 1 <= k <= size (established where SARSOP builds its VList)",
    "FactorGraph: getFactor with a non-empty strictly increasing list of ids < n (PartialKeys), erase with an id < n",
    "BeliefGenerator: none (every list, every maxBeliefs); progress needs minProductiveBeliefs_ > 0 (it is 10)",
    "sanitizer sweep: inputs are the ones the other properties generate, i.e. inputs satisfying THEIR documented preconditions",
]

# ---------------------------------------------------------------- own cases -------------------
def L(xs): return "%d %s" % (len(xs), " ".join(map(str, xs))) if xs else "0"
def Q4(k): return "%d/4" % k if k % 4 else str(k // 4)

def match_oob(lk, lv, rk, rv):
    """does Core.cpp:match read biggerK[i] past its end (before an early 'return false')?"""
    (bk, bv), (sk, sv) = ((lk, lv), (rk, rv)) if len(lk) > len(rk) else ((rk, rv), (lk, lv))
    i = j = 0
    while j < len(sk):
        if i >= len(bk): return True
        if bk[i] < sk[j]: i += 1
        elif bk[i] > sk[j]: j += 1
        else:
            if bv[i] != sv[j]: return False
            i += 1; j += 1
    return False

def gen_ut(rng, shape=None):
    S = rng.randint(1, 4); A = rng.randint(1, 3)
    tol = rng.choice(["1/16", "1/4", "1/2", "1/1024", "1"])
    q = [Q4(rng.randint(-8, 8)) for _ in range(S * A)]
    pairs = [(s, a) for s in range(S) for a in range(A)]
    rng.shuffle(pairs)
    shape = shape or rng.choice(["empty", "single", "all", "rand", "rand", "rand"])
    k = {"empty": 0, "single": 1, "all": len(pairs)}.get(shape, rng.randint(0, len(pairs)))
    els = ["1", "1/2", "1/4", "1/8", "1/16", "3/4"]
    tr = ["%d %d %s" % (s, a, rng.choice(els)) for (s, a) in pairs[:k]]
    nops = rng.randint(1, 6)
    ops = []
    for _ in range(nops):
        s, a = rng.choice(pairs)
        ops.append("%d %d %s %s" % (s, a, Q4(rng.randint(-4, 4)), rng.choice(["1/2", "1/2", "1", "1/4", "0", "3/4"])))
    return "ut %d %d %s %s %d %s %d %s" % (S, A, tol, " ".join(q), len(tr), " ".join(tr), nops, " ".join(ops))

def gen_match(rng, want_oob):
    for _ in range(400):
        n = rng.randint(1, 7)
        lk = sorted(rng.sample(range(n), rng.randint(0, n)))
        rk = sorted(rng.sample(range(n), rng.randint(0, n)))
        full = [rng.randrange(3) for _ in range(n)]
        agree = want_oob or rng.random() < 0.6
        lv = [full[k] for k in lk]
        rv = [full[k] if agree or rng.random() < 0.7 else (full[k] + 1) % 3 for k in rk]
        oob = match_oob(lk, lv, rk, rv)
        if oob != want_oob: continue
        return "%s %s %s %s %s" % ("matchoob" if oob else "match", L(lk), L(lv), L(rk), L(rv))
    return None

def gen_ed(rng):
    n = rng.choice([0, 1, 2, 2, 3, 4, 5, 6, 7, 9]); d = rng.randint(1, 3)
    pool = [[rng.randint(-2, 2) for _ in range(d)] for _ in range(max(1, n // 2 + 1))]
    vs = []
    for _ in range(n):
        v = list(rng.choice(pool)) if rng.random() < 0.5 else [rng.randint(-3, 3) for _ in range(d)]
        vs += ["%d/2" % x if x % 2 else str(x // 2) for x in v]
    return "ed %d %d %s" % (n, d, " ".join(vs))

def gen_wit(rng):
    nS = rng.randint(1, 4)
    ids = list(range(nS + 6))
    nmax = rng.randint(0, 4)
    maxes = sorted(rng.sample(ids, nmax))
    rest = [i for i in ids if i >= nS and i not in maxes]
    wits = sorted(rng.sample(rest, rng.randint(0, len(rest))))
    v = [len(maxes) + 1] + maxes + wits
    ops = []
    for _ in range(rng.randint(0, 10)):
        op = rng.choice(["aw", "rw", "am", "rm"]); id_ = rng.choice(ids + [nS + 7])
        ops.append("%s %d%s" % (op, id_, " %d" % rng.randint(0, 1) if op == "rm" else ""))
    return "wit %d %s %d %s" % (nS, L(v), len(ops), " ".join(ops))

def gen_fibmax(rng, zero):
    for _ in range(100):
        S = rng.randint(1, 4); A = rng.randint(1, 3)
        rw = [rng.choice([-6, -3, -1, 1, 2, 5, 8]) for _ in range(S * A)]
        if zero:
            for i in rng.sample(range(S * A), rng.randint(1, S * A)): rw[i] = 0
        return "%s %d %d %s" % ("fibmaxz" if zero else "fibmax", S, A, " ".join(Q4(x) for x in rw))

def gen_bg(rng, shape=None):
    S = rng.randint(1, 3); A = rng.randint(1, 2); O = rng.randint(1, 3)
    n = rng.choice([0, 1, 2, 3, 5, 8, 12, 20]) if shape is None else shape
    def dist(k):
        c = [0] * k
        for _ in range(4): c[rng.randrange(k)] += 1
        return ["%d/4" % x if x % 4 else str(x // 4) for x in c]
    T = sum((dist(S) for _ in range(A * S)), [])
    Ob = sum((dist(O) for _ in range(A * S)), [])
    return "bg %d %d %d %d %s %s" % (n, S, A, O, " ".join(T), " ".join(Ob))

def fg_case(n, ops, F=None):
    toks = []
    for o in ops:
        if o[0] == "g": toks.append("g %d %s" % (len(o[1]), " ".join(map(str, o[1]))))
        else: toks.append("e %d" % o[1])
    if F is not None: toks.append("F " + " ".join(map(str, F)))
    return ("fg %d %d %s" % (n, len(ops), " ".join(toks))).strip()

def gen_fg(rng):
    """random admissible FactorGraph history: n in 1..6, 1..12 ops, variable sets of size 1..min(n,4) (sorted,
       distinct, < n), ~25 % erases, repeated requests of an earlier set, requests after the erase of unrelated
       variables, and (rarely) requests naming an erased variable / repeated erases (admissible: no UB there)"""
    n = rng.randint(1, 6)
    nops = rng.randint(1, 12)
    ops, asked, erased = [], [], set()
    for _ in range(nops):
        r = rng.random()
        if r < 0.25:
            if erased and rng.random() < 0.15: a = rng.choice(sorted(erased))
            else: a = rng.randrange(n)
            ops.append(("e", a)); erased.add(a)
        elif asked and r < 0.45:
            ops.append(("g", rng.choice(asked)))
        else:
            live = [v for v in range(n) if v not in erased]
            pool = list(range(n)) if (not live or rng.random() < 0.12) else live
            k = rng.randint(1, min(len(pool), 4))
            vs = sorted(rng.sample(pool, k))
            ops.append(("g", vs)); asked.append(vs)
    F = None if rng.random() < 0.2 else [rng.randint(1, 4) for _ in range(n)]
    return fg_case(n, ops, F)

def fg_sweep():
    """fixed shapes: n = 1, all singletons, one factor over all variables, nested/overlapping sets with every
       single erase, pool re-use after erase"""
    cases = [fg_case(1, [("g", [0])]), fg_case(1, [("g", [0]), ("g", [0]), ("e", 0), ("e", 0), ("g", [0])]),
             fg_case(1, [("e", 0)])]
    for n in (2, 3, 5, 6):
        sing = [("g", [v]) for v in range(n)]
        cases.append(fg_case(n, sing))
        cases.append(fg_case(n, sing + [("e", v) for v in range(n)]))
        allv = list(range(n))
        cases.append(fg_case(n, [("g", allv)]))
        for a in range(n):
            cases.append(fg_case(n, [("g", allv), ("e", a), ("g", [v for v in allv if v != a])]))
            cases.append(fg_case(n, [("g", allv[:k]) for k in range(1, n + 1)] + [("e", a)] +
                                    [("g", allv[k:]) for k in range(n)]))
        cases.append(fg_case(n, [("g", allv)] + [("e", v) for v in range(n)] + [("g", allv)]))
    return cases

def gen_ebu(rng, empty=False):
    d = rng.randint(1, 3)
    np_ = rng.choice([0, 1, 2, 3, 4, 5, 6, 8]) if not empty else rng.randint(1, 3)
    nv = 0 if empty else rng.randint(1, 5)
    def vec(lo, hi): return ["%d/2" % x if x % 2 else str(x // 2) for x in (rng.randint(lo, hi) for _ in range(d))]
    pts = sum((vec(0, 4) for _ in range(np_)), [])
    pls = sum((vec(-3, 3) for _ in range(nv)), [])
    return "%s %d %d %s %d %s" % ("ebuempty" if empty else "ebu", d, np_, " ".join(pts), nv, " ".join(pls))

def gen_edi(rng):
    """old range pruned among itself first (documented precondition of extractDominatedIncremental) in 80 % of the
       cases; the no-UB theorem needs no such precondition, so 20 % violate it on purpose.  Half of the cases have
       'strong' new vectors (an old vector plus a non-negative offset) so that old entries are removed and the final
       swap loop runs with more old-bad than new-good entries, and the other way round."""
    n = rng.choice([0, 1, 2, 3, 4, 5, 6, 8, 10, 12]); d = rng.randint(1, 3)
    nold = rng.randint(0, n)
    pool = [[rng.randint(-2, 2) for _ in range(d)] for _ in range(max(1, n // 2 + 1))]
    vecs = [list(rng.choice(pool)) if rng.random() < 0.4 else [rng.randint(-3, 3) for _ in range(d)] for _ in range(n)]
    if rng.random() < 0.8:
        old = vecs[:nold]
        keep = [v for i, v in enumerate(old)
                if not any((all(w[k] >= v[k] for k in range(d)) and (w != v or j < i)) for j, w in enumerate(old) if j != i)]
        vecs = keep + vecs[nold:]; nold = len(keep); n = len(vecs)
    if nold > 0 and rng.random() < 0.5:
        for i in range(nold, n):
            if rng.random() < 0.6:
                base = vecs[rng.randrange(nold)]
                vecs[i] = [x + rng.choice([0, 0, 1, 2, 4]) for x in base]
    toks = ["%d/2" % x if x % 2 else str(x // 2) for v in vecs for x in v]
    return "edi %d %d %d %s" % (n, nold, d, " ".join(toks))

def gen_mlm(rng, pair=None):
    """record / sync() / sync(s,a) / sync(s,a,s1) / reset histories on the four (model template, experience) pairs.
       sync(s,a,s1) is only emitted right after its record and only when the row was in sync before (its documented
       use); pairs are revisited after having been synced with zero counts on some successors (the identity entry,
       explicit zeros), and the history ends with a full sync so that the final matrix has a definite meaning."""
    mk, ek = pair or rng.choice([("S", "d"), ("S", "d"), ("S", "s"), ("D", "d"), ("D", "s")])
    S = rng.randint(1, 4); A = rng.randint(1, 2)
    ops = []; hot = [(rng.randrange(S), rng.randrange(A)) for _ in range(2)]
    # row state: "init" (identity, never visited), "clean" (equals the empirical frequencies), "dirty".  sync(s,a) is a
    # no-op while the pair has no visits (e.g. after Experience::reset()), so it only cleans rows with visits;
    # sync(s,a,s1) is documented for rows that need exactly this one new transition: only on init / clean rows.
    state = {(s, a): "init" for s in range(S) for a in range(A)}
    vsum = {k: 0 for k in state}
    def full_sync(k):
        if vsum[k] > 0: state[k] = "clean"
    for _ in range(rng.randint(1, 25)):
        r = rng.random()
        if r < 0.7:
            s, a = rng.choice(hot) if rng.random() < 0.7 else (rng.randrange(S), rng.randrange(A))
            s1 = rng.randrange(S)
            ops.append("r %d %d %d %s" % (s, a, s1, Q4(rng.randint(-4, 4))))
            vsum[(s, a)] += 1
            t = rng.random()
            if state[(s, a)] != "dirty" and t < 0.4: ops.append("q %d %d %d" % (s, a, s1)); state[(s, a)] = "clean"
            elif t < 0.75: ops.append("p %d %d" % (s, a)); full_sync((s, a))
            else: state[(s, a)] = "dirty"
        elif r < 0.8:
            ops.append("y")
            for k in state: full_sync(k)
        elif r < 0.95: s, a = rng.randrange(S), rng.randrange(A); ops.append("p %d %d" % (s, a)); full_sync((s, a))
        elif r < 0.97:
            ops.append("z")
            for k in state:
                vsum[k] = 0
                if state[k] != "init": state[k] = "dirty"
    ops.append("y")
    return "mlm %s %s %d %d %d %s" % (mk, ek, S, A, len(ops), " ".join(ops))

def gen_reuse(rng):
    def dist(k):
        c = [0] * k
        for _ in range(4): c[rng.randrange(k)] += 1
        return ["%d/4" % x if x % 4 else str(x // 4) for x in c]
    def pomdp():
        S = rng.randint(2, 3); A = rng.randint(1, 2); O = rng.randint(1, 2)
        T = sum((dist(S) for _ in range(A * S)), [])
        R = [str(rng.randint(0, 4)) for _ in range(S * A)]
        Ob = sum((dist(O) for _ in range(A * S)), [])
        b0 = dist(S)
        return "%d %d %d %s %s %s %s" % (S, A, O, " ".join(T), " ".join(R), " ".join(Ob), " ".join(b0))
    first = pomdp()
    ps = [first, first if rng.random() < 0.4 else pomdp()]
    if rng.random() < 0.3: ps.append(pomdp())
    return "reuse %s %s %d %s" % (rng.choice(["sarsop", "sarsop", "gapmin"]), rng.choice(["1/2", "1/4", "1"]), len(ps), " ".join(ps))

def gen(rng, tier):
    n = {"quick": 300, "thorough": 2500, "search": 600}[tier]
    cases = []
    cases += fg_sweep()
    for shape in ("empty", "single", "all"):
        for _ in range(4): cases.append(gen_ut(rng, shape))
    for i in range(n):
        r = rng.random()
        if r < 0.3: cases.append(gen_ut(rng))
        elif r < 0.5:
            c = gen_match(rng, False)
            if c: cases.append(c)
        elif r < 0.54: cases.append(gen_ed(rng))
        elif r < 0.62: cases.append(gen_edi(rng))
        elif r < 0.7: cases.append(gen_ebu(rng))
        elif r < 0.78: cases.append(gen_wit(rng))
        elif r < 0.8: pass
        elif r < 0.9: cases.append(gen_fg(rng))
        elif r < 0.95: cases.append(gen_fibmax(rng, False))
        else: cases.append(gen_bg(rng))
    for _ in range(6 if tier != "thorough" else 12):      # few: on the unrepaired tree each one aborts the ASan child
        c = gen_match(rng, True)
        if c: cases.append(c)
        cases.append(gen_fibmax(rng, True))
    for _ in range(3): cases.append(gen_ebu(rng, True))
    for _ in range(60 if tier == "quick" else 400): cases.append(gen_edi(rng))     # cheap; many zone-size combinations
    for _ in range(120 if tier == "quick" else 800): cases.append(gen_mlm(rng))
    for _ in range(12 if tier == "quick" else 20): cases.append(gen_reuse(rng))
    return cases

# ---------------------------------------------------------------- extra phase 1: sanitizer sweep
SWEEP_QUICK_PER_PROP = 2000      # generated cases per property in the quick tier (= all of its quick-tier cases today; thorough: two seeds)
SWEEP_QUICK_PER_KIND = 4         # ... of which at least this many of every case kind / variant (stratified)
SWEEP_QUICK_CORPUS = 60          # corpus cases per property in the quick tier (thorough: all)
SWEEP_SKIP = set()               # properties whose harness cannot be swept (none)

def _corpus(api, pid):
    out = []
    d = os.path.join(api["ROOT"], "corpus", pid)
    if os.path.isdir(d):
        for f in sorted(os.listdir(d)):
            if f.endswith(".case"):
                out += [l.strip() for l in open(os.path.join(d, f)) if l.strip() and not l.startswith("#")]
    return out

def _sweep_build(api, pid):
    """builds sequentially (lib/vcheck.compile_tu uses a per-process temp name: two threads compiling the same
       shared TU, e.g. src/Seeder.cpp, would race) -> (prop, exe, records)"""
    try:
        prop = api["load_prop"](pid)
    except Exception as ex:
        return None, None, [dict(kind="DISAGREE", clause="sweep_load", site=pid, detail=repr(ex)[:200], case="-")]
    ok, exe, err = api["harness_build"](pid, prop, "asan")
    if not ok:
        first = next((l for l in err.split("\n") if "error" in l), err[:200])
        return prop, None, [dict(kind="DISAGREE", clause="sweep_build", site=pid, detail=first[:300], case="-")]
    return prop, exe, []

def _kind_key(case):
    """stratum of a case: its kind token, refined by the second token when that is a word (regime / variant
       such as 'vi dy', 'direct generic', 'rtbss sparse', 'sr pomdp.ss'), not a number or a path"""
    t = case.split()
    if len(t) > 1 and len(t[1]) <= 12 and re.fullmatch(r"[A-Za-z_][A-Za-z_.]*[0-9]?", t[1]):
        return t[0] + " " + t[1]
    return t[0] if t else "?"

def _stratified(cases, total, per_kind_min, rng):
    """every kind gets at least per_kind_min cases (or all it has); the rest of the budget is spread
       proportionally; within a kind the sample is uniform"""
    groups = {}
    for c in cases:
        groups.setdefault(_kind_key(c), []).append(c)
    picked = []
    left = []
    for k in sorted(groups):
        g = groups[k]
        rng.shuffle(g)
        picked += g[:per_kind_min]
        left += g[per_kind_min:]
    room = max(0, total - len(picked))
    if room and left:
        picked += rng.sample(left, min(room, len(left)))
    return picked, len(groups)

def _sweep_run(api, pid, prop, exe):
    """-> (records, ncases, nkinds, seconds)"""
    recs = []
    corpus = _corpus(api, pid)
    gen_cases = []
    # quick: the property's quick-tier cases; thorough: its quick-tier AND its thorough-tier cases
    for tier_ in (["quick"] if api["tier"] == "quick" else ["quick", "thorough"]):
        try:
            gen_cases += list(prop.gen(random.Random(api["seed"]), tier_))
        except Exception as ex:
            recs.append(dict(kind="DISAGREE", clause="sweep_gen", site=pid, detail=repr(ex)[:200], case="-"))
    nk = len(set(_kind_key(c) for c in corpus + gen_cases))
    if api["tier"] == "quick":
        rng = random.Random(api["seed"] * 31 + sum(map(ord, pid)))
        sample, _ = _stratified(gen_cases, SWEEP_QUICK_PER_PROP, SWEEP_QUICK_PER_KIND, rng)
        cases = corpus[:SWEEP_QUICK_CORPUS] + sample
    else:
        cases = corpus + gen_cases
    if not cases:
        return recs, 0, 0, 0.0
    cpath = os.path.join(api["workdir"], "sweep_%s.cases" % pid)
    opath = os.path.join(api["workdir"], "sweep_%s.out" % pid)
    api["write_cases"](cpath, cases)
    tmo = min(120, getattr(prop, "CASE_TIMEOUT", 20) * 5)
    t0 = time.time()
    crashes = api["run_harness"](exe, cpath, opath, len(cases), tmo)
    for (cid, kind, detail) in crashes:
        case = cases[cid] if 0 <= cid < len(cases) else "?"
        ck = case.split()[0] if case != "?" else "harness"
        recs.append(dict(kind="SANITIZER", clause="no_UB", site="%s:%s" % (pid, ck), detail="%s %s" % (kind, detail), case=case))
    return recs, len(cases), nk, time.time() - t0

def sanitizer_sweep(api):
    pids = [p for p in api["claimed_props"]() if p != "C10" and p not in SWEEP_SKIP]
    recs = []
    t0 = time.time()
    built = []
    for pid in pids:
        prop, exe, r = _sweep_build(api, pid)
        recs += r
        if exe: built.append((pid, prop, exe))
    api["tags"]["sweep_build_s"] = int(time.time() - t0)
    t1 = time.time()
    with ThreadPoolExecutor(max(1, min(len(built), 8))) as ex:
        results = list(ex.map(lambda t: (t[0], _sweep_run(api, *t)), built))
    slow = []
    for pid, (r, n, nk, secs) in results:
        recs += r
        api["evaluations"] += n
        api["nontrivial"] += nk
        api["tags"]["sweep:" + pid] = n
        api["tags"]["sweep_kinds:" + pid] = nk
        slow.append((secs, pid))
    slow.sort(reverse=True)
    for s_, p_ in slow[:4]:
        api["tags"]["sweep_slowest_s:" + p_] = int(s_)
    api["tags"]["sweep_run_s"] = int(time.time() - t1)
    return recs

# ---------------------------------------------------------------- extra phase 2: compile probes
# harness/C10/probes/PROBES.json lists one probe TU per (class template, admissible library type) [member = null:
# explicit instantiation of the whole class + calls of its member templates] and, for classes whose explicit
# instantiation fails today, one probe per public member.  A probe that does not compile is a DISAGREE record with
# clause "instantiates" and site = the probe's site; the members known not to instantiate are listed one by one
# in known_findings.d/C10.json.  Quick tier: class-level probes + every probe of a class with a known failure,
# sampled down to PROBE_QUICK_MAX; thorough: all.  Successes are cached by compile_tu (content hash incl. the
# include tree), failures by a small negative cache with the same key.
PROBE_QUICK_MAX = 420
# Members whose documentation itself restricts them ("This method can only be used if the underlying TrieType supports
# it": FilterMap<T,TrieType>::filter(const PartialFactors&); FasterTrie has no such overload).  Their failure to
# instantiate is the documented behaviour, not a finding: these probes (and the class-level explicit instantiation,
# which necessarily includes them) are not judged; the other 16 members of FilterMap<T,FasterTrie> have their own probes.
PROBE_DOCUMENTED_UNSUPPORTED = re.compile(r"^Factored::FilterMap<[^>]*,Factored::FasterTrie>($|::filter\(PartialFactors\))")

def _tree_sha(root):
    h = hashlib.sha256()
    for d, _, fs in sorted(os.walk(root)):
        for f in sorted(fs):
            pth = os.path.join(d, f)
            h.update(pth.encode()); h.update(b"\0")
            with open(pth, "rb") as fh: h.update(hashlib.sha256(fh.read()).digest())
    return h.hexdigest()[:20]

def _first_error(err):
    for l in err.split("\n"):
        if "error" in l.lower():
            return re.sub(r"\s+", " ", l.strip())[:300]
    return re.sub(r"\s+", " ", err.strip())[:300]

def probe_checks(api):
    pdir = os.path.join(api["ROOT"], "harness", "C10", "probes")
    man = os.path.join(pdir, "PROBES.json")
    if not os.path.exists(man):
        return [dict(kind="DISAGREE", clause="instantiates", site="PROBES.json", detail="probe manifest missing", case="-")]
    probes = json.load(open(man))["probes"]
    nall = len(probes)
    probes = [p for p in probes if not PROBE_DOCUMENTED_UNSUPPORTED.search(p["site"])]
    api["tags"]["probes_documented_unsupported"] = nall - len(probes)
    rng = random.Random(api["seed"] * 131 + 7)
    if api["tier"] == "quick":
        must = [p for p in probes if p.get("expect") == "fail" or p.get("kind") == "link"]
        mset = set(p["file"] for p in must)
        quick = [p for p in probes if p.get("tier") == "quick" and p["file"] not in mset]
        rest = [p for p in probes if p.get("tier") != "quick" and p["file"] not in mset]
        room = max(0, PROBE_QUICK_MAX - len(must))
        pick = quick if len(quick) <= room else rng.sample(quick, room)
        room -= len(pick)
        pick += rng.sample(rest, min(len(rest), room))
        chosen = must + pick
    else:
        chosen = probes
    flags = list(api["CXXFLAGS"])
    inc = _tree_sha(os.path.join(api["REPO"], "include"))
    negdir = os.path.join(api["BUILD"], "probe_neg")
    os.makedirs(negdir, exist_ok=True)
    t0 = time.time()

    def one(p):
        src = os.path.join(pdir, p["file"])
        if not os.path.exists(src):
            return p, False, "probe file missing"
        key = hashlib.sha256((" ".join(flags) + "\0" + open(src).read() + "\0" + inc).encode()).hexdigest()[:24]
        neg = os.path.join(negdir, key + ".txt")
        if os.path.exists(neg):
            return p, False, open(neg).read()
        obj, err = api["compile_tu"](src, flags, "probe")
        if obj is None:
            msg = _first_error(err)
            with open(neg + ".tmp%d" % os.getpid(), "w") as f: f.write(msg)
            os.replace(neg + ".tmp%d" % os.getpid(), neg)
            return p, False, msg
        return p, True, ""

    compile_probes = [p for p in chosen if p.get("kind", "compile") != "link"]
    link_probes = [p for p in chosen if p.get("kind") == "link"]
    with ThreadPoolExecutor(api["NCPU"]) as ex:
        results = list(ex.map(one, compile_probes))
    # link probes (non-template members can be declared and never defined; only the linker sees it): the probe
    # odr-uses one member from main(); it is linked with the /repo translation units its manifest entry lists.
    # The /repo objects are the pipeline's own (variant "plain", same flags and cache as the harnesses); each
    # distinct source is compiled once (never the same TU from two threads: compile_tu's temp name is per process).
    if link_probes:
        srcs = sorted(set(x for p in link_probes for x in p.get("link", [])))
        with ThreadPoolExecutor(api["NCPU"]) as ex:
            objs = dict(zip(srcs, ex.map(lambda x: api["compile_tu"](os.path.join(api["REPO"], x), flags, "plain"), srcs)))
        ldir = os.path.join(api["workdir"], "linkprobes")
        os.makedirs(ldir, exist_ok=True)

        def link_one(p):
            r = one(p)
            if not r[1]:
                return r
            src = os.path.join(pdir, p["file"])
            obj, _ = api["compile_tu"](src, flags, "probe")
            need = []
            for x in p.get("link", []):
                o, err = objs[x]
                if o is None:
                    return p, False, "cannot compile %s: %s" % (x, _first_error(err))
                need.append(o)
            exe = os.path.join(ldir, re.sub(r"\W", "_", p["file"]))
            import subprocess
            q = subprocess.run([api["CXX"], obj] + need + list(p.get("link_libs", [])) + ["-o", exe],
                               stdout=subprocess.PIPE, stderr=subprocess.STDOUT, text=True)
            if os.path.exists(exe): os.remove(exe)
            if q.returncode != 0:
                m = [l for l in q.stdout.split("\n") if "undefined reference" in l or "multiple definition" in l or "error" in l.lower()]
                return p, False, re.sub(r"\s+", " ", (m[0] if m else q.stdout[:300]).strip())[:300]
            return p, True, ""

        with ThreadPoolExecutor(api["NCPU"]) as ex:
            results += list(ex.map(link_one, link_probes))
        api["tags"]["probes_link"] = len(link_probes)
    recs = []
    nfail = 0
    for p, ok, msg in results:
        api["evaluations"] += 1
        if ok:
            api["nontrivial"] += 1
        else:
            nfail += 1
            recs.append(dict(kind="DISAGREE", clause="instantiates", site=p["site"], detail=msg, case=p["file"]))
    api["tags"]["probes"] = len(chosen); api["tags"]["probes_failing"] = nfail
    api["tags"]["probes_total"] = len(probes); api["tags"]["probe_wall_s"] = int(time.time() - t0)
    return recs

# ---------------------------------------------------------------- extra phase 3: assertions on -----
# The own harness is built a third time: ASan+UBSan WITHOUT -DNDEBUG, so that Eigen's eigen_assert (e.g. SparseMatrix::
# insert() on a stored coefficient, operator() out of range) and the library's own assert()s are active; the run's own
# cases are executed on it.  An abort is reported as clause no_UB, site "noNDEBUG:<case kind>" (container misuse that
# the release build turns into silent corruption).
def assertions_on_run(api):
    import subprocess, glob
    flags = [f for f in api["CXXFLAGS"] if f != "-DNDEBUG"] + list(api["ASANFLAGS"])
    srcs = [os.path.join(api["REPO"], x) for x in REPO_SRCS] + sorted(glob.glob(os.path.join(api["ROOT"], "harness", "C10", "*.cpp")))
    with ThreadPoolExecutor(api["NCPU"]) as ex:
        res = list(ex.map(lambda x: api["compile_tu"](x, flags, "asan_dbg"), srcs))
    bad = [e for (o, e) in res if o is None]
    if bad:
        return [dict(kind="DISAGREE", clause="assertions_on_build", site="harness/C10", detail=_first_error(bad[0]), case="-")]
    objs = [o for (o, _) in res]
    key = hashlib.sha256("\0".join(objs).encode()).hexdigest()[:20]
    outdir = os.path.join(api["BUILD"], "h", "C10dbg")
    os.makedirs(outdir, exist_ok=True)
    exe = os.path.join(outdir, "h_asandbg_" + key)
    if not os.path.exists(exe):
        tmp = exe + ".tmp%d" % os.getpid()
        q = subprocess.run([api["CXX"]] + list(api["ASANFLAGS"]) + objs + list(EXTRA_LINK) + ["-o", tmp],
                           stdout=subprocess.PIPE, stderr=subprocess.STDOUT, text=True)
        if q.returncode != 0:
            return [dict(kind="DISAGREE", clause="assertions_on_build", site="harness/C10", detail=_first_error(q.stdout), case="-")]
        os.replace(tmp, exe)
        for old in glob.glob(os.path.join(outdir, "h_asandbg_*")):
            if old != exe and ".tmp" not in old:
                try: os.remove(old)
                except OSError: pass
    cases = _corpus(api, "C10") + list(gen(random.Random(api["seed"]), api["tier"]))
    cpath = os.path.join(api["workdir"], "dbg.cases"); opath = os.path.join(api["workdir"], "dbg.out")
    api["write_cases"](cpath, cases)
    t0 = time.time()
    crashes = api["run_harness"](exe, cpath, opath, len(cases), CASE_TIMEOUT * 5)
    recs = []
    for (cid, kind, detail) in crashes:
        case = cases[cid] if 0 <= cid < len(cases) else "?"
        ck = case.split()[0] if case != "?" else "harness"
        recs.append(dict(kind="SANITIZER", clause="no_UB", site="noNDEBUG:%s" % ck, detail="%s %s (build without -DNDEBUG: assertions active)" % (kind, detail), case=case))
    api["evaluations"] += len(cases)
    api["tags"]["assertions_on_cases"] = len(cases); api["tags"]["assertions_on_s"] = int(time.time() - t0)
    return recs

# ---------------------------------------------------------------- extra phase 4: every header in two TUs
# Two translation units that both include EVERY public header are compiled and linked together: a definition in a
# header that is not inline / template / constexpr (free function, explicit specialisation, namespace-scope variable)
# shows up as a "multiple definition" link error.  Undefined references are ignored (nothing is used).
def allheaders_link(api):
    import subprocess
    inc = os.path.join(api["REPO"], "include")
    hs = []
    for d, _, fs in os.walk(inc):
        for f in fs:
            if f.endswith(".hpp") and "Python" not in d:
                hs.append(os.path.relpath(os.path.join(d, f), inc))
    hs.sort()
    body = "".join("#include <%s>\n" % h for h in hs)
    gdir = os.path.join(api["BUILD"], "probe_gen")
    os.makedirs(gdir, exist_ok=True)
    files = {"allheaders_a.cpp": "// generated by props/C10.py: every public header, TU A\n" + body + "int c10_allheaders_a() { return 0; }\n",
             "allheaders_b.cpp": "// generated by props/C10.py: every public header, TU B\n" + body + "int main() { return 0; }\n"}
    for name, content in files.items():
        pth = os.path.join(gdir, name)
        if not os.path.exists(pth) or open(pth).read() != content:
            with open(pth, "w") as f: f.write(content)
    flags = list(api["CXXFLAGS"])
    t0 = time.time()
    with ThreadPoolExecutor(2) as ex:
        res = list(ex.map(lambda n: api["compile_tu"](os.path.join(gdir, n), flags, "probe"), sorted(files)))
    api["evaluations"] += 1
    api["tags"]["allheaders"] = len(hs)
    for (o, e) in res:
        if o is None:
            return [dict(kind="DISAGREE", clause="instantiates", site="all_public_headers#compile", detail=_first_error(e), case="allheaders")]
    exe = os.path.join(api["workdir"], "allheaders_exe")
    q = subprocess.run([api["CXX"]] + [o for (o, _) in res] + ["-Wl,--unresolved-symbols=ignore-all", "-o", exe],
                       stdout=subprocess.PIPE, stderr=subprocess.STDOUT, text=True)
    api["tags"]["allheaders_s"] = int(time.time() - t0)
    if q.returncode != 0:
        m = [l for l in q.stdout.split("\n") if "multiple definition" in l]
        msg = re.sub(r"\s+", " ", (m[0] if m else q.stdout[:300]).strip())[:300]
        return [dict(kind="DISAGREE", clause="instantiates", site="all_public_headers#link", detail=msg, case="allheaders (%d multiple definitions)" % len(m))]
    api["nontrivial"] += 1
    return []

def extra_checks(api):
    recs = []
    # C10_NO_SWEEP=1: skip the sweep (for experiments with VERIF_REPO=<scratch worktree>: building the other
    # properties' harnesses against another tree replaces their cached executables, which disturbs builders
    # running those checks concurrently)
    if os.environ.get("C10_NO_SWEEP") != "1":
        recs += sanitizer_sweep(api)
    if os.environ.get("C10_NO_PROBES") != "1":
        recs += probe_checks(api)
        recs += allheaders_link(api)
    if os.environ.get("C10_NO_ASSERT") != "1":
        recs += assertions_on_run(api)
    return recs


def setup_extra(api):
    """called by `bin/check --setup`: pre-compile the quick-tier probes so the first check is warm"""
    probe_checks(api)
