"""props/C05.py — descriptor for property C05 (belief updates are exact Bayes filtering)."""
import itertools
from fractions import Fraction

REPO_SRCS = ["src/MDP/Model.cpp", "src/MDP/SparseModel.cpp", "src/Seeder.cpp", "src/Utils/Probability.cpp"]
AXIOM_ALLOW = []
TRUSTED_BASE = [
    "Eigen kernels (row-vector * matrix, col(), cwiseProduct, asDiagonal product, dot, sum, operator/=) "
    "for dense and sparse operands are modelled by their documented meaning",
    "POMDP::Model / SparseModel constructors store the given tables unchanged (sparse: entries with |p| <= 1e-6 dropped; "
    "generated non-zero entries are >= 1/64 in the dyadic regime and >= 1e-3 in the general regime)",
]
TRUSTED_BASE += [
    "ml/C05/driver.ml: closeness (1e-9 abs+rel) is decided by Vio.q_close exactly, behind a double-precision filter that "
    "only answers when a factor 2 away from the threshold",
]
ASSUMPTIONS = [
    "beliefs have exactly S entries (the C++ indexes b[s] unchecked)",
    "exact agreement is claimed on dyadic inputs only (every intermediate fits in 53 bits); "
    "on general doubles the results agree within 1e-9 (abs+rel)",
]
RULE = ("cases from props/C05.py gen(): random POMDPs S 1..6 (S>=3 in 80%), A 1..3, O 1..4, rejected when T and O are invariant "
        "under a non-identity state permutation or some T_a is symmetric; 4-6 beliefs per model (corners, faces, interior); "
        "all (a,o) and all three model kinds (dense, sparse, user-defined) per case; non-trivial = S >= 3; distinct by md5 of the case line")
THOROUGH_SEEDS = 3
SEARCH_SEEDS = 2
CASE_TIMEOUT = 20


def _dist(rng, n, den, zero_p):
    """random distribution over n outcomes with entries k/den; zero_p = chance of forcing an entry to 0"""
    while True:
        support = [i for i in range(n) if rng.random() >= zero_p]
        if not support:
            support = [rng.randrange(n)]
        cuts = sorted(rng.randint(0, den) for _ in range(len(support) - 1))
        parts = [b - a for a, b in zip([0] + cuts, cuts + [den])]
        v = [0] * n
        for i, p in zip(support, parts):
            v[i] = p
        if sum(v) == den:
            return [Fraction(x, den) for x in v]


def _symmetric(S, A, O, T, Ob):
    """True if the model hides index mix-ups: invariant under a state permutation, or a symmetric T_a"""
    if S == 1:
        return False
    for a in range(A):
        if all(T[a][s][s1] == T[a][s1][s] for s in range(S) for s1 in range(S)):
            return True
    for perm in itertools.permutations(range(S)):
        if all(perm[i] == i for i in range(S)):
            continue
        if all(T[a][perm[s]][perm[s1]] == T[a][s][s1] for a in range(A) for s in range(S) for s1 in range(S)) and \
           all(Ob[a][perm[s1]][o] == Ob[a][s1][o] for a in range(A) for s1 in range(S) for o in range(O)):
            return True
    return False


def _tok(x, regime):
    if regime == "dy":
        return "%d/%d" % (x.numerator, x.denominator) if x.denominator != 1 else "%d" % x.numerator
    return float(x).hex()


def _normalise_floats(v):
    """general regime: floats that sum to 1 up to rounding; exact zeros stay zeros"""
    f = [float(x) for x in v]
    s = sum(f)
    return [x / s for x in f]


def _case(rng, regime):
    S = rng.choice([1, 2, 3, 3, 3, 4, 4, 5, 5, 6])
    A = rng.choice([1, 2, 2, 3])
    O = rng.choice([1, 2, 2, 3, 3, 4])
    den = rng.choice([4, 8, 16, 64]) if regime == "dy" else rng.choice([3, 7, 10, 100, 997])
    zero_p = rng.choice([0.0, 0.2, 0.5, 0.7])
    for _ in range(200):
        T = [[_dist(rng, S, den, zero_p) for _ in range(S)] for _ in range(A)]
        Ob = [[_dist(rng, O, den, zero_p) for _ in range(S)] for _ in range(A)]
        if not _symmetric(S, A, O, T, Ob):
            break
    else:
        return None
    rden = rng.choice([1, 1, 2, 4]) if regime == "dy" else rng.choice([1, 3, 10])
    R3 = [[[Fraction(rng.randint(-8, 8), rden) if rng.random() < 0.8 else Fraction(0) for _ in range(S)]
           for _ in range(A)] for _ in range(S)]
    corner = rng.randrange(S)
    beliefs = [[Fraction(int(i == corner)) for i in range(S)],
               [Fraction(int(i == (corner + 1) % S)) for i in range(S)]]          # two corners
    bden = 64 if regime == "dy" else den
    beliefs.append(_dist(rng, S, bden, 0.5))      # face
    beliefs.append(_dist(rng, S, bden, 0.0))      # interior (entries may still be 0 by chance)
    unit = Fraction(1, bden) if bden >= 2 * S else Fraction(1, 2 * S)
    inter = [unit] * S                            # strictly interior
    inter[rng.randrange(S)] += 1 - sum(inter)
    beliefs.append(inter)
    if rng.random() < 0.5:
        beliefs.append(_dist(rng, S, bden, 0.3))
    if regime == "gen":
        # random doubles: perturb away from the rational grid, renormalise, keep structural zeros
        def jig(v):
            w = [float(x) * (1.0 + 0.25 * rng.random()) if x != 0 else 0.0 for x in v]
            s = sum(w)
            w = [x / s for x in w]
            # keep every non-zero entry well above the sparse models' 1e-6 drop threshold
            return w if all(x == 0.0 or x >= 1e-3 for x in w) else [float(x) for x in v]
        T = [[jig(r) for r in Ta] for Ta in T]
        Ob = [[jig(r) for r in Oa] for Oa in Ob]
        beliefs = [jig(b) for b in beliefs]
        R3 = [[[float(x) * (1.0 + rng.random()) for x in r] for r in Rs] for Rs in R3]
        tok = lambda x: float(x).hex()
    else:
        tok = lambda x: _tok(x, "dy")
    toks = ["bel", regime, str(S), str(A), str(O)]
    toks += [tok(T[a][s][s1]) for a in range(A) for s in range(S) for s1 in range(S)]
    toks += [tok(Ob[a][s1][o]) for a in range(A) for s1 in range(S) for o in range(O)]
    toks += [tok(R3[s][a][s1]) for s in range(S) for a in range(A) for s1 in range(S)]
    toks.append(str(len(beliefs)))
    for b in beliefs:
        toks += [tok(x) for x in b]
    return " ".join(toks)


def gen(rng, tier):
    n = {"quick": 320, "thorough": 1500, "search": 600}[tier]
    out = []
    while len(out) < n:
        regime = "dy" if rng.random() < 0.8 else "gen"
        c = _case(rng, regime)
        if c is not None:
            out.append(c)
    return out
