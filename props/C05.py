"""props/C05.py — descriptor for property C05 (belief updates are exact Bayes filtering)."""
import itertools
from fractions import Fraction

REPO_SRCS = ["src/MDP/Model.cpp", "src/MDP/SparseModel.cpp", "src/Seeder.cpp", "src/Utils/Probability.cpp"]
AXIOM_ALLOW = []
TRUSTED_BASE = [
    "Eigen kernels (row-vector * matrix, col(), cwiseProduct, asDiagonal product, dot, sum, operator/=) "
    "for dense and sparse operands are modelled by their documented meaning",
    "POMDP::Model / SparseModel constructors store the given tables unchanged (sparse: entries with |p| <= 1e-6 dropped; "
    "generated non-zero entries are >= 1/64 in the dyadic regime and >= 1e-3 in the general regime)",
]
TRUSTED_BASE += [
    "ml/C05/driver.ml: closeness (1e-9 abs+rel) is decided by Vio.q_close exactly, behind a double-precision filter that "
    "only answers when a factor 2 away from the threshold",
]
ASSUMPTIONS = [
    "operation histories offer only tables that are exactly valid or clearly invalid (a negative entry or a row sum off by >= 1/64; "
    "the library's validator tolerates 1e-6), as required by Spec.op_ok",
    "beliefs have exactly S entries (the C++ indexes b[s] unchecked)",
    "exact agreement is claimed on dyadic inputs only (every intermediate fits in 53 bits); "
    "on general doubles the results agree within 1e-9 (abs+rel)",
]
RULE = ("cases from props/C05.py gen(): random POMDPs S 1..6 (S>=3 in 80% of 'bel' cases), A 1..3, O 1..4, rejected when T and O are "
        "invariant under a non-identity state permutation or some T_a is symmetric; 3-6 beliefs per model (corners, faces, interior); "
        "all (a,o) per case. Kinds: 'bel' (48%; all four library combinations Model/SparseModel<MDP::Model/SparseModel>, a user-defined query-only model and two user-defined IsModelEigen models (matrices by value; column-major sparse), built once; 18% of the dyadic ones get an exactly "
        "constant observation column/table), 'tiny' bel cases (10%; some observation has probability 2^-21..2^-33), 'reset' (12%; eight "
        "construction/re-set paths), 'hist' (14%; operation history on one live dense and one live sparse object: constructor, then 2-4 "
        "setter calls with valid and clearly invalid tables through both overloads, belief updates judged after every call against the "
        "tables of the last accepted calls), 'seq' (10%; filtering along 2-5 (a,o) pairs), 'conv' (6%; sparse models built by conversion from sources with sub-threshold observation tails). non-trivial = S >= 3; distinct by md5 of the case line")
THOROUGH_SEEDS = 3
SEARCH_SEEDS = 2
CASE_TIMEOUT = 20


def _dist(rng, n, den, zero_p):
    """random distribution over n outcomes with entries k/den; zero_p = chance of forcing an entry to 0"""
    while True:
        support = [i for i in range(n) if rng.random() >= zero_p]
        if not support:
            support = [rng.randrange(n)]
        cuts = sorted(rng.randint(0, den) for _ in range(len(support) - 1))
        parts = [b - a for a, b in zip([0] + cuts, cuts + [den])]
        v = [0] * n
        for i, p in zip(support, parts):
            v[i] = p
        if sum(v) == den:
            return [Fraction(x, den) for x in v]


def _symmetric(S, A, O, T, Ob):
    """True if the model hides index mix-ups: invariant under a state permutation, or a symmetric T_a"""
    if S == 1:
        return False
    for a in range(A):
        if all(T[a][s][s1] == T[a][s1][s] for s in range(S) for s1 in range(S)):
            return True
    for perm in itertools.permutations(range(S)):
        if all(perm[i] == i for i in range(S)):
            continue
        if all(T[a][perm[s]][perm[s1]] == T[a][s][s1] for a in range(A) for s in range(S) for s1 in range(S)) and \
           all(Ob[a][perm[s1]][o] == Ob[a][s1][o] for a in range(A) for s1 in range(S) for o in range(O)):
            return True
    return False


def _tok(x, regime):
    if regime == "dy":
        return "%d/%d" % (x.numerator, x.denominator) if x.denominator != 1 else "%d" % x.numerator
    return float(x).hex()


def _rewards(rng, S, A, regime):
    rden = rng.choice([1, 1, 2, 4]) if regime == "dy" else rng.choice([1, 3, 10])
    return [[[Fraction(rng.randint(-8, 8), rden) if rng.random() < 0.8 else Fraction(0) for _ in range(S)]
             for _ in range(A)] for _ in range(S)]


def _random_model(rng, S, A, O, den, zero_p):
    """asymmetric (T, Ob) or None"""
    for _ in range(200):
        T = [[_dist(rng, S, den, zero_p) for _ in range(S)] for _ in range(A)]
        Ob = [[_dist(rng, O, den, zero_p) for _ in range(S)] for _ in range(A)]
        if not _symmetric(S, A, O, T, Ob):
            return T, Ob
    return None


def _beliefs(rng, S, bden, few=False):
    corner = rng.randrange(S)
    beliefs = [[Fraction(int(i == corner)) for i in range(S)]]
    if not few:
        beliefs.append([Fraction(int(i == (corner + 1) % S)) for i in range(S)])   # second corner
    beliefs.append(_dist(rng, S, bden, 0.5))      # face
    if not few:
        beliefs.append(_dist(rng, S, bden, 0.0))  # interior (entries may still be 0 by chance)
    unit = Fraction(1, bden) if bden >= 2 * S else Fraction(1, 2 * S)
    inter = [unit] * S                            # strictly interior
    inter[rng.randrange(S)] += 1 - sum(inter)
    beliefs.append(inter)
    if not few and rng.random() < 0.5:
        beliefs.append(_dist(rng, S, bden, 0.3))
    return beliefs


def _jig(rng, v):
    """general regime: random doubles around the rational grid, renormalised, structural zeros kept"""
    w = [float(x) * (1.0 + 0.25 * rng.random()) if x != 0 else 0.0 for x in v]
    s = sum(w)
    w = [x / s for x in w]
    # keep every non-zero entry well above the sparse models' 1e-6 drop threshold
    return w if all(x == 0.0 or x >= 1e-3 for x in w) else [float(x) for x in v]


def _emit_tables(S, A, O, T, Ob, R3, tok):
    toks = [tok(T[a][s][s1]) for a in range(A) for s in range(S) for s1 in range(S)]
    toks += [tok(Ob[a][s1][o]) for a in range(A) for s1 in range(S) for o in range(O)]
    toks += [tok(R3[s][a][s1]) for s in range(S) for a in range(A) for s1 in range(S)]
    return toks


def _finish(rng, head, regime, S, A, O, tables, beliefs):
    """tables: list of (T, Ob, R3) in exact fractions; converts to the regime and emits the case line"""
    if regime == "gen":
        tables = [([[_jig(rng, r) for r in Ta] for Ta in T], [[_jig(rng, r) for r in Oa] for Oa in Ob],
                   [[[float(x) * (1.0 + rng.random()) for x in r] for r in Rs] for Rs in R3]) for (T, Ob, R3) in tables]
        beliefs = [_jig(rng, b) for b in beliefs]
        tok = lambda x: float(x).hex()
    else:
        tok = lambda x: _tok(x, "dy")
    toks = [head, regime, str(S), str(A), str(O)]
    for (T, Ob, R3) in tables:
        toks += _emit_tables(S, A, O, T, Ob, R3, tok)
    toks.append(str(len(beliefs)))
    for b in beliefs:
        toks += [tok(x) for x in b]
    return " ".join(toks)


def _case(rng, regime):
    S = rng.choice([1, 2, 3, 3, 3, 4, 4, 5, 5, 6])
    A = rng.choice([1, 2, 2, 3])
    O = rng.choice([1, 2, 2, 3, 3, 4])
    den = rng.choice([4, 8, 16, 64]) if regime == "dy" else rng.choice([3, 7, 10, 100, 997])
    zero_p = rng.choice([0.0, 0.2, 0.5, 0.7])
    mo = _random_model(rng, S, A, O, den, zero_p)
    if mo is None:
        return None
    T, Ob = mo
    # proof case-split boundary: an observation column that is exactly constant over s' (the observation
    # carries no information: posterior = prediction), either one column or the whole table of an action
    if regime == "dy" and rng.random() < 0.18:
        a0 = rng.randrange(A)
        if rng.random() < 0.5 or O == 1:
            row = _dist(rng, O, den, 0.2)
            Ob[a0] = [list(row) for _ in range(S)]
        else:
            o0 = rng.randrange(O)
            c = Fraction(rng.randint(1, den - 1), den)
            others = [o for o in range(O) if o != o0]
            for s1 in range(S):
                rest = _dist(rng, len(others), den, 0.3)
                row = [Fraction(0)] * O
                row[o0] = c
                for o, x in zip(others, rest):
                    row[o] = x * (1 - c)
                Ob[a0][s1] = row
        if _symmetric(S, A, O, T, Ob):
            return None
    beliefs = _beliefs(rng, S, 64 if regime == "dy" else den)
    return _finish(rng, "bel", regime, S, A, O, [(T, Ob, _rewards(rng, S, A, regime))], beliefs)


def _case_tiny(rng):
    """dyadic case in which some observation has a tiny but POSITIVE probability (2^-21 .. 2^-33): a belief
    entry 2^-k (k = 20..27) on a state u that is the only one able to reach the states where the observation
    is possible.  The property excludes only zero-probability observations, so the posterior clauses apply."""
    S = rng.choice([2, 3, 3, 4, 5])
    A = rng.choice([1, 2])
    O = rng.choice([2, 3])
    den = rng.choice([8, 16, 64])
    for _ in range(200):
        mo = _random_model(rng, S, A, O, den, rng.choice([0.0, 0.3]))
        if mo is None:
            return None
        T, Ob = mo
        a0, o0, u = rng.randrange(A), rng.randrange(O), rng.randrange(S)
        nlit = rng.randint(1, S - 1)
        lit = rng.sample(range(S), nlit)                 # states where o0 can be observed after a0
        dark = [x for x in range(S) if x not in lit]
        others = [o for o in range(O) if o != o0]
        for s1 in range(S):
            if s1 in lit:
                p = Fraction(rng.choice([1, 1, 2, den // 2]), den)   # O(s1,a0,o0) > 0, often 1/8 or smaller
                rest = _dist(rng, len(others), den, 0.0)
                row = [Fraction(0)] * O
                row[o0] = p
                for o, x in zip(others, rest):
                    row[o] = x * (1 - p)
                # keep entries on the den*den grid; they stay >= 1/4096 or 0
                Ob[a0][s1] = row
            else:
                row = [Fraction(0)] * O
                for o, x in zip(others, _dist(rng, len(others), den, 0.3)):
                    row[o] = x
                Ob[a0][s1] = row
        for s in range(S):
            if s == u:
                # u reaches the lit states (and possibly dark ones)
                row = _dist(rng, S, den, 0.3)
                if all(row[x] == 0 for x in lit):
                    row = [Fraction(0)] * S
                    row[lit[0]] = Fraction(1)
                T[a0][s] = row
            else:
                row = [Fraction(0)] * S
                for x, p in zip(dark, _dist(rng, len(dark), den, 0.3)):
                    row[x] = p
                T[a0][s] = row
        if not _symmetric(S, A, O, T, Ob):
            break
    else:
        return None
    beliefs = []
    for k in (rng.randint(20, 27), rng.randint(20, 27)):
        eps = Fraction(1, 1 << k)
        b = _dist(rng, S, 64, 0.3)
        # move mass so that b[u] = 2^-k exactly
        v = max((x for x in range(S) if x != u), key=lambda x: b[x])
        b[v] += b[u] - eps
        b[u] = eps
        if all(x >= 0 for x in b):
            beliefs.append(b)
    beliefs.append([Fraction(int(i == u)) for i in range(S)])       # corner at u: ordinary probability
    beliefs.append(_dist(rng, S, 64, 0.0))
    return _finish(rng, "bel", "dy", S, A, O, [(T, Ob, _rewards(rng, S, A, "dy"))], beliefs)


def _case_reset(rng, regime):
    """models built by the (O,S,A) constructor (identity transitions, observation 0 certain) and re-set twice:
    first with dense-ish tables 1, then with tables 2 that have zeros where tables 1 / the constructor had
    non-zeros.  The oracle's ground truth is tables 2."""
    S = rng.choice([2, 3, 3, 4])
    A = rng.choice([1, 2])
    O = rng.choice([2, 3])
    den = rng.choice([4, 8, 16]) if regime == "dy" else rng.choice([7, 10, 100])
    m1 = _random_model(rng, S, A, O, den, rng.choice([0.0, 0.2]))
    m2 = _random_model(rng, S, A, O, den, rng.choice([0.5, 0.7]))
    if m1 is None or m2 is None:
        return None
    T1, Ob1 = m1
    T2, Ob2 = m2
    # force zeros where the constructor leaves non-zeros: T(s,a,s) and O(s1,a,0)
    a0, s0 = rng.randrange(A), rng.randrange(S)
    row = [Fraction(0)] * S
    for x, p in zip([x for x in range(S) if x != s0], _dist(rng, S - 1, den, 0.3)):
        row[x] = p
    T2[a0][s0] = row
    row = [Fraction(0)] * O
    for x, p in zip(range(1, O), _dist(rng, O - 1, den, 0.3)):
        row[x] = p
    Ob2[a0][rng.randrange(S)] = row
    if _symmetric(S, A, O, T2, Ob2):
        return None
    beliefs = _beliefs(rng, S, 64 if regime == "dy" else den, few=True)
    return _finish(rng, "reset", regime, S, A, O,
                   [(T1, Ob1, _rewards(rng, S, A, regime)), (T2, Ob2, _rewards(rng, S, A, regime))], beliefs)


def _corrupt(rng, table, den):
    """copy of a valid table [a][row][col] with one or two rows made invalid (clearly: off by >= 1/64)"""
    t = [[list(r) for r in M] for M in table]
    for _ in range(rng.choice([1, 1, 2])):
        a = rng.randrange(len(t)); i = rng.randrange(len(t[a])); row = t[a][i]; j = rng.randrange(len(row))
        how = rng.choice(["sum_hi", "sum_lo", "neg", "neg_sum1"]) if len(row) > 1 else rng.choice(["sum_hi", "sum_lo", "neg"])
        step = Fraction(rng.choice([1, 2, 8]), 64)
        if how == "sum_hi":
            row[j] += step                                  # row sums to more than one
        elif how == "sum_lo":
            jj = max(range(len(row)), key=lambda x: row[x])
            row[jj] -= min(step, row[jj])                   # row sums to less than one, still non-negative
            if sum(row) == 1: row[jj] += step
        elif how == "neg":
            row[j] = -step - row[j] * 0                     # a negative entry (sum changes too)
        else:
            k = (j + 1) % len(row)                          # a negative entry, row still sums to one
            row[k] += row[j] + step
            row[j] = -step
    return t


def _case_hist(rng, regime):
    """operation history on live model objects: all-in-one constructor, then 2-4 setter calls (valid and
    invalid tables, container and matrix overloads), belief updates after every call."""
    S = rng.choice([1, 2, 3, 3, 4])
    A = rng.choice([1, 2])
    O = rng.choice([1, 2, 2, 3])
    den = rng.choice([4, 8, 16]) if regime == "dy" else rng.choice([7, 10, 100])
    m0 = _random_model(rng, S, A, O, den, rng.choice([0.0, 0.3, 0.6]))
    if m0 is None:
        return None
    T, Ob = m0
    tables0 = (T, Ob, _rewards(rng, S, A, regime))
    ops = []
    nops = rng.randint(2, 4)
    bad_at = rng.randrange(nops) if rng.random() < 0.85 else -1      # most histories contain a rejected call
    tiny_T = False
    for k in range(nops):
        name = rng.choice(["obs", "obs", "obs", "tr", "tr", "rw3", "rw2"]) if k != bad_at else rng.choice(["obs", "obs", "tr"])
        if name == "rw3" and tiny_T:
            # folding a 3-D reward with transitions that contain entries of 2^-21..2^-23 can give a tiny reward,
            # which the sparse model's setRewardFunction(container) legitimately drops (|r| <= 1e-6): use the
            # matrix overload (stored as is) so that dense and sparse keep holding the same numbers
            name = "rw2"
        if name in ("obs", "tr"):
            mo = _random_model(rng, S, A, O, den, rng.choice([0.0, 0.3, 0.6]))
            if mo is None:
                return None
            tab = mo[1] if name == "obs" else mo[0]
            ovl = rng.choice(["c", "m"])
            if k == bad_at or rng.random() < 0.15:
                tab = _corrupt(rng, tab, den)
            elif regime == "dy" and rng.random() < 0.45:
                # valid table with tiny positive entries 2^-21 .. 2^-23 (below the 1e-6 the sparse CONTAINER
                # setters drop), offered through the Eigen-matrix overloads, which must store exactly what they get
                ovl = "m"
                if name == "tr":
                    tiny_T = True
                tab = [[list(r) for r in M] for M in tab]
                for _ in range(rng.randint(1, 3)):
                    M = tab[rng.randrange(len(tab))]; row = M[rng.randrange(len(M))]
                    zeros = [j for j in range(len(row)) if row[j] == 0]
                    if not zeros:
                        continue
                    # 2^-21 .. 2^-23: below 1e-6, and b (6 bits) * T (23) * O (23) still fits 53 bits exactly
                    e = Fraction(1, 1 << rng.randint(21, 23))
                    big = max(range(len(row)), key=lambda j: row[j])
                    row[rng.choice(zeros)] = e
                    row[big] -= e
            ops.append((name, ovl, [x for M in tab for r in M for x in r]))
        elif name == "rw3":
            R3 = _rewards(rng, S, A, regime)
            ops.append((name, "c", [x for Rs in R3 for r in Rs for x in r]))
        else:
            rden = 4 if regime == "dy" else 10
            ops.append((name, "m", [Fraction(rng.randint(-16, 16), rden) for _ in range(S * A)]))
    beliefs = _beliefs(rng, S, 64 if regime == "dy" else den, few=True)
    if regime == "gen":
        T0 = [[_jig(rng, r) for r in Ta] for Ta in T]
        O0 = [[_jig(rng, r) for r in Oa] for Oa in Ob]
        R0 = [[[float(x) * (1.0 + rng.random()) for x in r] for r in Rs] for Rs in tables0[2]]
        tok = lambda x: float(x).hex()
        def conv(name, vals, K):
            if name in ("obs", "tr"):
                # jiggle valid rows (renormalised); rows that are invalid keep their exact (clearly invalid) values
                out = []
                for i in range(0, len(vals), K):
                    row = vals[i:i + K]
                    out += _jig(rng, row) if (sum(row) == 1 and all(x >= 0 for x in row)) else [float(x) for x in row]
                return out
            return [float(x) * (1.0 + rng.random()) for x in vals]
        ops = [(nm, ov, conv(nm, v, O if nm == "obs" else S)) for (nm, ov, v) in ops]
        beliefs = [_jig(rng, b) for b in beliefs]
    else:
        T0, O0, R0 = tables0
        tok = lambda x: _tok(x, "dy")
    toks = ["hist", regime, str(S), str(A), str(O)] + _emit_tables(S, A, O, T0, O0, R0, tok)
    toks.append(str(len(ops)))
    for (nm, ov, v) in ops:
        toks += [nm, ov] + [tok(x) for x in v]
    toks.append(str(len(beliefs)))
    for b in beliefs:
        toks += [tok(x) for x in b]
    return " ".join(toks)


def _case_seq(rng, regime):
    """filtering along a history of 2-5 (action, observation) pairs, mostly of positive probability"""
    S = rng.choice([1, 2, 3, 3, 4, 5])
    A = rng.choice([1, 2, 3])
    O = rng.choice([2, 2, 3, 4])
    den = rng.choice([4, 8, 16]) if regime == "dy" else rng.choice([7, 10, 100])
    mo = _random_model(rng, S, A, O, den, rng.choice([0.0, 0.3, 0.6]))
    if mo is None:
        return None
    T, Ob = mo
    b = _dist(rng, S, 64 if regime == "dy" else den, rng.choice([0.0, 0.5]))
    tau = list(b)
    h = []
    for _ in range(rng.randint(2, 5)):
        a = rng.randrange(A)
        nxt = {}
        for o in range(O):
            nxt[o] = [Ob[a][s1][o] * sum(tau[s] * T[a][s][s1] for s in range(S)) for s1 in range(S)]
        pos = [o for o in range(O) if sum(nxt[o]) > 0]
        zer = [o for o in range(O) if sum(nxt[o]) == 0]
        o = rng.choice(zer) if (zer and (not pos or rng.random() < 0.12)) else rng.choice(pos)
        h.append((a, o))
        tau = nxt[o]
    if regime == "gen":
        T = [[_jig(rng, r) for r in Ta] for Ta in T]
        Ob = [[_jig(rng, r) for r in Oa] for Oa in Ob]
        b = _jig(rng, b)
        R3 = [[[float(x) * (1.0 + rng.random()) for x in r] for r in Rs] for Rs in _rewards(rng, S, A, regime)]
        tok = lambda x: float(x).hex()
    else:
        R3 = _rewards(rng, S, A, regime)
        tok = lambda x: _tok(x, "dy")
    toks = ["seq", regime, str(S), str(A), str(O)] + _emit_tables(S, A, O, T, Ob, R3, tok)
    toks += [tok(x) for x in b] + [str(len(h))]
    for (a, o) in h:
        toks += [str(a), str(o)]
    return " ".join(toks)


def _case_conv(rng):
    """dyadic source tables whose observation rows carry a tail of entries below the sparse storage threshold
    (k * 2^-21 < 1e-6 each); the dropped mass per row is either <= 2^-20 (conversion to sparse is legitimate) or
    >= 2^-18 (the library must refuse: the stored rows would not be distributions)"""
    S = rng.choice([2, 3, 3, 4])
    A = rng.choice([1, 2])
    O = rng.choice([6, 8, 10, 12])
    den = rng.choice([8, 16])
    mo = _random_model(rng, S, A, O, den, 0.6)
    if mo is None:
        return None
    T, Ob = mo
    unit = Fraction(1, 1 << 21)
    heavy = rng.random() < 0.6
    for a in range(A):
        for s1 in range(S):
            row = Ob[a][s1]
            zeros = [o for o in range(O) if row[o] == 0]
            big = max(range(O), key=lambda o: row[o])
            if heavy and len(zeros) >= 4:
                k = rng.randint(4, min(len(zeros), 8))
                per = rng.choice([1, 2]) if k * 2 <= 16 else 1          # each entry 2^-21 or 2^-20 (< 1e-6)
                tail = rng.sample(zeros, k)
                if per == 2 and rng.random() < 0.5:
                    per = 1
                # dropped mass k*per*2^-21 >= 2^-19 > 1e-6 when k*per >= 4
            elif not heavy and zeros and rng.random() < 0.7:
                k, per = rng.choice([(1, 1), (2, 1), (1, 2)])               # dropped mass <= 2^-20 < 1e-6
                k = min(k, len(zeros))
                tail = rng.sample(zeros, k)
            else:
                continue
            for o in tail:
                row[o] = unit * per
                row[big] -= unit * per
    if _symmetric(S, A, O, T, Ob):
        return None
    beliefs = _beliefs(rng, S, 64, few=True)
    return _finish(rng, "conv", "dy", S, A, O, [(T, Ob, _rewards(rng, S, A, "dy"))], beliefs)


def gen(rng, tier):
    n = {"quick": 320, "thorough": 1500, "search": 600}[tier]
    out = []
    while len(out) < n:
        u = rng.random()
        if u < 0.10:
            c = _case_tiny(rng)
        elif u < 0.22:
            c = _case_reset(rng, "dy" if rng.random() < 0.8 else "gen")
        elif u < 0.36:
            c = _case_hist(rng, "dy" if rng.random() < 0.8 else "gen")
        elif u < 0.46:
            c = _case_seq(rng, "dy" if rng.random() < 0.8 else "gen")
        elif u < 0.52:
            c = _case_conv(rng)
        else:
            c = _case(rng, "dy" if rng.random() < 0.8 else "gen")
        if c is not None:
            out.append(c)
    return out
