"""props/C08.py — descriptor for property C08 (sampling follows the stated distribution, stays in range)."""
import math
from fractions import Fraction as F

REPO_SRCS = ["src/Utils/Probability.cpp", "src/MDP/Model.cpp", "src/MDP/SparseModel.cpp", "src/Seeder.cpp",
             "src/Factored/MDP/CooperativeModel.cpp", "src/Factored/Utils/BayesianNetwork.cpp", "src/Factored/Utils/Core.cpp",
             "src/Factored/Utils/FactoredMatrix.cpp"]
AXIOM_ALLOW = []
ASAN_QUICK = True          # the sparse-row scan is a memory-safety clause: run every case under ASan+UBSan
CASE_TIMEOUT = 10
TRUSTED_BASE = [
    "replay generator of harness/C08/h.cpp: libstdc++ generate_canonical<double,53> over a 64-bit-range generator "
    "returns double(x)/2^64; the harness reports the value actually drawn by replaying the library's own "
    "distribution object on a copy of the generator, and the driver re-derives it from the requested draw",
    "std::sort modelled by its meaning (ascending permutation); Eigen sparse InnerIterator visits the stored "
    "entries of a row in increasing column order",
    "`#define private public` in the harness TU only, to dump VoseAliasSampler::prob_/alias_",
]
ASSUMPTIONS = [
    "std::uniform_real_distribution<double>(0,1) returns values in [0,1); (0,n) returns values in [0,n) (checked per case)",
    "models compute in exact rationals; bit-exact agreement is required on the dyadic regime "
    "(entries k/2^j, j <= 20; alias tables for n a power of two), 1e-9 closeness of masses/vectors otherwise",
]
RULE = ("cases from props/C08.py gen(): dense / sparse / alias / randp / proj / sr (sampleSR, sampleSOR on random dyadic models, draws observed from the models' own engines); each sampler case sweeps the draw over "
        "every cumulative sum -1ulp/0/+1ulp, 0, the largest double below 1 and random 53-bit points; vectors of "
        "length 1..12, zeros anywhere, mass at first/last index, sums 1 and 1 +- 2^-20; non-trivial = more than one "
        "entry (more than one stored entry for sparse rows, S>=3 for random simplex points); distinct by md5 of the case line")
THOROUGH_SEEDS = 3
SEARCH_SEEDS = 2

TOP = 1.0 - 2.0 ** -53          # largest double below 1
TINY = 2.0 ** -64               # smallest positive draw of the replay generator


def fq(x):
    x = F(x)
    return "%d/%d" % (x.numerator, x.denominator) if x.denominator != 1 else "%d" % x.numerator


def hx(u):
    return float(u).hex()


def L(xs):
    return "%d %s" % (len(xs), " ".join(xs)) if xs else "0"


def dyadic_vec(rng, n=None):
    """non-negative dyadic vector (Fractions), sum 1 or 1 +- 2^-20"""
    if n is None:
        n = rng.randint(1, 12)
    j = rng.choice([1, 2, 3, 4, 6, 10])
    tot = 2 ** j
    shape = rng.choice(["rand", "rand", "rand", "first", "last", "sparse", "uniform"])
    if shape == "first":
        w = [tot] + [0] * (n - 1)
    elif shape == "last":
        w = [0] * (n - 1) + [tot]
    elif shape == "uniform" and tot % n == 0:
        w = [tot // n] * n
    else:
        cuts = sorted(rng.randint(0, tot) for _ in range(n - 1))
        if shape == "sparse":
            cuts = sorted(rng.choice([0, tot // 2, tot, rng.randint(0, tot)]) for _ in range(n - 1))
        pts = [0] + cuts + [tot]
        w = [pts[i + 1] - pts[i] for i in range(n)]
    p = [F(x, tot) for x in w]
    slack = rng.choice([0, 0, 0, 1, -1])
    if slack:
        nz = [i for i, x in enumerate(p) if x > 0]
        i = rng.choice(nz)
        p[i] += F(slack, 2 ** 20)
    return p


def sweep(rng, p, lo=0.0, hi=1.0, extra=4):
    """draws in [lo,hi): cumulative sums +-1ulp, 0, TINY, TOP, random 53-bit points"""
    us = {0.0, TINY, TOP, 0.5}
    c = F(0)
    for x in p:
        c += x
        f = float(c)
        for g in (f, math.nextafter(f, 0.0), math.nextafter(f, 2.0)):
            us.add(g)
    for _ in range(extra):
        us.add(rng.randrange(2 ** 53) / 2.0 ** 53)
    us = sorted(u for u in us if 0.0 <= u < 1.0 and lo <= u < hi and (u == 0.0 or u >= TINY))
    if len(us) > 24:
        keep = set(rng.sample(us, 20)) | {us[0], us[-1]}
        us = [u for u in us if u in keep]
    return us


def gen_dense(rng):
    if rng.random() < 0.2:          # general regime: arbitrary doubles, normalised
        n = rng.randint(1, 12)
        r = [rng.random() if rng.random() < 0.8 else 0.0 for _ in range(n)]
        if sum(r) == 0.0:
            r[rng.randrange(n)] = 1.0
        s = sum(r)
        p = [x / s for x in r]
        us = sorted({rng.random() for _ in range(8)} | {0.0, TOP})
        return "dense g %s %s" % (L([hx(x) for x in p]), L([hx(u) for u in us]))
    p = dyadic_vec(rng)
    us = sweep(rng, p)
    return "dense dy %s %s" % (L([fq(x) for x in p]), L([hx(u) for u in us]))


def gen_sparse(rng, force_over=False):
    p = dyadic_vec(rng)
    n = len(p)
    row = [(i, x) for i, x in enumerate(p) if x > 0 or rng.random() < 0.3]   # some explicit zeros
    if not row:
        row = [(0, p[0])]
    stored = sum(x for _, x in row)
    before, after = rng.choice([0, 0, 1, 2]), rng.choice([0, 0, 1, 2])
    body = "%d %d %d %d %s" % (before, after, n, len(row), " ".join("%d %s" % (c, fq(x)) for c, x in row))
    if stored < 1 and (force_over or rng.random() < 0.3):
        us = sorted({float(stored), math.nextafter(float(stored), 2.0), TOP})
        us = [u for u in us if u >= stored][: rng.choice([1, 2, 3])]
        return "sparse over %s %s" % (body, L([hx(u) for u in us]))
    us = sweep(rng, p, hi=float(min(stored, F(1))))
    return "sparse in %s %s" % (body, L([hx(u) for u in us]))


def unit_dyadic(rng, n):
    while True:
        p = dyadic_vec(rng, n)
        if sum(p) == 1:
            return p


def zero_first(rng, p):
    """put a zero entry at index 0 (the default alias of an unassigned cell) when there is one"""
    z = [i for i, x in enumerate(p) if x == 0]
    if z and rng.random() < 0.7:
        i = rng.choice(z)
        p[0], p[i] = p[i], p[0]
    return p


def gen_alias(rng):
    """dy: n a power of two, dyadic entries (bit-exact tables); g: any n.  About half of the vectors
       have a sum off one by k*2^-23 / k*1e-7 (|.| <= 1e-6: still accepted by isProbability)."""
    if rng.random() < 0.5:
        n = rng.choice([1, 2, 4, 4, 8, 8])
        p = zero_first(rng, unit_dyadic(rng, n))
        if rng.random() < 0.5:
            k = F(rng.randint(1, 8) * rng.choice([-1, -1, 1]), 2 ** 23)
            nz = [i for i, x in enumerate(p) if x + k >= 0 and x > 0]
            if nz:
                p[rng.choice(nz)] += k
        regime = "dy"
        toks = [fq(x) for x in p]
    else:
        n = rng.choice([3, 3, 5, 6, 7, 9, 10, 11, 12])
        if rng.random() < 0.5:
            p = zero_first(rng, unit_dyadic(rng, n))
            if rng.random() < 0.5:
                k = F(rng.randint(1, 8) * rng.choice([-1, -1, 1]), 2 ** 23)
                nz = [i for i, x in enumerate(p) if x + k >= 0 and x > 0]
                if nz:
                    p[rng.choice(nz)] += k
            toks = [fq(x) for x in p]
        else:
            w = [rng.randint(0, 9) for _ in range(n)]
            if sum(w) == 0:
                w[-1] = 1
            if rng.random() < 0.6:
                w[0] = 0
                if sum(w) == 0:
                    w[-1] = 1
            sm = float(sum(w))
            q = [x / sm for x in w]
            if rng.random() < 0.6:
                nz = [i for i, x in enumerate(q) if x > 1e-3]
                q[rng.choice(nz)] += rng.randint(1, 9) * 1e-7 * rng.choice([-1, -1, 1])
            toks = [hx(x) for x in q]
        regime = "g"
    us = sorted({0.0, TOP, 0.5} | {rng.randrange(2 ** 53) / 2.0 ** 53 for _ in range(8)} |
                {k / float(n) for k in range(n)} | {math.nextafter((k + 1) / float(n), 0.0) for k in range(n)})
    us = [u for u in us if 0.0 <= u < 1.0]
    return "alias %s %s %s" % (regime, L(toks), L([hx(u) for u in us]))


def gen_randp(rng):
    S = rng.choice([1, 2, 2, 3, 3, 4, 5, 6, 8, 12])
    us = []
    for _ in range(S - 1):
        r = rng.random()
        if r < 0.15: us.append(0.0)
        elif r < 0.3: us.append(TOP)
        elif r < 0.45 and us: us.append(rng.choice(us))        # ties
        elif r < 0.6: us.append(rng.randrange(16) / 16.0)
        else: us.append(rng.randrange(2 ** 53) / 2.0 ** 53)
    return "randp %d %s" % (S, L([hx(u) for u in us]))


def gen_proj(rng):
    n = rng.randint(1, 8)
    mode = rng.choice(["valid", "valid", "one", "zero", "neg", "big", "small", "small", "big", "signed", "signed"])
    if mode == "valid":
        v = dyadic_vec(rng, n)
    elif mode == "one":
        v = dyadic_vec(rng, n) + [F(-rng.randint(1, 8), 4) for _ in range(rng.randint(0, 2))]
        rng.shuffle(v)
    elif mode == "zero":
        v = [rng.choice([F(0), F(0), F(-1), F(-3, 2), F(1, 2 ** 21)]) for _ in range(n)]
        if all(x < 0 for x in v):
            v[rng.randrange(n)] = F(0)
    elif mode == "signed":
        # negative entries, but the SIGNED total is one (+- 2^-20): e.g. (-1/2, 3/4, 3/4), (2, -1, 0)
        n = max(n, 2)
        neg = [F(-rng.randint(1, 12), 8) for _ in range(rng.randint(1, n - 1))]
        pos = [F(rng.randint(0, 8), 8) for _ in range(n - len(neg))]
        pos[rng.randrange(len(pos))] += 1 - sum(neg) - sum(pos) + rng.choice([0, 0, F(1, 2 ** 20), -F(1, 2 ** 20)])
        if min(pos) < 0:
            pos = [x - min(pos) for x in pos]
            pos[0] += 1 - sum(neg) - sum(pos)
        v = neg + pos
        rng.shuffle(v)
    elif mode == "neg":
        v = [F(-rng.randint(1, 16), 8) for _ in range(n)]
    elif mode == "big":
        v = [F(rng.randint(-8, 24), 8) for _ in range(n)]
        v[rng.randrange(n)] += 2
    else:
        v = [F(rng.randint(-4, 3), 64) for _ in range(n)]
        v[rng.randrange(n)] = F(rng.randint(1, 7), 16)
    pos = sum(x for x in v if x >= 0)
    cnt = sum(1 for x in v if x >= 0)
    eps = F(1, 10 ** 6)
    if abs(pos - 1) <= eps: tag = "one"
    elif cnt == 0: tag = "neg"
    elif abs(pos) <= eps: tag = "zero"
    elif pos > 1: tag = "big"
    else: tag = "small"
    return "proj %s %s" % (tag, L([fq(x) for x in v]))


SR_VARIANTS = ["mdp.d", "mdp.s", "pomdp.dd", "pomdp.ds", "pomdp.sd", "pomdp.ss"]


def model_row(rng, n, lossy=False):
    """a row isProbability accepts: sums to one, or to one minus 2^-20; it may contain tiny entries
       (<= 1e-6) which the sparse classes drop, so that the STORED mass is below one.  The dropped mass
       stays within the 1e-6 tolerance (one entry of 2^-20 or 2^-21, or two of 2^-22: the sparse classes
       re-validate the stored row) unless `lossy`: then the stored row misses one by 2^-19 or
       2^-20 + 2^-21 and the sparse classes must refuse it (invalid_argument)."""
    p = unit_dyadic(rng, n)
    big = max(range(n), key=lambda i: p[i])
    free = [i for i in range(n) if i != big and p[i] == 0]

    def tiny(i, e):
        t = F(1, 2 ** e)
        p[i] += t; p[big] -= t

    if lossy:
        if len(free) >= 2 and rng.random() < 0.5:
            i, j = rng.sample(free, 2); tiny(i, 20); tiny(j, 20)      # loses 2^-19
        elif free:
            tiny(rng.choice(free), 21); p[big] -= F(1, 2 ** 20)        # sum 1-2^-20, stored 1-2^-20-2^-21
        else:
            lossy = False
    if not lossy:
        r = rng.random()
        if r < 0.3:
            p[big] -= F(1, 2 ** 20)                                    # slack in the row itself
        elif r < 0.65 and free:
            if len(free) >= 2 and rng.random() < 0.4:
                i, j = rng.sample(free, 2); tiny(i, 22); tiny(j, 22)  # two dropped entries, 2^-21 in total
            else:
                tiny(rng.choice(free), rng.choice([20, 21]))          # one dropped entry
    return p


def gen_sr(rng):
    variant = rng.choice(SR_VARIANTS)
    pomdp = variant.startswith("pomdp")
    S, A = rng.randint(1, 5), rng.randint(1, 3)
    O = rng.choice([o for o in range(1, 6) if o != S]) if pomdp else 0
    # a few tables contain one row whose stored form the sparse classes must refuse
    lossyT = rng.random() < 0.06
    lossyO = pomdp and rng.random() < 0.06
    kT, kO = rng.randrange(A * S), rng.randrange(A * S)
    T = [model_row(rng, S, lossyT and i == kT) for i in range(A * S)]
    R = [fq(F(rng.choice([-12, -5, -1, 1, 2, 7, 16]), 4)) for _ in range(S * A)]
    Ob = [model_row(rng, O, lossyO and i == kO) for i in range(A * S)] if pomdp else []
    s, a = rng.randrange(S), rng.randrange(A)
    edge = F(1) - F(1, 2 ** 20)
    pool = [0.0, TOP, TOP, float(edge), math.nextafter(float(edge), 0.0), math.nextafter(float(edge), 2.0),
            1 - 2.0 ** -19, math.nextafter(1 - 2.0 ** -19, 0.0), 1 - 2.0 ** -21, 0.5]
    k = rng.choice([4, 8]) * (3 if pomdp else 1)
    us = [rng.choice(pool) if rng.random() < 0.6 else rng.randrange(2 ** 53) / 2.0 ** 53 for _ in range(k)]
    flat = lambda rows: " ".join(fq(x) for row in rows for x in row)
    return "sr %s %d %d %d %s %s %s %d %d %s" % (variant, S, A, O, flat(T), " ".join(R), flat(Ob), s, a, L([hx(u) for u in us]))


FREQ_VARIANTS = ["dd.tab", "dd.nocheck", "dd.nocheck", "dd.copy", "ss.tab", "ss.nocheck", "ss.nocheck", "ss.copy", "sd.tab", "ds.tab"]


def gen_sorfreq(rng):
    """joint (s1,o) frequencies of sampleSOR under the model's own engines, for every constructor"""
    variant = rng.choice(FREQ_VARIANTS)
    S, A, O = rng.randint(2, 4), rng.randint(1, 2), rng.randint(2, 3)
    rows = lambda n, k: [unit_dyadic(rng, n) for _ in range(k)]
    T = rows(S, A * S)
    R = [fq(F(rng.choice([-5, -1, 1, 2, 7]), 4)) for _ in range(S * A)]
    Ob = rows(O, A * S)
    flat = lambda rs: " ".join(fq(x) for row in rs for x in row)
    return "sorfreq %s %d %d %d %s %s %s %d %d %d %d" % (variant, S, A, O, flat(T), " ".join(R), flat(Ob),
                                                         rng.randrange(S), rng.randrange(A), 2048, rng.randrange(2 ** 31))


def gen_coop(rng):
    """CooperativeModel: S != A shapes, multi-agent action tags, reward bases with distinct entries"""
    nF, nA = rng.randint(1, 3), rng.randint(2, 3)
    S = [rng.choice([2, 3]) for _ in range(nF)]
    A = [rng.choice([2, 3]) for _ in range(nA)]
    if rng.random() < 0.8:
        A[0] = 5 - S[0]                                # an early agent whose action count differs from the same-id feature
    out = ["coop", L(list(map(str, S))), L(list(map(str, A)))]
    for i in range(nF):
        agents = sorted(rng.sample(range(nA), rng.randint(1, 2)))
        npa = 1
        for g in agents: npa *= A[g]
        parents, rowsn = [], 0
        for _ in range(npa):
            ps = sorted(rng.sample(range(nF), rng.randint(1, min(2, nF))))
            parents.append(ps)
            k = 1
            for f in ps: k *= S[f]
            rowsn += k
        vals = []
        for _ in range(rowsn):
            p = unit_dyadic(rng, S[i])
            if rng.random() < 0.1:
                p[max(range(S[i]), key=lambda j: p[j])] -= F(1, 2 ** 20)
            vals += [fq(x) for x in p]
        out += [L(list(map(str, agents))), str(npa)] + [L(list(map(str, ps))) for ps in parents] + [L(vals)]
    nB = rng.randint(1, 3)
    out.append(str(nB))
    for b in range(nB):
        tag = sorted(rng.sample(range(nF), rng.randint(1, min(2, nF))))
        atag = sorted(rng.sample(range(nA), 2 if rng.random() < 0.75 else 1))
        rws, cls = 1, 1
        for f in tag: rws *= S[f]
        for g in atag: cls *= A[g]
        vals = [fq(F(1000 * b + 16 * r + c, 4)) for r in range(rws) for c in range(cls)]
        out += [L(list(map(str, tag))), L(list(map(str, atag))), L(vals)]
    s = [rng.randrange(x) for x in S]
    a = [rng.randrange(x) if rng.random() < 0.3 else x - 1 for x in A]
    pool = [0.0, TOP, 0.5, 0.25, 0.75, 1 - 2.0 ** -20]
    us = [rng.choice(pool) if rng.random() < 0.5 else rng.randrange(2 ** 53) / 2.0 ** 53 for _ in range(3 * nF)]
    out += [L(list(map(str, s))), L(list(map(str, a))), L([hx(u) for u in us])]
    return " ".join(out)


def gen(rng, tier):
    scale = {"quick": 1, "thorough": 6, "search": 3}[tier]
    out = []
    for _ in range(150 * scale): out.append(gen_dense(rng))
    for _ in range(110 * scale): out.append(gen_sparse(rng))
    for _ in range(4): out.append(gen_sparse(rng, force_over=True))
    for _ in range(110 * scale): out.append(gen_alias(rng))
    for _ in range(60 * scale): out.append(gen_randp(rng))
    for _ in range(70 * scale): out.append(gen_proj(rng))
    for _ in range(90 * scale): out.append(gen_sr(rng))
    for _ in range(40 * scale): out.append(gen_sorfreq(rng))
    for _ in range(70 * scale): out.append(gen_coop(rng))
    rng.shuffle(out)
    return out
