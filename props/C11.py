"""props/C11.py — descriptor for property C11 (reinforcement learners apply their documented backup)."""
REPO_SRCS = [
    "src/MDP/Algorithms/QLearning.cpp",
    "src/MDP/Algorithms/DoubleQLearning.cpp",
    "src/MDP/Algorithms/HystereticQLearning.cpp",
    "src/MDP/Algorithms/SARSA.cpp",
    "src/MDP/Algorithms/ExpectedSARSA.cpp",
    "src/MDP/Algorithms/SARSAL.cpp",
    "src/MDP/Algorithms/Utils/OffPolicyTemplate.cpp",
    "src/MDP/Utils.cpp",
    "src/MDP/Model.cpp",
    "src/Seeder.cpp",
    "src/Utils/Probability.cpp",
    "src/Bandit/Policies/RandomPolicy.cpp",
]
AXIOM_ALLOW = []
TRUSTED_BASE = [
    "Eigen maxCoeff / maxCoeff(&i) = list maximum / first maximal index (Base.Qx maxl, argmax)",
    "boost::heap::fibonacci_heap + queueHandles_ modelled as a finite map with a pop of any maximal priority",
    "std::bernoulli_distribution(0.5) on mt19937 is replayed on a copy of the private generator to learn DoubleQLearning's coin",
    "exact rationals in the model vs IEEE doubles in the C++: bit-exact comparison only on small dyadic inputs, 1e-9 otherwise",
    "size_t index arithmetic modelled on nat; the zone-list updateTraces is proved equal to C10's checked index model (imports AIT.C10.Model, AIT.C01 proofs read-only)",
    "OffPolicyControl is modelled as repaired by fixes/C11-offpolicy-trace-state.patch; the unrepaired behaviour (offctrl_step_legacy) is recognised and reported as the known finding",
]
ASSUMPTIONS = [
    "setters are called with values they accept (the validation itself is C06's)",
    "indices passed to stepUpdateQ are in range (the C++ does not check them)",
    "behaviour-policy probabilities of visited (s,a) are positive (the C++ divides by them)",
    "discount < 1 for the boundedness clauses (the C++ also accepts 1)",
]
RULE = ("random experience sequences (S 1..5, A 1..4, length 1..400) with rewards of both signs; dyadic regime "
        "(alpha in {1,1/2,1/8}, gamma in {1/2,3/4}, lambda in {0,1/2,1}) compared bit-exactly per step while numbers are "
        "small dyadics, general regime (0.1, 0.9, random doubles) within 1e-9; model re-synchronised to the "
        "implementation at every dump; non-trivial = at least two steps and (traces) a trace removal / (DoubleQ) both "
        "coin outcomes / (PS) a non-empty queue; round 6 kind dqstar: MDP built backwards from a dyadic Q* (R := Q* - gamma P V*), "
        "DoubleQLearning::setQFunction(Q*) then one stepUpdateQ per successor state (reset before each), always exact; "
        "non-trivial = both coins seen and some sample moves an entry")
CASE_TIMEOUT = 30


def fr(n, d):
    return "%d/%d" % (n, d) if d != 1 else "%d" % n


def dist_row(rng, k, den=8, positive=False):
    """random composition of den into k parts -> 'n/den' tokens"""
    if positive and k > den:
        den = 16
    while True:
        cuts = sorted(rng.randint(0, den) for _ in range(k - 1))
        parts = [b - a for a, b in zip([0] + cuts, cuts + [den])]
        if not positive or all(p > 0 for p in parts):
            return [fr(p, den) for p in parts]


def pow2_row(rng, k):
    """row of inverse powers of two summing to one, all positive"""
    rows = {1: [[1]], 2: [[2, 2]], 3: [[2, 4, 4], [4, 2, 4], [4, 4, 2]], 4: [[4, 4, 4, 4], [2, 4, 8, 8], [8, 8, 4, 2]],
            5: [[2, 8, 8, 8, 8], [4, 4, 4, 8, 8]]}
    return ["1/%d" % d if d != 1 else "1" for d in rng.choice(rows[k])]


def gen_common(rng, tier):
    nS = rng.choice([1, 2, 3, 3, 4, 5]); nA = rng.choice([1, 2, 2, 3, 3, 4])
    general = rng.random() < 0.25
    if general:
        alpha = rng.choice([(0.1).hex(), (0.3).hex(), "1"]); gamma = rng.choice([(0.9).hex(), (0.5).hex(), (0.99).hex()])
    else:
        alpha = rng.choice(["1", "1/2", "1/8"]); gamma = rng.choice(["1/2", "3/4"])
    u = rng.random()
    if u < 0.6: n = rng.randint(1, 25); every = 1
    elif u < 0.9: n = rng.randint(20, 80); every = rng.choice([1, 1, 2, 5])
    else: n = rng.randint(150, 400 if tier != "thorough" else 1200); every = rng.choice([1, 5, 20])
    if general:
        # exact rationals over 53-bit doubles grow ~150 bits per un-synchronised step: keep these short
        n = min(n, 40); every = 1
    return nS, nA, general, alpha, gamma, n, every


def reward(rng, general):
    if general and rng.random() < 0.7:
        return (rng.uniform(-5, 5)).hex()
    return fr(rng.randint(-12, 12), rng.choice([1, 1, 2, 4]))


def gen_case(rng, tier):
    kind = rng.choice(["ql", "ql", "sarsa", "esarsa", "hyst", "dq", "dq", "sarsal", "sarsal", "octl", "octl", "octl", "oevl", "oevl"])
    nS, nA, general, alpha, gamma, n, every = gen_common(rng, tier)
    # tie regime: alpha = 1, one constant non-zero dyadic reward, every action of a state tried in a row with
    # the same successor => exact ties at NON-ZERO maxima in the rows that later serve as successor rows
    # (first-max tie-breaking of maxCoeff / the greedy scan, and the single greedy mass of the expected backup)
    tie = rng.random() < 0.2
    # tail regime (evaluation learners): tiny non-zero target probabilities and large-magnitude rewards
    tail = (not tie) and kind == "oevl" and rng.random() < 0.35
    if tail:
        general = False; every = 1; nA = rng.choice([2, 2, 3, 4]); n = min(n, 40)
        alpha = rng.choice(["1", "1/2"]); gamma = rng.choice(["1/2", "3/4"])
    if tie:
        general = False; alpha = "1"; gamma = rng.choice(["1/2", "3/4"]); every = 1
        nS = rng.choice([1, 2, 2, 3]); nA = rng.choice([2, 2, 3, 4]); n = rng.randint(nA + 1, 36)
    # a few states/actions dominate so that revisits (and trace hits) are frequent
    def st(): return rng.randrange(nS)
    def ac(): return rng.randrange(nA)
    toks = [kind]
    if kind in ("ql", "dq", "sarsa", "esarsa"):
        toks += [nS, nA, alpha, gamma, every, n]
    elif kind == "hyst":
        beta = rng.choice(["0", "1/4", "1/2", "1"]) if not general else rng.choice([(0.01).hex(), "0", (0.2).hex()])
        toks += [nS, nA, alpha, beta, gamma, every, n]
    elif kind in ("sarsal", "octl", "oevl"):
        lam = rng.choice(["0", "1/2", "1"]) if not general or rng.random() < 0.5 else (0.9).hex()
        if tie or tail: lam = rng.choice(["0", "0", "1/2"])
        tol = rng.choice(["1/64", "1/8", "1/1024", "0", "1/2"]) if not general else rng.choice([(0.001).hex(), (0.01).hex()])
        if kind == "sarsal":
            toks += [nS, nA, alpha, gamma, lam, tol, every, n]
        else:
            k = rng.choice(["ql", "retrace", "tb", "is"])
            toks += [k, nS, nA, alpha, gamma, lam, tol]
            if kind == "octl":
                toks.append(rng.choice(["0", "1/4", "1/2", "1"]) if not general else (0.1).hex())
            elif tail:
                # nearly deterministic target rows: one action with a dyadic tail probability 2^-20..2^-30
                # (below the 1e-6 of checkDifferentSmall), the rest on k/8 shares, the remainder on the main action
                for _ in range(nS):
                    kk = rng.randint(20, 30); den = 1 << kk
                    acts = list(range(nA)); rng.shuffle(acts)
                    row = [0] * nA
                    row[acts[1]] = 1
                    for x in acts[2:]:
                        row[x] = rng.choice([0, 0, 1, 2]) * (den // 8)
                    row[acts[0]] = den - sum(row)
                    toks += ["%d/%d" % (x, den) for x in row]
            else:
                for _ in range(nS): toks += dist_row(rng, nA)
            # un-synchronised batches (every > 1) only where every number stays dyadic: otherwise the exact
            # rationals of the model (eps/3, pi/mu with mu = 3/8, ...) grow by ~100 bits per step
            pow2_only = (k in ("retrace", "is")) and every > 1
            if kind == "octl" and nA not in (1, 2, 4):
                every = 1
            for _ in range(nS):
                toks += pow2_row(rng, nA) if (pow2_only or rng.random() < 0.6) else dist_row(rng, nA, positive=True)
            toks += [every, n]
    # extremal histories (constant extreme reward, tiny state space) drive the tables to the
    # boundary of the box, where a wrong bootstrap term leaves it
    extreme = (not tie) and kind in ("ql", "sarsa", "esarsa", "hyst", "dq") and rng.random() < 0.2
    if extreme:
        rconst = rng.choice(["12", "-12", "8", "-5"])
        nS0 = min(nS, 2)
        st = lambda: rng.randrange(nS0)
    # chained trajectory most of the time (s1 of a step is s of the next)
    chained = rng.random() < 0.7
    s = st()
    # run-time setters (only right after a dump, so that a re-synchronised batch has constant parameters)
    with_setters = (not tie) and (not tail) and rng.random() < 0.45
    plan = []
    if tie:
        rc = rng.choice(["-1", "-2", "3", "1/2", "-3/2", "5"])
        while len(plan) < n:
            ps_, ps1 = st(), st()
            acts = list(range(nA)); rng.shuffle(acts)
            for pa in acts[:rng.choice([nA, nA, max(2, nA - 1)])]:
                plan.append((ps_, pa, ps1))
    def setter():
        opts = ["A", "G"]
        if kind == "hyst": opts.append("B")
        if kind in ("sarsal", "octl", "oevl"):
            opts += ["T", "L", "L"] if not (kind != "sarsal" and k == "is") else ["T"]
            if kind == "octl": opts.append("E")
        o = rng.choice(opts)
        if general and rng.random() < 0.5:
            v = {"A": rng.choice([(0.1).hex(), (0.7).hex()]), "B": (0.05).hex(), "G": rng.choice([(0.9).hex(), (0.6).hex()]),
                 "L": rng.choice(["0", (0.8).hex()]), "T": (0.01).hex(), "E": (0.2).hex()}[o]
        else:
            v = {"A": rng.choice(["1", "1/2", "1/4", "1/8"]), "B": rng.choice(["0", "1/4", "1"]), "G": rng.choice(["1/2", "3/4", "1/4"]),
                 "L": rng.choice(["0", "0", "1/2", "1"]), "T": rng.choice(["1/64", "1/8", "0", "1/2"]), "E": rng.choice(["0", "1/4", "1/2", "1"])}[o]
        return [o, v]
    for i in range(n):
        if with_setters and i % every == 0 and i > 0 and rng.random() < 0.25:
            for _ in range(rng.choice([1, 1, 2])): toks += setter()
        a = ac(); s1 = st() if rng.random() < 0.8 else s
        if tie: s, a, s1 = plan[i]
        toks += [s, a, s1]
        if kind in ("sarsa", "sarsal"): toks.append(ac())
        toks.append(rc if tie else rconst if extreme else str(rng.randint(-64, 64) * 256) if (tail and rng.random() < 0.6) else reward(rng, general))
        if kind == "esarsa": toks += dist_row(rng, nA)
        s = s1 if chained else st()
    return " ".join(map(str, toks))


def gen_ps(rng, tier):
    quiesce = rng.random() < 0.25
    nS = rng.choice([1, 2, 3, 3, 4, 5]); nA = rng.choice([1, 2, 2, 3])
    general = rng.random() < 0.2
    if general:
        gamma = rng.choice([(0.9).hex(), (0.5).hex()]); theta = rng.choice([(0.05).hex(), (0.3).hex()])
    else:
        gamma = rng.choice(["1/2", "3/4"]); theta = rng.choice(["0", "0", "0", "1/4", "1/1024"])
    if quiesce:
        theta = "0"
    toks = ["psq" if quiesce else "ps", nS, nA, gamma, theta]
    for a in range(nA):
        for s in range(nS):
            if general:
                w = [rng.random() if rng.random() < 0.7 else 0.0 for _ in range(nS)]
                if sum(w) == 0: w[rng.randrange(nS)] = 1.0
                t = sum(w); toks += [(x / t).hex() for x in w]
            else:
                toks += dist_row(rng, nS, den=rng.choice([2, 4, 8]))
    for s in range(nS):
        for a in range(nA):
            toks.append(reward(rng, general))
    if not quiesce:
        nops = rng.randint(1, 14)
        toks.append(nops)
        for _ in range(nops):
            u = rng.random()
            if u < 0.55: toks += ["s", rng.randrange(nS), rng.randrange(nA)]
            elif u < 0.85: toks += ["b", rng.randint(1, 4)]
            else: toks += ["B", rng.randint(1, 4)]
    return " ".join(map(str, toks))


def gen_psn(rng, tier):
    nS = rng.choice([1, 2, 3, 3, 4]); nA = rng.choice([1, 2, 2, 3])
    gamma = rng.choice(["1/2", "3/4"]); theta = rng.choice(["0", "0", "1/4", "1/1024"])
    toks = ["psn", nS, nA, gamma, theta]
    for s in range(nS):
        for a in range(nA):
            row = dist_row(rng, nS, den=rng.choice([2, 4, 8]))
            if rng.random() < 0.3:
                # a probability below the 1e-6 cut of checkDifferentSmall (2^-20): dropped by the code
                row[rng.randrange(nS)] = "1/1048576"
            toks += row
    for _ in range(nS * nA * nS):
        toks.append(reward(rng, False))
    nops = rng.randint(1, 12)
    toks.append(nops)
    for _ in range(nops):
        u = rng.random()
        if u < 0.55: toks += ["s", rng.randrange(nS), rng.randrange(nA)]
        elif u < 0.85: toks += ["b", rng.randint(1, 4)]
        else: toks += ["B", rng.randint(1, 3)]
    return " ".join(map(str, toks))


def gen_dyna2(rng, tier):
    nS = rng.choice([2, 3, 4, 5]); nA = rng.choice([1, 2, 3])
    general = rng.random() < 0.15
    alpha = rng.choice(["1", "1/2", "1/8"]) if not general else (0.1).hex()
    gamma = rng.choice(["1/2", "3/4"]) if not general else (0.9).hex()
    lam = rng.choice(["0", "1/2", "1"]); tol = rng.choice(["1/64", "1/8", "0"]) if not general else (0.001).hex()
    terms = [s for s in range(nS) if rng.random() < 0.2]
    nops = rng.randint(2, 14)
    toks = ["dyna2", nS, nA, alpha, gamma, lam, tol, len(terms)] + terms + [nops]
    for _ in range(nops):
        u = rng.random()
        if u < 0.5:
            toks += ["s", rng.randrange(nS), rng.randrange(nA), rng.randrange(nS), rng.randrange(nA), reward(rng, general)]
        elif u < 0.7:
            N = rng.randint(1, 5)
            toks += ["b", rng.randrange(nS), N, rng.randrange(nA)]
            for _ in range(N): toks += [rng.randrange(nS), reward(rng, general), rng.randrange(nA), rng.randrange(nA)]
        elif u < 0.78: toks += ["r"]
        elif u < 0.88: toks += ["P", rng.choice(["0", "0", "1/2", "1"])]
        elif u < 0.95: toks += ["Q", rng.choice(["0", "1/2", "1"])]
        else: toks += ["T", rng.choice(["1/64", "1/8", "1/2"])]
    return " ".join(map(str, toks))


def gen_dyna(rng, tier):
    nS = rng.choice([1, 2, 3, 4, 5]); nA = rng.choice([1, 2, 3])
    general = rng.random() < 0.2
    alpha = rng.choice(["1", "1/2", "1/8"]) if not general else (0.1).hex()
    gamma = rng.choice(["1/2", "3/4"]) if not general else (0.9).hex()
    nops = rng.randint(1, 20)
    toks = ["dyna", nS, nA, alpha, gamma, nops]
    for _ in range(nops):
        u = rng.random()
        if u < 0.55:
            toks += ["s", rng.randrange(nS), rng.randrange(nA), rng.randrange(nS), reward(rng, general)]
        elif u < 0.65:
            toks += ["a", rng.choice(["1", "1/2", "1/4"])]
        else:
            N = rng.randint(1, 4)
            toks += ["b", N]
            for _ in range(N): toks += [rng.randrange(nS), reward(rng, general)]
    return " ".join(map(str, toks))


def gen_dqstar(rng, tier):
    """round 6: MDP built BACKWARDS from a chosen Q* (V dyadic, Q(s,a) <= V(s) with equality somewhere,
    R := Q - gamma P V), so Q* is exact and dyadic; 40 % of the rows are point masses (deterministic clause)"""
    from fractions import Fraction as F
    nS = rng.choice([1, 2, 3, 3, 4]); nA = rng.choice([1, 2, 2, 3])
    alpha = rng.choice(["1", "1/2", "1/4", "3/4"]); gamma = rng.choice(["1/2", "3/4", "1/4"])
    g = F(gamma)
    V = [F(rng.randint(-16, 16), 4) for _ in range(nS)]
    Q = [[V[s] - F(rng.choice([0, 0, 1, 2, 5, 8]), 4) for _ in range(nA)] for s in range(nS)]
    for s in range(nS): Q[s][rng.randrange(nA)] = V[s]
    P = {}
    toks = ["dqstar", nS, nA, alpha, gamma]
    for a in range(nA):
        for s in range(nS):
            if rng.random() < 0.4:
                k = rng.randrange(nS); row = [F(1) if j == k else F(0) for j in range(nS)]
            else:
                row = [F(x) for x in dist_row(rng, nS, den=rng.choice([2, 4, 8]))]
            P[(s, a)] = row
            toks += [fr(x.numerator, x.denominator) for x in row]
    for s in range(nS):
        for a in range(nA): toks.append(fr(Q[s][a].numerator, Q[s][a].denominator))
    for s in range(nS):
        for a in range(nA):
            r = Q[s][a] - g * sum(P[(s, a)][j] * V[j] for j in range(nS))
            toks.append(fr(r.numerator, r.denominator))
    np_ = rng.randint(1, 6)
    toks.append(np_)
    for _ in range(np_): toks += [rng.randrange(nS), rng.randrange(nA)]
    return " ".join(map(str, toks))


def gen(rng, tier):
    n = {"quick": 500, "thorough": 3000, "search": 1500}[tier]
    out = []
    for _ in range(n):
        u = rng.random()
        out.append(gen_ps(rng, tier) if u < 0.18 else gen_psn(rng, tier) if u < 0.24 else gen_dyna(rng, tier) if u < 0.29
                   else gen_dyna2(rng, tier) if u < 0.36 else gen_case(rng, tier))
    # round 6: the DoubleQ fixed-point cases are appended AFTER the older kinds so that the older kinds see the same
    # random stream as before for every seed
    for _ in range(n * 7 // 100):
        out.append(gen_dqstar(rng, tier))
    return out
