// harness/C08/h.cpp — runs the real samplers of Utils/Probability.{hpp,cpp} under a replay generator.
//
// The samplers are templates over the generator, so we inject `Replay`, a UniformRandomBitGenerator
// with a 64-bit range that returns chosen raw values x.  libstdc++'s generate_canonical<double,53>
// consumes exactly one value of such a generator and returns double(x) / 2^64 (clamped below 1), so
// x = u * 2^64 makes std::uniform_real_distribution<double>(0,1) yield u whenever u is a multiple of
// 2^-64.  We never rely on that arithmetic: the harness REPORTS the value actually drawn, obtained by
// replaying the same distribution on a copy of the generator, and the model is run on the reported value.
#include <cstdint>
#include <random>
#include <vector>
#include <algorithm>
#include <Eigen/Core>
#include <Eigen/SparseCore>
#include "vio.hpp"
// Access to VoseAliasSampler::prob_/alias_ (table dump).  Placed after the standard/Eigen headers so
// only AI-Toolbox classes are affected; this TU only (access specifiers do not change the layout).
#include <tuple>
#include <utility>
#include <iosfwd>
#include <boost/multi_array.hpp>
#include <AIToolbox/Types.hpp>
#include <AIToolbox/TypeTraits.hpp>
#include <AIToolbox/Seeder.hpp>
#include <AIToolbox/Utils/Core.hpp>
#define private public
#include <AIToolbox/Utils/Probability.hpp>
#include <AIToolbox/MDP/Model.hpp>
#include <AIToolbox/MDP/SparseModel.hpp>
#include <AIToolbox/POMDP/Model.hpp>
#undef private

using namespace AIToolbox;

struct Replay {
    using result_type = uint64_t;
    static constexpr result_type min() { return 0; }
    static constexpr result_type max() { return ~uint64_t(0); }
    std::vector<uint64_t> xs; size_t pos = 0; size_t calls = 0;
    result_type operator()() {
        ++calls;
        if (pos >= xs.size()) throw std::logic_error("Replay: out of draws");
        return xs[pos++];
    }
};

static uint64_t rawOf(double u) {            // u in [0,1) -> raw 64-bit value (exact for multiples of 2^-64)
    if (!(u >= 0.0) || !(u < 1.0)) throw std::logic_error("rawOf: u outside [0,1)");
    return (uint64_t) std::ldexp(u, 64);
}
static Replay genOf(const std::vector<double> & us, size_t rep = 1) {
    Replay g;
    for (size_t r = 0; r < rep; ++r) for (double u : us) g.xs.push_back(rawOf(u));
    return g;
}
// the value the library's own distribution object draws from this generator state
static double drawn01(Replay g) { return probabilityDistribution(g); }
static double drawnN(Replay g, size_t n) { std::uniform_real_distribution<double> d(0, n); return d(g); }

int main(int argc, char ** argv) {
    return vio::runCases(argc, argv, [](vio::Cursor & c, vio::Out & o) {
        const std::string kind = c.next();
        if (kind == "dense") {
            // dense <regime> <n> p… <m> u…   ->  m × (u_drawn idx_stdvector idx_eigen)
            c.next();
            std::vector<double> p = c.nextDoubles(); std::vector<double> us = c.nextDoubles();
            Vector pe(p.size()); for (size_t i = 0; i < p.size(); ++i) pe[i] = p[i];
            o << us.size();
            for (double u : us) {
                Replay g = genOf({u});
                o << drawn01(g);
                Replay g1 = g, g2 = g;
                o << sampleProbability(p.size(), p, g1) << sampleProbability(p.size(), pe, g2);
                if (g1.calls != 1 || g2.calls != 1) throw std::logic_error("dense: draw count != 1");
            }
        } else if (kind == "sparse") {
            // sparse <tag> <before> <after> <d> <k> (col val)*k <m> u…  ->  m × (u_drawn idx)
            // the sampled row sits after <before> and before <after> filler rows (each: 1.0 at column 0)
            c.next();
            size_t before = c.nextSize(), after = c.nextSize(), d = c.nextSize(), k = c.nextSize();
            SparseMatrix2D m(before + 1 + after, d);
            for (size_t r = 0; r < before; ++r) m.insert(r, 0) = 1.0;
            for (size_t j = 0; j < k; ++j) { size_t col = c.nextSize(); double v = c.nextDouble(); m.insert(before, col) = v; }
            for (size_t r = 0; r < after; ++r) m.insert(before + 1 + r, 0) = 1.0;
            m.makeCompressed();
            const SparseMatrix2D & cm = m;
            std::vector<double> us = c.nextDoubles();
            o << us.size();
            for (double u : us) {
                Replay g = genOf({u});
                o << drawn01(g);
                o << sampleProbability(d, cm.row(before), g);
            }
        } else if (kind == "alias") {
            // alias <regime> <n> p… <m> u…  ->  prob_ list, alias_ list, m × (x_drawn idx)
            c.next();
            std::vector<double> p = c.nextDoubles(); std::vector<double> us = c.nextDoubles();
            Vector pe(p.size()); for (size_t i = 0; i < p.size(); ++i) pe[i] = p[i];
            VoseAliasSampler vs(pe);
            std::vector<double> prob(vs.prob_.data(), vs.prob_.data() + vs.prob_.size());
            o.list(prob); o.list(vs.alias_);
            o << us.size();
            for (double u : us) {
                Replay g = genOf({u});
                double x = drawnN(g, p.size());
                o << x;
                // guard the harness itself: the library would index prob_[(int)x] unchecked
                if (!(x >= 0.0) || !(x < (double) p.size())) { o << "XRANGE"; continue; }
                o << vs.sampleProbability(g);
            }
        } else if (kind == "randp") {
            // randp <S> <k> u…  ->  drawn u list (S-1 values), vector
            size_t S = c.nextSize(); std::vector<double> us = c.nextDoubles();
            Replay g = genOf(us);
            std::vector<double> dr; { Replay h = g; for (size_t s = 0; s + 1 < S; ++s) dr.push_back(probabilityDistribution(h)); }
            ProbabilityVector b = makeRandomProbability(S, g);
            if (g.calls != S - 1) throw std::logic_error("randp: draw count != S-1");
            o.list(dr);
            std::vector<double> bv(b.data(), b.data() + b.size());
            o.list(bv);
        } else if (kind == "proj") {
            // proj <tag> <n> v…  ->  vector
            c.next();
            std::vector<double> v = c.nextDoubles();
            Vector ve(v.size()); for (size_t i = 0; i < v.size(); ++i) ve[i] = v[i];
            ProbabilityVector r = projectToProbability(ve);
            std::vector<double> rv(r.data(), r.data() + r.size());
            o.list(rv);
        } else if (kind == "sr") {
            // sr <variant> <S> <A> <O> T[a][s][s1]… R[s][a]… (Ob[a][s1][o]… if O>0) <s> <a> <m> <seed>
            //   ->  m × (u1 s1 r [u2 o])   variant: dense | sparse | pomdp
            // The models own a private mt19937; the draw is observed by replaying the library's
            // distribution object on a copy of the engine taken just before the call.
            const std::string variant = c.next();
            size_t S = c.nextSize(), A = c.nextSize(), O = c.nextSize();
            boost::multi_array<double, 3> t(boost::extents[S][A][S]), r(boost::extents[S][A][S]);
            for (size_t a = 0; a < A; ++a) for (size_t s = 0; s < S; ++s) for (size_t s1 = 0; s1 < S; ++s1) t[s][a][s1] = c.nextDouble();
            for (size_t s = 0; s < S; ++s) for (size_t a = 0; a < A; ++a) { double x = c.nextDouble(); for (size_t s1 = 0; s1 < S; ++s1) r[s][a][s1] = x; }
            boost::multi_array<double, 3> ob(boost::extents[S][A][O ? O : 1]);
            for (size_t a = 0; a < A; ++a) for (size_t s1 = 0; s1 < S; ++s1) for (size_t o = 0; o < O; ++o) ob[s1][a][o] = c.nextDouble();
            size_t s = c.nextSize(), a = c.nextSize(), m = c.nextSize();
            Seeder::setRootSeed((unsigned) c.nextSize());    // the models seed their engines from the global seeder
            o << m;
            if (variant == "dense") {
                MDP::Model model(S, A, t, r, 0.5);
                for (size_t k = 0; k < m; ++k) {
                    RandomEngine copy = model.rand_;
                    o << probabilityDistribution(copy);
                    auto [s1, rew] = model.sampleSR(s, a);
                    o << s1 << rew;
                }
            } else if (variant == "sparse") {
                MDP::SparseModel model(S, A, t, r, 0.5);
                for (size_t k = 0; k < m; ++k) {
                    RandomEngine copy = model.rand_;
                    o << probabilityDistribution(copy);
                    auto [s1, rew] = model.sampleSR(s, a);
                    o << s1 << rew;
                }
            } else if (variant == "pomdp") {
                POMDP::Model<MDP::Model> model(O, ob, S, A, t, r, 0.5);
                for (size_t k = 0; k < m; ++k) {
                    RandomEngine c1 = model.MDP::Model::rand_, c2 = model.rand_;
                    double u1 = probabilityDistribution(c1), u2 = probabilityDistribution(c2);
                    auto [s1, ob1, rew] = model.sampleSOR(s, a);
                    o << u1 << s1 << rew << u2 << ob1;
                }
            } else throw std::logic_error("sr: unknown variant " + variant);
        } else throw std::logic_error("unknown case kind " + kind);
    });
}
