// harness/C08/h.cpp — runs the real samplers of Utils/Probability.{hpp,cpp} under a replay generator.
//
// The samplers are templates over the generator, so we inject `Replay`, a UniformRandomBitGenerator
// with a 64-bit range that returns chosen raw values x.  libstdc++'s generate_canonical<double,53>
// consumes exactly one value of such a generator and returns double(x) / 2^64 (clamped below 1), so
// x = u * 2^64 makes std::uniform_real_distribution<double>(0,1) yield u whenever u is a multiple of
// 2^-64.  We never rely on that arithmetic: the harness REPORTS the value actually drawn, obtained by
// replaying the same distribution on a copy of the generator, and the model is run on the reported value.
#include <cstdint>
#include <random>
#include <vector>
#include <algorithm>
#include <Eigen/Core>
#include <Eigen/SparseCore>
#include "vio.hpp"
// Access to VoseAliasSampler::prob_/alias_ (table dump).  Placed after the standard/Eigen headers so
// only AI-Toolbox classes are affected; this TU only (access specifiers do not change the layout).
#include <tuple>
#include <sstream>
#include <utility>
#include <iosfwd>
#include <boost/multi_array.hpp>
#include <AIToolbox/Types.hpp>
#include <AIToolbox/TypeTraits.hpp>
#include <AIToolbox/Seeder.hpp>
#include <AIToolbox/Utils/Core.hpp>
#include <AIToolbox/Factored/Types.hpp>
#include <AIToolbox/Factored/Utils/Core.hpp>
#include <AIToolbox/Factored/Utils/BayesianNetwork.hpp>
#include <AIToolbox/Factored/Utils/FactoredMatrix.hpp>
#define private public
#include <AIToolbox/Utils/Probability.hpp>
#include <AIToolbox/MDP/Model.hpp>
#include <AIToolbox/MDP/SparseModel.hpp>
#include <AIToolbox/POMDP/Model.hpp>
#include <AIToolbox/POMDP/SparseModel.hpp>
#include <AIToolbox/Factored/MDP/CooperativeModel.hpp>
#undef private

using namespace AIToolbox;

struct Replay {
    using result_type = uint64_t;
    static constexpr result_type min() { return 0; }
    static constexpr result_type max() { return ~uint64_t(0); }
    std::vector<uint64_t> xs; size_t pos = 0; size_t calls = 0;
    result_type operator()() {
        ++calls;
        if (pos >= xs.size()) throw std::logic_error("Replay: out of draws");
        return xs[pos++];
    }
};

static uint64_t rawOf(double u) {            // u in [0,1) -> raw 64-bit value (exact for multiples of 2^-64)
    if (!(u >= 0.0) || !(u < 1.0)) throw std::logic_error("rawOf: u outside [0,1)");
    return (uint64_t) std::ldexp(u, 64);
}
static Replay genOf(const std::vector<double> & us, size_t rep = 1) {
    Replay g;
    for (size_t r = 0; r < rep; ++r) for (double u : us) g.xs.push_back(rawOf(u));
    return g;
}
// the value the library's own distribution object draws from this generator state
static double drawn01(Replay g) { return probabilityDistribution(g); }
static double drawnN(Replay g, size_t n) { std::uniform_real_distribution<double> d(0, n); return d(g); }

// ---- replaying chosen draws through a std::mt19937 (the models own a private RandomEngine) ----
// generate_canonical<double,53> over a 32-bit engine takes two words (low first) and returns
// (lo + hi*2^32)/2^64; for u = m/2^53 the 64-bit word m*2^11 reproduces u exactly.  The engine state
// is loaded through operator>> with untempered words and position 0, and checked before use.
static uint32_t untemper(uint32_t y) {
    y ^= y >> 18;
    y ^= (y << 15) & 0xefc60000u;
    uint32_t t = y;
    for (int k = 0; k < 5; ++k) t = y ^ ((t << 7) & 0x9d2c5680u);
    y = t;
    t = y;
    for (int k = 0; k < 3; ++k) t = y ^ (t >> 11);
    return t;
}
static RandomEngine engineOf(const std::vector<double> & us) {
    std::vector<uint32_t> words;
    for (double u : us) { uint64_t x = rawOf(u); words.push_back((uint32_t) (x & 0xffffffffu)); words.push_back((uint32_t) (x >> 32)); }
    if (words.size() > 624) throw std::logic_error("engineOf: too many draws");
    std::ostringstream os;
    for (size_t i = 0; i < 624; ++i) os << untemper(i < words.size() ? words[i] : 0u) << ' ';
    os << 0;
    std::istringstream is(os.str());
    RandomEngine e; is >> e;
    RandomEngine chk = e;
    for (uint32_t w : words) if (chk() != w) throw std::logic_error("engineOf: replay engine does not reproduce the words");
    return e;
}

// dumps the model's own rows for (s,a) and runs the samplers with replayed draws
template <typename M>
static void runMdp(M & model, size_t s, size_t a, const std::vector<double> & us, vio::Out & o) {
    const size_t S = model.getS();
    std::vector<double> row(S), rew(S);
    for (size_t s1 = 0; s1 < S; ++s1) { row[s1] = model.getTransitionProbability(s, a, s1); rew[s1] = model.getExpectedReward(s, a, s1); }
    o.list(row); o.list(rew);
    o << us.size();
    for (double u : us) {
        model.rand_ = engineOf({u});
        RandomEngine copy = model.rand_;
        o << probabilityDistribution(copy);
        auto [s1, r] = model.sampleSR(s, a);
        o << s1 << r;
    }
}
template <typename P, typename M>
static void runPomdp(P & model, size_t s, size_t a, const std::vector<double> & us, vio::Out & o) {
    const size_t S = model.getS(), O = model.getO();
    std::vector<double> row(S), rew(S);
    for (size_t s1 = 0; s1 < S; ++s1) { row[s1] = model.getTransitionProbability(s, a, s1); rew[s1] = model.getExpectedReward(s, a, s1); }
    o.list(row); o.list(rew);
    for (size_t s1 = 0; s1 < S; ++s1) {
        std::vector<double> orow(O);
        for (size_t ob = 0; ob < O; ++ob) orow[ob] = model.getObservationProbability(s1, a, ob);
        o.list(orow);
    }
    if (us.size() % 3) throw std::logic_error("pomdp: draws come in triples");
    o << us.size() / 3;
    for (size_t k = 0; k + 2 < us.size(); k += 3) {
        model.M::rand_ = engineOf({us[k]});
        model.rand_ = engineOf({us[k + 1]});
        RandomEngine c1 = model.M::rand_, c2 = model.rand_;
        double u1 = probabilityDistribution(c1), u2 = probabilityDistribution(c2);
        auto [s1, ob1, r1] = model.sampleSOR(s, a);
        o << u1 << s1 << r1 << u2 << ob1;
        if (s1 >= S) { o << "SKIP"; continue; }
        model.rand_ = engineOf({us[k + 2]});
        RandomEngine c3 = model.rand_;
        double u3 = probabilityDistribution(c3);
        auto [ob2, r2] = model.sampleOR(s, a, s1);
        o << u3 << ob2 << r2;
    }
}

// joint frequencies of (s1, o) under the model's OWN engines (no replay), and the state of its two engines
template <typename P, typename M>
static void runFreq(P & model, size_t s, size_t a, size_t N, vio::Out & o) {
    const size_t S = model.getS(), O = model.getO();
    // right after construction: are the MDP layer's engine and the POMDP layer's engine in the same state?
    o << (model.M::rand_ == model.rand_ ? 1 : 0);
    std::vector<double> row(S);
    for (size_t s1 = 0; s1 < S; ++s1) row[s1] = model.getTransitionProbability(s, a, s1);
    o.list(row);
    for (size_t s1 = 0; s1 < S; ++s1) {
        std::vector<double> orow(O);
        for (size_t ob = 0; ob < O; ++ob) orow[ob] = model.getObservationProbability(s1, a, ob);
        o.list(orow);
    }
    std::vector<size_t> counts(S * O, 0);
    size_t lockstep = 0, bad = 0;
    for (size_t k = 0; k < N; ++k) {
        RandomEngine c1 = model.M::rand_, c2 = model.rand_;
        double u1 = probabilityDistribution(c1), u2 = probabilityDistribution(c2);
        if (u1 == u2) ++lockstep;
        auto [s1, ob, r] = model.sampleSOR(s, a);
        if (s1 >= S || ob >= O) { ++bad; continue; }
        ++counts[s1 * O + ob];
    }
    o << N << lockstep << bad;
    o.list(counts);
}

int main(int argc, char ** argv) {
    return vio::runCases(argc, argv, [](vio::Cursor & c, vio::Out & o) {
        const std::string kind = c.next();
        if (kind == "dense") {
            // dense <regime> <n> p… <m> u…   ->  m × (u_drawn idx_stdvector idx_eigen)
            c.next();
            std::vector<double> p = c.nextDoubles(); std::vector<double> us = c.nextDoubles();
            Vector pe(p.size()); for (size_t i = 0; i < p.size(); ++i) pe[i] = p[i];
            o << us.size();
            for (double u : us) {
                Replay g = genOf({u});
                o << drawn01(g);
                Replay g1 = g, g2 = g;
                o << sampleProbability(p.size(), p, g1) << sampleProbability(p.size(), pe, g2);
                if (g1.calls != 1 || g2.calls != 1) throw std::logic_error("dense: draw count != 1");
            }
        } else if (kind == "sparse") {
            // sparse <tag> <before> <after> <d> <k> (col val)*k <m> u…  ->  m × (u_drawn idx)
            // the sampled row sits after <before> and before <after> filler rows (each: 1.0 at column 0)
            c.next();
            size_t before = c.nextSize(), after = c.nextSize(), d = c.nextSize(), k = c.nextSize();
            SparseMatrix2D m(before + 1 + after, d);
            for (size_t r = 0; r < before; ++r) m.insert(r, 0) = 1.0;
            for (size_t j = 0; j < k; ++j) { size_t col = c.nextSize(); double v = c.nextDouble(); m.insert(before, col) = v; }
            for (size_t r = 0; r < after; ++r) m.insert(before + 1 + r, 0) = 1.0;
            m.makeCompressed();
            const SparseMatrix2D & cm = m;
            std::vector<double> us = c.nextDoubles();
            o << us.size();
            for (double u : us) {
                Replay g = genOf({u});
                o << drawn01(g);
                o << sampleProbability(d, cm.row(before), g);
            }
        } else if (kind == "alias") {
            // alias <regime> <n> p… <m> u…  ->  prob_ list, alias_ list, m × (x_drawn idx)
            c.next();
            std::vector<double> p = c.nextDoubles(); std::vector<double> us = c.nextDoubles();
            Vector pe(p.size()); for (size_t i = 0; i < p.size(); ++i) pe[i] = p[i];
            VoseAliasSampler vs(pe);
            std::vector<double> prob(vs.prob_.data(), vs.prob_.data() + vs.prob_.size());
            o.list(prob); o.list(vs.alias_);
            o << us.size();
            for (double u : us) {
                Replay g = genOf({u});
                double x = drawnN(g, p.size());
                o << x;
                // guard the harness itself: the library would index prob_[(int)x] unchecked
                if (!(x >= 0.0) || !(x < (double) p.size())) { o << "XRANGE"; continue; }
                o << vs.sampleProbability(g);
            }
        } else if (kind == "randp") {
            // randp <S> <k> u…  ->  drawn u list (S-1 values), vector
            size_t S = c.nextSize(); std::vector<double> us = c.nextDoubles();
            Replay g = genOf(us);
            std::vector<double> dr; { Replay h = g; for (size_t s = 0; s + 1 < S; ++s) dr.push_back(probabilityDistribution(h)); }
            ProbabilityVector b = makeRandomProbability(S, g);
            if (g.calls != S - 1) throw std::logic_error("randp: draw count != S-1");
            o.list(dr);
            std::vector<double> bv(b.data(), b.data() + b.size());
            o.list(bv);
        } else if (kind == "proj") {
            // proj <tag> <n> v…  ->  vector
            c.next();
            std::vector<double> v = c.nextDoubles();
            Vector ve(v.size()); for (size_t i = 0; i < v.size(); ++i) ve[i] = v[i];
            ProbabilityVector r = projectToProbability(ve);
            std::vector<double> rv(r.data(), r.data() + r.size());
            o.list(rv);
        } else if (kind == "sr") {
            // sr <variant> <S> <A> <O> T[a][s][s1]… R[s][a]… Ob[a][s1][o]… <s> <a> <k> u…
            //   variant: mdp.d | mdp.s (sampleSR of MDP::Model / MDP::SparseModel; one draw per sample)
            //            pomdp.XY, X = class of the POMDP layer (d = POMDP::Model, s = POMDP::SparseModel),
            //            Y = underlying MDP class; draws come in triples (u1,u2 for sampleSOR, u3 for sampleOR(s,a,s1))
            //   -> the model's own rows: T(s,a,.), R(s,a,.) [, O(s1,a,.) for every s1], then per sample
            //      mdp:   u1 s1 r          pomdp: u1 s1 r u2 o u3 o' r'
            // The models own private mt19937 engines; they are overwritten with replay engines.
            const std::string variant = c.next();
            size_t S = c.nextSize(), A = c.nextSize(), O = c.nextSize();
            boost::multi_array<double, 3> t(boost::extents[S][A][S]), r(boost::extents[S][A][S]);
            for (size_t a = 0; a < A; ++a) for (size_t s = 0; s < S; ++s) for (size_t s1 = 0; s1 < S; ++s1) t[s][a][s1] = c.nextDouble();
            for (size_t s = 0; s < S; ++s) for (size_t a = 0; a < A; ++a) { double x = c.nextDouble(); for (size_t s1 = 0; s1 < S; ++s1) r[s][a][s1] = x; }
            boost::multi_array<double, 3> ob(boost::extents[S][A][O ? O : 1]);
            for (size_t a = 0; a < A; ++a) for (size_t s1 = 0; s1 < S; ++s1) for (size_t o = 0; o < O; ++o) ob[s1][a][o] = c.nextDouble();
            size_t s = c.nextSize(), a = c.nextSize();
            std::vector<double> us = c.nextDoubles();
            Seeder::setRootSeed(1u);
            if (variant == "mdp.d") { MDP::Model m(S, A, t, r, 0.5); runMdp(m, s, a, us, o); }
            else if (variant == "mdp.s") { MDP::SparseModel m(S, A, t, r, 0.5); runMdp(m, s, a, us, o); }
            else if (variant == "pomdp.dd") { POMDP::Model<MDP::Model> m(O, ob, S, A, t, r, 0.5); runPomdp<decltype(m), MDP::Model>(m, s, a, us, o); }
            else if (variant == "pomdp.ds") { POMDP::Model<MDP::SparseModel> m(O, ob, S, A, t, r, 0.5); runPomdp<decltype(m), MDP::SparseModel>(m, s, a, us, o); }
            else if (variant == "pomdp.sd") { POMDP::SparseModel<MDP::Model> m(O, ob, S, A, t, r, 0.5); runPomdp<decltype(m), MDP::Model>(m, s, a, us, o); }
            else if (variant == "pomdp.ss") { POMDP::SparseModel<MDP::SparseModel> m(O, ob, S, A, t, r, 0.5); runPomdp<decltype(m), MDP::SparseModel>(m, s, a, us, o); }
            else throw std::logic_error("sr: unknown variant " + variant);
        } else if (kind == "sorfreq") {
            // sorfreq <variant> <S> <A> <O> T[a][s][s1]… R[s][a]… Ob[a][s1][o]… <s> <a> <N> <seed>
            //   variant = <layers>.<ctor>: layers dd|ss|sd|ds (POMDP layer, MDP layer; d dense, s sparse),
            //   ctor tab (checked table constructors) | nocheck (both NO_CHECK constructors) | copy (converting constructor)
            //   -> same_engine_state, T(s,a,.), O(s1,a,.) for every s1, N, #samples whose two draws were equal,
            //      #out-of-range samples, joint counts[s1][o]
            const std::string variant = c.next();
            size_t S = c.nextSize(), A = c.nextSize(), O = c.nextSize();
            boost::multi_array<double, 3> t(boost::extents[S][A][S]), r(boost::extents[S][A][S]), ob(boost::extents[S][A][O]);
            Matrix3D T3(A, Matrix2D(S, S)), O3(A, Matrix2D(S, O)); Matrix2D R2(S, A);
            for (size_t a = 0; a < A; ++a) for (size_t s = 0; s < S; ++s) for (size_t s1 = 0; s1 < S; ++s1) { t[s][a][s1] = c.nextDouble(); T3[a](s, s1) = t[s][a][s1]; }
            for (size_t s = 0; s < S; ++s) for (size_t a = 0; a < A; ++a) { double x = c.nextDouble(); R2(s, a) = x; for (size_t s1 = 0; s1 < S; ++s1) r[s][a][s1] = x; }
            for (size_t a = 0; a < A; ++a) for (size_t s1 = 0; s1 < S; ++s1) for (size_t o = 0; o < O; ++o) { ob[s1][a][o] = c.nextDouble(); O3[a](s1, o) = ob[s1][a][o]; }
            size_t s = c.nextSize(), a = c.nextSize(), N = c.nextSize();
            Seeder::setRootSeed((unsigned) c.nextSize());
            auto sparse3 = [](const Matrix3D & m) { SparseMatrix3D r; for (const auto & x : m) r.push_back(x.sparseView()); return r; };
            using DD = POMDP::Model<MDP::Model>; using SS = POMDP::SparseModel<MDP::SparseModel>;
            using SD = POMDP::SparseModel<MDP::Model>; using DS = POMDP::Model<MDP::SparseModel>;
            if (variant == "dd.tab") { DD m(O, ob, S, A, t, r, 0.5); runFreq<DD, MDP::Model>(m, s, a, N, o); }
            else if (variant == "dd.nocheck") { DD m(NO_CHECK, O, std::move(O3), NO_CHECK, S, A, std::move(T3), std::move(R2), 0.5); runFreq<DD, MDP::Model>(m, s, a, N, o); }
            else if (variant == "dd.copy") { SS src(O, ob, S, A, t, r, 0.5); DD m(src); runFreq<DD, MDP::Model>(m, s, a, N, o); }
            else if (variant == "ss.tab") { SS m(O, ob, S, A, t, r, 0.5); runFreq<SS, MDP::SparseModel>(m, s, a, N, o); }
            else if (variant == "ss.nocheck") { SparseMatrix2D R2s = R2.sparseView(); SS m(NO_CHECK, O, sparse3(O3), NO_CHECK, S, A, sparse3(T3), std::move(R2s), 0.5); runFreq<SS, MDP::SparseModel>(m, s, a, N, o); }
            else if (variant == "ss.copy") { DD src(O, ob, S, A, t, r, 0.5); SS m(src); runFreq<SS, MDP::SparseModel>(m, s, a, N, o); }
            else if (variant == "sd.tab") { SD m(O, ob, S, A, t, r, 0.5); runFreq<SD, MDP::Model>(m, s, a, N, o); }
            else if (variant == "ds.tab") { DS m(O, ob, S, A, t, r, 0.5); runFreq<DS, MDP::SparseModel>(m, s, a, N, o); }
            else throw std::logic_error("sorfreq: unknown variant " + variant);
        } else if (kind == "coop") {
            // coop <S list> <A list> then per feature: <agents list> <nPA> (<parents list>)*nPA <rows*cols T values list>
            //      <nB> per basis: <tag list> <actionTag list> <values list (row-major)>   <s list> <a list> <u list (3*|S|)>
            //   -> per feature the model's own row T_i.row(getId(i,s,a)); getExpectedReward(s,a,.);
            //      sampleSR: drawn u list, s1 list, reward; sampleSRs (tuple): u list, s1 list, rews list;
            //      sampleSRs (pointer overload): u list, s1 list, rews list
            using namespace AIToolbox::Factored;
            auto keys = [&]() { auto v = c.nextSizes(); return PartialKeys(v.begin(), v.end()); };
            auto sv = c.nextSizes(); State S(sv.begin(), sv.end());
            auto av = c.nextSizes(); Action A(av.begin(), av.end());
            DDNGraph graph(S, A);
            DDN::TransitionMatrix T;
            for (size_t i = 0; i < S.size(); ++i) {
                PartialKeys agents = keys();
                size_t nPA = c.nextSize();
                std::vector<PartialKeys> parents;
                for (size_t k = 0; k < nPA; ++k) parents.push_back(keys());
                graph.push({agents, parents});
                std::vector<double> vals = c.nextDoubles();
                const size_t rows = graph.getSize(i);
                if (vals.size() != rows * S[i]) throw std::logic_error("coop: transition table of the wrong size");
                Matrix2D m(rows, S[i]);
                for (size_t rr = 0; rr < rows; ++rr) for (size_t cc = 0; cc < S[i]; ++cc) m(rr, cc) = vals[rr * S[i] + cc];
                T.push_back(std::move(m));
            }
            FactoredMatrix2D R;
            size_t nB = c.nextSize();
            for (size_t b = 0; b < nB; ++b) {
                BasisMatrix bm; bm.tag = keys(); bm.actionTag = keys();
                std::vector<double> vals = c.nextDoubles();
                const size_t rows = factorSpacePartial(bm.tag, S), cols = factorSpacePartial(bm.actionTag, A);
                if (vals.size() != rows * cols) throw std::logic_error("coop: reward basis of the wrong size");
                bm.values.resize(rows, cols);
                for (size_t rr = 0; rr < rows; ++rr) for (size_t cc = 0; cc < cols; ++cc) bm.values(rr, cc) = vals[rr * cols + cc];
                R.bases.push_back(std::move(bm));
            }
            auto s_ = c.nextSizes(); State s(s_.begin(), s_.end());
            auto a_ = c.nextSizes(); Action a(a_.begin(), a_.end());
            std::vector<double> us = c.nextDoubles();
            const size_t nF = S.size();
            if (us.size() != 3 * nF) throw std::logic_error("coop: need 3*|S| draws");
            Seeder::setRootSeed(1u);
            AIToolbox::Factored::MDP::CooperativeModel model(graph, T, R, 0.5);
            for (size_t i = 0; i < nF; ++i) {
                const auto & m = model.getTransitionFunction().transitions[i];
                const size_t j = model.getGraph().getId(i, s, a);
                std::vector<double> row(S[i]);
                for (size_t cc = 0; cc < S[i]; ++cc) row[cc] = m(j, cc);
                o.list(row);
            }
            o << model.getExpectedReward(s, a, s);
            auto setEngine = [&](size_t k) {
                std::vector<double> part(us.begin() + k * nF, us.begin() + (k + 1) * nF);
                model.rand_ = engineOf(part);
                RandomEngine copy = model.rand_;
                std::vector<double> dr; for (size_t i = 0; i < nF; ++i) dr.push_back(probabilityDistribution(copy));
                o.list(dr);
            };
            setEngine(0);
            { auto [s1, rew] = model.sampleSR(s, a); o.list(s1); o << rew; }
            setEngine(1);
            { auto [s1, rews] = model.sampleSRs(s, a); o.list(s1); std::vector<double> rv(rews.data(), rews.data() + rews.size()); o.list(rv); }
            setEngine(2);
            { State s1(nF); Rewards rews(R.bases.size()); model.sampleSRs(s, a, &s1, &rews); o.list(s1); std::vector<double> rv(rews.data(), rews.data() + rews.size()); o.list(rv); }
        } else throw std::logic_error("unknown case kind " + kind);
    });
}
