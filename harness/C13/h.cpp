// harness/C13/h.cpp — runs the real coordination-graph maximisers on exact rule sets.
// Case:  <kind> <A> [kind-specific] <nsets> { <nrules> { <keys> <vals> <payload> } }
//   ve    : [order (model only)]   payload = value            -> per set: action, value
//   ls    :                         payload = value            -> per set: action, value
//   mp    : [iterations]            payload = value            -> per set: action, value
//   rils  : [trials]                payload = value            -> per set: action, value
//   move  : [nobj]                  payload = nobj values      -> per set: n { vals, tagkeys, tagvals }
//   vemix|lsmix|mpmix|rilsmix : nseg { A rules }  one maximiser over different action spaces -> per segment: action, value
//   veq|lsq|mpq|rilsq : as ve|ls|mp|rils (no order for veq) but every set is a QFunction: nbases { tag, dense values }
//   ucve  : [logtA]                 payload = mean bonus       -> per set: action, mean, bonus
// All rule sets of one case are run in order on the SAME maximiser (and, where the API has one,
// the same graph object); VE additionally shares one process-wide maximiser + graph.
#include <AIToolbox/Seeder.hpp>
#include <AIToolbox/Factored/Bandit/Algorithms/Utils/VariableElimination.hpp>
#include <AIToolbox/Factored/Bandit/Algorithms/Utils/MultiObjectiveVariableElimination.hpp>
#include <AIToolbox/Factored/Bandit/Algorithms/Utils/UCVE.hpp>
#include <AIToolbox/Factored/Bandit/Algorithms/Utils/MaxPlus.hpp>
#include <AIToolbox/Factored/Bandit/Algorithms/Utils/LocalSearch.hpp>
#include <AIToolbox/Factored/Bandit/Algorithms/Utils/ReusingIterativeLocalSearch.hpp>
#include <AIToolbox/Factored/Bandit/Algorithms/Utils/GraphUtils.hpp>
#include "vio.hpp"

using namespace AIToolbox;
using namespace AIToolbox::Factored;
namespace fb = AIToolbox::Factored::Bandit;

static Factors readFactors(vio::Cursor & c) { auto v = c.nextSizes(); return Factors(v.begin(), v.end()); }
static PartialAction readPA(vio::Cursor & c) { auto k = readFactors(c); auto v = readFactors(c); return PartialAction{k, v}; }

static std::vector<fb::QFunctionRule> readRules(vio::Cursor & c) {
    size_t n = c.nextSize();
    std::vector<fb::QFunctionRule> rules;
    for (size_t i = 0; i < n; ++i) {
        auto pa = readPA(c); double v = c.nextDouble();
        rules.push_back(fb::QFunctionRule{pa, v});
    }
    return rules;
}

// QFunction (FactoredVector) input: <nbases> { <tag> <dense values over the tag's local joint actions> };
// several bases may share one tag (their sum is the function)
static fb::QFunction readQF(vio::Cursor & c) {
    size_t n = c.nextSize();
    fb::QFunction qf;
    for (size_t i = 0; i < n; ++i) {
        auto tag = readFactors(c);
        auto vals = c.nextDoubles();
        Vector v(vals.size());
        for (size_t k = 0; k < vals.size(); ++k) v[k] = vals[k];
        qf.bases.push_back(BasisFunction{PartialKeys(tag.begin(), tag.end()), v});
    }
    return qf;
}

template <typename Maximizer, typename Make>
static void runApproxQF(vio::Cursor & c, vio::Out & o, const Action & A, Make && make) {
    size_t nsets = c.nextSize();
    std::vector<fb::QFunction> sets;
    for (size_t s = 0; s < nsets; ++s) sets.push_back(readQF(c));
    Maximizer m = make();
    auto graph = fb::MakeGraph<Maximizer>()(sets.at(0), A);
    for (size_t s = 0; s < nsets; ++s) {
        fb::UpdateGraph<Maximizer>()(graph, sets[s], A);
        auto [a, v] = m(A, graph);
        o.list(a); o << v;
    }
}

// process-wide objects: reuse across calls and cases
static fb::VariableElimination g_ve;
static fb::VariableElimination::Graph g_veGraph(0);

template <typename Maximizer, typename Make>
static void runApprox(vio::Cursor & c, vio::Out & o, const Action & A, Make && make) {
    size_t nsets = c.nextSize();
    std::vector<std::vector<fb::QFunctionRule>> sets;
    for (size_t s = 0; s < nsets; ++s) sets.push_back(readRules(c));
    Maximizer m = make();
    // the graph's structure is fixed by the first set (MakeGraph); later sets only update values
    auto graph = fb::MakeGraph<Maximizer>()(sets.at(0), A);
    for (size_t s = 0; s < nsets; ++s) {
        fb::UpdateGraph<Maximizer>()(graph, sets[s], A);
        auto [a, v] = m(A, graph);
        o.list(a); o << v;
    }
}

int main(int argc, char ** argv) {
    return vio::runCases(argc, argv, [](vio::Cursor & c, vio::Out & o) {
        const std::string kind = c.next();
        Action A = readFactors(c);
        Seeder::setRootSeed(12345u + (unsigned)A.size());
        if (kind == "ve") {
            (void) c.nextSizes();              // elimination order: used by the model only
            size_t nsets = c.nextSize();
            for (size_t s = 0; s < nsets; ++s) {
                auto rules = readRules(c);
                fb::UpdateGraph<fb::VariableElimination>()(g_veGraph, rules, A);
                auto [a, v] = g_ve(A, g_veGraph);
                o.list(a); o << v;
            }
        } else if (kind == "veq") {
            size_t nsets = c.nextSize();
            for (size_t s = 0; s < nsets; ++s) {
                auto qf = readQF(c);
                fb::UpdateGraph<fb::VariableElimination>()(g_veGraph, qf, A);
                auto [a, v] = g_ve(A, g_veGraph);
                o.list(a); o << v;
            }
        } else if (kind == "lsq") {
            runApproxQF<fb::LocalSearch>(c, o, A, []{ return fb::LocalSearch(); });
        } else if (kind == "mpq") {
            unsigned iters = (unsigned) c.nextSize();
            runApproxQF<fb::MaxPlus>(c, o, A, [iters]{ return fb::MaxPlus(iters); });
        } else if (kind == "rilsq") {
            unsigned trials = (unsigned) c.nextSize();
            bool force = c.nextSize() != 0;
            runApproxQF<fb::ReusingIterativeLocalSearch>(c, o, A, [trials, force]{ return fb::ReusingIterativeLocalSearch(0.3, 0.3, trials, force); });
        } else if (kind == "ls") {
            runApprox<fb::LocalSearch>(c, o, A, []{ return fb::LocalSearch(); });
        } else if (kind == "mp") {
            unsigned iters = (unsigned) c.nextSize();
            runApprox<fb::MaxPlus>(c, o, A, [iters]{ return fb::MaxPlus(iters); });
        } else if (kind == "rils") {
            unsigned trials = (unsigned) c.nextSize();
            bool force = c.nextSize() != 0;
            runApprox<fb::ReusingIterativeLocalSearch>(c, o, A, [trials, force]{ return fb::ReusingIterativeLocalSearch(0.3, 0.3, trials, force); });
        } else if (kind == "vemix" || kind == "lsmix" || kind == "mpmix" || kind == "rilsmix") {
            // ONE maximiser object (and for VE one graph object) used for a sequence of problems
            // over DIFFERENT action spaces; the leading A is only the first segment's.
            size_t nseg = c.nextSize();
            fb::VariableElimination ve; fb::VariableElimination::Graph veGraph(0);
            fb::LocalSearch ls; fb::MaxPlus mp(5); fb::ReusingIterativeLocalSearch rils(0.3, 0.3, 3, true);
            for (size_t s = 0; s < nseg; ++s) {
                Action As = readFactors(c);
                auto rules = readRules(c);
                if (kind == "vemix") {
                    fb::UpdateGraph<fb::VariableElimination>()(veGraph, rules, As);
                    auto [a, v] = ve(As, veGraph); o.list(a); o << v;
                } else if (kind == "lsmix") {
                    auto graph = fb::MakeGraph<fb::LocalSearch>()(rules, As);
                    fb::UpdateGraph<fb::LocalSearch>()(graph, rules, As);
                    auto [a, v] = ls(As, graph); o.list(a); o << v;
                } else if (kind == "mpmix") {
                    auto graph = fb::MakeGraph<fb::MaxPlus>()(rules, As);
                    fb::UpdateGraph<fb::MaxPlus>()(graph, rules, As);
                    auto [a, v] = mp(As, graph); o.list(a); o << v;
                } else {
                    auto graph = fb::MakeGraph<fb::ReusingIterativeLocalSearch>()(rules, As);
                    fb::UpdateGraph<fb::ReusingIterativeLocalSearch>()(graph, rules, As);
                    auto [a, v] = rils(As, graph); o.list(a); o << v;
                }
            }
        } else if (kind == "move") {
            size_t nobj = c.nextSize();
            size_t nsets = c.nextSize();
            fb::MultiObjectiveVariableElimination move;
            for (size_t s = 0; s < nsets; ++s) {
                size_t n = c.nextSize();
                std::vector<fb::MOQFunctionRule> rules;
                for (size_t i = 0; i < n; ++i) {
                    auto pa = readPA(c);
                    auto vals = c.nextDoubles();
                    if (vals.size() != nobj) throw std::logic_error("bad nobj");
                    Rewards r(nobj); for (size_t k = 0; k < nobj; ++k) r[k] = vals[k];
                    rules.push_back(fb::MOQFunctionRule{pa, r});
                }
                auto res = move(A, rules);
                o << (size_t) res.size();
                for (const auto & e : res) {
                    o << (size_t) e.vals.size();
                    for (long k = 0; k < e.vals.size(); ++k) o << (double) e.vals[k];
                    o.list(e.tag.first); o.list(e.tag.second);
                }
            }
        } else if (kind == "ucve") {
            double logtA = c.nextDouble();
            size_t nsets = c.nextSize();
            fb::UCVE ucve;
            for (size_t s = 0; s < nsets; ++s) {
                size_t n = c.nextSize();
                fb::UCVE::Factor rules;
                for (size_t i = 0; i < n; ++i) {
                    auto pa = readPA(c);
                    double m = c.nextDouble(), b = c.nextDouble();
                    rules.push_back(fb::UCVE::Entry{fb::UCVE::V{m, b}, pa});
                }
#ifdef AITOOLBOX_VERIF_UCVE_BOUNDS
                std::vector<double> trace;
                fb::UCVE::verifBoundsObserver = [&trace](size_t agent, double xl, double xu) {
                    trace.push_back((double) agent); trace.push_back(xl); trace.push_back(xu);
                };
#endif
                auto [a, v] = ucve(A, logtA, rules);
                o.list(a); o << (double) v[0] << (double) v[1];
#ifdef AITOOLBOX_VERIF_UCVE_BOUNDS
                fb::UCVE::verifBoundsObserver = nullptr;
                o << "T"; o.list(trace);      // (agent, x_l, x_u) per removal
#endif
            }
        } else throw std::logic_error("unknown case kind " + kind);
    });
}
