// harness/C04/h.cpp — value functions of every solver that returns one, and POMDP::Policy executed
// along all observation histories by following the stored links.
#include <array>
#include <AIToolbox/POMDP/Model.hpp>
#include <AIToolbox/POMDP/SparseModel.hpp>
#include <AIToolbox/MDP/Model.hpp>
#include <AIToolbox/MDP/SparseModel.hpp>
#include <AIToolbox/POMDP/Algorithms/IncrementalPruning.hpp>
#include <AIToolbox/POMDP/Algorithms/Witness.hpp>
#include <AIToolbox/POMDP/Algorithms/LinearSupport.hpp>
#include <AIToolbox/POMDP/Algorithms/PBVI.hpp>
#include <AIToolbox/POMDP/Algorithms/PERSEUS.hpp>
#include <AIToolbox/POMDP/Algorithms/QMDP.hpp>
#include <AIToolbox/POMDP/Policies/Policy.hpp>
#include <AIToolbox/POMDP/Algorithms/Utils/Projecter.hpp>
#include <AIToolbox/POMDP/Utils.hpp>
#include <AIToolbox/Seeder.hpp>
#include "vio.hpp"
using namespace AIToolbox;


// A user-defined POMDP model: probability queries only (IsModel but not IsModelEigen), wrapping dense tables.
class GenericPOMDP {
    public:
        GenericPOMDP(const POMDP::Model<MDP::Model> & m) : m_(m) {}
        size_t getS() const { return m_.getS(); }
        size_t getA() const { return m_.getA(); }
        size_t getO() const { return m_.getO(); }
        double getDiscount() const { return m_.getDiscount(); }
        bool isTerminal(size_t s) const { return m_.isTerminal(s); }
        double getTransitionProbability(size_t s, size_t a, size_t s1) const { return m_.getTransitionProbability(s, a, s1); }
        double getExpectedReward(size_t s, size_t a, size_t s1) const { return m_.getExpectedReward(s, a, s1); }
        double getObservationProbability(size_t s1, size_t a, size_t o) const { return m_.getObservationProbability(s1, a, o); }
        std::tuple<size_t, double> sampleSR(size_t s, size_t a) const { return m_.sampleSR(s, a); }
        std::tuple<size_t, size_t, double> sampleSOR(size_t s, size_t a) const { return m_.sampleSOR(s, a); }
    private:
        const POMDP::Model<MDP::Model> & m_;
};
static_assert(POMDP::IsModel<GenericPOMDP>);
static_assert(!POMDP::IsModelEigen<GenericPOMDP>);

// A user-defined Eigen model (IsModelEigen) whose matrix accessors return BY VALUE (e.g. computed on request)
class ByValuePOMDP {
    public:
        ByValuePOMDP(const POMDP::Model<MDP::Model> & m) : m_(m) {}
        size_t getS() const { return m_.getS(); }
        size_t getA() const { return m_.getA(); }
        size_t getO() const { return m_.getO(); }
        double getDiscount() const { return m_.getDiscount(); }
        bool isTerminal(size_t s) const { return m_.isTerminal(s); }
        double getTransitionProbability(size_t s, size_t a, size_t s1) const { return m_.getTransitionProbability(s, a, s1); }
        double getExpectedReward(size_t s, size_t a, size_t s1) const { return m_.getExpectedReward(s, a, s1); }
        double getObservationProbability(size_t s1, size_t a, size_t o) const { return m_.getObservationProbability(s1, a, o); }
        std::tuple<size_t, double> sampleSR(size_t s, size_t a) const { return m_.sampleSR(s, a); }
        std::tuple<size_t, size_t, double> sampleSOR(size_t s, size_t a) const { return m_.sampleSOR(s, a); }
        Matrix2D getTransitionFunction(size_t a) const { return m_.getTransitionFunction(a); }
        Matrix2D getObservationFunction(size_t a) const { return m_.getObservationFunction(a); }
        Matrix2D getRewardFunction() const { return m_.getRewardFunction(); }
    private:
        const POMDP::Model<MDP::Model> & m_;
};
static_assert(POMDP::IsModelEigen<ByValuePOMDP>);

struct Tables { size_t S, A, O; double g; DumbMatrix3D T, R, Ob; };

static Tables readPomdp(vio::Cursor & c) {
    Tables t; t.S = c.nextSize(); t.A = c.nextSize(); t.O = c.nextSize(); t.g = c.nextDouble();
    t.T.resize(boost::extents[t.S][t.A][t.S]); t.R.resize(boost::extents[t.S][t.A][t.S]); t.Ob.resize(boost::extents[t.S][t.A][t.O]);
    for (size_t a = 0; a < t.A; ++a) for (size_t s = 0; s < t.S; ++s) for (size_t s1 = 0; s1 < t.S; ++s1) t.T[s][a][s1] = c.nextDouble();
    for (size_t s = 0; s < t.S; ++s) for (size_t a = 0; a < t.A; ++a) { double r = c.nextDouble(); for (size_t s1 = 0; s1 < t.S; ++s1) t.R[s][a][s1] = r; }
    for (size_t a = 0; a < t.A; ++a) for (size_t s1 = 0; s1 < t.S; ++s1) for (size_t o = 0; o < t.O; ++o) t.Ob[s1][a][o] = c.nextDouble();
    return t;
}

static void dumpVF(vio::Out & o, const POMDP::ValueFunction & vf) {
    o << vf.size();
    for (const auto & l : vf) {
        o << l.size();
        for (const auto & e : l) {
            o << e.action; o.list(e.observations);
            o << (size_t) e.values.size(); for (Eigen::Index i = 0; i < e.values.size(); ++i) o << e.values[i];
        }
    }
}

template <typename M>
static POMDP::ValueFunction solve(const std::string & alg, const M & model, unsigned h, size_t nb, double minR) {
    if (alg == "ip")  { POMDP::IncrementalPruning s(h, 0.0); return std::get<1>(s(model)); }
    if (alg == "wit") { POMDP::Witness s(h, 0.0); return std::get<1>(s(model)); }
    if (alg == "ls")  { POMDP::LinearSupport s(h, 0.0); return std::get<1>(s(model)); }
    if (alg == "pbvi") { POMDP::PBVI s(nb, h, 0.0); return std::get<1>(s(model)); }
    if (alg == "pbviw") {   // warm start: solve, then extend the returned value function by h more steps
        POMDP::PBVI s(nb, h, 0.0); auto vf = std::get<1>(s(model));
        POMDP::PBVI s2(nb, h, 0.0); return std::get<1>(s2(model, vf));
    }
    if (alg == "perseus") { POMDP::PERSEUS s(nb, h, 0.0); return std::get<1>(s(model, minR)); }
    if (alg == "qmdp") { POMDP::QMDP s(h, 0.0); return std::get<1>(s(model)); }
    throw std::logic_error("unknown solver " + alg);
}

// preorder dump of Policy's decisions: "<action> <id>" then, while steps remain, one subtree per obs
static void dumpTree(vio::Out & o, const POMDP::Policy & p, size_t id, unsigned hLeft, size_t O) {
    // hLeft = remaining steps AFTER the action of this node has been taken; the last level
    // (hLeft == 0) dumps the horizon-0 entries the plan finally links to.
    for (size_t ob = 0; ob < O; ++ob) {
        auto [a, nid] = p.sampleAction(id, ob, hLeft);
        o << a << nid;
        if (hLeft > 0) dumpTree(o, p, nid, hLeft - 1, O);
    }
}

int main(int argc, char ** argv) {
    return vio::runCases(argc, argv, [](vio::Cursor & c, vio::Out & o) {
        const std::string kind = c.next();
        if (kind == "plan") {    // plan <alg> <dense|sparse> <h> <nbeliefs> <minR> <seed> <pomdp> <nb> <beliefs…>
            const std::string alg = c.next(); const std::string repr = c.next(); unsigned h = c.nextSize();
            size_t nb = c.nextSize(); double minR = c.nextDouble(); unsigned seed = c.nextSize();
            Tables t = readPomdp(c);
            Seeder::setRootSeed(seed);
            POMDP::Model<MDP::Model> dense(t.O, t.Ob, t.S, t.A, t.T, t.R, t.g);
            POMDP::ValueFunction vf;
            if (repr == "dense") vf = solve(alg, dense, h, nb, minR);
            else if (repr == "generic") { GenericPOMDP g(dense); vf = solve(alg, g, h, nb, minR); }
            else if (repr == "byvalue") { ByValuePOMDP x(dense); vf = solve(alg, x, h, nb, minR); }
            else if (repr == "mixed1") { POMDP::Model<MDP::SparseModel> x(dense); vf = solve(alg, x, h, nb, minR); }
            else if (repr == "mixed2") { POMDP::SparseModel<MDP::Model> x(dense); vf = solve(alg, x, h, nb, minR); }
            else { POMDP::SparseModel<MDP::SparseModel> sp(dense); vf = solve(alg, sp, h, nb, minR); }
            dumpVF(o, vf);
            // execute POMDP::Policy from each belief, following links
            size_t nbel = c.nextSize();
            POMDP::Policy pol(t.S, t.A, t.O, vf);
            const unsigned H = vf.size() - 1;
            o << nbel;
            for (size_t k = 0; k < nbel; ++k) {
                POMDP::Belief b(t.S); for (size_t s = 0; s < t.S; ++s) b[s] = c.nextDouble();
                if (H == 0) { o << "T" << 0 << 0; }
                else {
                    auto [a, id] = pol.sampleAction(b, H);
                    o << "T" << a << id;
                    dumpTree(o, pol, id, H - 1, t.O);
                }
                // the rest of the public interface: P <getH> <getO> <sampleAction(b)> <hl> <a,id at hl> then per action the three probabilities
                const unsigned hl = H / 2;
                auto [al, idl] = pol.sampleAction(b, hl);
                o << "P" << pol.getH() << pol.getO() << pol.sampleAction(b) << hl << al << idl;
                for (size_t x = 0; x < t.A; ++x)
                    o << pol.getActionProbability(b, x) << pol.getActionProbability(b, x, H) << pol.getActionProbability(b, x, hl);
            }
            // two-state problems: probe sampleAction(b, H) just beside every point where two entries of the last list tie
            // (X <n> then n times: b0 b1 action id)
            {
                std::vector<std::array<double, 4>> probes;
                if (t.S == 2 && H >= 1) {
                    const auto & last = vf[H];
                    const size_t n = std::min<size_t>(last.size(), 6);
                    for (size_t i = 0; i < n; ++i) for (size_t j = i + 1; j < n; ++j) {
                        const double d0 = last[i].values[0] - last[j].values[0], d1 = last[i].values[1] - last[j].values[1];
                        if (d0 == d1) continue;
                        const double p = -d1 / (d0 - d1);       // p*d0 + (1-p)*d1 == 0
                        if (!(p > 0.0 && p < 1.0)) continue;
                        for (double delta : {1.0 / 16777216.0, -1.0 / 16777216.0}) {
                            double q = p + delta; if (!(q > 0.0 && q < 1.0)) continue;
                            POMDP::Belief bb(2); bb[0] = q; bb[1] = 1.0 - q;
                            auto [a, id] = pol.sampleAction(bb, H);
                            probes.push_back({bb[0], bb[1], (double) a, (double) id});
                        }
                    }
                }
                o << "X" << probes.size();
                for (auto & pr : probes) o << pr[0] << pr[1] << (size_t) pr[2] << (size_t) pr[3];
            }
        } else if (kind == "csbb") {   // csbb <pomdp> <nw> <w vectors…> <nb> <beliefs…>
            Tables t = readPomdp(c);
            POMDP::Model<MDP::Model> model(t.O, t.Ob, t.S, t.A, t.T, t.R, t.g);
            size_t nw = c.nextSize();
            POMDP::VList w;
            for (size_t i = 0; i < nw; ++i) {
                MDP::Values v(t.S); for (size_t s = 0; s < t.S; ++s) v[s] = c.nextDouble();
                w.emplace_back(std::move(v), 0, POMDP::VObs(t.O, 0));
            }
            POMDP::Projecter projecter(model);
            auto projs = projecter(w);
            size_t nbel = c.nextSize();
            o << nbel;
            for (size_t k = 0; k < nbel; ++k) {
                POMDP::Belief b(t.S); for (size_t s = 0; s < t.S; ++s) b[s] = c.nextDouble();
                for (size_t a = 0; a < t.A; ++a) {
                    double val;
                    auto e = POMDP::crossSumBestAtBelief(b, projs[a], a, &val);
                    o << e.action; o.list(e.observations);
                    o << (size_t) e.values.size(); for (Eigen::Index i = 0; i < e.values.size(); ++i) o << e.values[i];
                    o << val;
                }
                double val;
                auto e = POMDP::crossSumBestAtBelief(b, projs, &val);
                o << e.action; o.list(e.observations); o << val;
            }
        } else throw std::logic_error("unknown case kind " + kind);
    });
}
