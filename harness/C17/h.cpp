// harness/C17/h.cpp — drives the real operator<< / operator>> of src/MDP/IO.cpp, src/POMDP/IO.cpp
// (and through them src/Utils/IO.cpp) on exact cases.
//
// case:  <kind> <dims> <object X> <destination D> <nc> (<posseed> <tok>)^nc <nv> <tok>^nv
// kinds: model smodel exp sexp pol pmodel spmodel ppol
// output: T <tokens of the written text>  X <dump X>  D <dump D>  RT <status> <dump|=>  RTS <status> <dump|=>
//         then for every truncation point n = 0..ntok-1:            <status> <dump|=>
//         then for every listed corruption (pos = posseed mod ntok): <status> <dump|=>
//         then for every position and every vocabulary token:        <status> <dump|=>
// status: ok | fail | throw ; "=" means "dump identical to D's dump", otherwise "# <dump>".
// The replacement token "<del>" deletes the token instead.
#include <AIToolbox/MDP/IO.hpp>
#include <AIToolbox/POMDP/IO.hpp>
#include <AIToolbox/MDP/Model.hpp>
#include <AIToolbox/MDP/SparseModel.hpp>
#include <AIToolbox/MDP/Experience.hpp>
#include <AIToolbox/MDP/SparseExperience.hpp>
#include <AIToolbox/MDP/Policies/Policy.hpp>
#include <AIToolbox/POMDP/Model.hpp>
#include <AIToolbox/POMDP/SparseModel.hpp>
#include <AIToolbox/POMDP/Policies/Policy.hpp>
#include <AIToolbox/POMDP/Utils.hpp>
#include <memory>
#include "vio.hpp"

using namespace AIToolbox;

// ---- a dump is a vector of strings (hex floats / integers), compared as strings = bitwise ----
struct Dump {
    std::vector<std::string> v;
    void d(double x) { char b[64]; if (std::isnan(x)) std::snprintf(b, sizeof b, "nan"); else if (std::isinf(x)) std::snprintf(b, sizeof b, x > 0 ? "inf" : "-inf"); else std::snprintf(b, sizeof b, "%a", x); v.push_back(b); }
    void u(unsigned long x) { v.push_back(std::to_string(x)); }
    bool operator==(const Dump & o) const { return v == o.v; }
};

static void dumpMat(Dump & o, const Matrix2D & m) { for (long i = 0; i < m.rows(); ++i) for (long j = 0; j < m.cols(); ++j) o.d(m(i, j)); }
static void dumpSMat(Dump & o, const SparseMatrix2D & m) {
    size_t n = 0;
    for (int k = 0; k < m.outerSize(); ++k) for (SparseMatrix2D::InnerIterator it(m, k); it; ++it) ++n;
    o.u(n);
    for (int k = 0; k < m.outerSize(); ++k) for (SparseMatrix2D::InnerIterator it(m, k); it; ++it) { o.u(it.row()); o.u(it.col()); o.d(it.value()); }
}
static void dumpSTab(Dump & o, const SparseTable2D & m) {
    size_t n = 0;
    for (int k = 0; k < m.outerSize(); ++k) for (SparseTable2D::InnerIterator it(m, k); it; ++it) ++n;
    o.u(n);
    for (int k = 0; k < m.outerSize(); ++k) for (SparseTable2D::InnerIterator it(m, k); it; ++it) { o.u(it.row()); o.u(it.col()); o.u(it.value()); }
}

static Dump dump(const MDP::Model & m) {
    Dump o; o.u(m.getS()); o.u(m.getA()); o.d(m.getDiscount());
    for (const auto & t : m.getTransitionFunction()) dumpMat(o, t);
    dumpMat(o, m.getRewardFunction()); return o;
}
static Dump dump(const MDP::SparseModel & m) {
    Dump o; o.u(m.getS()); o.u(m.getA()); o.d(m.getDiscount());
    for (const auto & t : m.getTransitionFunction()) dumpSMat(o, t);
    dumpSMat(o, m.getRewardFunction()); return o;
}
static Dump dump(const MDP::Experience & e) {
    Dump o; o.u(e.getS()); o.u(e.getA()); o.u(e.getTimesteps());
    for (const auto & t : e.getVisitsTable()) for (long i = 0; i < t.rows(); ++i) for (long j = 0; j < t.cols(); ++j) o.u(t(i, j));
    for (size_t s = 0; s < e.getS(); ++s) for (size_t a = 0; a < e.getA(); ++a) o.u(e.getVisitsSum(s, a));
    dumpMat(o, e.getRewardMatrix()); dumpMat(o, e.getM2Matrix()); return o;
}
static Dump dump(const MDP::SparseExperience & e) {
    Dump o; o.u(e.getS()); o.u(e.getA()); o.u(e.getTimesteps());
    for (const auto & t : e.getVisitsTable()) dumpSTab(o, t);
    for (size_t s = 0; s < e.getS(); ++s) for (size_t a = 0; a < e.getA(); ++a) o.u(e.getVisitsSum(s, a));
    dumpSMat(o, e.getRewardMatrix()); dumpSMat(o, e.getM2Matrix()); return o;
}
static Dump dump(const MDP::Policy & p) {
    Dump o; o.u(p.getS()); o.u(p.getA()); dumpMat(o, p.getPolicy()); return o;
}
static Dump dump(const POMDP::Model<MDP::Model> & m) {
    Dump o = dump(static_cast<const MDP::Model &>(m)); o.u(m.getO());
    for (const auto & t : m.getObservationFunction()) dumpMat(o, t); return o;
}
static Dump dump(const POMDP::SparseModel<MDP::SparseModel> & m) {
    Dump o = dump(static_cast<const MDP::SparseModel &>(m)); o.u(m.getO());
    for (const auto & t : m.getObservationFunction()) dumpSMat(o, t); return o;
}
static Dump dump(const POMDP::Policy & p) {
    Dump o; o.u(p.getS()); o.u(p.getA()); o.u(p.getO()); o.u(p.getH());
    const auto & vf = p.getValueFunction();
    o.u(vf.size());
    for (const auto & vl : vf) {
        o.u(vl.size());
        for (const auto & e : vl) {
            o.u(e.values.size()); for (long i = 0; i < e.values.size(); ++i) o.d(e.values[i]);
            o.u(e.action);
            o.u(e.observations.size()); for (auto x : e.observations) o.u(x);
        }
    }
    return o;
}

// ---- object construction from the case ----
static Matrix2D rdMat(vio::Cursor & c, size_t r, size_t k) {
    Matrix2D m(r, k); for (size_t i = 0; i < r; ++i) for (size_t j = 0; j < k; ++j) m(i, j) = c.nextDouble(); return m;
}
static Matrix3D rdMat3(vio::Cursor & c, size_t n, size_t r, size_t k) {
    Matrix3D m; for (size_t i = 0; i < n; ++i) m.push_back(rdMat(c, r, k)); return m;
}
static SparseMatrix2D sparsify(const Matrix2D & d) {
    SparseMatrix2D m(d.rows(), d.cols());
    for (long i = 0; i < d.rows(); ++i) for (long j = 0; j < d.cols(); ++j) if (d(i, j) != 0.0) m.insert(i, j) = d(i, j);
    m.makeCompressed(); return m;
}
static SparseMatrix3D sparsify(const Matrix3D & d) { SparseMatrix3D m; for (const auto & x : d) m.push_back(sparsify(x)); return m; }
static Table2D rdTab(vio::Cursor & c, size_t r, size_t k) {
    Table2D m(r, k); for (size_t i = 0; i < r; ++i) for (size_t j = 0; j < k; ++j) m(i, j) = c.nextSize(); return m;
}
static SparseTable2D sparsify(const Table2D & d) {
    SparseTable2D m(d.rows(), d.cols());
    for (long i = 0; i < d.rows(); ++i) for (long j = 0; j < d.cols(); ++j) if (d(i, j) != 0) m.insert(i, j) = d(i, j);
    m.makeCompressed(); return m;
}

struct Dims { size_t S, A, O; };

template <typename T> T build(vio::Cursor & c, const Dims & d);

template <> MDP::Model build<MDP::Model>(vio::Cursor & c, const Dims & d) {
    double disc = c.nextDouble(); auto t = rdMat3(c, d.A, d.S, d.S); auto r = rdMat(c, d.S, d.A);
    return MDP::Model(NO_CHECK, d.S, d.A, std::move(t), std::move(r), disc);
}
template <> MDP::SparseModel build<MDP::SparseModel>(vio::Cursor & c, const Dims & d) {
    double disc = c.nextDouble(); auto t = sparsify(rdMat3(c, d.A, d.S, d.S)); auto r = sparsify(rdMat(c, d.S, d.A));
    return MDP::SparseModel(NO_CHECK, d.S, d.A, std::move(t), std::move(r), disc);
}
template <> MDP::Experience build<MDP::Experience>(vio::Cursor & c, const Dims & d) {
    MDP::Experience e(d.S, d.A);
    size_t ts = c.nextSize(); for (size_t i = 0; i < ts; ++i) e.record(0, 0, 0, 0.0);
    Table3D v; for (size_t a = 0; a < d.A; ++a) v.push_back(rdTab(c, d.S, d.S));
    e.setVisitsTable(v); e.setRewardMatrix(rdMat(c, d.S, d.A)); e.setM2Matrix(rdMat(c, d.S, d.A));
    return e;
}
template <> MDP::SparseExperience build<MDP::SparseExperience>(vio::Cursor & c, const Dims & d) {
    MDP::SparseExperience e(d.S, d.A);
    size_t ts = c.nextSize(); for (size_t i = 0; i < ts; ++i) e.record(0, 0, 0, 0.0);
    SparseTable3D v; for (size_t a = 0; a < d.A; ++a) v.push_back(sparsify(rdTab(c, d.S, d.S)));
    e.setVisitsTable(v); e.setRewardMatrix(sparsify(rdMat(c, d.S, d.A))); e.setM2Matrix(sparsify(rdMat(c, d.S, d.A)));
    return e;
}
template <> MDP::Policy build<MDP::Policy>(vio::Cursor & c, const Dims & d) {
    return MDP::Policy(rdMat(c, d.S, d.A));
}
template <> POMDP::Model<MDP::Model> build<POMDP::Model<MDP::Model>>(vio::Cursor & c, const Dims & d) {
    double disc = c.nextDouble(); auto t = rdMat3(c, d.A, d.S, d.S); auto r = rdMat(c, d.S, d.A);
    auto o = rdMat3(c, d.A, d.S, d.O);
    return POMDP::Model<MDP::Model>(NO_CHECK, d.O, std::move(o), NO_CHECK, d.S, d.A, std::move(t), std::move(r), disc);
}
template <> POMDP::SparseModel<MDP::SparseModel> build<POMDP::SparseModel<MDP::SparseModel>>(vio::Cursor & c, const Dims & d) {
    double disc = c.nextDouble(); auto t = sparsify(rdMat3(c, d.A, d.S, d.S)); auto r = sparsify(rdMat(c, d.S, d.A));
    auto o = sparsify(rdMat3(c, d.A, d.S, d.O));
    return POMDP::SparseModel<MDP::SparseModel>(NO_CHECK, d.O, std::move(o), NO_CHECK, d.S, d.A, std::move(t), std::move(r), disc);
}
template <> POMDP::Policy build<POMDP::Policy>(vio::Cursor & c, const Dims & d) {
    auto vf = POMDP::makeValueFunction(d.S);
    size_t H = c.nextSize();
    for (size_t h = 1; h <= H; ++h) {
        size_t n = c.nextSize(); POMDP::VList vl;
        for (size_t i = 0; i < n; ++i) {
            MDP::Values v(d.S); for (size_t s = 0; s < d.S; ++s) v[s] = c.nextDouble();
            size_t a = c.nextSize();
            POMDP::VObs ob(d.O); for (auto & x : ob) x = c.nextSize();
            vl.emplace_back(std::move(v), a, std::move(ob));
        }
        vf.push_back(std::move(vl));
    }
    return POMDP::Policy(d.S, d.A, d.O, vf);
}

// A fresh destination with D's content.  MDP::Policy is rebuilt from its matrix: its implicit
// copy constructor copies PolicyWrapper's reference member, so a copy would alias D's table.
template <typename T> static T clone(const T & D) { return D; }
template <> MDP::Policy clone<MDP::Policy>(const MDP::Policy & D) { return MDP::Policy(D.getPolicy()); }

// ---- one load experiment ----
template <typename T>
static void load(vio::Out & o, const std::string & text, const T & D, const Dump & dD) {
    T dest = clone(D);
    std::istringstream is(text);
    const char * st;
    try { is >> dest; st = is.fail() ? "fail" : "ok"; }
    catch (const std::exception &) { st = "throw"; }
    o << st;
    Dump after = dump(dest);
    if (after == dD) o << "=";
    else { o << "#"; o.list(after.v); }
}

static std::string join(const std::vector<std::string> & t, size_t n) {
    std::string s; for (size_t i = 0; i < n; ++i) { if (i) s += ' '; s += t[i]; } return s;
}

template <typename T>
static void run(vio::Cursor & c, vio::Out & o, const Dims & d) {
    T X = build<T>(c, d);
    T D = build<T>(c, d);
    std::ostringstream os; os << X;
    const std::string text = os.str();
    std::vector<std::string> toks; { std::istringstream ts(text); std::string t; while (ts >> t) toks.push_back(t); }
    const Dump dX = dump(X), dD = dump(D);
    o << "T"; o.list(toks);
    o << "X"; o.list(dX.v);
    o << "D"; o.list(dD.v);
    o << "RT"; load(o, text, D, dD);
    // the same text with the trailing whitespace stripped: the last number is the last byte of
    // the stream, so its extraction succeeds and sets eofbit
    o << "RTS"; load(o, join(toks, toks.size()), D, dD);
    for (size_t n = 0; n < toks.size(); ++n) load(o, join(toks, n), D, dD);
    // corrupted texts alternately end in a newline and end right after the last token
    size_t ncorr = 0;
    auto corrupt = [&](size_t pos, const std::string & rep) {
        std::vector<std::string> t2 = toks;
        if (rep == "<del>") t2.erase(t2.begin() + pos); else t2[pos] = rep;
        load(o, join(t2, t2.size()) + ((ncorr++ % 2) ? "\n" : ""), D, dD);
    };
    size_t nc = c.nextSize();
    for (size_t i = 0; i < nc; ++i) { size_t ps = c.nextSize(); std::string rep = c.next(); if (!toks.empty()) corrupt(ps % toks.size(), rep); }
    size_t nv = c.nextSize(); std::vector<std::string> vocab; for (size_t i = 0; i < nv; ++i) vocab.push_back(c.next());
    for (size_t p = 0; p < toks.size(); ++p) for (const auto & rep : vocab) corrupt(p, rep);
}


// Writing through a stream whose formatting state was preset by the caller (precision, floatfield,
// showpos/showpoint/uppercase, adjustfield, width, fill): the written text must still load back
// as the identical object, and the writer must hand the stream back with the caller's precision.
// case: fmt <precision> <flagmask> <width> <fillchar code> <kind> <dims> <X> <D>
// flagmask: 1 fixed, 2 scientific, 4 showpos, 8 showpoint, 16 uppercase, 32 left, 64 internal, 128 right,
//           256 hex basefield, 512 showbase, 1024 boolalpha, 2048 unitbuf
// output: T <tokens> X <dump> D <dump> RT <status> <dump|=> P <precision after the write>
template <typename T>
static void runFmt(vio::Cursor & c, vio::Out & o, const Dims & d, long prec, unsigned long mask, long width, char fill) {
    T X = build<T>(c, d);
    T D = build<T>(c, d);
    std::ostringstream os;
    os.precision(prec);
    if (mask & 1) os.setf(std::ios::fixed);
    if (mask & 2) os.setf(std::ios::scientific);
    if (mask & 4) os.setf(std::ios::showpos);
    if (mask & 8) os.setf(std::ios::showpoint);
    if (mask & 16) os.setf(std::ios::uppercase);
    if (mask & 32) os.setf(std::ios::left, std::ios::adjustfield);
    if (mask & 64) os.setf(std::ios::internal, std::ios::adjustfield);
    if (mask & 128) os.setf(std::ios::right, std::ios::adjustfield);
    if (mask & 256) os.setf(std::ios::hex, std::ios::basefield);
    if (mask & 512) os.setf(std::ios::showbase);
    if (mask & 1024) os.setf(std::ios::boolalpha);
    if (mask & 2048) os.setf(std::ios::unitbuf);
    os.fill(fill);
    os.width(width);
    os << X;
    const long precAfter = os.precision();
    const std::string text = os.str();
    std::vector<std::string> toks; { std::istringstream ts(text); std::string t; while (ts >> t) toks.push_back(t); }
    const Dump dX = dump(X), dD = dump(D);
    o << "T"; o.list(toks);
    o << "X"; o.list(dX.v);
    o << "D"; o.list(dD.v);
    o << "RT"; load(o, text, D, dD);
    o << "P" << precAfter;
}


// The 6-digit collapse behind the POMDP::Policy writer defect: prints two doubles through the
// real writer and reports the two texts.
static void digits(vio::Cursor & c, vio::Out & o) {
    double a = c.nextDouble(), b = c.nextDouble();
    auto text = [](double x) {
        auto vf = POMDP::makeValueFunction(1);
        MDP::Values v(1); v[0] = x; POMDP::VList vl; vl.emplace_back(std::move(v), 0, POMDP::VObs(1, 0));
        vf.push_back(std::move(vl));
        POMDP::Policy p(1, 1, 1, vf); std::ostringstream os; os << p;
        std::istringstream ts(os.str()); std::string t; ts >> t; return t; };
    o << text(a) << text(b);
}

// MDP::Policy obtained by copy construction and then loaded into: the loaded object, seen
// through its public interface, must be the written one and the copy's source must not change.
// case: polcopy S A <X> <D>   output: T <tokens> X <dump> D <dump> <status> <dump of the copy> <dump of D afterwards>
static void polcopy(vio::Cursor & c, vio::Out & o) {
    Dims d; d.S = c.nextSize(); d.A = c.nextSize(); d.O = 0;
    MDP::Policy X = build<MDP::Policy>(c, d);
    auto src = std::make_unique<MDP::Policy>(build<MDP::Policy>(c, d));
    const Dump dX = dump(X), dD = dump(*src);
    std::ostringstream os; os << X;
    std::vector<std::string> toks; { std::istringstream ts(os.str()); std::string t; while (ts >> t) toks.push_back(t); }
    MDP::Policy copy(*src);                       // copy constructor
    std::istringstream is(os.str());
    const char * st;
    try { is >> copy; st = is.fail() ? "fail" : "ok"; } catch (const std::exception &) { st = "throw"; }
    o << "T"; o.list(toks); o << "X"; o.list(dX.v); o << "D"; o.list(dD.v);
    o << st; o.list(dump(copy).v); o.list(dump(*src).v);
    // the copy must also survive its source
    src.reset();
    Dump after;
    try { after = dump(copy); } catch (const std::exception &) { after.v = {"dangling"}; }
    o.list(after.v);
}

int main(int argc, char ** argv) {
    return vio::runCases(argc, argv, [](vio::Cursor & c, vio::Out & o) {
        const std::string kind = c.next();
        if (kind == "digits") { digits(c, o); return; }
        if (kind == "polcopy") { polcopy(c, o); return; }
        if (kind == "fmt") {
            long prec = c.nextInt(); unsigned long mask = c.nextSize(); long width = c.nextInt(); char fill = static_cast<char>(c.nextInt());
            const std::string k2 = c.next();
            Dims d; d.S = c.nextSize(); d.A = c.nextSize(); d.O = 0;
            if (k2 == "pmodel" || k2 == "spmodel" || k2 == "ppol") d.O = c.nextSize();
            if (k2 == "model") runFmt<MDP::Model>(c, o, d, prec, mask, width, fill);
            else if (k2 == "smodel") runFmt<MDP::SparseModel>(c, o, d, prec, mask, width, fill);
            else if (k2 == "exp") runFmt<MDP::Experience>(c, o, d, prec, mask, width, fill);
            else if (k2 == "sexp") runFmt<MDP::SparseExperience>(c, o, d, prec, mask, width, fill);
            else if (k2 == "pol") runFmt<MDP::Policy>(c, o, d, prec, mask, width, fill);
            else if (k2 == "pmodel") runFmt<POMDP::Model<MDP::Model>>(c, o, d, prec, mask, width, fill);
            else if (k2 == "spmodel") runFmt<POMDP::SparseModel<MDP::SparseModel>>(c, o, d, prec, mask, width, fill);
            else if (k2 == "ppol") runFmt<POMDP::Policy>(c, o, d, prec, mask, width, fill);
            else throw std::logic_error("unknown case kind " + k2);
            return;
        }
        Dims d; d.S = c.nextSize(); d.A = c.nextSize(); d.O = 0;
        if (kind == "pmodel" || kind == "spmodel" || kind == "ppol") d.O = c.nextSize();
        if (kind == "model") run<MDP::Model>(c, o, d);
        else if (kind == "smodel") run<MDP::SparseModel>(c, o, d);
        else if (kind == "exp") run<MDP::Experience>(c, o, d);
        else if (kind == "sexp") run<MDP::SparseExperience>(c, o, d);
        else if (kind == "pol") run<MDP::Policy>(c, o, d);
        else if (kind == "pmodel") run<POMDP::Model<MDP::Model>>(c, o, d);
        else if (kind == "spmodel") run<POMDP::SparseModel<MDP::SparseModel>>(c, o, d);
        else if (kind == "ppol") run<POMDP::Policy>(c, o, d);
        else throw std::logic_error("unknown case kind " + kind);
    });
}
