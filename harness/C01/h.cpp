// harness/C01/h.cpp — runs the real MDP planners (ValueIteration, PolicyEvaluation, PolicyIteration,
// LinearProgramming) on MDP::Model, MDP::SparseModel and a user-defined probability-query-only
// model built from the same exact tables.
#include <AIToolbox/MDP/Model.hpp>
#include <AIToolbox/MDP/SparseModel.hpp>
#include <AIToolbox/MDP/Experience.hpp>
#include <AIToolbox/MDP/MaximumLikelihoodModel.hpp>
#include <AIToolbox/MDP/Algorithms/ValueIteration.hpp>
#include <AIToolbox/MDP/Algorithms/PolicyIteration.hpp>
#include <AIToolbox/MDP/Algorithms/LinearProgramming.hpp>
#include <AIToolbox/MDP/Algorithms/Utils/PolicyEvaluation.hpp>
#include <AIToolbox/MDP/Policies/Policy.hpp>
#include <optional>
#include <memory>
#include "vio.hpp"

using namespace AIToolbox;
using namespace AIToolbox::MDP;

using T3 = std::vector<std::vector<std::vector<double>>>;

// A model that offers only the probability-query interface of the library's IsModel concept:
// no getTransitionFunction()/getRewardFunction(), so every algorithm takes its non-Eigen branch.
class UserModel {
    public:
        UserModel(size_t s, size_t a, T3 t, T3 r, double d) : S(s), A(a), t_(std::move(t)), r_(std::move(r)), d_(d) {}
        size_t getS() const { return S; }
        size_t getA() const { return A; }
        double getDiscount() const { return d_; }
        double getTransitionProbability(size_t s, size_t a, size_t s1) const { return t_[s][a][s1]; }
        double getExpectedReward(size_t s, size_t a, size_t s1) const { return r_[s][a][s1]; }
        std::tuple<size_t, double> sampleSR(size_t s, size_t a) const {
            // deterministic: first successor with positive probability (never used by the planners)
            for (size_t s1 = 0; s1 < S; ++s1) if (t_[s][a][s1] > 0.0) return {s1, r_[s][a][s1]};
            return {s, 0.0};
        }
        bool isTerminal(size_t) const { return false; }
    private:
        size_t S, A; T3 t_, r_; double d_;
};
static_assert(IsModel<UserModel>);
static_assert(!IsModelEigen<UserModel>);
static_assert(IsModelEigen<Model>);
static_assert(IsModelEigen<SparseModel>);

// A table model seen only through its query interface (hides the Eigen accessors of MDP::Model).
class QueryOnly {
    public:
        QueryOnly(const Model & m) : m_(m) {}
        size_t getS() const { return m_.getS(); }
        size_t getA() const { return m_.getA(); }
        double getDiscount() const { return m_.getDiscount(); }
        double getTransitionProbability(size_t s, size_t a, size_t s1) const { return m_.getTransitionProbability(s, a, s1); }
        double getExpectedReward(size_t s, size_t a, size_t s1) const { return m_.getExpectedReward(s, a, s1); }
        std::tuple<size_t, double> sampleSR(size_t s, size_t a) const { return m_.sampleSR(s, a); }
        bool isTerminal(size_t s) const { return m_.isTerminal(s); }
    private:
        const Model & m_;
};
static_assert(IsModel<QueryOnly> && !IsModelEigen<QueryOnly>);

static T3 readT3(vio::Cursor & c, size_t S, size_t A) {
    T3 t(S, std::vector<std::vector<double>>(A, std::vector<double>(S)));
    for (size_t s = 0; s < S; ++s) for (size_t a = 0; a < A; ++a) for (size_t s1 = 0; s1 < S; ++s1)
        t[s][a][s1] = c.nextDouble();
    return t;
}

static void outQ(vio::Out & o, const QFunction & q) {
    o << (size_t) q.rows() << (size_t) q.cols();
    for (Eigen::Index s = 0; s < q.rows(); ++s) for (Eigen::Index a = 0; a < q.cols(); ++a) o << q(s, a);
}
static void outV(vio::Out & o, const Values & v) {
    o << (size_t) v.size();
    for (Eigen::Index s = 0; s < v.size(); ++s) o << v[s];
}

template <typename M>
static void runVI(vio::Out & o, const M & m, unsigned h, double tol, const std::vector<double> & v0) {
    ValueFunction start{Values(), Actions(0)};
    if (!v0.empty()) {
        start.values = Eigen::Map<const Vector>(v0.data(), v0.size());
        start.actions = Actions(v0.size(), 0);
    }
    ValueIteration vi(h, tol, start);
    auto [var, vf, q] = vi(m);
    o << var; outV(o, vf.values); o.list(vf.actions); outQ(o, q);
}

template <typename M>
static void runPE(vio::Out & o, const M & m, const Matrix2D & pol, unsigned h, double tol, const std::vector<double> & v0) {
    Policy p(pol);
    Values start;
    if (!v0.empty()) start = Eigen::Map<const Vector>(v0.data(), v0.size());
    PolicyEvaluation<M> pe(m, h, tol, start);
    auto [var, v, q] = pe(p);
    o << var; outV(o, v); outQ(o, q);
}

// MDP::SparseModel may reject tables whose stored rows (entries <= 1e-6 dropped) are no longer
// distributions; the other representations are built from the same tables regardless.
static std::unique_ptr<SparseModel> mkSparse(size_t S, size_t A, const T3 & t, const T3 & r, double gamma) {
    try { return std::make_unique<SparseModel>(S, A, t, r, gamma); }
    catch (const std::invalid_argument &) { return nullptr; }
}

static void outLP(vio::Out & o, const std::tuple<double, ValueFunction, QFunction> & res) {
    o << std::get<0>(res); outV(o, std::get<1>(res).values); o.list(std::get<1>(res).actions); outQ(o, std::get<2>(res));
}

// One solver object of each kind is reused over a sequence of models (same or different shapes) and
// over all representations: the answers must depend on the MDP handed in, not on earlier calls.
static void runSequence(vio::Cursor & c, vio::Out & o) {
    const size_t k = c.nextSize();
    const unsigned h = (unsigned) c.nextSize();
    const double tol = c.nextDouble();
    const unsigned hpi = (unsigned) c.nextSize();
    std::vector<double> v0 = c.nextDoubles();
    ValueFunction start{Values(), Actions(0)};
    Values startValues;
    if (!v0.empty()) {
        start.values = Eigen::Map<const Vector>(v0.data(), v0.size());
        start.actions = Actions(v0.size(), 0);
        startValues = start.values;
    }
    ValueIteration vi(h, tol, start);
    PolicyIteration pi(hpi, 0.0);
    LinearProgramming lp;
    auto emitVI = [&](const auto & m) {
        auto [var, vf, q] = vi(m);
        o << var; outV(o, vf.values); o.list(vf.actions); outQ(o, q);
    };
    for (size_t i = 0; i < k; ++i) {
        const size_t S = c.nextSize(), A = c.nextSize();
        const double gamma = c.nextDouble();
        (void) c.nextSize();    // bits per sweep (driver only)
        T3 t = readT3(c, S, A), r = readT3(c, S, A);
        Matrix2D pol1(S, A), pol2(S, A);
        for (size_t s = 0; s < S; ++s) for (size_t a = 0; a < A; ++a) pol1(s, a) = c.nextDouble();
        for (size_t s = 0; s < S; ++s) for (size_t a = 0; a < A; ++a) pol2(s, a) = c.nextDouble();
        Model dense(S, A, t, r, gamma);
        auto sparse = mkSparse(S, A, t, r, gamma);
        UserModel user(S, A, t, r, gamma);
        QueryOnly qo(dense);
        // ValueIteration: the same object on every representation of every model
        emitVI(dense); o << (bool) sparse; if (sparse) emitVI(*sparse); emitVI(user); emitVI(qo);
        // PolicyEvaluation: one object per (model, representation), reused over two policies
        PolicyEvaluation<Model> peD(dense, h, tol, startValues);
        std::unique_ptr<PolicyEvaluation<SparseModel>> peS;
        if (sparse) peS = std::make_unique<PolicyEvaluation<SparseModel>>(*sparse, h, tol, startValues);
        PolicyEvaluation<UserModel> peU(user, h, tol, startValues);
        PolicyEvaluation<QueryOnly> peQ(qo, h, tol, startValues);
        for (const Matrix2D * pm : {&pol1, &pol2}) {
            Policy p(*pm);
            auto emitPE = [&](auto & pe) { auto [var, v, q] = pe(p); o << var; outV(o, v); outQ(o, q); };
            emitPE(peD); o << (bool) sparse; if (sparse) emitPE(*peS); emitPE(peU); emitPE(peQ);
        }
        // PolicyIteration and LinearProgramming: the same objects on the dense and the user model
        outQ(o, pi(dense)); outQ(o, pi(user));
        outLP(o, lp(dense)); outLP(o, lp(user));
        o << (bool) sparse; if (sparse) outLP(o, lp(*sparse));
    }
}

// A model object is built once, long-lived solvers are built once (PolicyEvaluation keeps a reference to
// its model), then the model is MUTATED through its setters between calls: every call must answer for
// the tables the model holds at that call.
static void runMutation(vio::Cursor & c, vio::Out & o, size_t S, size_t A, double gamma0) {
    const size_t k = c.nextSize();
    const unsigned h = (unsigned) c.nextSize();
    const double tol = c.nextDouble();
    const unsigned hpi = (unsigned) c.nextSize();
    (void) c.nextSize();    // bits per sweep (driver only)
    std::vector<double> v0 = c.nextDoubles();
    ValueFunction start{Values(), Actions(0)};
    Values startValues;
    if (!v0.empty()) {
        start.values = Eigen::Map<const Vector>(v0.data(), v0.size());
        start.actions = Actions(v0.size(), 0);
        startValues = start.values;
    }
    T3 t = readT3(c, S, A), r = readT3(c, S, A);
    Model dense(S, A, t, r, gamma0);
    SparseModel sparse(S, A, t, r, gamma0);
    PolicyEvaluation<Model> peD(dense, h, tol, startValues);
    PolicyEvaluation<SparseModel> peS(sparse, h, tol, startValues);
    ValueIteration vi(h, tol, start);
    PolicyIteration pi(hpi, 0.0);
    LinearProgramming lp;
    auto callAll = [&]() {
        Matrix2D pol(S, A);
        for (size_t s = 0; s < S; ++s) for (size_t a = 0; a < A; ++a) pol(s, a) = c.nextDouble();
        Policy p(pol);
        { auto [var, v, q] = peD(p); o << var; outV(o, v); outQ(o, q); }
        { auto [var, v, q] = peS(p); o << var; outV(o, v); outQ(o, q); }
        { auto [var, vf, q] = vi(dense);  o << var; outV(o, vf.values); o.list(vf.actions); outQ(o, q); }
        { auto [var, vf, q] = vi(sparse); o << var; outV(o, vf.values); o.list(vf.actions); outQ(o, q); }
        outQ(o, pi(dense)); outQ(o, pi(sparse));
        outLP(o, lp(dense)); outLP(o, lp(sparse));
    };
    callAll();
    for (size_t i = 0; i < k; ++i) {
        const std::string ops = c.next();
        for (char ch : ops) {
            if (ch == 'T') { t = readT3(c, S, A); dense.setTransitionFunction(t); sparse.setTransitionFunction(t); }
            else if (ch == 'R') { r = readT3(c, S, A); dense.setRewardFunction(r); sparse.setRewardFunction(r); }
            else if (ch == 'D') { const double d = c.nextDouble(); dense.setDiscount(d); sparse.setDiscount(d); }
            else throw std::logic_error("mut: unknown op");
        }
        callAll();
    }
}

// Deterministic corridor on which Howard policy iteration needs about n improvement rounds:
// states 0..n-2 either bail out (action 0) into the absorbing zero-reward sink n for a one-off payment
// c_i, or walk (action 1, reward 0) to i+1; state n-1 is an absorbing goal paying 1 per step.
static void runChain(vio::Cursor & c, vio::Out & o, size_t S, size_t A, double gamma) {
    const double tol = c.nextDouble();
    const unsigned h = (unsigned) c.nextSize();
    std::vector<double> pay = c.nextDoubles();
    const size_t n = S - 1;
    if (A != 2 || pay.size() + 1 != n) throw std::logic_error("chain: bad shape");
    Model::TransitionMatrix T(A, Matrix2D::Zero(S, S));
    Matrix2D R = Matrix2D::Zero(S, A);
    for (size_t i = 0; i + 1 < n; ++i) { T[0](i, n) = 1.0; R(i, 0) = pay[i]; T[1](i, i + 1) = 1.0; }
    for (size_t a = 0; a < A; ++a) { T[a](n - 1, n - 1) = 1.0; R(n - 1, a) = 1.0; T[a](n, n) = 1.0; }
    Model dense(S, A, gamma);
    dense.setTransitionFunction(T);
    dense.setRewardFunction(R);
    SparseModel sparse(dense);
    { ValueIteration vi(h, tol); auto [var, vf, q] = vi(dense); o << var; outV(o, vf.values); o.list(vf.actions); outQ(o, q); }
    { PolicyIteration pi(h, tol); outQ(o, pi(dense)); }
    { PolicyIteration pi(h, tol); outQ(o, pi(sparse)); }
    { LinearProgramming lp; outLP(o, lp(dense)); }
}

int main(int argc, char ** argv) {
    return vio::runCases(argc, argv, [](vio::Cursor & c, vio::Out & o) {
        const std::string kind = c.next();
        const std::string regime = c.next();        // "dy" | "ge" (used by the driver only)
        (void) regime;
        if (kind == "seq") { runSequence(c, o); return; }
        const size_t S = c.nextSize(), A = c.nextSize();
        const double gamma = c.nextDouble();
        if (kind == "mut") { runMutation(c, o, S, A, gamma); return; }
        if (kind == "chain") { runChain(c, o, S, A, gamma); return; }
        if (kind == "vi" || kind == "pe") {
            // <h> <tol> <T[s][a][s1]> <R[s][a][s1]> <v0 list> [pol S*A]
            const unsigned h = (unsigned) c.nextSize();
            const double tol = c.nextDouble();
            T3 t = readT3(c, S, A), r = readT3(c, S, A);
            std::vector<double> v0 = c.nextDoubles();
            Model dense(S, A, t, r, gamma);
            auto sparse = mkSparse(S, A, t, r, gamma);
            UserModel user(S, A, t, r, gamma);
            QueryOnly qo(dense);
            if (kind == "vi") {
                runVI(o, dense, h, tol, v0); o << (bool) sparse; if (sparse) runVI(o, *sparse, h, tol, v0); runVI(o, user, h, tol, v0); runVI(o, qo, h, tol, v0);
            } else {
                Matrix2D pol(S, A);
                for (size_t s = 0; s < S; ++s) for (size_t a = 0; a < A; ++a) pol(s, a) = c.nextDouble();
                runPE(o, dense, pol, h, tol, v0); o << (bool) sparse; if (sparse) runPE(o, *sparse, pol, h, tol, v0); runPE(o, user, pol, h, tol, v0); runPE(o, qo, pol, h, tol, v0);
            }
        } else if (kind == "solve") {
            // <tol> <horizon> <T> <R>: VI, PI (both with tolerance) and LP on the dense model + LP on the user model
            const double tol = c.nextDouble();
            const unsigned h = (unsigned) c.nextSize();
            T3 t = readT3(c, S, A), r = readT3(c, S, A);
            Model dense(S, A, t, r, gamma);
            UserModel user(S, A, t, r, gamma);
            runVI(o, dense, h, tol, {});
            {
                PolicyIteration pi(h, tol);
                auto q = pi(dense);
                outQ(o, q);
            }
            {
                LinearProgramming lp;
                auto [prec, vf, q] = lp(dense);
                o << prec; outV(o, vf.values); o.list(vf.actions); outQ(o, q);
            }
            {
                LinearProgramming lp;
                auto [prec, vf, q] = lp(user);
                o << prec; outV(o, vf.values); o.list(vf.actions); outQ(o, q);
            }
            {
                PolicyIteration pi(h, tol);
                auto q = pi(user);
                outQ(o, q);
            }
            {
                // LinearProgramming and PolicyIteration on the sparse representation
                auto sparse = mkSparse(S, A, t, r, gamma);
                o << (bool) sparse;
                if (sparse) {
                    LinearProgramming lp;
                    outLP(o, lp(*sparse));
                    PolicyIteration pi(h, tol);
                    outQ(o, pi(*sparse));
                }
            }
        } else if (kind == "via") {
            // <h> <tol> <T> <R> <v0 list (size S)> <nacts>: ValueIteration started from a ValueFunction whose
            // action vector has nacts (< S) entries
            const unsigned h = (unsigned) c.nextSize();
            const double tol = c.nextDouble();
            T3 t = readT3(c, S, A), r = readT3(c, S, A);
            std::vector<double> v0 = c.nextDoubles();
            const size_t nacts = c.nextSize();
            if (nacts > S) throw std::logic_error("via: nacts > S would write out of bounds");
            Model dense(S, A, t, r, gamma);
            ValueFunction start{Values(Eigen::Map<const Vector>(v0.data(), v0.size())), Actions(nacts, 0)};
            ValueIteration vi(h, tol, start);
            auto [var, vf, q] = vi(dense);
            o << var; outV(o, vf.values); o.list(vf.actions); outQ(o, q);
        } else if (kind == "pi") {
            // <h> <tol> <bits-per-sweep (driver only)> <T> <R>: PolicyIteration on the dense and the user model
            const unsigned h = (unsigned) c.nextSize();
            const double tol = c.nextDouble();
            (void) c.nextSize();
            T3 t = readT3(c, S, A), r = readT3(c, S, A);
            Model dense(S, A, t, r, gamma);
            UserModel user(S, A, t, r, gamma);
            { PolicyIteration pi(h, tol); outQ(o, pi(dense)); }
            { PolicyIteration pi(h, tol); outQ(o, pi(user)); }
        } else if (kind == "learn") {
            // <h> <tol> <n> (s a s1 rew)*n : MaximumLikelihoodModel<Experience> synced from a history
            const unsigned h = (unsigned) c.nextSize();
            const double tol = c.nextDouble();
            const size_t n = c.nextSize();
            Experience exp(S, A);
            for (size_t i = 0; i < n; ++i) {
                size_t s = c.nextSize(), a = c.nextSize(), s1 = c.nextSize(); double rew = c.nextDouble();
                exp.record(s, a, s1, rew);
            }
            // constructed unsynced (identity transitions) and synced explicitly: the (exp, d, true) constructor
            // leaves unvisited rows uninitialised (reported under C07)
            MaximumLikelihoodModel<Experience> ml(exp, gamma, false);
            ml.sync();
            // the learned tables, as the planners see them
            for (size_t s = 0; s < S; ++s) for (size_t a = 0; a < A; ++a) for (size_t s1 = 0; s1 < S; ++s1)
                o << ml.getTransitionProbability(s, a, s1);
            for (size_t s = 0; s < S; ++s) for (size_t a = 0; a < A; ++a) o << ml.getExpectedReward(s, a, 0);
            runVI(o, ml, h, tol, {});
        } else throw std::logic_error("unknown case kind " + kind);
    });
}
