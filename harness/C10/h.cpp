// harness/C10/h.cpp — drives the real routines whose index / iterator arithmetic is modelled in
// coq/theories/C10/Model.v, on exact inputs, and prints their outputs for the correspondence.
// It is also run under ASan+UBSan (ASAN_QUICK): a sanitizer report on a case the model accepts
// is a violation of clause no_UB.
#include <cstddef>
#include <vector>
#include <tuple>
#include <string>
#include <algorithm>
#include <Eigen/Core>
#include "vio.hpp"

#include <AIToolbox/Types.hpp>
#include <AIToolbox/Utils/Prune.hpp>
#include <AIToolbox/Utils/Polytope.hpp>
#include <AIToolbox/MDP/Algorithms/Utils/OffPolicyTemplate.hpp>
#include <AIToolbox/Factored/Utils/Core.hpp>
#include <AIToolbox/Factored/Utils/FactorGraph.hpp>
#include <AIToolbox/MDP/Model.hpp>
#include <AIToolbox/MDP/SparseModel.hpp>
#include <AIToolbox/POMDP/Model.hpp>
#include <AIToolbox/POMDP/SparseModel.hpp>
#include <AIToolbox/POMDP/Types.hpp>
#include <AIToolbox/POMDP/Algorithms/FastInformedBound.hpp>
#include <AIToolbox/POMDP/Algorithms/Utils/BeliefGenerator.hpp>

using namespace AIToolbox;

// OffPolicyBase::updateTraces is protected: a derived class may re-export it.
struct UT : public MDP::OffPolicyBase {
    using MDP::OffPolicyBase::OffPolicyBase;
    using MDP::OffPolicyBase::updateTraces;
};

static void do_ut(vio::Cursor & c, vio::Out & o) {
    const size_t S = c.nextSize(), A = c.nextSize();
    const double tol = c.nextDouble();
    UT ut(S, A, 1.0, 0.5, tol);
    MDP::QFunction q(S, A);
    for (size_t s = 0; s < S; ++s) for (size_t a = 0; a < A; ++a) q(s, a) = c.nextDouble();
    ut.setQFunction(q);
    const size_t nt = c.nextSize();
    MDP::OffPolicyBase::Traces tr;
    for (size_t i = 0; i < nt; ++i) { size_t s = c.nextSize(), a = c.nextSize(); double el = c.nextDouble(); tr.emplace_back(s, a, el); }
    ut.setTraces(tr);
    const size_t nops = c.nextSize();
    for (size_t i = 0; i < nops; ++i) {
        size_t s = c.nextSize(), a = c.nextSize(); double err = c.nextDouble(), td = c.nextDouble();
        ut.updateTraces(s, a, err, td);
    }
    const auto & t2 = ut.getTraces();
    o << t2.size();
    for (const auto & [s, a, el] : t2) o << s << a << el;
    const auto & q2 = ut.getQFunction();
    for (size_t s = 0; s < S; ++s) for (size_t a = 0; a < A; ++a) o << q2(s, a);
}

static void do_match(vio::Cursor & c, vio::Out & o) {
    Factored::PartialFactors l, r;
    l.first = c.nextSizes(); l.second = c.nextSizes();
    r.first = c.nextSizes(); r.second = c.nextSizes();
    const bool m1 = Factored::match(l, r);
    const bool m2 = Factored::match(l.first, l.second, r.first, r.second);
    o << m1 << m2;
}

static void do_ed(vio::Cursor & c, vio::Out & o) {
    const size_t n = c.nextSize(), d = c.nextSize();
    std::vector<Vector> v;
    for (size_t i = 0; i < n; ++i) { Vector x(d); for (size_t k = 0; k < d; ++k) x[k] = c.nextDouble(); v.push_back(x); }
    auto it = extractDominated(std::begin(v), std::end(v));
    o << (size_t) std::distance(std::begin(v), it);
    for (const auto & x : v) for (size_t k = 0; k < d; ++k) o << x[k];
}

// edi <n> <nOld> <d> <vectors>: extractDominatedIncremental(begin, begin + nOld, end)
static void do_edi(vio::Cursor & c, vio::Out & o) {
    const size_t n = c.nextSize(), nOld = c.nextSize(), d = c.nextSize();
    std::vector<Vector> v;
    for (size_t i = 0; i < n; ++i) { Vector x(d); for (size_t k = 0; k < d; ++k) x[k] = c.nextDouble(); v.push_back(x); }
    auto [oldEnd, mid, end] = extractDominatedIncremental(std::begin(v), std::begin(v) + nOld, std::end(v));
    o << (size_t) std::distance(std::begin(v), oldEnd) << (size_t) std::distance(std::begin(v), mid) << (size_t) std::distance(std::begin(v), end);
    for (const auto & x : v) for (size_t k = 0; k < d; ++k) o << x[k];
}

// SARSOP's witness/max list helpers are free functions with external linkage defined in SARSOP.cpp
// (not declared in any header).
namespace AIToolbox::POMDP {
    void addWit(size_t id, VEntry & ve);
    void rmWit(size_t id, VEntry & ve);
    void addMax(size_t id, VEntry & ve);
    void rmMax(size_t id, VEntry & ve, bool skipWit);
}

static void do_wit(vio::Cursor & c, vio::Out & o) {
    const size_t nS = c.nextSize();
    POMDP::VEntry ve(MDP::Values(nS), 0, c.nextSizes());
    ve.values.setZero();
    const size_t nops = c.nextSize();
    for (size_t i = 0; i < nops; ++i) {
        const std::string op = c.next(); const size_t id = c.nextSize();
        if (op == "aw") POMDP::addWit(id, ve);
        else if (op == "rw") POMDP::rmWit(id, ve);
        else if (op == "am") POMDP::addMax(id, ve);
        else if (op == "rm") POMDP::rmMax(id, ve, c.nextSize() != 0);
        else throw std::logic_error("unknown witness op " + op);
    }
    o.list(ve.observations);
}

// fibmax <S> <A> <S*A rewards>: FastInformedBound with horizon 0 on POMDP::SparseModel<MDP::SparseModel>
// returns Q = max(R) / (1 - 1/2) everywhere: the value of the sparse-reward maximum.
static void do_fibmax(vio::Cursor & c, vio::Out & o) {
    const size_t S = c.nextSize(), A = c.nextSize();
    DumbMatrix3D T(boost::extents[S][A][S]), R(boost::extents[S][A][S]), Ob(boost::extents[S][A][1]);
    for (size_t s = 0; s < S; ++s) for (size_t a = 0; a < A; ++a) {
        const double r = c.nextDouble();
        for (size_t s1 = 0; s1 < S; ++s1) { T[s][a][s1] = (s1 == s) ? 1.0 : 0.0; R[s][a][s1] = r; }
        Ob[s][a][0] = 1.0;
    }
    POMDP::Model<MDP::Model> dense(1, Ob, S, A, T, R, 0.5);
    POMDP::SparseModel<MDP::SparseModel> sp(dense);
    POMDP::FastInformedBound fib(0, 0.0);
    auto [var, q] = fib(sp);
    (void) var;
    o << (size_t) sp.getRewardFunction().nonZeros() << (double) q(0, 0);
    auto [var2, q2] = fib(dense);
    (void) var2;
    o << (double) q2(0, 0);
}

// bg <n> <S> <A> <O> <T: a,s,s1> <Ob: a,s1,o>: BeliefGenerator on a dense POMDP (expandBeliefList index arithmetic
// under the sanitizers); prints the number of beliefs and whether each is a distribution of length S.
static void do_bg(vio::Cursor & c, vio::Out & o) {
    const size_t n = c.nextSize();
    const size_t S = c.nextSize(), A = c.nextSize(), O = c.nextSize();
    DumbMatrix3D T(boost::extents[S][A][S]), R(boost::extents[S][A][S]), Ob(boost::extents[S][A][O]);
    for (size_t a = 0; a < A; ++a) for (size_t s = 0; s < S; ++s) for (size_t s1 = 0; s1 < S; ++s1) { T[s][a][s1] = c.nextDouble(); R[s][a][s1] = 0.0; }
    for (size_t a = 0; a < A; ++a) for (size_t s1 = 0; s1 < S; ++s1) for (size_t ob = 0; ob < O; ++ob) Ob[s1][a][ob] = c.nextDouble();
    POMDP::Model<MDP::Model> m(O, Ob, S, A, T, R, 0.5);
    POMDP::BeliefGenerator<POMDP::Model<MDP::Model>> bg(m);
    const auto bl = bg(n);
    size_t good = 0;
    for (const auto & b : bl) {
        bool okb = (size_t) b.size() == S && std::abs(b.sum() - 1.0) < 1e-9;
        for (Eigen::Index i = 0; okb && i < b.size(); ++i) okb = b[i] >= 0.0;
        good += okb;
    }
    o << bl.size() << good;
}

// ebu <d> <np> <points> <nv> <planes>: extractBestUsefulPoints(points, planes)
static void do_ebu(vio::Cursor & c, vio::Out & o) {
    const size_t d = c.nextSize();
    const size_t np = c.nextSize();
    std::vector<Point> pts;
    for (size_t i = 0; i < np; ++i) { Point x(d); for (size_t k = 0; k < d; ++k) x[k] = c.nextDouble(); pts.push_back(x); }
    const size_t nv = c.nextSize();
    std::vector<Hyperplane> pl;
    for (size_t i = 0; i < nv; ++i) { Hyperplane x(d); for (size_t k = 0; k < d; ++k) x[k] = c.nextDouble(); pl.push_back(x); }
    auto it = extractBestUsefulPoints(std::begin(pts), std::end(pts), std::begin(pl), std::end(pl));
    o << (size_t) std::distance(std::begin(pts), it);
    for (const auto & x : pts) for (size_t k = 0; k < d; ++k) o << x[k];
}

void do_fg(vio::Cursor & c, vio::Out & o);   // harness/C10/fg.cpp
void do_mlm(vio::Cursor & c, vio::Out & o);  // harness/C10/rt.cpp
void do_reuse(vio::Cursor & c, vio::Out & o);

int main(int argc, char ** argv) {
    return vio::runCases(argc, argv, [](vio::Cursor & c, vio::Out & o) {
        const std::string kind = c.next();
        if (kind == "ut") do_ut(c, o);
        else if (kind == "match" || kind == "matchoob") do_match(c, o);
        else if (kind == "ed") do_ed(c, o);
        else if (kind == "edi") do_edi(c, o);
        else if (kind == "wit") do_wit(c, o);
        else if (kind == "fibmax" || kind == "fibmaxz") do_fibmax(c, o);
        else if (kind == "bg") do_bg(c, o);
        else if (kind == "fg") do_fg(c, o);
        else if (kind == "mlm") do_mlm(c, o);
        else if (kind == "reuse") do_reuse(c, o);
        else if (kind == "ebu" || kind == "ebuempty") do_ebu(c, o);
        else throw std::logic_error("unknown case kind " + kind);
    });
}
