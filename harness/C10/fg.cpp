// harness/C10/fg.cpp — drives AIToolbox::Factored::FactorGraph<int> through a history of
// getFactor / erase calls and prints everything its adjacency bookkeeping exposes, for the
// correspondence with coq/theories/C10/ModelFG.v.  (No main: called from h.cpp.)
//   case:   fg <nvars> <nops> ( g <k> v1..vk | e <a> )* [ F f0..f(n-1) ]      (default F: all 2)
//   output: variableSize factorSize
//           for a in 0..n-1:  |getVariables(a)| elems   |getFactors(a)| (|vars| vars)*
//           |factors| (|vars| vars)*                      (begin()..end())
//           <ok>   1 iff every factor's data is still the fresh integer stored at its creation and
//                  every getFactor returned an iterator whose variables are the requested ones
//           bestVariableToRemove(F)
// The node pool is a static member shared by all FactorGraph<int>: nodes erased in one case are
// re-used by later cases of the same process (identities differ, the printed content does not).
#include <cstddef>
#include <vector>
#include <string>
#include <stdexcept>
#include "vio.hpp"

#include <AIToolbox/Factored/Utils/FactorGraph.hpp>

void do_fg(vio::Cursor & c, vio::Out & o) {
    using FG = AIToolbox::Factored::FactorGraph<int>;
    static int fresh = 1000;                       // never 0: a re-used node is reset to int{} = 0
    const size_t n = c.nextSize(), nops = c.nextSize();
    FG g(n);
    bool ok = true;
    for (size_t k = 0; k < nops; ++k) {
        const std::string op = c.next();
        if (op == "g") {
            const FG::Variables vars = c.nextSizes();
            const size_t before = g.factorSize();
            auto it = g.getFactor(vars);
            if (g.factorSize() != before) {        // a new (or re-used) node: its data must be value-initialised
                if (it->getData() != 0) ok = false;
                it->getData() = ++fresh;
            } else if (it->getData() < 1000) ok = false;
            if (it->getVariables() != vars) ok = false;
        } else if (op == "e") {
            g.erase(c.nextSize());
        } else throw std::logic_error("fg: unknown op " + op);
    }
    o << g.variableSize() << g.factorSize();
    for (size_t a = 0; a < n; ++a) {
        o.list(g.getVariables(a));
        const auto & fs = g.getFactors(a);
        o << (size_t) fs.size();
        for (const auto & it : fs) o.list(g.getVariables(it));
    }
    size_t cnt = 0;
    for (auto it = g.begin(); it != g.end(); ++it) ++cnt;
    o << cnt;
    for (auto it = g.begin(); it != g.end(); ++it) {
        o.list(it->getVariables());
        if (it->getData() < 1000) ok = false;
    }
    o << ok;
    AIToolbox::Factored::Factors F(n, 2);
    if (!c.atEnd()) { c.expect("F"); for (auto & f : F) f = c.nextSize(); }
    o << g.bestVariableToRemove(F);
}
