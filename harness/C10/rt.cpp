// harness/C10/rt.cpp — runtime probes for (class template, library type) pairs and object-reuse
// histories that no other property's cases exercise:
//   mlm   : {Sparse}MaximumLikelihoodModel<{Sparse}Experience> kept in sync along a record / sync() / sync(s,a) /
//           sync(s,a,s1) / reset history; after every operation the sparse matrices are inspected for duplicate
//           inner indices and non-distribution rows, at the end everything stored is dumped;
//   reuse : one SARSOP / GapMin object used for two solves in a row (stale per-solve state).
// Run in the plain, the ASan+UBSan and (by props/C10.py) the ASan+UBSan build WITHOUT -DNDEBUG, where Eigen's and
// the library's own assertions are active.
#include <cstddef>
#include <cmath>
#include <vector>
#include <string>
#include <unistd.h>
#include <sys/wait.h>
#include <poll.h>
#include <signal.h>
#include <chrono>
#include "vio.hpp"

#include <AIToolbox/MDP/Experience.hpp>
#include <AIToolbox/MDP/SparseExperience.hpp>
#include <AIToolbox/MDP/MaximumLikelihoodModel.hpp>
#include <AIToolbox/MDP/SparseMaximumLikelihoodModel.hpp>
#include <AIToolbox/MDP/Model.hpp>
#include <AIToolbox/POMDP/Model.hpp>
#include <AIToolbox/POMDP/Algorithms/SARSOP.hpp>
#include <AIToolbox/POMDP/Algorithms/GapMin.hpp>

using namespace AIToolbox;

// structural health of a transition function: (duplicate inner indices or unsorted rows, rows that are not distributions)
static void health(const SparseMatrix3D & T, size_t & dups, size_t & bad) {
    for (const auto & m : T)
        for (Eigen::Index r = 0; r < m.outerSize(); ++r) {
            Eigen::Index last = -1; double sum = 0.0; bool neg = false;
            for (SparseMatrix2D::InnerIterator it(m, r); it; ++it) {
                if (it.col() <= last) ++dups;
                last = it.col(); sum += it.value(); if (it.value() < -1e-12) neg = true;
            }
            if (neg || std::fabs(sum - 1.0) > 1e-9) ++bad;
        }
}
static void health(const DumbMatrix3D &, size_t &, size_t &) {}
static void health(const Matrix3D & T, size_t &, size_t & bad) {
    for (const auto & m : T)
        for (Eigen::Index r = 0; r < m.rows(); ++r) {
            bool neg = false; for (Eigen::Index c = 0; c < m.cols(); ++c) if (m(r, c) < -1e-12) neg = true;
            if (neg || std::fabs(m.row(r).sum() - 1.0) > 1e-9) ++bad;
        }
}
static void dumpT(vio::Out & o, const SparseMatrix3D & T) {          // per a, per row: <n> (col val)*
    for (const auto & m : T)
        for (Eigen::Index r = 0; r < m.outerSize(); ++r) {
            size_t n = 0; for (SparseMatrix2D::InnerIterator it(m, r); it; ++it) ++n;
            o << n; for (SparseMatrix2D::InnerIterator it(m, r); it; ++it) o << (size_t) it.col() << (double) it.value();
        }
}
static void dumpT(vio::Out & o, const Matrix3D & T) {                 // same layout, every column stored
    for (const auto & m : T)
        for (Eigen::Index r = 0; r < m.rows(); ++r) {
            o << (size_t) m.cols(); for (Eigen::Index c = 0; c < m.cols(); ++c) o << (size_t) c << (double) m(r, c);
        }
}

template <typename M, typename E>
static void run_mlm(vio::Cursor & c, vio::Out & o, size_t S, size_t A) {
    E exp(S, A);
    M model(exp, 0.5, false);
    const size_t nops = c.nextSize();
    size_t dups = 0, bad = 0, firstBad = 0;
    for (size_t i = 0; i < nops; ++i) {
        const std::string op = c.next();
        if (op == "r") { size_t s = c.nextSize(), a = c.nextSize(), s1 = c.nextSize(); double rw = c.nextDouble(); exp.record(s, a, s1, rw); }
        else if (op == "y") model.sync();
        else if (op == "p") { size_t s = c.nextSize(), a = c.nextSize(); model.sync(s, a); }
        else if (op == "q") { size_t s = c.nextSize(), a = c.nextSize(), s1 = c.nextSize(); model.sync(s, a, s1); }
        else if (op == "z") exp.reset();
        else throw std::logic_error("mlm: unknown op " + op);
        size_t d = 0, b = 0; health(model.getTransitionFunction(), d, b);
        if ((d || b) && !(dups || bad)) firstBad = i + 1;
        dups += d; bad += b;
    }
    o << dups << bad << firstBad;
    dumpT(o, model.getTransitionFunction());
    for (size_t s = 0; s < S; ++s) for (size_t a = 0; a < A; ++a) o << model.getExpectedReward(s, a, 0);
}

void do_mlm(vio::Cursor & c, vio::Out & o) {      // mlm <S|D> <d|s> <nS> <nA> <nops> ops…
    const std::string mk = c.next(), ek = c.next();
    const size_t S = c.nextSize(), A = c.nextSize();
    if (mk == "S" && ek == "d") run_mlm<MDP::SparseMaximumLikelihoodModel<MDP::Experience>, MDP::Experience>(c, o, S, A);
    else if (mk == "S" && ek == "s") run_mlm<MDP::SparseMaximumLikelihoodModel<MDP::SparseExperience>, MDP::SparseExperience>(c, o, S, A);
    else if (mk == "D" && ek == "d") run_mlm<MDP::MaximumLikelihoodModel<MDP::Experience>, MDP::Experience>(c, o, S, A);
    else if (mk == "D" && ek == "s") run_mlm<MDP::MaximumLikelihoodModel<MDP::SparseExperience>, MDP::SparseExperience>(c, o, S, A);
    else throw std::logic_error("mlm: unknown pair");
}

// ---- object reuse ---------------------------------------------------------------------------------
// Runs fn in a forked child (anytime solvers may not converge): false on timeout.  A crashing / sanitizer-failing
// child takes the harness down with the same status so that the runner attributes it to the current case.
static bool runGuarded(double seconds, vio::Out & o, const std::function<void(vio::Out &)> & fn) {
    int fd[2]; if (pipe(fd) != 0) throw std::runtime_error("pipe");
    fflush(nullptr);
    pid_t pid = fork();
    if (pid < 0) throw std::runtime_error("fork");
    if (pid == 0) {
        close(fd[0]);
        vio::Out co; std::string s;
        try { fn(co); s = co.os.str(); }
        catch (const std::exception & e) { s = std::string(" THROW ") + vio::exnName(e); }
        size_t off = 0; while (off < s.size()) { ssize_t w = write(fd[1], s.data() + off, s.size() - off); if (w <= 0) break; off += (size_t) w; }
        close(fd[1]); _exit(0);
    }
    close(fd[1]);
    std::string got; char buf[65536];
    auto t0 = std::chrono::steady_clock::now(); bool timedOut = false;
    while (true) {
        double left = seconds - std::chrono::duration<double>(std::chrono::steady_clock::now() - t0).count();
        if (left <= 0) { timedOut = true; break; }
        struct pollfd p = { fd[0], POLLIN, 0 };
        int r = poll(&p, 1, (int) (left * 1000) + 1);
        if (r < 0) continue;
        if (r == 0) { timedOut = true; break; }
        ssize_t n = read(fd[0], buf, sizeof buf);
        if (n <= 0) break;
        got.append(buf, (size_t) n);
    }
    close(fd[0]);
    if (timedOut) { kill(pid, SIGKILL); int st; waitpid(pid, &st, 0); return false; }
    int st = 0; waitpid(pid, &st, 0);
    if (WIFSIGNALED(st)) { signal(WTERMSIG(st), SIG_DFL); raise(WTERMSIG(st)); abort(); }
    if (WIFEXITED(st) && WEXITSTATUS(st) != 0) _exit(WEXITSTATUS(st));
    o.os << got;
    return true;
}

struct Pomdp { size_t S, A, O; DumbMatrix3D T, R, Ob; POMDP::Belief b0; };
static Pomdp readPomdp(vio::Cursor & c) {          // <S> <A> <O> T[a][s][s1] R[s][a] Ob[a][s1][o] b0[s]
    Pomdp t; t.S = c.nextSize(); t.A = c.nextSize(); t.O = c.nextSize();
    t.T.resize(boost::extents[t.S][t.A][t.S]); t.R.resize(boost::extents[t.S][t.A][t.S]); t.Ob.resize(boost::extents[t.S][t.A][t.O]);
    for (size_t a = 0; a < t.A; ++a) for (size_t s = 0; s < t.S; ++s) for (size_t s1 = 0; s1 < t.S; ++s1) t.T[s][a][s1] = c.nextDouble();
    for (size_t s = 0; s < t.S; ++s) for (size_t a = 0; a < t.A; ++a) { double r = c.nextDouble(); for (size_t s1 = 0; s1 < t.S; ++s1) t.R[s][a][s1] = r; }
    for (size_t a = 0; a < t.A; ++a) for (size_t s1 = 0; s1 < t.S; ++s1) for (size_t ob = 0; ob < t.O; ++ob) t.Ob[s1][a][ob] = c.nextDouble();
    t.b0.resize(t.S); for (size_t s = 0; s < t.S; ++s) t.b0[s] = c.nextDouble();
    return t;
}

// reuse <sarsop|gapmin> <tol> <n> <pomdp_1> … <pomdp_n>: ONE solver object, n solves; also each problem on a fresh object.
void do_reuse(vio::Cursor & c, vio::Out & o) {
    const std::string which = c.next();
    const double tol = c.nextDouble();
    const size_t n = c.nextSize();
    std::vector<Pomdp> ps; for (size_t i = 0; i < n; ++i) ps.push_back(readPomdp(c));
    bool ok = runGuarded(12.0, o, [&](vio::Out & co) {
        POMDP::SARSOP sarsop(tol, 0.1);
        POMDP::GapMin gapmin(tol, 3);
        for (size_t i = 0; i < n; ++i) {
            POMDP::Model<MDP::Model> m(ps[i].O, ps[i].Ob, ps[i].S, ps[i].A, ps[i].T, ps[i].R, 0.5);
            double lb, ub, flb, fub;
            if (which == "sarsop") {
                { auto [l, u, vl, q] = sarsop(m, ps[i].b0); lb = l; ub = u; (void) vl; (void) q; }
                { POMDP::SARSOP fresh(tol, 0.1); auto [l, u, vl, q] = fresh(m, ps[i].b0); flb = l; fub = u; (void) vl; (void) q; }
            } else {
                { auto [l, u, vl, q] = gapmin(m, ps[i].b0); lb = l; ub = u; (void) vl; (void) q; }
                { POMDP::GapMin fresh(tol, 3); auto [l, u, vl, q] = fresh(m, ps[i].b0); flb = l; fub = u; (void) vl; (void) q; }
            }
            co << lb << ub << flb << fub;
        }
    });
    if (!ok) o << "NOCONV";
}
