// harness/C03/h.cpp — runs the real bound solvers (BlindStrategies, FastInformedBound, QMDP, PBVI,
// PERSEUS, SARSOP, GapMin) on exact cases and dumps everything they return.  With the observer hook
// (fixes/C03-hook-observer.patch, macro AITOOLBOX_VERIF_SARSOP_OBSERVER / _GAPMIN_OBSERVER defined by
// the hooked headers) every per-iteration snapshot of the anytime loops is dumped too.
#include <AIToolbox/POMDP/Model.hpp>
#include <AIToolbox/POMDP/SparseModel.hpp>
#include <AIToolbox/MDP/Model.hpp>
#include <AIToolbox/MDP/SparseModel.hpp>
#include <AIToolbox/POMDP/Algorithms/BlindStrategies.hpp>
#include <AIToolbox/POMDP/Algorithms/FastInformedBound.hpp>
#include <AIToolbox/POMDP/Algorithms/QMDP.hpp>
#include <AIToolbox/POMDP/Algorithms/PBVI.hpp>
#include <AIToolbox/POMDP/Algorithms/PERSEUS.hpp>
#include <AIToolbox/POMDP/Algorithms/SARSOP.hpp>
#include <algorithm>
#include <boost/heap/fibonacci_heap.hpp>
#include <AIToolbox/Logging.hpp>
#include <AIToolbox/Utils/Polytope.hpp>
#include <unistd.h>
#include <sys/wait.h>
#include <poll.h>
#include <signal.h>
#include <chrono>
#include "vio.hpp"
// GapMin::cleanUp is private; every header GapMin.hpp pulls in is already included above
#define private public
#include <AIToolbox/POMDP/Algorithms/GapMin.hpp>
#undef private
using namespace AIToolbox;

// A user-defined POMDP model: probability queries only (IsModel but not IsModelEigen), wrapping dense tables.
// Every generic (non-Eigen) branch of the solvers is reached only through such a model.
// (A template over the wrapped model so that the library's unqualified calls such as
// computeImmediateRewards(m) in FastInformedBound.hpp are still found by argument-dependent lookup.)
template <typename M>
struct GenericView {
    const M & m_;
    size_t getS() const { return m_.getS(); }
    size_t getA() const { return m_.getA(); }
    size_t getO() const { return m_.getO(); }
    double getDiscount() const { return m_.getDiscount(); }
    bool isTerminal(size_t s) const { return m_.isTerminal(s); }
    double getTransitionProbability(size_t s, size_t a, size_t s1) const { return m_.getTransitionProbability(s, a, s1); }
    double getExpectedReward(size_t s, size_t a, size_t s1) const { return m_.getExpectedReward(s, a, s1); }
    double getObservationProbability(size_t s1, size_t a, size_t o) const { return m_.getObservationProbability(s1, a, o); }
    std::tuple<size_t, double> sampleSR(size_t s, size_t a) const { return m_.sampleSR(s, a); }
    std::tuple<size_t, size_t, double> sampleSOR(size_t s, size_t a) const { return m_.sampleSOR(s, a); }
};
using GenericPOMDP = GenericView<POMDP::Model<MDP::Model>>;
static_assert(POMDP::IsModel<GenericPOMDP>);
static_assert(!POMDP::IsModelEigen<GenericPOMDP>);

struct Tables { size_t S, A, O; double g; DumbMatrix3D T, R, Ob; };

static Tables readPomdp(vio::Cursor & c) {
    Tables t; t.S = c.nextSize(); t.A = c.nextSize(); t.O = c.nextSize(); t.g = c.nextDouble();
    t.T.resize(boost::extents[t.S][t.A][t.S]); t.R.resize(boost::extents[t.S][t.A][t.S]); t.Ob.resize(boost::extents[t.S][t.A][t.O]);
    for (size_t a = 0; a < t.A; ++a) for (size_t s = 0; s < t.S; ++s) for (size_t s1 = 0; s1 < t.S; ++s1) t.T[s][a][s1] = c.nextDouble();
    for (size_t s = 0; s < t.S; ++s) for (size_t a = 0; a < t.A; ++a) { double r = c.nextDouble(); for (size_t s1 = 0; s1 < t.S; ++s1) t.R[s][a][s1] = r; }
    for (size_t a = 0; a < t.A; ++a) for (size_t s1 = 0; s1 < t.S; ++s1) for (size_t o = 0; o < t.O; ++o) t.Ob[s1][a][o] = c.nextDouble();
    return t;
}

static std::vector<POMDP::Belief> readBeliefs(vio::Cursor & c, size_t S) {
    size_t nb = c.nextSize(); std::vector<POMDP::Belief> bs;
    for (size_t i = 0; i < nb; ++i) { POMDP::Belief b(S); for (size_t s = 0; s < S; ++s) b[s] = c.nextDouble(); bs.push_back(b); }
    return bs;
}

template <typename V> static void dumpVec(vio::Out & o, const V & v) { for (Eigen::Index i = 0; i < v.size(); ++i) o << (double) v[i]; }
static void dumpVList(vio::Out & o, const POMDP::VList & l) {     // <n> then per entry: <action> <S values>
    o << l.size();
    for (const auto & e : l) { o << e.action; dumpVec(o, e.values); }
}
static void dumpVListFull(vio::Out & o, const POMDP::VList & l) { // <n> then per entry: <action> <links…> <S values>
    o << l.size();
    for (const auto & e : l) { o << e.action; o.list(e.observations); dumpVec(o, e.values); }
}
static void dumpMat(vio::Out & o, const Matrix2D & q) {          // <rows> <cols> row-major values
    o << (size_t) q.rows() << (size_t) q.cols();
    for (Eigen::Index s = 0; s < q.rows(); ++s) for (Eigen::Index a = 0; a < q.cols(); ++a) o << (double) q(s, a);
}
static void dumpUbV(vio::Out & o, const POMDP::UpperBoundValueFunction & ubV) {
    o << ubV.first.size();
    for (size_t i = 0; i < ubV.first.size(); ++i) { dumpVec(o, ubV.first[i]); o << ubV.second[i]; }
}

// Runs fn in a forked child so that a non-converging anytime loop cannot hang the harness.
// Returns false on timeout.  A crashing / sanitizer-failing child takes the harness down with the
// same status so that the runner attributes it to the current case.
static bool runGuarded(double seconds, vio::Out & o, const std::function<void(vio::Out &)> & fn) {
    int fd[2]; if (pipe(fd) != 0) throw std::runtime_error("pipe");
    fflush(nullptr);
    pid_t pid = fork();
    if (pid < 0) throw std::runtime_error("fork");
    if (pid == 0) {
        close(fd[0]);
        vio::Out co; std::string s;
        try { fn(co); s = co.os.str(); }
        catch (const std::exception & e) { s = std::string(" THROW ") + vio::exnName(e); }
        size_t off = 0; while (off < s.size()) { ssize_t w = write(fd[1], s.data() + off, s.size() - off); if (w <= 0) break; off += (size_t) w; }
        close(fd[1]); _exit(0);
    }
    close(fd[1]);
    std::string got; char buf[65536];
    auto t0 = std::chrono::steady_clock::now(); bool timedOut = false;
    while (true) {
        double left = seconds - std::chrono::duration<double>(std::chrono::steady_clock::now() - t0).count();
        if (left <= 0) { timedOut = true; break; }
        struct pollfd p = { fd[0], POLLIN, 0 };
        int r = poll(&p, 1, (int) (left * 1000) + 1);
        if (r < 0) continue;
        if (r == 0) { timedOut = true; break; }
        ssize_t n = read(fd[0], buf, sizeof buf);
        if (n <= 0) break;
        got.append(buf, (size_t) n);
    }
    close(fd[0]);
    if (timedOut) { kill(pid, SIGKILL); int st; waitpid(pid, &st, 0); return false; }
    int st = 0; waitpid(pid, &st, 0);
    if (WIFSIGNALED(st)) { signal(WTERMSIG(st), SIG_DFL); raise(WTERMSIG(st)); abort(); }
    if (WIFEXITED(st) && WEXITSTATUS(st) != 0) _exit(WEXITSTATUS(st));
    o.os << got;
    return true;
}

template <typename M>
static void direct(const M & model, const Tables & t, unsigned hB, unsigned hF, unsigned hQ, unsigned hP, unsigned nPers,
                   double minRew, const std::vector<POMDP::Belief> & bs, bool doFib, vio::Out & o) {
    { POMDP::BlindStrategies s(hB, 0.0); auto [var, vl] = s(model, true);  o << "blindT" << var; dumpVList(o, vl); }
    { POMDP::BlindStrategies s(hB, 0.0); auto [var, vl] = s(model, false); o << "blindF" << var; dumpVList(o, vl); }
    if (doFib) { POMDP::FastInformedBound s(hF, 0.0); auto [var, q] = s(model); o << "fib" << var; dumpMat(o, q); }
    { POMDP::QMDP s(hQ, 0.0); auto [var, vf, q] = s(model); o << "qmdp" << var; dumpMat(o, q); dumpVList(o, vf.back()); }
    { POMDP::PBVI s(0, hP, 0.0); auto [var, vf] = s(model, bs); o << "pbvi" << var << vf.size(); for (const auto & l : vf) dumpVListFull(o, l); }
    { POMDP::PERSEUS s(nPers, hP, 0.0); auto [var, vf] = s(model, minRew); o << "perseus" << var << vf.size(); for (const auto & l : vf) dumpVListFull(o, l); }
    (void) t;
}

// converged runs (tolerance > 0): QMDP >= FIB, both sound
template <typename M>
static void converged(const M & model, double tol, vio::Out & o) {
    { POMDP::FastInformedBound s(100000, tol); auto [var, q] = s(model); o << "fib" << var; dumpMat(o, q); }
    { POMDP::QMDP s(100000, tol); auto [var, vf, q] = s(model); o << "qmdp" << var; dumpMat(o, q); }
    { POMDP::BlindStrategies s(100000, tol); auto [var, vl] = s(model, true); o << "blindT" << var; dumpVList(o, vl); }
}

int main(int argc, char ** argv) {
    return vio::runCases(argc, argv, [](vio::Cursor & c, vio::Out & o) {
        const std::string kind = c.next();
        if (kind == "direct") {   // direct <dense|sparse> hB hF hQ hP nPers minRew <pomdp> <nb> <beliefs>
            const std::string repr = c.next();
            unsigned hB = c.nextSize(), hF = c.nextSize(), hQ = c.nextSize(), hP = c.nextSize(), nPers = c.nextSize();
            double minRew = c.nextDouble();
            Tables t = readPomdp(c); auto bs = readBeliefs(c, t.S);
            POMDP::Model<MDP::Model> dense(t.O, t.Ob, t.S, t.A, t.T, t.R, t.g);
            if (repr == "dense") direct(dense, t, hB, hF, hQ, hP, nPers, minRew, bs, true, o);
            else if (repr == "generic") { GenericPOMDP gm{dense}; direct(gm, t, hB, hF, hQ, hP, nPers, minRew, bs, true, o); }
            else { POMDP::SparseModel<MDP::SparseModel> sp(dense); direct(sp, t, hB, hF, hQ, hP, nPers, minRew, bs, false, o); }
        } else if (kind == "reuse") {    // reuse hB hF hQ hP nPers atol np <pomdp>*np <b0> <nb> <beliefs>
            // ONE solver object per algorithm, several problems of the same size in a row: every call's
            // bounds must be sound for ITS problem (no state may leak from one solve into the next)
            unsigned hB = c.nextSize(), hF = c.nextSize(), hQ = c.nextSize(), hP = c.nextSize(), nPers = c.nextSize();
            double atol = c.nextDouble(); size_t np = c.nextSize();
            std::vector<Tables> ts; for (size_t k = 0; k < np; ++k) ts.push_back(readPomdp(c));
            const size_t S = ts[0].S;
            POMDP::Belief b0(S); for (size_t s = 0; s < S; ++s) b0[s] = c.nextDouble();
            auto bs = readBeliefs(c, S);
            std::vector<POMDP::Model<MDP::Model>> models;
            for (const auto & t : ts) models.emplace_back(t.O, t.Ob, t.S, t.A, t.T, t.R, t.g);
            POMDP::BlindStrategies blT(hB, 0.0), blF(hB, 0.0); POMDP::FastInformedBound fib(hF, 0.0); POMDP::QMDP qm(hQ, 0.0);
            POMDP::PBVI pbvi(0, hP, 0.0); POMDP::PERSEUS pers(nPers, hP, 0.0);
            for (size_t k = 0; k < np; ++k) {
                const auto & model = models[k];
                const double minRew = model.getRewardFunction().minCoeff();
                { auto [var, vl] = blT(model, true);  o << "blindT" << var; dumpVList(o, vl); }
                { auto [var, vl] = blF(model, false); o << "blindF" << var; dumpVList(o, vl); }
                { auto [var, q] = fib(model); o << "fib" << var; dumpMat(o, q); }
                { auto [var, vf, q] = qm(model); o << "qmdp" << var; dumpMat(o, q); dumpVList(o, vf.back()); }
                { auto [var, vf] = pbvi(model, bs); o << "pbvi" << var << vf.size(); for (const auto & l : vf) dumpVListFull(o, l); }
                { auto [var, vf] = pers(model, minRew); o << "perseus" << var << vf.size(); for (const auto & l : vf) dumpVListFull(o, l); }
            }
            bool ok = runGuarded(10.0, o, [&](vio::Out & co) {
                POMDP::SARSOP sar(atol, 0.125); POMDP::GapMin gm(atol, 2);
                for (size_t k = 0; k < np; ++k) { auto [lb, ub, vl, q] = sar(models[k], b0); co << "sarsop" << lb << ub; dumpVList(co, vl); dumpMat(co, q); }
                for (size_t k = 0; k < np; ++k) { auto [lb, ub, vl, q] = gm(models[k], b0); co << "gapmin" << lb << ub; dumpVList(co, vl); dumpMat(co, q); }
            });
            if (!ok) o << "NOCONV";
        } else if (kind == "resume") {   // resume h1 h2 <pomdp> <nb> <beliefs>: PBVI h1 steps, then h2 more from the returned ValueFunction
            unsigned h1 = c.nextSize(), h2 = c.nextSize(); Tables t = readPomdp(c); auto bs = readBeliefs(c, t.S);
            POMDP::Model<MDP::Model> dense(t.O, t.Ob, t.S, t.A, t.T, t.R, t.g);
            POMDP::PBVI first(0, h1, 0.0), second(0, h2, 0.0), fresh(0, h1 + h2, 0.0);
            auto vf1 = std::get<1>(first(dense, bs));
            auto [var, vf2] = second(dense, bs, vf1);
            o << "resumed" << var << vf2.size(); for (const auto & l : vf2) dumpVListFull(o, l);
            auto [varf, vff] = fresh(dense, bs);
            o << "fresh" << varf << vff.size(); for (const auto & l : vff) dumpVListFull(o, l);
        } else if (kind == "perseus_d1") {   // perseus_d1 <pomdp with discount 1>: PERSEUS must reject it
            Tables t = readPomdp(c);
            POMDP::Model<MDP::Model> dense(t.O, t.Ob, t.S, t.A, t.T, t.R, t.g);
            POMDP::PERSEUS s(2, 2, 0.0);
            try { auto [var, vf] = s(dense, -1.0); o << "RETURNED" << var << vf.size(); dumpVList(o, vf[0]); }
            catch (const std::invalid_argument &) { o << "THROW" << "invalid_argument"; }
        } else if (kind == "bpa") {      // bpa hF <pomdp> <b> <np> <point beliefs>: bestPromisingAction per-action values
            unsigned hF = c.nextSize(); Tables t = readPomdp(c);
            POMDP::Belief b(t.S); for (size_t s = 0; s < t.S; ++s) b[s] = c.nextDouble();
            auto pts = readBeliefs(c, t.S);
            POMDP::Model<MDP::Model> dense(t.O, t.Ob, t.S, t.A, t.T, t.R, t.g);
            const auto & ir = dense.getRewardFunction();
            POMDP::FastInformedBound fib(hF, 0.0);
            MDP::QFunction ubQ = std::get<1>(fib(dense));
            // sound belief points: one-step look-ahead values over the corner planes only
            POMDP::UpperBoundValueFunction ubV, none;
            for (const auto & p : pts) {
                bool corner = false; for (size_t s = 0; s < t.S; ++s) if (p[s] == 1.0) corner = true;
                if (corner) continue;
                auto [a, v] = POMDP::bestPromisingAction<false>(dense, ir, p, ubQ, none);
                (void) a; ubV.first.push_back(p); ubV.second.push_back(v);
            }
            dumpMat(o, ubQ); dumpUbV(o, ubV);
            { Vector vals; auto [a, v] = POMDP::bestPromisingAction<false>(dense, ir, b, ubQ, ubV, &vals); o << "saw" << a << v; dumpVec(o, vals); }
            { Vector vals; auto [a, v] = POMDP::bestPromisingAction<true>(dense, ir, b, ubQ, ubV, &vals); o << "lp" << a << v; dumpVec(o, vals); }
        } else if (kind == "conv") {     // conv <tol> <pomdp> <nb> <beliefs>
            double tol = c.nextDouble(); Tables t = readPomdp(c);
            POMDP::Model<MDP::Model> dense(t.O, t.Ob, t.S, t.A, t.T, t.R, t.g);
            converged(dense, tol, o);
        } else if (kind == "fibsparse") { // fibsparse hF <pomdp> <nb> <beliefs>: FIB on a sparse-reward model
            unsigned hF = c.nextSize(); Tables t = readPomdp(c);
            POMDP::Model<MDP::Model> dense(t.O, t.Ob, t.S, t.A, t.T, t.R, t.g);
            POMDP::SparseModel<MDP::SparseModel> sp(dense);
            { POMDP::FastInformedBound s(hF, 0.0); auto [var, q] = s(sp); o << "fib" << var; dumpMat(o, q); }
            { POMDP::FastInformedBound s(hF, 0.0); auto [var, q] = s(dense); o << "fibdense" << var; dumpMat(o, q); }
        } else if (kind == "bca") {      // bca <pomdp> <belief> <nv> <vectors>: bestConservativeAction
            Tables t = readPomdp(c);
            POMDP::Belief b(t.S); for (size_t s = 0; s < t.S; ++s) b[s] = c.nextDouble();
            size_t nv = c.nextSize(); POMDP::VList lbv;
            for (size_t i = 0; i < nv; ++i) { MDP::Values v(t.S); for (size_t s = 0; s < t.S; ++s) v[s] = c.nextDouble(); lbv.emplace_back(std::move(v), 0, POMDP::VObs(0)); }
            POMDP::Model<MDP::Model> dense(t.O, t.Ob, t.S, t.A, t.T, t.R, t.g);
            MDP::Values alpha;
            auto [a, v] = POMDP::bestConservativeAction(dense, dense.getRewardFunction(), b, lbv, &alpha);
            o << a << v; dumpVec(o, alpha);
        } else if (kind == "sarsop") {   // sarsop <tol> <delta> <maxIter> <pomdp> <b0>
            double tol = c.nextDouble(), delta = c.nextDouble(); unsigned maxIter = c.nextSize();
            Tables t = readPomdp(c);
            POMDP::Belief b0(t.S); for (size_t s = 0; s < t.S; ++s) b0[s] = c.nextDouble();
            POMDP::Model<MDP::Model> dense(t.O, t.Ob, t.S, t.A, t.T, t.R, t.g);
            bool ok = runGuarded(8.0, o, [&](vio::Out & co) {
                POMDP::SARSOP s(tol, delta);
#ifdef AITOOLBOX_VERIF_SARSOP_OBSERVER
                vio::Out snaps; unsigned count = 0;
                POMDP::SARSOP::verifObserver() = [&](const POMDP::SARSOP::VerifSnapshot & sn) {
                    ++count; snaps << sn.lb << sn.ub; dumpVList(snaps, *sn.lbVList); dumpMat(snaps, *sn.ubQ); dumpUbV(snaps, *sn.ubV);
                    return count >= maxIter;
                };
                vio::Out evs; unsigned nev = 0;
#ifdef AITOOLBOX_VERIF_SARSOP_EVENTS
                // every change of the bounds: kind, (belief, LB, UB, corner?, cornerState, ubAction), state after the event
                POMDP::SARSOP::verifEventObserver() = [&](const POMDP::SARSOP::VerifEvent & e) {
                    if (nev >= 80) return;
                    ++nev; evs << (int) e.kind;
                    if (e.kind == POMDP::SARSOP::VerifEvent::Backup) {
                        dumpVec(evs, *e.belief); evs << e.LB << e.UB << e.corner << e.cornerState << e.ubAction;
                    }
                    dumpVList(evs, *e.lbVList); dumpMat(evs, *e.ubQ); dumpUbV(evs, *e.ubV);
                };
#endif
                auto [lb, ub, vl, q] = s(dense, b0);
                POMDP::SARSOP::verifObserver() = nullptr;
#ifdef AITOOLBOX_VERIF_SARSOP_EVENTS
                POMDP::SARSOP::verifEventObserver() = nullptr;
#endif
                co << "ret" << lb << ub; dumpVList(co, vl); dumpMat(co, q);
                co << "snaps" << count; co.os << snaps.os.str();
                co << "events" << nev; co.os << evs.os.str();
#else
                (void) maxIter;
                auto [lb, ub, vl, q] = s(dense, b0);
                co << "ret" << lb << ub; dumpVList(co, vl); dumpMat(co, q);
                co << "snaps" << 0u;
#endif
            });
            if (!ok) o << "NOCONV";
        } else if (kind == "gapmin") {   // gapmin <initTol> <digits> <maxIter> <pomdp> <b0>
            double tol = c.nextDouble(); unsigned digits = c.nextSize(); unsigned maxIter = c.nextSize();
            Tables t = readPomdp(c);
            POMDP::Belief b0(t.S); for (size_t s = 0; s < t.S; ++s) b0[s] = c.nextDouble();
            POMDP::Model<MDP::Model> dense(t.O, t.Ob, t.S, t.A, t.T, t.R, t.g);
            bool ok = runGuarded(8.0, o, [&](vio::Out & co) {
                POMDP::GapMin s(tol, digits);
#ifdef AITOOLBOX_VERIF_GAPMIN_OBSERVER
                vio::Out snaps; unsigned count = 0;
                POMDP::GapMin::verifObserver() = [&](const POMDP::GapMin::VerifSnapshot & sn) {
                    ++count; snaps << sn.lb << sn.ub; dumpVList(snaps, *sn.lbVList); dumpMat(snaps, *sn.ubQ); dumpUbV(snaps, *sn.ubV);
                    return count >= maxIter;
                };
                auto [lb, ub, vl, q] = s(dense, b0);
                POMDP::GapMin::verifObserver() = nullptr;
                co << "ret" << lb << ub; dumpVList(co, vl); dumpMat(co, q);
                co << "snaps" << count; co.os << snaps.os.str();
#else
                (void) maxIter;
                auto [lb, ub, vl, q] = s(dense, b0);
                co << "ret" << lb << ub; dumpVList(co, vl); dumpMat(co, q);
                co << "snaps" << 0u;
#endif
            });
            if (!ok) o << "NOCONV";
        } else if (kind == "cleanup") {  // cleanup <tol> S A <ubQ S*A> <np> <points: S coords + value> : GapMin::cleanUp alignment
            double tol = c.nextDouble(); size_t S = c.nextSize(), A = c.nextSize();
            MDP::QFunction ubQ(S, A); for (size_t s = 0; s < S; ++s) for (size_t a = 0; a < A; ++a) ubQ(s, a) = c.nextDouble();
            size_t np = c.nextSize(); POMDP::UpperBoundValueFunction ubV;
            for (size_t i = 0; i < np; ++i) { POMDP::Belief b(S); for (size_t s = 0; s < S; ++s) b[s] = c.nextDouble(); ubV.first.push_back(b); ubV.second.push_back(c.nextDouble()); }
            // fibQ: corner rows = ubQ, point row i = (v_i, tag i) so that rows can be recognised afterwards
            Matrix2D fibQ(S + np, A); fibQ.topRows(S) = ubQ;
            for (size_t i = 0; i < np; ++i) { fibQ.row(S + i).fill(ubV.second[i]); }
            auto before = ubV;
            POMDP::GapMin g(tol, 3); g.tolerance_ = tol;
            g.cleanUp(ubQ, &ubV, &fibQ);
            dumpUbV(o, ubV); dumpMat(o, fibQ);
        } else throw std::logic_error("unknown case kind " + kind);
    });
}
