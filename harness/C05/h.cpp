// harness/C05/h.cpp — runs the real belief-update helpers of POMDP/Utils.hpp on exact cases, through
// the three code paths: POMDP::Model<MDP::Model> (dense Eigen), POMDP::SparseModel<MDP::SparseModel>
// (sparse Eigen) and a user-defined model that only answers probability queries (non-Eigen branches).
//
// case:  conv dy S A O <tables> NB beliefs   (sparse models built by conversion from sources with sub-threshold tails)
// case:  seq <regime> S A O <tables> b[S] L (a o)*L   (filtering along a history, see main)
// case:  hist <regime> S A O <initial tables> NOPS ops… NB beliefs   (operation history, see main)
// case:  reset <regime> S A O <tables 1> <tables 2> NB beliefs   (see main)
// case:  bel <regime> S A O  T[a][s][s1]…  Ob[a][s1][o]…  R3[s][a][s1]…  NB  b_1[S] … b_NB[S]
// out :  for each model kind (dense, sparse, mixDS = Model<SparseModel>, mixSD = SparseModel<Model>, generic):  "ok" followed by (or "throw <type>" instead of)
//          for a, o: SOSA[a][o](s,s1) row-major
//          for each belief: for a: partial[S] reward ; for o: unnorm[S] norm[S] punnorm[S] pnorm[S] pnormv[S]
#include <AIToolbox/MDP/Model.hpp>
#include <AIToolbox/MDP/SparseModel.hpp>
#include <AIToolbox/POMDP/Model.hpp>
#include <AIToolbox/POMDP/SparseModel.hpp>
#include <AIToolbox/POMDP/Utils.hpp>
#include "vio.hpp"

using namespace AIToolbox;

using T3 = std::vector<std::vector<std::vector<double>>>;

// A POMDP model defined outside the library: probability queries only, no Eigen accessors, so that
// every `if constexpr (IsModelEigen<M>)` in Utils.hpp takes its else-branch.
class UserModel {
    public:
        UserModel(size_t s, size_t a, size_t o, T3 t, T3 r, T3 ob)
            : S(s), A(a), O(o), t_(std::move(t)), r_(std::move(r)), ob_(std::move(ob)) {}
        size_t getS() const { return S; }
        size_t getA() const { return A; }
        size_t getO() const { return O; }
        double getDiscount() const { return 0.5; }
        bool isTerminal(size_t) const { return false; }
        double getTransitionProbability(size_t s, size_t a, size_t s1) const { return t_[s][a][s1]; }
        double getExpectedReward(size_t s, size_t a, size_t s1) const { return r_[s][a][s1]; }
        double getObservationProbability(size_t s1, size_t a, size_t o) const { return ob_[s1][a][o]; }
        // required by the concepts, never called by the functions under test
        std::tuple<size_t, double> sampleSR(size_t s, size_t) const { return {s, 0.0}; }
        std::tuple<size_t, size_t, double> sampleSOR(size_t s, size_t) const { return {s, 0, 0.0}; }
    private:
        size_t S, A, O;
        T3 t_, r_, ob_;   // t_[s][a][s1], r_[s][a][s1], ob_[s1][a][o]
};
static_assert(POMDP::IsModel<UserModel>);
static_assert(!POMDP::IsModelEigen<UserModel>);
static_assert(POMDP::IsModelEigen<POMDP::Model<MDP::Model>>);
static_assert(POMDP::IsModelEigen<POMDP::SparseModel<MDP::SparseModel>>);

// User-defined models that DO satisfy POMDP::IsModelEigen (so the Eigen branches are taken) but differ from the
// library's own classes in ways the concept allows:
//  * UserEigenByValue: dense matrices computed on request and returned BY VALUE (temporaries);
//  * UserEigenColSparse: COLUMN-major Eigen::SparseMatrix<double> (Eigen's default storage order).
template <typename Mat, bool ByValue>
class UserEigen {
    public:
        using Ret = std::conditional_t<ByValue, Mat, const Mat &>;
        template <typename Src>
        explicit UserEigen(const Src & src) : S(src.getS()), A(src.getA()), O(src.getO()) {
            for (size_t a = 0; a < A; ++a) {
                Matrix2D t(S, S), ob(S, O);
                for (size_t s = 0; s < S; ++s) {
                    for (size_t s1 = 0; s1 < S; ++s1) t(s, s1) = src.getTransitionProbability(s, a, s1);
                    for (size_t o = 0; o < O; ++o) ob(s, o) = src.getObservationProbability(s, a, o);
                }
                t_.push_back(conv(t)); ob_.push_back(conv(ob));
            }
            Matrix2D r(S, A);
            for (size_t s = 0; s < S; ++s) for (size_t a = 0; a < A; ++a) r(s, a) = src.getExpectedReward(s, a, 0);
            r_ = conv(r);
        }
        size_t getS() const { return S; }
        size_t getA() const { return A; }
        size_t getO() const { return O; }
        double getDiscount() const { return 0.5; }
        bool isTerminal(size_t) const { return false; }
        double getTransitionProbability(size_t s, size_t a, size_t s1) const { return t_[a].coeff(s, s1); }
        double getExpectedReward(size_t s, size_t a, size_t) const { return r_.coeff(s, a); }
        double getObservationProbability(size_t s1, size_t a, size_t o) const { return ob_[a].coeff(s1, o); }
        std::tuple<size_t, double> sampleSR(size_t s, size_t) const { return {s, 0.0}; }
        std::tuple<size_t, size_t, double> sampleSOR(size_t s, size_t) const { return {s, 0, 0.0}; }
        Ret getTransitionFunction(size_t a) const { return t_[a]; }
        Ret getObservationFunction(size_t a) const { return ob_[a]; }
        Ret getRewardFunction() const { return r_; }
    private:
        static Mat conv(const Matrix2D & m) {
            if constexpr (std::is_same_v<Mat, Matrix2D>) return m;
            else { Mat sp = m.sparseView(); sp.makeCompressed(); return sp; }
        }
        size_t S, A, O;
        std::vector<Mat> t_, ob_;
        Mat r_;
};
using UserEigenByValue   = UserEigen<Matrix2D, true>;
using UserEigenColSparse = UserEigen<Eigen::SparseMatrix<double>, false>;   // column-major
static_assert(POMDP::IsModelEigen<UserEigenByValue>);
static_assert(POMDP::IsModelEigen<UserEigenColSparse>);
static_assert(!Eigen::SparseMatrix<double>::IsRowMajor && SparseMatrix2D::IsRowMajor);

static void putVec(vio::Out & o, const POMDP::Belief & v) {
    for (Eigen::Index i = 0; i < v.size(); ++i) o << (double) v[i];
}

// may input and output of the correct stage be the same vector for this model type? (see runModel)
template <typename M>
static constexpr bool aliasOK() {
    if constexpr (POMDP::IsModelEigen<M>) {
        using OT = std::remove_cvref_t<decltype(std::declval<const M &>().getObservationFunction(0))>;
        return std::is_base_of_v<Eigen::MatrixBase<OT>, OT>;      // dense observation matrices
    } else return true;                                           // query loop
}

template <typename M>
static void runModel(const M & model, const std::vector<POMDP::Belief> & beliefs, vio::Out & out) {
    const size_t S = model.getS(), A = model.getA(), O = model.getO();
    const auto sosa = POMDP::makeSOSA(model);
    for (size_t a = 0; a < A; ++a)
        for (size_t o = 0; o < O; ++o)
            for (size_t s = 0; s < S; ++s)
                for (size_t s1 = 0; s1 < S; ++s1) {
                    out << (double) sosa[a][o].coeff(s, s1);
                }
    for (const auto & b : beliefs) {
        for (size_t a = 0; a < A; ++a) {
            const POMDP::Belief part = POMDP::updateBeliefPartial(model, b, a);
            putVec(out, part);
            out << (double) POMDP::beliefExpectedReward(model, b, a);
            for (size_t o = 0; o < O; ++o) {
                putVec(out, POMDP::updateBeliefUnnormalized(model, b, a, o));
                putVec(out, POMDP::updateBelief(model, b, a, o));
                putVec(out, POMDP::updateBeliefPartialUnnormalized(model, part, a, o));
                // pointer overload of the normalised second stage (the value overload is the same code)
                POMDP::Belief pn(S);
                POMDP::updateBeliefPartialNormalized(model, part, a, o, &pn);
                putVec(out, pn);
                // value overload: separate code in Utils.hpp
                putVec(out, POMDP::updateBeliefPartialNormalized(model, part, a, o));
                // in-place use of the (element-wise) correct stage: updateBeliefPartial(m,b,a,&work); then
                // update…(m, work, a, o, &work).  Only for models whose observation matrices are dense or that take
                // the query loop: with SPARSE observation matrices Eigen clears the destination before reading
                // it, already on the unchanged tree (notes/C05.md, round 3), so those are not exercised.
                if constexpr (aliasOK<M>()) {
                    POMDP::Belief work = part;
                    POMDP::updateBeliefPartialUnnormalized(model, work, a, o, &work);
                    putVec(out, work);
                    work = part;
                    POMDP::updateBeliefPartialNormalized(model, work, a, o, &work);
                    putVec(out, work);
                }
            }
        }
    }
}

// Runs one model variant: "ok <values…>" or, if building it from valid tables throws, "throw <type>".
template <typename Build>
static void emitVariant(Build && build, const std::vector<POMDP::Belief> & beliefs, vio::Out & out) {
    vio::Out tmp;
    try {
        const auto & model = build();   // temporary (lifetime extended) or a reference to a live object
        runModel(model, beliefs, tmp);
    } catch (const std::exception & e) {
        out << "throw" << vio::exnName(e);
        return;
    }
    out << "ok";
    out.os << tmp.os.str();
}

struct Tables { T3 t, r, ob; };   // t[s][a][s1], r[s][a][s1], ob[s1][a][o]

static Tables readTables(vio::Cursor & c, size_t S, size_t A, size_t O) {
    Tables x;
    x.t.assign(S, std::vector<std::vector<double>>(A, std::vector<double>(S)));
    x.r.assign(S, std::vector<std::vector<double>>(A, std::vector<double>(S)));
    x.ob.assign(S, std::vector<std::vector<double>>(A, std::vector<double>(O)));
    for (size_t a = 0; a < A; ++a) for (size_t s = 0; s < S; ++s) for (size_t s1 = 0; s1 < S; ++s1) x.t[s][a][s1] = c.nextDouble();
    for (size_t a = 0; a < A; ++a) for (size_t s1 = 0; s1 < S; ++s1) for (size_t o = 0; o < O; ++o) x.ob[s1][a][o] = c.nextDouble();
    for (size_t s = 0; s < S; ++s) for (size_t a = 0; a < A; ++a) for (size_t s1 = 0; s1 < S; ++s1) x.r[s][a][s1] = c.nextDouble();
    return x;
}

static std::vector<POMDP::Belief> readBeliefs(vio::Cursor & c, size_t S) {
    const size_t nb = c.nextSize();
    std::vector<POMDP::Belief> beliefs;
    for (size_t i = 0; i < nb; ++i) {
        POMDP::Belief b(S);
        for (size_t s = 0; s < S; ++s) b[s] = c.nextDouble();
        beliefs.push_back(std::move(b));
    }
    return beliefs;
}

// Eigen-typed copies of the tables, for the matrix overloads of the setters
static Matrix3D denseT(const Tables & x, size_t S, size_t A) {
    Matrix3D m(A, Matrix2D(S, S));
    for (size_t a = 0; a < A; ++a) for (size_t s = 0; s < S; ++s) for (size_t s1 = 0; s1 < S; ++s1) m[a](s, s1) = x.t[s][a][s1];
    return m;
}
static Matrix3D denseO(const Tables & x, size_t S, size_t A, size_t O) {
    Matrix3D m(A, Matrix2D(S, O));
    for (size_t a = 0; a < A; ++a) for (size_t s1 = 0; s1 < S; ++s1) for (size_t o = 0; o < O; ++o) m[a](s1, o) = x.ob[s1][a][o];
    return m;
}
static SparseMatrix3D toSparse(const Matrix3D & d) {
    SparseMatrix3D m;
    for (const auto & x : d) { SparseMatrix2D sp = x.sparseView(); sp.makeCompressed(); m.push_back(std::move(sp)); }
    return m;
}

using DenseP  = POMDP::Model<MDP::Model>;
using SparseP = POMDP::SparseModel<MDP::SparseModel>;
using MixDS   = POMDP::Model<MDP::SparseModel>;        // dense observation matrices, sparse transitions/rewards
using MixSD   = POMDP::SparseModel<MDP::Model>;        // sparse observation matrices, dense transitions/rewards
static_assert(POMDP::IsModelEigen<MixDS> && POMDP::IsModelEigen<MixSD>);

// container (3-D table) overloads of the three setters
template <typename M>
static void setByTables(M & m, const Tables & x) {
    m.setTransitionFunction(x.t);
    m.setRewardFunction(x.r);          // folds r with the transitions just set
    m.setObservationFunction(x.ob);
}

int main(int argc, char ** argv) {
    return vio::runCases(argc, argv, [](vio::Cursor & c, vio::Out & out) {
        const std::string kind = c.next();
        if (kind == "bel") {
            c.next(); // regime: dy | gen (only the judge cares)
            const size_t S = c.nextSize(), A = c.nextSize(), O = c.nextSize();
            const Tables x = readTables(c, S, A, O);
            const auto beliefs = readBeliefs(c, S);
            emitVariant([&]{ return DenseP(O, x.ob, S, A, x.t, x.r, 0.5); }, beliefs, out);
            emitVariant([&]{ return SparseP(O, x.ob, S, A, x.t, x.r, 0.5); }, beliefs, out);
            // the two mixed library types: dense observations over sparse transitions, and the reverse
            emitVariant([&]{ return MixDS(O, x.ob, S, A, x.t, x.r, 0.5); }, beliefs, out);
            emitVariant([&]{ return MixSD(O, x.ob, S, A, x.t, x.r, 0.5); }, beliefs, out);
            emitVariant([&]{ return UserModel(S, A, O, x.t, x.r, x.ob); }, beliefs, out);
            emitVariant([&]{ return UserEigenByValue(DenseP(O, x.ob, S, A, x.t, x.r, 0.5)); }, beliefs, out);
            emitVariant([&]{ return UserEigenColSparse(DenseP(O, x.ob, S, A, x.t, x.r, 0.5)); }, beliefs, out);
        } else if (kind == "conv") {
            // conv dy S A O <tables> NB beliefs
            // The source tables are exact distributions whose observation rows carry a tail of entries below the
            // sparse models' 1e-6 storage threshold.  Sparse models are built BY CONVERSION from a dense and from
            // a user-defined source; each either refuses (std::invalid_argument) or must filter consistently.
            c.next();
            const size_t S = c.nextSize(), A = c.nextSize(), O = c.nextSize();
            const Tables x = readTables(c, S, A, O);
            const auto beliefs = readBeliefs(c, S);
            emitVariant([&]{ return SparseP(DenseP(O, x.ob, S, A, x.t, x.r, 0.5)); }, beliefs, out);
            emitVariant([&]{ return SparseP(UserModel(S, A, O, x.t, x.r, x.ob)); }, beliefs, out);
            emitVariant([&]{ return MixSD(DenseP(O, x.ob, S, A, x.t, x.r, 0.5)); }, beliefs, out);
        } else if (kind == "reset") {
            // reset <regime> S A O <tables 1> <tables 2> NB beliefs
            // Models are built through the other public construction paths and then RE-SET; the belief
            // updates must be the Bayes filter of the tables supplied LAST (tables 2).
            // variants, in output order:
            //   dense     (O,S,A) ctor; container setters with tables 1; container setters with tables 2
            //   dense-m   (O,S,A) ctor; matrix-overload setters with tables 1, then with tables 2
            //   dense-c   converted from the re-set sparse model (POMDP::Model(const PM&))
            //   sparse    (O,S,A) ctor; container setters with tables 1; container setters with tables 2
            //   sparse-m  (O,S,A) ctor; SparseMatrix-overload setters with tables 1, then with tables 2
            //   sparse-d  (O,S,A) ctor (identity T, observation 0 certain); container setters with tables 2 only
            //   sparse-c  converted from the re-set dense model (POMDP::SparseModel(const PM&))
            //   generic   user-defined model over tables 2
            c.next();
            const size_t S = c.nextSize(), A = c.nextSize(), O = c.nextSize();
            const Tables x1 = readTables(c, S, A, O);
            const Tables x2 = readTables(c, S, A, O);
            const auto beliefs = readBeliefs(c, S);

            auto mkDense  = [&]{ DenseP m(O, S, A, 0.5);  setByTables(m, x1); setByTables(m, x2); return m; };
            auto mkSparse = [&]{ SparseP m(O, S, A, 0.5); setByTables(m, x1); setByTables(m, x2); return m; };

            emitVariant(mkDense, beliefs, out);
            emitVariant([&]{
                DenseP m(O, S, A, 0.5);
                DenseP tmp1(O, S, A, 0.5); setByTables(tmp1, x1);   // only to obtain the folded S x A rewards
                const DenseP tmp2 = mkDense();
                m.setTransitionFunction(denseT(x1, S, A));
                m.setRewardFunction(tmp1.getRewardFunction());
                m.setObservationFunction(denseO(x1, S, A, O));
                m.setTransitionFunction(denseT(x2, S, A));
                m.setRewardFunction(tmp2.getRewardFunction());
                m.setObservationFunction(denseO(x2, S, A, O));
                return m; }, beliefs, out);
            emitVariant([&]{ return DenseP(mkSparse()); }, beliefs, out);
            emitVariant(mkSparse, beliefs, out);
            emitVariant([&]{
                SparseP m(O, S, A, 0.5);
                SparseP tmp1(O, S, A, 0.5); setByTables(tmp1, x1);
                const SparseP tmp2 = mkSparse();
                m.setTransitionFunction(toSparse(denseT(x1, S, A)));
                m.setRewardFunction(tmp1.getRewardFunction());
                m.setObservationFunction(toSparse(denseO(x1, S, A, O)));
                m.setTransitionFunction(toSparse(denseT(x2, S, A)));
                m.setRewardFunction(tmp2.getRewardFunction());
                m.setObservationFunction(toSparse(denseO(x2, S, A, O)));
                return m; }, beliefs, out);
            emitVariant([&]{ SparseP m(O, S, A, 0.5); setByTables(m, x2); return m; }, beliefs, out);
            emitVariant([&]{ return SparseP(mkDense()); }, beliefs, out);
            emitVariant([&]{ return UserModel(S, A, O, x2.t, x2.r, x2.ob); }, beliefs, out);
        } else if (kind == "hist") {
            // hist <regime> S A O <initial tables> NOPS { <op> <ovl> <values> }* NB beliefs
            //   op obs c|m  A*S*O values [a][s1][o]   setObservationFunction (container | matrix overload)
            //   op tr  c|m  A*S*S values [a][s][s1]   setTransitionFunction
            //   op rw3 c    S*A*S values [s][a][s1]   setRewardFunction(3-D container)
            //   op rw2 m    S*A   values [s][a]       setRewardFunction(matrix)
            // One dense and one sparse model object live through the whole history; a setter that throws
            // std::invalid_argument is caught and the SAME object is used on.
            // out: snapshot(dense) snapshot(sparse) { status(dense) status(sparse) snapshot(dense) snapshot(sparse) }*
            //      status = acc | rej ; snapshot = "ok" + the outputs of runModel
            c.next();
            const size_t S = c.nextSize(), A = c.nextSize(), O = c.nextSize();
            const Tables x0 = readTables(c, S, A, O);
            struct Op { std::string name, ovl; std::vector<double> v; };
            std::vector<Op> ops(c.nextSize());
            for (auto & op : ops) {
                op.name = c.next(); op.ovl = c.next();
                const size_t cnt = op.name == "obs" ? A*S*O : op.name == "tr" ? A*S*S : op.name == "rw3" ? S*A*S : op.name == "rw2" ? S*A : 0;
                if (!cnt) throw std::logic_error("unknown op " + op.name);
                op.v.resize(cnt);
                for (auto & d : op.v) d = c.nextDouble();
            }
            const auto beliefs = readBeliefs(c, S);

            DenseP dense(O, x0.ob, S, A, x0.t, x0.r, 0.5);
            SparseP sparse(O, x0.ob, S, A, x0.t, x0.r, 0.5);
            auto snapshot = [&]{
                emitVariant([&]() -> const DenseP & { return dense; }, beliefs, out);
                emitVariant([&]() -> const SparseP & { return sparse; }, beliefs, out);
            };
            snapshot();
            for (const auto & op : ops) {
                // tables in both shapes
                T3 cont; Matrix3D mat3; Matrix2D mat2;
                if (op.name == "obs" || op.name == "tr") {
                    const size_t K = op.name == "obs" ? O : S;
                    cont.assign(S, std::vector<std::vector<double>>(A, std::vector<double>(K)));
                    mat3.assign(A, Matrix2D(S, K));
                    size_t i = 0;
                    for (size_t a = 0; a < A; ++a) for (size_t s = 0; s < S; ++s) for (size_t k = 0; k < K; ++k) {
                        cont[s][a][k] = op.v[i]; mat3[a](s, k) = op.v[i]; ++i;
                    }
                } else if (op.name == "rw3") {
                    cont.assign(S, std::vector<std::vector<double>>(A, std::vector<double>(S)));
                    size_t i = 0;
                    for (size_t s = 0; s < S; ++s) for (size_t a = 0; a < A; ++a) for (size_t s1 = 0; s1 < S; ++s1) cont[s][a][s1] = op.v[i++];
                } else {
                    mat2.resize(S, A);
                    size_t i = 0;
                    for (size_t s = 0; s < S; ++s) for (size_t a = 0; a < A; ++a) mat2(s, a) = op.v[i++];
                }
                auto apply = [&](auto & model, auto sparseTag) {
                    constexpr bool isSparse = decltype(sparseTag)::value;
                    try {
                        if (op.name == "obs") {
                            if (op.ovl == "c") model.setObservationFunction(cont);
                            else if constexpr (isSparse) model.setObservationFunction(toSparse(mat3));
                            else model.setObservationFunction(mat3);
                        } else if (op.name == "tr") {
                            if (op.ovl == "c") model.setTransitionFunction(cont);
                            else if constexpr (isSparse) model.setTransitionFunction(toSparse(mat3));
                            else model.setTransitionFunction(mat3);
                        } else if (op.name == "rw3") {
                            model.setRewardFunction(cont);
                        } else {
                            if constexpr (isSparse) { SparseMatrix2D sp = mat2.sparseView(); sp.makeCompressed(); model.setRewardFunction(sp); }
                            else model.setRewardFunction(mat2);
                        }
                        out << "acc";
                    } catch (const std::invalid_argument &) {
                        out << "rej";
                    }
                };
                apply(dense, std::false_type{});
                apply(sparse, std::true_type{});
                // probe: repeat, right after the setter, the (belief, action, observation) of the LAST by-value
                // updateBeliefUnnormalized query made before it (the last one of the previous snapshot); the
                // answer must come from the tables the object holds NOW
                putVec(out, POMDP::updateBeliefUnnormalized(dense, beliefs.back(), A - 1, O - 1));
                putVec(out, POMDP::updateBeliefUnnormalized(sparse, beliefs.back(), A - 1, O - 1));
                snapshot();
            }
        } else if (kind == "seq") {
            // seq <regime> S A O <tables> b[S] L (a o)*L
            // filtering along a history: b <- update(b, a, o) repeatedly; even steps use updateBelief, odd steps
            // the two-stage pair updateBeliefPartial + updateBeliefPartialNormalized.
            // out: per variant (dense, sparse, mixDS, mixSD, generic): "ok" + L beliefs of S entries
            c.next();
            const size_t S = c.nextSize(), A = c.nextSize(), O = c.nextSize();
            const Tables x = readTables(c, S, A, O);
            POMDP::Belief b0(S);
            for (size_t s = 0; s < S; ++s) b0[s] = c.nextDouble();
            const size_t L = c.nextSize();
            std::vector<std::pair<size_t, size_t>> h(L);
            for (auto & ao : h) { ao.first = c.nextSize(); ao.second = c.nextSize(); }
            auto filter = [&](const auto & model) {
                POMDP::Belief b = b0;
                for (size_t k = 0; k < L; ++k) {
                    const auto [a, o] = h[k];
                    if (k % 2 == 0) b = POMDP::updateBelief(model, b, a, o);
                    else b = POMDP::updateBeliefPartialNormalized(model, POMDP::updateBeliefPartial(model, b, a), a, o);
                    putVec(out, b);
                }
            };
            { DenseP m(O, x.ob, S, A, x.t, x.r, 0.5);  out << "ok"; filter(m); }
            { SparseP m(O, x.ob, S, A, x.t, x.r, 0.5); out << "ok"; filter(m); }
            { MixDS m(O, x.ob, S, A, x.t, x.r, 0.5);   out << "ok"; filter(m); }
            { MixSD m(O, x.ob, S, A, x.t, x.r, 0.5);   out << "ok"; filter(m); }
            { UserModel m(S, A, O, x.t, x.r, x.ob);    out << "ok"; filter(m); }
            { UserEigenByValue m(DenseP(O, x.ob, S, A, x.t, x.r, 0.5));   out << "ok"; filter(m); }
            { UserEigenColSparse m(DenseP(O, x.ob, S, A, x.t, x.r, 0.5)); out << "ok"; filter(m); }
        } else throw std::logic_error("unknown case kind " + kind);
    });
}
