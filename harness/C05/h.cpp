// harness/C05/h.cpp — runs the real belief-update helpers of POMDP/Utils.hpp on exact cases, through
// the three code paths: POMDP::Model<MDP::Model> (dense Eigen), POMDP::SparseModel<MDP::SparseModel>
// (sparse Eigen) and a user-defined model that only answers probability queries (non-Eigen branches).
//
// case:  bel <regime> S A O  T[a][s][s1]…  Ob[a][s1][o]…  R3[s][a][s1]…  NB  b_1[S] … b_NB[S]
// out :  for each model kind (dense, sparse, generic):
//          for a, o: SOSA[a][o](s,s1) row-major
//          for each belief: for a: partial[S] reward ; for o: unnorm[S] norm[S] punnorm[S] pnorm[S] pnormv[S]
#include <AIToolbox/MDP/Model.hpp>
#include <AIToolbox/MDP/SparseModel.hpp>
#include <AIToolbox/POMDP/Model.hpp>
#include <AIToolbox/POMDP/SparseModel.hpp>
#include <AIToolbox/POMDP/Utils.hpp>
#include "vio.hpp"

using namespace AIToolbox;

using T3 = std::vector<std::vector<std::vector<double>>>;

// A POMDP model defined outside the library: probability queries only, no Eigen accessors, so that
// every `if constexpr (IsModelEigen<M>)` in Utils.hpp takes its else-branch.
class UserModel {
    public:
        UserModel(size_t s, size_t a, size_t o, T3 t, T3 r, T3 ob)
            : S(s), A(a), O(o), t_(std::move(t)), r_(std::move(r)), ob_(std::move(ob)) {}
        size_t getS() const { return S; }
        size_t getA() const { return A; }
        size_t getO() const { return O; }
        double getDiscount() const { return 0.5; }
        bool isTerminal(size_t) const { return false; }
        double getTransitionProbability(size_t s, size_t a, size_t s1) const { return t_[s][a][s1]; }
        double getExpectedReward(size_t s, size_t a, size_t s1) const { return r_[s][a][s1]; }
        double getObservationProbability(size_t s1, size_t a, size_t o) const { return ob_[s1][a][o]; }
        // required by the concepts, never called by the functions under test
        std::tuple<size_t, double> sampleSR(size_t s, size_t) const { return {s, 0.0}; }
        std::tuple<size_t, size_t, double> sampleSOR(size_t s, size_t) const { return {s, 0, 0.0}; }
    private:
        size_t S, A, O;
        T3 t_, r_, ob_;   // t_[s][a][s1], r_[s][a][s1], ob_[s1][a][o]
};
static_assert(POMDP::IsModel<UserModel>);
static_assert(!POMDP::IsModelEigen<UserModel>);
static_assert(POMDP::IsModelEigen<POMDP::Model<MDP::Model>>);
static_assert(POMDP::IsModelEigen<POMDP::SparseModel<MDP::SparseModel>>);

static void putVec(vio::Out & o, const POMDP::Belief & v) {
    for (Eigen::Index i = 0; i < v.size(); ++i) o << (double) v[i];
}

template <typename M>
static void runModel(const M & model, const std::vector<POMDP::Belief> & beliefs, vio::Out & out) {
    const size_t S = model.getS(), A = model.getA(), O = model.getO();
    const auto sosa = POMDP::makeSOSA(model);
    for (size_t a = 0; a < A; ++a)
        for (size_t o = 0; o < O; ++o)
            for (size_t s = 0; s < S; ++s)
                for (size_t s1 = 0; s1 < S; ++s1) {
                    if constexpr (std::is_same_v<std::remove_cvref_t<decltype(sosa[a][o])>, SparseMatrix2D>)
                        out << (double) sosa[a][o].coeff(s, s1);
                    else
                        out << (double) sosa[a][o](s, s1);
                }
    for (const auto & b : beliefs) {
        for (size_t a = 0; a < A; ++a) {
            const POMDP::Belief part = POMDP::updateBeliefPartial(model, b, a);
            putVec(out, part);
            out << (double) POMDP::beliefExpectedReward(model, b, a);
            for (size_t o = 0; o < O; ++o) {
                putVec(out, POMDP::updateBeliefUnnormalized(model, b, a, o));
                putVec(out, POMDP::updateBelief(model, b, a, o));
                putVec(out, POMDP::updateBeliefPartialUnnormalized(model, part, a, o));
                // pointer overload of the normalised second stage (the value overload is the same code)
                POMDP::Belief pn(S);
                POMDP::updateBeliefPartialNormalized(model, part, a, o, &pn);
                putVec(out, pn);
                // value overload: separate code in Utils.hpp
                putVec(out, POMDP::updateBeliefPartialNormalized(model, part, a, o));
            }
        }
    }
}

int main(int argc, char ** argv) {
    return vio::runCases(argc, argv, [](vio::Cursor & c, vio::Out & out) {
        const std::string kind = c.next();
        if (kind != "bel") throw std::logic_error("unknown case kind " + kind);
        c.next(); // regime: dy | gen (only the judge cares)
        const size_t S = c.nextSize(), A = c.nextSize(), O = c.nextSize();
        T3 t(S, std::vector<std::vector<double>>(A, std::vector<double>(S)));
        T3 r(S, std::vector<std::vector<double>>(A, std::vector<double>(S)));
        T3 ob(S, std::vector<std::vector<double>>(A, std::vector<double>(O)));
        for (size_t a = 0; a < A; ++a) for (size_t s = 0; s < S; ++s) for (size_t s1 = 0; s1 < S; ++s1) t[s][a][s1] = c.nextDouble();
        for (size_t a = 0; a < A; ++a) for (size_t s1 = 0; s1 < S; ++s1) for (size_t o = 0; o < O; ++o) ob[s1][a][o] = c.nextDouble();
        for (size_t s = 0; s < S; ++s) for (size_t a = 0; a < A; ++a) for (size_t s1 = 0; s1 < S; ++s1) r[s][a][s1] = c.nextDouble();
        const size_t nb = c.nextSize();
        std::vector<POMDP::Belief> beliefs;
        for (size_t i = 0; i < nb; ++i) {
            POMDP::Belief b(S);
            for (size_t s = 0; s < S; ++s) b[s] = c.nextDouble();
            beliefs.push_back(std::move(b));
        }
        {
            POMDP::Model<MDP::Model> dense(O, ob, S, A, t, r, 0.5);
            runModel(dense, beliefs, out);
        }
        {
            POMDP::SparseModel<MDP::SparseModel> sparse(O, ob, S, A, t, r, 0.5);
            runModel(sparse, beliefs, out);
        }
        {
            UserModel user(S, A, O, t, r, ob);
            runModel(user, beliefs, out);
        }
    });
}
