// harness/C18/h.cpp — feeds generated texts to the real CassandraParser (src/Tools/CassandraParser.cpp)
// and prints accept/reject plus the returned tables (hex floats).
// Case:   <kind> <mode:mdp|pomdp> <label…> <hex-encoded text (lowercase hex, "-" for the empty text)>
//         (the text is always the LAST token; everything between mode and text is for the driver only)
//         BADSHAPE <S> <A> [<O>]  when a returned table's element count is not the product of its shape
// Output: OK <S> <A> [<O>] <discount> <T: n x1..xn> <R: n x1..xn> [<W: n x1..xn>]   |  THROW <type>
#include <AIToolbox/Tools/CassandraParser.hpp>
#include <sstream>
#include <unistd.h>
#include <sys/wait.h>
#include "vio.hpp"

static std::string unhex(const std::string & h) {
    if (h == "-") return "";
    if (h.size() % 2) throw std::logic_error("odd hex text");
    auto v = [](char c) -> int { return c <= '9' ? c - '0' : c - 'a' + 10; };
    std::string s;
    for (size_t i = 0; i < h.size(); i += 2) s.push_back((char)(v(h[i]) * 16 + v(h[i + 1])));
    return s;
}

// a table whose element count is not the product of its shape (size_t wrap-around) cannot be read
static bool sane(const AIToolbox::DumbMatrix3D & M, size_t d1, size_t d2, size_t d3) {
    const unsigned __int128 n = (unsigned __int128) d1 * d2 * d3;
    return M.shape()[0] == d1 && M.shape()[1] == d2 && M.shape()[2] == d3 && n == (unsigned __int128) M.num_elements();
}

static void dump(vio::Out & o, const AIToolbox::DumbMatrix3D & M) {
    o << (size_t) M.num_elements();
    for (size_t i = 0; i < M.shape()[0]; ++i)
        for (size_t j = 0; j < M.shape()[1]; ++j)
            for (size_t k = 0; k < M.shape()[2]; ++k)
                o << M[i][j][k];
}

static void runParse(const std::string & mode, const std::string & text, vio::Out & o) {
    std::istringstream in(text);
    AIToolbox::CassandraParser parser;
    if (mode == "mdp") {
        const auto [S, A, T, R, d] = parser.parseMDP(in);
        if (!sane(T, S, A, S) || !sane(R, S, A, S)) { o << "BADSHAPE" << S << A; return; }
        o << "OK" << S << A << d; dump(o, T); dump(o, R);
    } else if (mode == "pomdp") {
        const auto [S, A, O, T, R, W, d] = parser.parsePOMDP(in);
        if (!sane(T, S, A, S) || !sane(R, S, A, S) || !sane(W, S, A, O)) { o << "BADSHAPE" << S << A << O; return; }
        o << "OK" << S << A << O << d; dump(o, T); dump(o, R); dump(o, W);
    } else throw std::logic_error("unknown mode " + mode);
}

int main(int argc, char ** argv) {
    return vio::runCases(argc, argv, [](vio::Cursor & c, vio::Out & o) {
        const std::string kind = c.next();
        const std::string mode = c.next();
        const std::string text = unhex(c.toks.back());
        if (kind != "ovf") { runParse(mode, text, o); return; }
        // Overflowing sizes make today's parser write out of bounds; heap damage would surface in a
        // LATER case. Such cases run in a forked child so that the damage is attributed to them.
        int fd[2];
        if (pipe(fd) != 0) throw std::logic_error("pipe failed");
        const pid_t pid = fork();
        if (pid < 0) throw std::logic_error("fork failed");
        if (pid == 0) {
            close(fd[0]);
            vio::Out oo;
            try { runParse(mode, text, oo); }
            catch (const std::exception & e) { oo.os.str(""); oo.os.clear(); oo << "THROW" << vio::exnName(e); }
            catch (...) { oo.os.str(""); oo.os.clear(); oo << "THROW" << "unknown"; }
            const std::string s = oo.os.str();
            size_t off = 0;
            while (off < s.size()) { const ssize_t w = write(fd[1], s.data() + off, s.size() - off); if (w <= 0) break; off += (size_t) w; }
            _exit(0);
        }
        close(fd[1]);
        std::string got; char buf[4096]; ssize_t n;
        while ((n = read(fd[0], buf, sizeof buf)) > 0) got.append(buf, (size_t) n);
        close(fd[0]);
        int status = 0; waitpid(pid, &status, 0);
        if (WIFEXITED(status) && WEXITSTATUS(status) == 0 && !got.empty()) o.os << got;
        else if (WIFEXITED(status)) o << "SANITIZER" << (long) WEXITSTATUS(status);
        else o << "CRASH" << (long) (WIFSIGNALED(status) ? WTERMSIG(status) : -1);
    });
}
