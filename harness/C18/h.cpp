// harness/C18/h.cpp — feeds generated texts to the real CassandraParser (src/Tools/CassandraParser.cpp)
// and prints accept/reject plus the returned tables (hex floats).
// Case:   <kind> <mode:mdp|pomdp> <label…> <hex-encoded text (lowercase hex, "-" for the empty text)>
//         (the text is always the LAST token; everything between mode and text is for the driver only)
//         BADSHAPE <S> <A> [<O>]  when a returned table's element count is not the product of its shape
//         two <mode2> <mode1> <hex1> <hex2>: one parser object re-used for two texts; output = second result | result of a fresh object on text2
// Output: OK <S> <A> [<O>] <discount> <T: n x1..xn> <R: n x1..xn> [<W: n x1..xn>]   |  THROW <type>
#include <AIToolbox/Tools/CassandraParser.hpp>
#include <AIToolbox/MDP/IO.hpp>
#include <AIToolbox/POMDP/IO.hpp>
#include <AIToolbox/MDP/Model.hpp>
#include <AIToolbox/POMDP/Model.hpp>
#include <sstream>
#include <unistd.h>
#include <sys/wait.h>
#include "vio.hpp"

static std::string unhex(const std::string & h) {
    if (h == "-") return "";
    if (h.size() % 2) throw std::logic_error("odd hex text");
    auto v = [](char c) -> int { return c <= '9' ? c - '0' : c - 'a' + 10; };
    std::string s;
    for (size_t i = 0; i < h.size(); i += 2) s.push_back((char)(v(h[i]) * 16 + v(h[i + 1])));
    return s;
}

// a table whose element count is not the product of its shape (size_t wrap-around) cannot be read
static bool sane(const AIToolbox::DumbMatrix3D & M, size_t d1, size_t d2, size_t d3) {
    const unsigned __int128 n = (unsigned __int128) d1 * d2 * d3;
    return M.shape()[0] == d1 && M.shape()[1] == d2 && M.shape()[2] == d3 && n == (unsigned __int128) M.num_elements();
}

static void dump(vio::Out & o, const AIToolbox::DumbMatrix3D & M) {
    o << (size_t) M.num_elements();
    for (size_t i = 0; i < M.shape()[0]; ++i)
        for (size_t j = 0; j < M.shape()[1]; ++j)
            for (size_t k = 0; k < M.shape()[2]; ++k)
                o << M[i][j][k];
}

static void runParseWith(AIToolbox::CassandraParser & parser, const std::string & mode, const std::string & text, vio::Out & o) {
    std::istringstream in(text);
    if (mode == "mdp") {
        const auto [S, A, T, R, d] = parser.parseMDP(in);
        if (!sane(T, S, A, S) || !sane(R, S, A, S)) { o << "BADSHAPE" << S << A; return; }
        o << "OK" << S << A << d; dump(o, T); dump(o, R);
    } else if (mode == "pomdp") {
        const auto [S, A, O, T, R, W, d] = parser.parsePOMDP(in);
        if (!sane(T, S, A, S) || !sane(R, S, A, S) || !sane(W, S, A, O)) { o << "BADSHAPE" << S << A << O; return; }
        o << "OK" << S << A << O << d; dump(o, T); dump(o, R); dump(o, W);
    } else throw std::logic_error("unknown mode " + mode);
}

static void runParse(const std::string & mode, const std::string & text, vio::Out & o) {
    AIToolbox::CassandraParser parser;
    runParseWith(parser, mode, text, o);
}

int main(int argc, char ** argv) {
    return vio::runCases(argc, argv, [](vio::Cursor & c, vio::Out & o) {
        const std::string kind = c.next();
        const std::string mode = c.next();
        const std::string text = unhex(c.toks.back());
        if (kind == "load") {
            // load <mode> <ok|bad> <hex>: the public entry points MDP::parseCassandra / POMDP::parseCassandra
            // (parser + Model constructor validation).  Output: LOK S A [O] discount T(s,a,s') ER(s,a) [W(s',a,o)]
            std::istringstream in(text);
            if (mode == "mdp") {
                const auto m = AIToolbox::MDP::parseCassandra(in);
                const size_t S = m.getS(), A = m.getA();
                o << "LOK" << S << A << m.getDiscount();
                o << (size_t) (S * A * S);
                for (size_t s = 0; s < S; ++s) for (size_t a = 0; a < A; ++a) for (size_t s1 = 0; s1 < S; ++s1) o << m.getTransitionProbability(s, a, s1);
                o << (size_t) (S * A);
                for (size_t s = 0; s < S; ++s) for (size_t a = 0; a < A; ++a) o << m.getExpectedReward(s, a, 0);
            } else {
                const auto m = AIToolbox::POMDP::parseCassandra(in);
                const size_t S = m.getS(), A = m.getA(), O = m.getO();
                o << "LOK" << S << A << O << m.getDiscount();
                o << (size_t) (S * A * S);
                for (size_t s = 0; s < S; ++s) for (size_t a = 0; a < A; ++a) for (size_t s1 = 0; s1 < S; ++s1) o << m.getTransitionProbability(s, a, s1);
                o << (size_t) (S * A);
                for (size_t s = 0; s < S; ++s) for (size_t a = 0; a < A; ++a) o << m.getExpectedReward(s, a, 0);
                o << (size_t) (S * A * O);
                for (size_t s1 = 0; s1 < S; ++s1) for (size_t a = 0; a < A; ++a) for (size_t ob = 0; ob < O; ++ob) o << m.getObservationProbability(s1, a, ob);
            }
            return;
        }
        if (kind == "two") {
            // two <mode2> <mode1> <hex1> <hex2>: ONE parser object reads text1 (result or exception
            // discarded), then text2; the output is the second result.
            const std::string mode1 = c.next();
            const std::string text1 = unhex(c.toks.at(c.toks.size() - 2));
            AIToolbox::CassandraParser parser;
            try { vio::Out scratch; runParseWith(parser, mode1, text1, scratch); } catch (const std::exception &) {}
            // second result with the re-used object, then " | ", then the result of a fresh object
            auto guarded = [&](AIToolbox::CassandraParser & ps, vio::Out & out) {
                try { runParseWith(ps, mode, text, out); }
                catch (const std::exception & e) { out.os.str(""); out.os.clear(); out << "THROW" << vio::exnName(e); }
            };
            guarded(parser, o);
            o << "|";
            AIToolbox::CassandraParser fresh;
            vio::Out o2; guarded(fresh, o2);
            o.os << o2.os.str();
            return;
        }
        if (kind != "ovf") { runParse(mode, text, o); return; }
        // Overflowing sizes make today's parser write out of bounds; heap damage would surface in a
        // LATER case. Such cases run in a forked child so that the damage is attributed to them.
        int fd[2];
        if (pipe(fd) != 0) throw std::logic_error("pipe failed");
        const pid_t pid = fork();
        if (pid < 0) throw std::logic_error("fork failed");
        if (pid == 0) {
            close(fd[0]);
            vio::Out oo;
            try { runParse(mode, text, oo); }
            catch (const std::exception & e) { oo.os.str(""); oo.os.clear(); oo << "THROW" << vio::exnName(e); }
            catch (...) { oo.os.str(""); oo.os.clear(); oo << "THROW" << "unknown"; }
            const std::string s = oo.os.str();
            size_t off = 0;
            while (off < s.size()) { const ssize_t w = write(fd[1], s.data() + off, s.size() - off); if (w <= 0) break; off += (size_t) w; }
            _exit(0);
        }
        close(fd[1]);
        std::string got; char buf[4096]; ssize_t n;
        while ((n = read(fd[0], buf, sizeof buf)) > 0) got.append(buf, (size_t) n);
        close(fd[0]);
        int status = 0; waitpid(pid, &status, 0);
        if (WIFEXITED(status) && WEXITSTATUS(status) == 0 && !got.empty()) o.os << got;
        else if (WIFEXITED(status)) o << "SANITIZER" << (long) WEXITSTATUS(status);
        else o << "CRASH" << (long) (WIFSIGNALED(status) ? WTERMSIG(status) : -1);
    });
}
