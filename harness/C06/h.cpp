// harness/C06/h.cpp — drives the real MDP::Model, MDP::SparseModel, POMDP::Model<MDP::Model>,
// POMDP::SparseModel<MDP::SparseModel> through sequences of constructor / setter calls and dumps
// every getter after each call.  Also: AMDP discretisation and CooperativeModel discount cases.
#include <AIToolbox/MDP/Model.hpp>
#include <AIToolbox/MDP/SparseModel.hpp>
#include <AIToolbox/POMDP/Model.hpp>
#include <AIToolbox/POMDP/SparseModel.hpp>
#include <AIToolbox/Utils/Probability.hpp>
#include <AIToolbox/POMDP/Algorithms/AMDP.hpp>
#include <AIToolbox/Seeder.hpp>
#include <AIToolbox/Factored/MDP/CooperativeModel.hpp>
#include <memory>
#include <optional>
#include "vio.hpp"

using namespace AIToolbox;
using T3 = std::vector<std::vector<std::vector<double>>>;

// count-prefixed flat list -> [n1][n2][n3]; a wrong count is a malformed case (never generated)
static T3 readT3(vio::Cursor & c, size_t n1, size_t n2, size_t n3) {
    auto v = c.nextDoubles();
    if (v.size() != n1 * n2 * n3) throw std::logic_error("harness: table size mismatch");
    T3 t(n1, std::vector<std::vector<double>>(n2, std::vector<double>(n3)));
    size_t k = 0;
    for (size_t i = 0; i < n1; ++i) for (size_t j = 0; j < n2; ++j) for (size_t l = 0; l < n3; ++l) t[i][j][l] = v[k++];
    return t;
}

static Matrix3D toDense3(const T3 & t, size_t n1, size_t n2, size_t n3) {
    Matrix3D m(n1, Matrix2D(n2, n3));
    for (size_t i = 0; i < n1; ++i) for (size_t j = 0; j < n2; ++j) for (size_t l = 0; l < n3; ++l) m[i](j, l) = t[i][j][l];
    return m;
}
static SparseMatrix3D toSparse3(const T3 & t, size_t n1, size_t n2, size_t n3) {
    SparseMatrix3D m(n1, SparseMatrix2D(n2, n3));
    for (size_t i = 0; i < n1; ++i) {
        for (size_t j = 0; j < n2; ++j) for (size_t l = 0; l < n3; ++l)
            if (t[i][j][l] != 0.0) m[i].insert(j, l) = t[i][j][l];      // NaN != 0 is true: NaN is stored
        m[i].makeCompressed();
    }
    return m;
}

// a user-defined model seen only through the IsModel interface (source of the copy constructors)
struct RawModel {
    size_t S, A; double d; T3 t, r;
    size_t getS() const { return S; }
    size_t getA() const { return A; }
    double getDiscount() const { return d; }
    double getTransitionProbability(size_t s, size_t a, size_t s1) const { return t[s][a][s1]; }
    double getExpectedReward(size_t s, size_t a, size_t s1) const { return r[s][a][s1]; }
    std::tuple<size_t, double> sampleSR(size_t, size_t) const { return {0, 0.0}; }
    bool isTerminal(size_t) const { return false; }
};
struct RawPOMDP : RawModel {
    size_t O; T3 ob;   // [s1][a][o]
    size_t getO() const { return O; }
    double getObservationProbability(size_t s1, size_t a, size_t o) const { return ob[s1][a][o]; }
    std::tuple<size_t, size_t, double> sampleSOR(size_t, size_t) const { return {0, 0, 0.0}; }
    std::tuple<size_t, double> sampleOR(size_t, size_t, size_t) const { return {0, 0.0}; }
};
static_assert(MDP::IsModel<RawModel>);
static_assert(POMDP::IsModel<RawPOMDP>);

template <typename M> struct Traits;
template <> struct Traits<MDP::Model>       { static constexpr bool sparse = false, pomdp = false; using Base = MDP::Model; };
template <> struct Traits<MDP::SparseModel> { static constexpr bool sparse = true,  pomdp = false; using Base = MDP::SparseModel; };
template <> struct Traits<POMDP::Model<MDP::Model>>             { static constexpr bool sparse = false, pomdp = true; using Base = MDP::Model; };
template <> struct Traits<POMDP::SparseModel<MDP::SparseModel>> { static constexpr bool sparse = true,  pomdp = true; using Base = MDP::SparseModel; };

static double coeffOf(const Matrix2D & m, size_t i, size_t j) { return m(i, j); }
static double coeffOf(const SparseMatrix2D & m, size_t i, size_t j) { return m.coeff(i, j); }

template <typename M>
static void dump(const std::unique_ptr<M> & p, vio::Out & o) {
    if (!p) { o << "NONE"; return; }
    const M & m = *p;
    const size_t S = m.getS(), A = m.getA();
    o << "D" << S << A << m.getDiscount();
    const auto & T = m.getTransitionFunction();
    o << (size_t)(T.size() * (T.empty() ? 0 : T[0].rows() * T[0].cols()));
    for (size_t a = 0; a < T.size(); ++a)
        for (long s = 0; s < T[a].rows(); ++s) for (long s1 = 0; s1 < T[a].cols(); ++s1) {
            const double v = coeffOf(T[a], s, s1);
            // the element getter and the per-action matrix getter must show the same table
            const double w = m.getTransitionProbability(s, a, s1);
            const double u = coeffOf(m.getTransitionFunction(a), s, s1);
            if (std::memcmp(&v, &w, sizeof v) || std::memcmp(&v, &u, sizeof v)) throw std::logic_error("harness: getters disagree (T)");
            o << v;
        }
    const auto & R = m.getRewardFunction();
    o << (size_t)(R.rows() * R.cols());
    for (long s = 0; s < R.rows(); ++s) for (long a = 0; a < R.cols(); ++a) {
        const double v = coeffOf(R, s, a);
        const double w = m.getExpectedReward(s, a, 0);
        if (std::memcmp(&v, &w, sizeof v)) throw std::logic_error("harness: getters disagree (R)");
        o << v;
    }
    if constexpr (Traits<M>::pomdp) {
        const auto & Ob = m.getObservationFunction();
        o << m.getO();
        o << (size_t)(Ob.size() * (Ob.empty() ? 0 : Ob[0].rows() * Ob[0].cols()));
        for (size_t a = 0; a < Ob.size(); ++a)
            for (long s1 = 0; s1 < Ob[a].rows(); ++s1) for (long ob = 0; ob < Ob[a].cols(); ++ob) {
                const double v = coeffOf(Ob[a], s1, ob);
                const double w = m.getObservationProbability(s1, a, ob);
                if (std::memcmp(&v, &w, sizeof v)) throw std::logic_error("harness: getters disagree (O)");
                o << v;
            }
    }
}

// base-class constructor arguments, parsed once, applied through a callback so that the POMDP
// classes can forward them (Model(o, params...))
struct CtorArgs { std::string kind; size_t S = 0, A = 0; double d = 1.0; T3 t, r; };
static CtorArgs readCtor(vio::Cursor & c, const std::string & kind) {
    CtorArgs x; x.kind = kind; x.S = c.nextSize(); x.A = c.nextSize(); x.d = c.nextDouble();
    if (kind != "ctor3") { x.t = readT3(c, x.S, x.A, x.S); x.r = readT3(c, x.S, x.A, x.S); }
    return x;
}
static RawModel rawOf(const CtorArgs & x) { return RawModel{x.S, x.A, x.d, x.t, x.r}; }

template <typename M>
static std::unique_ptr<M> constructMdp(const CtorArgs & x) {
    if (x.kind == "ctor3") return std::make_unique<M>(x.S, x.A, x.d);
    if (x.kind == "ctort") return std::make_unique<M>(x.S, x.A, x.t, x.r, x.d);
    if (x.kind == "ctorc") return std::make_unique<M>(rawOf(x));
    throw std::logic_error("harness: unknown ctor " + x.kind);
}
template <typename PM>
static std::unique_ptr<PM> constructPomdp(size_t O, const CtorArgs & x) {
    if (x.kind == "ctor3") return std::make_unique<PM>(O, x.S, x.A, x.d);
    if (x.kind == "ctort") return std::make_unique<PM>(O, x.S, x.A, x.t, x.r, x.d);
    if (x.kind == "ctorc") return std::make_unique<PM>(O, rawOf(x));
    throw std::logic_error("harness: unknown ctor " + x.kind);
}
template <typename PM>
static std::unique_ptr<PM> constructPomdpOb(size_t O, const T3 & of, const CtorArgs & x) {
    if (x.kind == "ctor3") return std::make_unique<PM>(O, of, x.S, x.A, x.d);
    if (x.kind == "ctort") return std::make_unique<PM>(O, of, x.S, x.A, x.t, x.r, x.d);
    if (x.kind == "ctorc") return std::make_unique<PM>(O, of, rawOf(x));
    throw std::logic_error("harness: unknown ctor " + x.kind);
}

template <typename M>
static void runSeq(vio::Cursor & c, vio::Out & o) {
    constexpr bool sparse = Traits<M>::sparse;
    std::unique_ptr<M> obj;
    const size_t nops = c.nextSize();
    for (size_t i = 0; i < nops; ++i) {
        const std::string op = c.next();
        // parse first (so that the cursor stays aligned), then act
        std::function<void()> act;
        bool isCtor = false;
        if (op == "ctor3" || op == "ctort" || op == "ctorc") {
            isCtor = true;
            auto x = std::make_shared<CtorArgs>(readCtor(c, op));
            if constexpr (Traits<M>::pomdp) act = [] { throw std::logic_error("harness: base ctor on a POMDP class"); };
            else act = [&obj, x] { auto tmp = constructMdp<M>(*x); obj = std::move(tmp); };
        } else if (op == "pctor" || op == "pctorob") {
            isCtor = true;
            if constexpr (Traits<M>::pomdp) {
                const size_t O = c.nextSize();
                auto flat = std::make_shared<std::vector<double>>();
                if (op == "pctorob") *flat = c.nextDoubles();
                const std::string bk = c.next();
                auto x = std::make_shared<CtorArgs>(readCtor(c, bk));
                if (op == "pctor") act = [&obj, O, x] { auto tmp = constructPomdp<M>(O, *x); obj = std::move(tmp); };
                else act = [&obj, O, x, flat] {
                    if (flat->size() != x->S * x->A * O) throw std::logic_error("harness: table size mismatch");
                    T3 of(x->S, std::vector<std::vector<double>>(x->A, std::vector<double>(O)));
                    size_t k = 0;
                    for (size_t s = 0; s < x->S; ++s) for (size_t a = 0; a < x->A; ++a) for (size_t ob = 0; ob < O; ++ob) of[s][a][ob] = (*flat)[k++];
                    auto tmp = constructPomdpOb<M>(O, of, *x); obj = std::move(tmp);
                };
            } else throw std::logic_error("harness: pctor on an MDP class");
        } else if (op == "pctorc") {
            isCtor = true;
            if constexpr (Traits<M>::pomdp) {
                const size_t O = c.nextSize();
                auto flat = c.nextDoubles();
                auto x = readCtor(c, "ctorc");
                if (flat.size() != x.S * x.A * O) throw std::logic_error("harness: table size mismatch");
                auto raw = std::make_shared<RawPOMDP>();
                static_cast<RawModel &>(*raw) = rawOf(x); raw->O = O;
                raw->ob = T3(x.S, std::vector<std::vector<double>>(x.A, std::vector<double>(O)));
                size_t k = 0;
                for (size_t s = 0; s < x.S; ++s) for (size_t a = 0; a < x.A; ++a) for (size_t ob = 0; ob < O; ++ob) raw->ob[s][a][ob] = flat[k++];
                act = [&obj, raw] { auto tmp = std::make_unique<M>(*raw); obj = std::move(tmp); };
            } else throw std::logic_error("harness: pctorc on an MDP class");
        } else if (op == "ctorlib" || op == "pctorlib") {
            // converting constructor from a LIBRARY model built through NO_CHECK (so that its tables and
            // discount are arbitrary): source kind d = dense classes, s = sparse classes.
            isCtor = true;
            const std::string sk = c.next();
            // same representation = implicit copy constructor, not a conversion: not a case of this harness
            if ((sk == "s") == sparse) throw std::logic_error("harness: ctorlib source must be of the other representation");
            size_t O = 0; auto obflat = std::make_shared<std::vector<double>>();
            if (op == "pctorlib") { O = c.nextSize(); *obflat = c.nextDoubles(); }
            const size_t S = c.nextSize(), A = c.nextSize(); const double d = c.nextDouble();
            auto T = std::make_shared<T3>(readT3(c, A, S, S));
            auto R = std::make_shared<T3>(readT3(c, 1, S, A));
            if (op == "pctorlib" && obflat->size() != A * S * O) throw std::logic_error("harness: table size mismatch");
            if constexpr (Traits<M>::pomdp) {
                if (op != "pctorlib") throw std::logic_error("harness: ctorlib on a POMDP class");
                act = [&obj, sk, O, obflat, S, A, d, T, R] {
                    T3 ob(A, std::vector<std::vector<double>>(S, std::vector<double>(O)));
                    size_t k = 0;
                    for (size_t a = 0; a < A; ++a) for (size_t s1 = 0; s1 < S; ++s1) for (size_t x = 0; x < O; ++x) ob[a][s1][x] = (*obflat)[k++];
                    if (sk == "d") {
                        POMDP::Model<MDP::Model> src(NO_CHECK, O, toDense3(ob, A, S, O), NO_CHECK, S, A, toDense3(*T, A, S, S), Matrix2D(toDense3(*R, 1, S, A)[0]), d);
                        auto tmp = std::make_unique<M>(src); obj = std::move(tmp);
                    } else {
                        POMDP::SparseModel<MDP::SparseModel> src(NO_CHECK, O, toSparse3(ob, A, S, O), NO_CHECK, S, A, toSparse3(*T, A, S, S), SparseMatrix2D(toSparse3(*R, 1, S, A)[0]), d);
                        auto tmp = std::make_unique<M>(src); obj = std::move(tmp);
                    }
                };
            } else {
                if (op != "ctorlib") throw std::logic_error("harness: pctorlib on an MDP class");
                act = [&obj, sk, S, A, d, T, R] {
                    if (sk == "d") {
                        MDP::Model src(NO_CHECK, S, A, toDense3(*T, A, S, S), Matrix2D(toDense3(*R, 1, S, A)[0]), d);
                        auto tmp = std::make_unique<M>(src); obj = std::move(tmp);
                    } else {
                        MDP::SparseModel src(NO_CHECK, S, A, toSparse3(*T, A, S, S), SparseMatrix2D(toSparse3(*R, 1, S, A)[0]), d);
                        auto tmp = std::make_unique<M>(src); obj = std::move(tmp);
                    }
                };
            }
        } else if (op == "conv") {
            // round trip through the other representation: M(Other(*obj)), both via the IsModel template constructors
            if constexpr (Traits<M>::pomdp) throw std::logic_error("harness: conv on a POMDP class");
            else act = [&obj] {
                using Other = std::conditional_t<sparse, MDP::Model, MDP::SparseModel>;
                Other tmp(*obj);
                auto back = std::make_unique<M>(tmp);
                obj = std::move(back);
            };
        } else {
            auto flat = std::make_shared<std::vector<double>>();
            double d = 0.0;
            if (op == "setd") d = c.nextDouble(); else *flat = c.nextDoubles();
            act = [&obj, op, flat, d] {
                M & m = *obj;
                const size_t S = m.getS(), A = m.getA();
                auto mk = [&](size_t n1, size_t n2, size_t n3) {
                    if (flat->size() != n1 * n2 * n3) throw std::logic_error("harness: table size mismatch");
                    T3 t(n1, std::vector<std::vector<double>>(n2, std::vector<double>(n3)));
                    size_t k = 0;
                    for (size_t i = 0; i < n1; ++i) for (size_t j = 0; j < n2; ++j) for (size_t l = 0; l < n3; ++l) t[i][j][l] = (*flat)[k++];
                    return t;
                };
                if (op == "setd") m.setDiscount(d);
                else if (op == "sett3") m.setTransitionFunction(mk(S, A, S));
                else if (op == "settm") {
                    if constexpr (sparse) m.setTransitionFunction(toSparse3(mk(A, S, S), A, S, S));
                    else m.setTransitionFunction(toDense3(mk(A, S, S), A, S, S));
                }
                else if (op == "setr3") m.setRewardFunction(mk(S, A, S));
                else if (op == "setrm") {
                    T3 r = mk(1, S, A);
                    if constexpr (sparse) m.setRewardFunction(toSparse3(r, 1, S, A)[0]);
                    else m.setRewardFunction(toDense3(r, 1, S, A)[0]);
                }
                else if (op == "seto3" || op == "setom") {
                    if constexpr (Traits<M>::pomdp) {
                        const size_t O = m.getO();
                        if (op == "seto3") m.setObservationFunction(mk(S, A, O));
                        else if constexpr (sparse) m.setObservationFunction(toSparse3(mk(A, S, O), A, S, O));
                        else m.setObservationFunction(toDense3(mk(A, S, O), A, S, O));
                    } else throw std::logic_error("harness: observation setter on an MDP class");
                }
                else throw std::logic_error("harness: unknown op " + op);
            };
        }
        if (!isCtor && !obj) { o << "NOOBJ"; }
        else {
            try { act(); o << "OK"; }
            catch (const std::logic_error & e) {
                // harness-level errors must not be mistaken for library exceptions
                if (std::string(e.what()).rfind("harness:", 0) == 0) throw;
                o << "THROW" << vio::exnName(e);
            }
            catch (const std::exception & e) { o << "THROW" << vio::exnName(e); }
        }
        dump(obj, o);
    }
}

// ---- single validator calls: "isprob <overload> <rows> <cols> <flat…>" -------------------------
static void runIsProb(vio::Cursor & c, vio::Out & o) {
    const std::string ov = c.next();
    const size_t rows = c.nextSize(), cols = c.nextSize();
    T3 t = readT3(c, 1, rows, cols);
    bool r;
    if (ov == "t1") r = isProbability(cols, t[0][0]);
    else if (ov == "t2") r = isProbability(rows, cols, t[0]);
    else if (ov == "t3") r = isProbability(1, rows, cols, t);
    else if (ov == "m2") r = isProbability(toDense3(t, 1, rows, cols)[0]);
    else if (ov == "m3") r = isProbability(toDense3(t, 1, rows, cols));
    else if (ov == "s2") r = isProbability(toSparse3(t, 1, rows, cols)[0]);
    else if (ov == "s3") r = isProbability(toSparse3(t, 1, rows, cols));
    else throw std::logic_error("harness: unknown overload " + ov);
    o << r;
}


// ---- AMDP: "amdp <d|s> <seed> <nBeliefs> <buckets> O <Ob flat [s1][a][o]> S A d <T flat> <R flat>" ----
// Output: S1 A discount, T' [a][s][s1], R' [s][a] of the derived model, then the contributions
// (s, a, s1, p, r) of the accumulation loop, recomputed here from the same beliefs (same root seed,
// same model RNG state) with the library's own pieces and the returned discretizer.
template <bool sparse, bool sparseSrc>
static void runAmdp(vio::Cursor & c, vio::Out & o) {
    using PM = std::conditional_t<sparseSrc, POMDP::SparseModel<MDP::SparseModel>, POMDP::Model<MDP::Model>>;
    const unsigned seed = (unsigned) c.nextSize();
    const size_t nBeliefs = c.nextSize(), buckets = c.nextSize();
    const size_t O = c.nextSize();
    auto obflat = c.nextDoubles();
    CtorArgs x = readCtor(c, "ctort");
    if (obflat.size() != x.S * x.A * O) throw std::logic_error("harness: table size mismatch");
    T3 of(x.S, std::vector<std::vector<double>>(x.A, std::vector<double>(O)));
    { size_t k = 0; for (size_t s = 0; s < x.S; ++s) for (size_t a = 0; a < x.A; ++a) for (size_t ob = 0; ob < O; ++ob) of[s][a][ob] = obflat[k++]; }
    // dense source: checked (o, of, s, a, t, r, d) constructor.  Sparse source: the naive-table setter would
    // drop observation probabilities <= 1e-6, so the observations go in through the SparseMatrix3D overload
    // (validated, stored as given).
    auto mk = [&] {
        if constexpr (sparseSrc) {
            PM m(O, x.S, x.A, x.t, x.r, x.d);
            T3 ob(x.A, std::vector<std::vector<double>>(x.S, std::vector<double>(O)));
            for (size_t s = 0; s < x.S; ++s) for (size_t a = 0; a < x.A; ++a) for (size_t k = 0; k < O; ++k) ob[a][s][k] = of[s][a][k];
            m.setObservationFunction(toSparse3(ob, x.A, x.S, O));
            return m;
        } else return PM(O, of, x.S, x.A, x.t, x.r, x.d);
    };
    PM pm = mk();
    const PM pm2 = pm;   // same tables AND same internal RNG state (BeliefGenerator samples through the model)
    const size_t S = x.S, A = x.A, S1 = S * buckets;

    POMDP::AMDP amdp(nBeliefs, buckets);
    Seeder::setRootSeed(seed);
    auto run = [&] { if constexpr (sparse) return amdp.discretizeSparse(pm); else return amdp.discretizeDense(pm); };
    auto [model, discretizer] = run();

    o << model.getS() << model.getA() << model.getDiscount();
    o << (size_t)(A * S1 * S1);
    for (size_t a = 0; a < A; ++a) for (size_t s = 0; s < S1; ++s) for (size_t s1 = 0; s1 < S1; ++s1) o << model.getTransitionProbability(s, a, s1);
    o << (size_t)(S1 * A);
    for (size_t s = 0; s < S1; ++s) for (size_t a = 0; a < A; ++a) o << model.getExpectedReward(s, a, 0);

    // accumulators, recomputed with the library's own public pieces
    Seeder::setRootSeed(seed);
    POMDP::BeliefGenerator bGen(pm2);
    const auto beliefs = bGen(nBeliefs);
    // the contributions of the accumulation loop, in loop order: (s, a, s1, p, r); for skipped ones
    // (p within 1e-6 of 0) the library never computes s1: reported as 0
    struct C { size_t s, a, s1; double p, r; };
    std::vector<C> cs;
    POMDP::Belief b1(S);
    for (const auto & b : beliefs) {
        const size_t s = discretizer(b);
        for (size_t a = 0; a < A; ++a) {
            const double r = POMDP::beliefExpectedReward(pm2, b, a);
            for (size_t ob = 0; ob < O; ++ob) {
                POMDP::updateBeliefUnnormalized(pm2, b, a, ob, &b1);
                const double p = b1.sum();
                size_t s1 = 0;
                if (checkDifferentSmall(0.0, p)) { b1 /= p; s1 = discretizer(b1); }
                cs.push_back(C{s, a, s1, p, r});
            }
        }
    }
    o << cs.size();
    for (const auto & c : cs) o << c.s << c.a << c.s1 << c.p << c.r;
}

// ---- CooperativeModel: "coop <S list> <A list> <npush> pushes… <nops> ops…" --------------------------
//   push  := <agents list> <nfeat> <feature list>*
//   op    := cctor <d> <nT> (<rows> <cols> <data list>)* <nR> (<tag list> <actionTag list> <rows> <cols>)*
//          | csetd <d>
// Output: per push "POK|PRT|PINV <#parent sets>", per op "OK|THROW <type>|NOOBJ" + dump of every getter.
static void runCoop(vio::Cursor & c, vio::Out & o) {
    namespace F = AIToolbox::Factored;
    auto readIds = [&] { auto v = c.nextSizes(); return F::PartialKeys(v.begin(), v.end()); };
    auto Sv = c.nextSizes(); auto Av = c.nextSizes();
    F::State S(Sv.begin(), Sv.end()); F::Action A(Av.begin(), Av.end());
    F::DDNGraph graph(S, A);
    const size_t npush = c.nextSize();
    for (size_t i = 0; i < npush; ++i) {
        F::DDNGraph::ParentSet ps;
        ps.agents = readIds();
        const size_t nf = c.nextSize();
        for (size_t j = 0; j < nf; ++j) ps.features.push_back(readIds());
        try { graph.push(std::move(ps)); o << "POK"; }
        catch (const std::invalid_argument &) { o << "PINV"; }
        catch (const std::runtime_error &) { o << "PRT"; }
        o << graph.getParentSets().size();
    }
    std::unique_ptr<F::MDP::CooperativeModel> obj;
    auto dumpCoop = [&] {
        if (!obj) { o << "NONE"; return; }
        const auto & m = *obj;
        o << "D" << m.getDiscount();
        o.list(m.getS()); o.list(m.getA());
        const auto & pss = m.getGraph().getParentSets();
        o << pss.size();
        for (const auto & ps : pss) { o.list(ps.agents); o << ps.features.size(); for (const auto & f : ps.features) o.list(f); }
        const auto & T = m.getTransitionFunction().transitions;
        o << T.size();
        for (const auto & t : T) {
            o << (size_t) t.rows() << (size_t) t.cols() << (size_t) (t.rows() * t.cols());
            for (long i = 0; i < t.rows(); ++i) for (long j = 0; j < t.cols(); ++j) o << t(i, j);
        }
        const auto & R = m.getRewardFunction().bases;
        o << R.size();
        for (const auto & b : R) { o.list(b.tag); o.list(b.actionTag); o << (size_t) b.values.rows() << (size_t) b.values.cols(); }
    };
    const size_t nops = c.nextSize();
    for (size_t i = 0; i < nops; ++i) {
        const std::string op = c.next();
        if (op == "cctor") {
            const double d = c.nextDouble();
            F::DDN::TransitionMatrix T;
            const size_t nT = c.nextSize();
            for (size_t k = 0; k < nT; ++k) {
                const size_t rows = c.nextSize(), cols = c.nextSize();
                auto data = c.nextDoubles();
                if (data.size() != rows * cols) throw std::logic_error("harness: matrix size mismatch");
                Matrix2D m(rows, cols);
                for (size_t x = 0; x < rows; ++x) for (size_t y = 0; y < cols; ++y) m(x, y) = data[x * cols + y];
                T.push_back(std::move(m));
            }
            F::FactoredMatrix2D R;
            const size_t nR = c.nextSize();
            for (size_t k = 0; k < nR; ++k) {
                F::BasisMatrix b; b.tag = readIds(); b.actionTag = readIds();
                const size_t rows = c.nextSize(), cols = c.nextSize();
                b.values = Matrix2D::Zero(rows, cols);
                R.bases.push_back(std::move(b));
            }
            try {
                auto tmp = std::make_unique<F::MDP::CooperativeModel>(graph, std::move(T), std::move(R), d);
                obj = std::move(tmp); o << "OK";
            } catch (const std::exception & e) { o << "THROW" << vio::exnName(e); }
        } else if (op == "csetd") {
            const double d = c.nextDouble();
            if (!obj) o << "NOOBJ";
            else try { obj->setDiscount(d); o << "OK"; } catch (const std::exception & e) { o << "THROW" << vio::exnName(e); }
        } else throw std::logic_error("harness: unknown coop op " + op);
        dumpCoop();
    }
}

int main(int argc, char ** argv) {
    return vio::runCases(argc, argv, [](vio::Cursor & c, vio::Out & o) {
        const std::string kind = c.next();
        if (kind == "md") runSeq<MDP::Model>(c, o);
        else if (kind == "ms") runSeq<MDP::SparseModel>(c, o);
        else if (kind == "pd") runSeq<POMDP::Model<MDP::Model>>(c, o);
        else if (kind == "ps") runSeq<POMDP::SparseModel<MDP::SparseModel>>(c, o);
        else if (kind == "isprob") runIsProb(c, o);
        else if (kind == "coop") runCoop(c, o);
        else if (kind == "amdp") {   // d|s = discretizeDense|Sparse of a dense POMDP; ds|ss = of a sparse POMDP
            const std::string v = c.next();
            if (v == "d") runAmdp<false, false>(c, o); else if (v == "s") runAmdp<true, false>(c, o);
            else if (v == "ds") runAmdp<false, true>(c, o); else if (v == "ss") runAmdp<true, true>(c, o);
            else throw std::logic_error("harness: unknown amdp variant " + v);
        }
        else throw std::logic_error("harness: unknown case kind " + kind);
    });
}
