// harness/C14/h_learn.cpp — JointActionLearner / CooperativeQLearning against flat QLearning.
#include <string>
#include <AIToolbox/Factored/MDP/Algorithms/CooperativeQLearning.hpp>
#include <AIToolbox/Factored/MDP/Algorithms/JointActionLearner.hpp>
#include <AIToolbox/Factored/MDP/Algorithms/SparseCooperativeQLearning.hpp>
#include <AIToolbox/MDP/Algorithms/QLearning.hpp>
#include "vio.hpp"
using namespace AIToolbox::Factored;

static Factors readF(vio::Cursor & c) { auto v = c.nextSizes(); return Factors(v.begin(), v.end()); }
template <typename M>
static void outMat(vio::Out & o, const M & m) {
    o << (size_t) m.rows() << (size_t) m.cols();
    for (long r = 0; r < m.rows(); ++r) for (long k = 0; k < m.cols(); ++k) o << (double) m(r, k);
}

bool learnCase(const std::string & kind, vio::Cursor & c, vio::Out & o) {
    if (kind == "jal") {            // nS A id discount alpha n {s aa s1 rew}*
        size_t nS = c.nextSize(); Action A = readF(c); size_t id = c.nextSize();
        double discount = c.nextDouble(), alpha = c.nextDouble();
        MDP::JointActionLearner jal(nS, A, id, discount, alpha);
        AIToolbox::MDP::QLearning flat(nS, factorSpace(A), discount, alpha);
        size_t n = c.nextSize();
        for (size_t i = 0; i < n; ++i) {
            size_t s = c.nextSize(); Action aa = readF(c); size_t s1 = c.nextSize(); double rew = c.nextDouble();
            jal.stepUpdateQ(s, aa, s1, rew);
            flat.stepUpdateQ(s, toIndex(A, aa), s1, rew);
        }
        outMat(o, jal.getJointQFunction());
        outMat(o, flat.getQFunction());
        outMat(o, jal.getSingleQFunction());
        return true;
    }
    if (kind == "coop") {           // S A single? {parentSet}*|S| ndomains {domain}* discount alpha n {s a s1 rew}*
        State S = readF(c); Action A = readF(c);
        DDNGraph g(S, A);
        for (size_t i = 0; i < S.size(); ++i) {
            DDNGraph::ParentSet ps; ps.agents = readF(c);
            size_t nf = c.nextSize();
            for (size_t k = 0; k < nf; ++k) ps.features.push_back(readF(c));
            g.push(std::move(ps));
        }
        std::vector<std::vector<size_t>> domains(c.nextSize());
        for (auto & d : domains) d = readF(c);
        double discount = c.nextDouble(), alpha = c.nextDouble();
        MDP::CooperativeQLearning cq(g, domains, discount, alpha);
        AIToolbox::MDP::QLearning flat(factorSpace(S), factorSpace(A), discount, alpha);
        // the bases' tags as built by makeQFunction
        o << cq.getQFunction().bases.size();
        for (auto & b : cq.getQFunction().bases) { o.list(b.tag); o.list(b.actionTag); }
        size_t n = c.nextSize();
        for (size_t i = 0; i < n; ++i) {
            State s = readF(c); Action a = readF(c); State s1 = readF(c);
            auto rv = c.nextDoubles(); AIToolbox::Vector rew(rv.size());
            for (size_t k = 0; k < rv.size(); ++k) rew[k] = rv[k];
            Action a1 = cq.stepUpdateQ(s, a, s1, rew);
            flat.stepUpdateQ(toIndex(S, s), toIndex(A, a), toIndex(S, s1), rew.sum());
            o.list(a1);
            for (auto & b : cq.getQFunction().bases) outMat(o, b.values);
        }
        outMat(o, flat.getQFunction());
        return true;
    }
    if (kind == "sparse") {         // S A nrules {sk sv ak av val}* discount alpha n {s a s1 rew}*
        State S = readF(c); Action A = readF(c);
        std::vector<MDP::QFunctionRule> rules(c.nextSize());
        for (auto & r : rules) {
            r.state.first = readF(c); r.state.second = readF(c);
            r.action.first = readF(c); r.action.second = readF(c);
            r.value = c.nextDouble();
        }
        double discount = c.nextDouble(), alpha = c.nextDouble();
        MDP::SparseCooperativeQLearning sq(S, A, rules, discount, alpha);
        AIToolbox::MDP::QLearning flat(factorSpace(S), factorSpace(A), discount, alpha);
        if (rules.size() == factorSpace(S) * factorSpace(A)) {   // table-shaped rule set: same start values
            AIToolbox::MDP::QFunction q0(factorSpace(S), factorSpace(A));
            for (size_t r = 0; r < rules.size(); ++r) q0(r / factorSpace(A), r % factorSpace(A)) = rules[r].value;
            flat.setQFunction(q0);
        }
        size_t n = c.nextSize();
        for (size_t i = 0; i < n; ++i) {
            State s = readF(c); Action a = readF(c); State s1 = readF(c);
            auto rv = c.nextDoubles(); AIToolbox::Vector rew(rv.size());
            for (size_t k = 0; k < rv.size(); ++k) rew[k] = rv[k];
            Action a1 = sq.stepUpdateQ(s, a, s1, rew);
            flat.stepUpdateQ(toIndex(S, s), toIndex(A, a), toIndex(S, s1), rew.sum());
            o.list(a1);
            o << sq.getQFunctionRules().size();
            for (const auto & r : sq.getQFunctionRules()) o << r.value;
        }
        outMat(o, flat.getQFunction());
        return true;
    }
    return false;
}
