// harness/C14/h.cpp — runs the real Factored/Utils/Core.cpp functions on exact cases.
#include <AIToolbox/Factored/Utils/Core.hpp>
#include "vio.hpp"
using namespace AIToolbox::Factored;

static Factors readFactors(vio::Cursor & c) { auto v = c.nextSizes(); return Factors(v.begin(), v.end()); }

int main(int argc, char ** argv) {
    return vio::runCases(argc, argv, [](vio::Cursor & c, vio::Out & o) {
        const std::string kind = c.next();
        if (kind == "idx") {            // space id -> factorSpace, toFactors, toIndex back
            Factors space = readFactors(c); size_t id = c.nextSize();
            Factors f = toFactors(space, id);
            o << factorSpace(space); o.list(f); o << toIndex(space, f);
        } else if (kind == "fac") {     // space f -> toIndex, toFactors back
            Factors space = readFactors(c); Factors f = readFactors(c);
            size_t id = toIndex(space, f);
            o << id; o.list(toFactors(space, id));
        } else if (kind == "pidx") {    // space keys id -> factorSpacePartial, toFactorsPartial, toIndexPartial(space, pf)
            Factors space = readFactors(c); PartialKeys keys = readFactors(c); size_t id = c.nextSize();
            PartialValues v = toFactorsPartial(keys, space, id);
            o << factorSpacePartial(keys, space); o.list(v);
            o << toIndexPartial(space, PartialFactors{keys, v});
        } else if (kind == "pfac") {    // space keys f(full) -> toIndexPartial(keys, space, f)
            Factors space = readFactors(c); PartialKeys keys = readFactors(c); Factors f = readFactors(c);
            size_t id = toIndexPartial(keys, space, f);
            o << id; o.list(toFactorsPartial(keys, space, id));
        } else throw std::logic_error("unknown case kind " + kind);
    });
}
