// harness/C14/h.cpp — runs the real Factored/Utils functions on exact cases.
#include <AIToolbox/Factored/Utils/Core.hpp>
#include "vio.hpp"
bool algebraCase(const std::string & kind, vio::Cursor & c, vio::Out & o);   // h_algebra.cpp
bool learnCase(const std::string & kind, vio::Cursor & c, vio::Out & o);     // h_learn.cpp
using namespace AIToolbox::Factored;

static Factors readFactors(vio::Cursor & c) { auto v = c.nextSizes(); return Factors(v.begin(), v.end()); }

// prints: getFactorToSkipId size keys  n v_1 … v_n   (each v_i a count-prefixed list)
static void dumpEnum(PartialFactorsEnumerator & e, vio::Out & o) {
    o << e.getFactorToSkipId() << e.size();
    o.list(e->first);
    const size_t cap = e.size() + 3;
    std::vector<PartialValues> seen;
    for (size_t n = 0; e.isValid() && n < cap; e.advance(), ++n) seen.push_back(e->second);
    o << seen.size();
    for (auto & v : seen) o.list(v);
    // reset() must bring the enumerator back to its first element
    e.reset();
    o << e.isValid();
    o.list(e->second);
}

static void dumpIndexEnum(PartialIndexEnumerator & e, size_t cap, vio::Out & o) {
    std::vector<size_t> seen;
    for (size_t n = 0; e.isValid() && n < cap; e.advance(), ++n) seen.push_back(*e);
    o.list(seen);
}

int main(int argc, char ** argv) {
    return vio::runCases(argc, argv, [](vio::Cursor & c, vio::Out & o) {
        const std::string kind = c.next();
        if (kind == "idx") {            // space id -> factorSpace, toFactors, toIndex back
            Factors space = readFactors(c); size_t id = c.nextSize();
            Factors f = toFactors(space, id);
            o << factorSpace(space); o.list(f); o << toIndex(space, f);
        } else if (kind == "fac") {     // space f -> toIndex, toFactors back
            Factors space = readFactors(c); Factors f = readFactors(c);
            size_t id = toIndex(space, f);
            o << id; o.list(toFactors(space, id));
        } else if (kind == "pidx") {    // space keys id -> factorSpacePartial, toFactorsPartial, toIndexPartial(space, pf)
            Factors space = readFactors(c); PartialKeys keys = readFactors(c); size_t id = c.nextSize();
            PartialValues v = toFactorsPartial(keys, space, id);
            o << factorSpacePartial(keys, space); o.list(v);
            o << toIndexPartial(space, PartialFactors{keys, v});
        } else if (kind == "pfac") {    // space keys f(full) -> toIndexPartial(keys, space, f)
            Factors space = readFactors(c); PartialKeys keys = readFactors(c); Factors f = readFactors(c);
            size_t id = toIndexPartial(keys, space, f);
            o << id; o.list(toFactorsPartial(keys, space, id));
        } else if (kind == "enum") {    // space keys
            Factors space = readFactors(c); PartialKeys keys = readFactors(c);
            PartialFactorsEnumerator e(space, keys); dumpEnum(e, o);
        } else if (kind == "enumall") { // space
            Factors space = readFactors(c);
            PartialFactorsEnumerator e(space); dumpEnum(e, o);
        } else if (kind == "enumskip") { // space keys skip missing
            Factors space = readFactors(c); PartialKeys keys = readFactors(c);
            size_t skip = c.nextSize(); bool missing = c.nextSize() != 0;
            PartialFactorsEnumerator e(space, keys, skip, missing); dumpEnum(e, o);
        } else if (kind == "enumskipall") { // space skip
            Factors space = readFactors(c); size_t skip = c.nextSize();
            PartialFactorsEnumerator e(space, skip); dumpEnum(e, o);
        } else if (kind == "ienum") {   // space keys fixed val missing
            Factors space = readFactors(c); PartialKeys keys = readFactors(c);
            size_t fixed = c.nextSize(), val = c.nextSize(); bool missing = c.nextSize() != 0;
            PartialIndexEnumerator e(space, keys, fixed, val, missing);
            dumpIndexEnum(e, factorSpace(space) + 3, o);
        } else if (kind == "ienumall") { // space fixed val
            Factors space = readFactors(c); size_t fixed = c.nextSize(), val = c.nextSize();
            PartialIndexEnumerator e(space, fixed, val);
            dumpIndexEnum(e, factorSpace(space) + 3, o);
        } else if (kind == "merge") {   // lk lv rk rv
            PartialKeys lk = readFactors(c); PartialValues lv = readFactors(c);
            PartialKeys rk = readFactors(c); PartialValues rv = readFactors(c);
            PartialFactors m = merge(PartialFactors{lk, lv}, PartialFactors{rk, rv});
            o.list(m.first); o.list(m.second);
            o.list(merge(lk, lv, rk, rv));
            std::vector<std::pair<size_t, size_t>> matches;
            o.list(merge(lk, rk, &matches));
            o << matches.size();
            for (auto & m2 : matches) o << m2.first << m2.second;
            o.list(merge(lk, rk));
        } else if (kind == "rmf") {     // keys vals f
            PartialKeys k = readFactors(c); PartialValues v = readFactors(c); size_t f = c.nextSize();
            PartialFactors r = removeFactor(PartialFactors{k, v}, f);
            o.list(r.first); o.list(r.second);
        } else if (kind == "match") {   // lk lv rk rv
            PartialKeys lk = readFactors(c); PartialValues lv = readFactors(c);
            PartialKeys rk = readFactors(c); PartialValues rv = readFactors(c);
            o << match(PartialFactors{lk, lv}, PartialFactors{rk, rv}) << match(lk, lv, rk, rv);
        } else if (kind == "matchf") {  // lhs(full) rk rv
            Factors lhs = readFactors(c); PartialKeys rk = readFactors(c); PartialValues rv = readFactors(c);
            o << match(lhs, PartialFactors{rk, rv});
        } else if (kind == "matchk") {  // keys lhs rhs
            PartialKeys k = readFactors(c); Factors lhs = readFactors(c); Factors rhs = readFactors(c);
            o << match(k, lhs, rhs);
        } else if (kind == "matchp") {  // lk rk lhs rhs  (pairs from merge)
            PartialKeys lk = readFactors(c); PartialKeys rk = readFactors(c);
            Factors lhs = readFactors(c); Factors rhs = readFactors(c);
            std::vector<std::pair<size_t, size_t>> matches;
            merge(lk, rk, &matches);
            o << match(matches, lhs, rhs);
        } else if (kind == "chk") {     // space tag
            Factors space = readFactors(c); PartialKeys tag = readFactors(c);
            auto r = checkTag(space, tag);
            o << (size_t) r.first << r.second;
        } else if (kind == "kpf") {     // ids space pk pv -> toIndexPartial(ids, space, pf), toIndex(space, pf)
            PartialKeys ids = readFactors(c); Factors space = readFactors(c);
            PartialKeys pk = readFactors(c); PartialValues pv = readFactors(c);
            o << toIndexPartial(ids, space, PartialFactors{pk, pv}) << toIndex(space, PartialFactors{pk, pv});
        } else if (kind == "iskip") {   // ids space f toModify
            PartialKeys ids = readFactors(c); Factors space = readFactors(c); Factors f = readFactors(c);
            size_t m = c.nextSize();
            auto r = toIndexPartialAndSkip(ids, space, f, m);
            o << r.first << r.second;
        } else if (!algebraCase(kind, c, o) && !learnCase(kind, c, o)) throw std::logic_error("unknown case kind " + kind);
    });
}
