// harness/C14/h_algebra.cpp — factored vector algebra and DDN cases.
#include <string>
#include <AIToolbox/Factored/Utils/Core.hpp>
#include <AIToolbox/Factored/Utils/FactoredMatrix.hpp>
#include <AIToolbox/Factored/Utils/BayesianNetwork.hpp>
#include <AIToolbox/Factored/Bandit/Model.hpp>
#include <AIToolbox/Factored/Bandit/FlattenedModel.hpp>
#include <AIToolbox/Factored/MDP/CooperativeModel.hpp>
#include <tuple>
#include <memory>
#include "vio.hpp"
using namespace AIToolbox::Factored;
using AIToolbox::Vector;

static Factors readFactors(vio::Cursor & c) { auto v = c.nextSizes(); return Factors(v.begin(), v.end()); }
static Vector readVector(vio::Cursor & c) {
    auto v = c.nextDoubles(); Vector r(v.size());
    for (size_t i = 0; i < v.size(); ++i) r[i] = v[i];
    return r;
}
static BasisFunction readBasis(vio::Cursor & c) { BasisFunction b; b.tag = readFactors(c); b.values = readVector(c); return b; }
static FactoredVector readFV(vio::Cursor & c) {
    FactoredVector fv; size_t n = c.nextSize();
    for (size_t i = 0; i < n; ++i) fv.bases.push_back(readBasis(c));
    return fv;
}
static void outVector(vio::Out & o, const Vector & v, size_t n) {
    o << n;
    for (size_t i = 0; i < n; ++i) o << (double) v[i];
}
static void outFV(vio::Out & o, const FactoredVector & fv) {
    o << fv.bases.size();
    for (auto & b : fv.bases) { o.list(b.tag); outVector(o, b.values, (size_t) b.values.size()); }
}
// value at every joint assignment, in index order
static void outFlat(vio::Out & o, const Factors & space, const FactoredVector & fv) {
    const size_t N = factorSpace(space);
    o << N;
    for (size_t i = 0; i < N; ++i) o << fv.getValue(space, toFactors(space, i));
}


static DDNGraph::ParentSet readParentSet(vio::Cursor & c) {
    DDNGraph::ParentSet ps; ps.agents = readFactors(c);
    size_t n = c.nextSize();
    for (size_t i = 0; i < n; ++i) ps.features.push_back(readFactors(c));
    return ps;
}
static const char * tryPush(DDNGraph & g, DDNGraph::ParentSet ps) {
    try { g.push(std::move(ps)); return "ok"; }
    catch (const std::invalid_argument &) { return "invalid_argument"; }
    catch (const std::runtime_error &) { return "runtime_error"; }
}

static bool ddnCase(const std::string & kind, vio::Cursor & c, vio::Out & o) {
    if (kind == "ddnpush") {        // S A n {parentSet}*
        Factors S = readFactors(c), A = readFactors(c);
        DDNGraph g(S, A);
        size_t n = c.nextSize();
        for (size_t i = 0; i < n; ++i) o << tryPush(g, readParentSet(c));
        o << g.getParentSets().size();
        for (size_t f = 0; f < g.getParentSets().size(); ++f) o << g.getSize(f);
        return true;
    }
    if (kind == "ddn") {            // S A {parentSet}*|S| {matrix}*|S| nq {s a}* basis
        Factors S = readFactors(c), A = readFactors(c);
        DDNGraph g(S, A);
        for (size_t i = 0; i < S.size(); ++i) g.push(readParentSet(c));
        DDN ddn{g, {}};
        for (size_t i = 0; i < S.size(); ++i) {
            size_t rows = c.nextSize(), cols = c.nextSize();
            AIToolbox::Matrix2D m(rows, cols);
            for (size_t r = 0; r < rows; ++r) for (size_t k = 0; k < cols; ++k) m(r, k) = c.nextDouble();
            ddn.transitions.push_back(std::move(m));
        }
        // sizes and the reverse lookup getIds(feature, j)
        for (size_t f = 0; f < S.size(); ++f) {
            o << g.getSize(f) << g.getPartialSize(f);
            for (size_t a = 0; a < g.getPartialSize(f); ++a) o << g.getPartialSize(f, a);
            for (size_t j = 0; j < g.getSize(f); ++j) { auto [p, a] = g.getIds(f, j); o << p << a; }
        }
        const size_t NS = factorSpace(S);
        size_t nq = c.nextSize();
        for (size_t q = 0; q < nq; ++q) {
            Factors s = readFactors(c), a = readFactors(c);
            for (size_t f = 0; f < S.size(); ++f) {
                auto [p, aid] = g.getIds(f, s, a);
                o << p << aid << g.getId(f, s, a) << g.getId(f, toPartialFactors(s), toPartialFactors(a));
            }
            o << NS;
            for (size_t i = 0; i < NS; ++i) o << ddn.getTransitionProbability(s, a, toFactors(S, i));
            // the PartialFactors overload on the full assignment must agree
            Factors s1 = toFactors(S, (q * 7 + 3) % NS);
            o << ddn.getTransitionProbability(toPartialFactors(s), toPartialFactors(a), toPartialFactors(s1));
        }
        BasisFunction b = readBasis(c);
        BasisMatrix bm = backProject(ddn, b);
        o.list(bm.tag); o.list(bm.actionTag);
        o << (size_t) bm.values.rows() << (size_t) bm.values.cols();
        for (long r = 0; r < bm.values.rows(); ++r) for (long k = 0; k < bm.values.cols(); ++k) o << (double) bm.values(r, k);
        return true;
    }
    return false;
}

// ---- FactoredMatrix2D ----
static BasisMatrix readBM(vio::Cursor & c) {
    BasisMatrix b; b.tag = readFactors(c); b.actionTag = readFactors(c);
    size_t rows = c.nextSize(), cols = c.nextSize();
    b.values.resize(rows, cols);
    for (size_t r = 0; r < rows; ++r) for (size_t k = 0; k < cols; ++k) b.values(r, k) = c.nextDouble();
    return b;
}
static FactoredMatrix2D readFM(vio::Cursor & c) {
    FactoredMatrix2D fm; size_t n = c.nextSize();
    for (size_t i = 0; i < n; ++i) fm.bases.push_back(readBM(c));
    return fm;
}
static void outFM(vio::Out & o, const FactoredMatrix2D & fm) {
    o << fm.bases.size();
    for (auto & b : fm.bases) {
        o.list(b.tag); o.list(b.actionTag); o << (size_t) b.values.rows() << (size_t) b.values.cols();
        for (long r = 0; r < b.values.rows(); ++r) for (long k = 0; k < b.values.cols(); ++k) o << (double) b.values(r, k);
    }
}

// deterministic "distribution" for the flattened bandit: always its mean
struct ConstDist {
    using result_type = double;
    double v;
    ConstDist(double x) : v(x) {}
    template <typename G> double operator()(G &) const { return v; }
    template <typename G> double operator()(G &) { return v; }
};

static bool matrixCase(const std::string & kind, vio::Cursor & c, vio::Out & o) {
    if (kind == "facout") {         // space fill n id_1 … id_n : the SAME buffer is reused for all ids
        Factors space = readFactors(c); size_t fill = c.nextSize();
        Factors buf(space.size(), fill);
        size_t n = c.nextSize();
        for (size_t i = 0; i < n; ++i) {
            size_t id = c.nextSize();
            toFactors(space, id, &buf);
            o.list(buf); o << toIndex(space, buf);
        }
        return true;
    }
    if (kind == "flatb") {          // A ngroups {tag means}* n a_1 … a_n : FlattenedModel::sampleR on a sequence of pulls
        Action A = readFactors(c);
        size_t ng = c.nextSize();
        std::vector<PartialKeys> groups; std::vector<AIToolbox::Bandit::Model<ConstDist>> arms;
        for (size_t g = 0; g < ng; ++g) {
            groups.push_back(readFactors(c));
            auto means = c.nextDoubles();
            std::vector<std::tuple<double>> params;
            for (double m : means) params.emplace_back(m);
            arms.emplace_back(params);
        }
        Bandit::Model<ConstDist> bandit(A, groups, arms);
        Bandit::FlattenedModel<ConstDist> flat(bandit);
        o << flat.getA();
        size_t n = c.nextSize();
        for (size_t i = 0; i < n; ++i) o << flat.sampleR(c.nextSize());
        return true;
    }

    if (kind == "cmodel") {         // S A {parentSet}*|S| {matrix}*|S| rewards discount nq {s a}*
        Factors S = readFactors(c), A = readFactors(c);
        DDNGraph g(S, A);
        for (size_t i = 0; i < S.size(); ++i) g.push(readParentSet(c));
        DDN::TransitionMatrix T;
        for (size_t i = 0; i < S.size(); ++i) {
            size_t rows = c.nextSize(), cols = c.nextSize();
            AIToolbox::Matrix2D m(rows, cols);
            for (size_t r = 0; r < rows; ++r) for (size_t k = 0; k < cols; ++k) m(r, k) = c.nextDouble();
            T.push_back(std::move(m));
        }
        FactoredMatrix2D rewards = readFM(c);
        double discount = c.nextDouble();
        // the constructor validates every row of every table; a rejected model prints "throw"
        std::unique_ptr<MDP::CooperativeModel> mp;
        try { mp = std::make_unique<MDP::CooperativeModel>(g, T, rewards, discount); }
        catch (const std::invalid_argument &) { o << "throw"; return true; }
        o << "ok";
        MDP::CooperativeModel & model = *mp;
        size_t nq = c.nextSize();
        for (size_t q = 0; q < nq; ++q) {
            State s = readFactors(c); Action a = readFactors(c);
            auto [s1, r] = model.sampleSR(s, a);
            o.list(s1); o << r << model.getTransitionProbability(s, a, s1);
            auto [s1b, rews] = model.sampleSRs(s, a);
            o.list(s1b); o << (size_t) rews.size();
            for (long i = 0; i < rews.size(); ++i) o << (double) rews[i];
            o << model.getTransitionProbability(s, a, s1b);
            // out-parameter overloads on dirty buffers
            State s1c(S.size(), 7); AIToolbox::Vector rc = AIToolbox::Vector::Constant(rewards.bases.size(), 99.0);
            model.sampleSRs(s, a, &s1c, &rc);
            o.list(s1c); o << (size_t) rc.size();
            for (long i = 0; i < rc.size(); ++i) o << (double) rc[i];
            o << model.getExpectedReward(s, a, s1c);
            // the whole joint distribution of the accepted model
            const size_t NS = factorSpace(S);
            o << NS;
            for (size_t i = 0; i < NS; ++i) o << model.getTransitionProbability(s, a, toFactors(S, i));
        }
        return true;
    }

    if (kind == "subop2d") {        // S A retval rhs   (rhs tags contained in retval's): plusEqualSubset and plusSubset
        Factors S = readFactors(c), A = readFactors(c);
        BasisMatrix l = readBM(c), r = readBM(c);
        BasisMatrix byValue = plusSubset(S, A, l, r);
        plusEqualSubset(S, A, l, r);
        FactoredMatrix2D out; out.bases.push_back(l); out.bases.push_back(byValue);
        outFM(o, out);
        return true;
    }
    if (kind == "fm") {             // op S A fm args -> resulting bases, flat values at every (s, a)
        std::string op = c.next();
        Factors S = readFactors(c), A = readFactors(c);
        FactoredMatrix2D fm = readFM(c);
        const size_t NS = factorSpace(S), NA = factorSpace(A);
        if (op == "getw") {
            Vector w = readVector(c);
            o << NS * NA;
            for (size_t i = 0; i < NS; ++i) for (size_t j = 0; j < NA; ++j)
                o << fm.getValue(S, A, toFactors(S, i), toFactors(A, j), w);
            return true;
        }
        if (op == "plus")        { BasisMatrix b = readBM(c); plusEqual(S, A, fm, b); }
        else if (op == "plusrv") { BasisMatrix b = readBM(c); plusEqual(S, A, fm, std::move(b)); }
        else if (op == "plusfm") { FactoredMatrix2D r = readFM(c); plusEqual(S, A, fm, r); }
        else if (op == "plusfmrv") { FactoredMatrix2D r = readFM(c); plusEqual(S, A, fm, std::move(r)); }
        else if (op == "scale")  { double v = c.nextDouble(); fm *= v; }
        else if (op == "scalew") { Vector w = readVector(c); fm *= w; }
        else if (op == "scalewc") { Vector w = readVector(c); fm = fm * w; }
        else throw std::logic_error("unknown fm op " + op);
        outFM(o, fm);
        o << NS * NA;
        for (size_t i = 0; i < NS; ++i) for (size_t j = 0; j < NA; ++j)
            o << fm.getValue(S, A, toFactors(S, i), toFactors(A, j));
        return true;
    }
    return false;
}

bool algebraCase(const std::string & kind, vio::Cursor & c, vio::Out & o) {
    if (ddnCase(kind, c, o)) return true;
    if (matrixCase(kind, c, o)) return true;
    if (kind == "bfop") {           // op space lhs rhs -> tag, allocated size, written values
        std::string op = c.next();
        Factors space = readFactors(c);
        BasisFunction l = readBasis(c), r = readBasis(c);
        BasisFunction res = op == "plus" ? plus(space, l, r) : op == "minus" ? minus(space, l, r) : dot(space, l, r);
        o.list(res.tag); o << (size_t) res.values.size();
        outVector(o, res.values, factorSpacePartial(res.tag, space));
        return true;
    }
    if (kind == "subop") {          // op space retval rhs   (rhs.tag subset of retval.tag)
        std::string op = c.next();
        Factors space = readFactors(c);
        BasisFunction l = readBasis(c), r = readBasis(c);
        BasisFunction res = op == "plus" ? plusSubset(space, l, r) : minusSubset(space, l, r);
        o.list(res.tag); outVector(o, res.values, (size_t) res.values.size());
        return true;
    }
    if (kind == "fv") {             // op space fv args -> resulting bases, flat values
        std::string op = c.next();
        Factors space = readFactors(c);
        FactoredVector fv = readFV(c);
        if (op == "plus")        { BasisFunction b = readBasis(c); plusEqual(space, fv, b); }
        else if (op == "plusrv") { BasisFunction b = readBasis(c); plusEqual(space, fv, std::move(b)); }
        else if (op == "plusc")  { BasisFunction b = readBasis(c); fv = plus(space, fv, b); }
        else if (op == "minus")  { BasisFunction b = readBasis(c); bool cz = c.nextSize() != 0; minusEqual(space, fv, b, cz); }
        else if (op == "minusc") { BasisFunction b = readBasis(c); bool cz = c.nextSize() != 0; fv = minus(space, fv, b, cz); }
        else if (op == "plusfv") { FactoredVector r = readFV(c); plusEqual(space, fv, r); }
        else if (op == "plusfvrv") { FactoredVector r = readFV(c); plusEqual(space, fv, std::move(r)); }
        else if (op == "minusfv") { FactoredVector r = readFV(c); bool cz = c.nextSize() != 0; minusEqual(space, fv, r, cz); }
        else if (op == "scale")  { double v = c.nextDouble(); fv *= v; }
        else if (op == "scalew") { Vector w = readVector(c); fv *= w; }
        else if (op == "getw")   {   // getValue(space, value, weights) at every joint assignment
            Vector w = readVector(c);
            const size_t N = factorSpace(space);
            o << N;
            for (size_t i = 0; i < N; ++i) o << fv.getValue(space, toFactors(space, i), w);
            return true;
        }
        else throw std::logic_error("unknown fv op " + op);
        outFV(o, fv); outFlat(o, space, fv);
        return true;
    }
    return false;
}
