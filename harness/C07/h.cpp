// harness/C07/h.cpp — drives the real Experience / SparseExperience / MaximumLikelihoodModel /
// SparseMaximumLikelihoodModel / Bandit::Experience code on exact operation sequences.
//
// The whole binary is compiled with -DEIGEN_INITIALIZE_MATRICES_BY_NAN (props/C07.py), Eigen's
// documented debugging switch: dense storage that the library never writes reads back as NaN
// instead of arbitrary heap contents, so "cell left uninitialised" is observable and deterministic.
#include <memory>
#include <variant>
#include <AIToolbox/MDP/Experience.hpp>
#include <AIToolbox/MDP/SparseExperience.hpp>
#include <AIToolbox/MDP/MaximumLikelihoodModel.hpp>
#include <AIToolbox/MDP/SparseMaximumLikelihoodModel.hpp>
#include <AIToolbox/MDP/ThompsonModel.hpp>
#include <AIToolbox/Bandit/Experience.hpp>
#include <AIToolbox/Factored/Bandit/Experience.hpp>
#include <AIToolbox/Factored/MDP/CooperativeExperience.hpp>
#include <AIToolbox/Factored/MDP/CooperativeMaximumLikelihoodModel.hpp>
#include <AIToolbox/Factored/MDP/CooperativeThompsonModel.hpp>
#include "vio.hpp"

using namespace AIToolbox;

// An experience that offers only the basic IsExperience interface (no Eigen tables): selects the
// non-Eigen constexpr branches of the model classes.
struct PlainExp {
    MDP::Experience e;
    PlainExp(size_t s, size_t a) : e(s, a) {}
    void record(size_t s, size_t a, size_t s1, double r) { e.record(s, a, s1, r); }
    void reset() { e.reset(); }
    unsigned long getTimesteps() const { return e.getTimesteps(); }
    unsigned long getVisits(size_t s, size_t a, size_t s1) const { return e.getVisits(s, a, s1); }
    unsigned long getVisitsSum(size_t s, size_t a) const { return e.getVisitsSum(s, a); }
    double getReward(size_t s, size_t a) const { return e.getReward(s, a); }
    double getM2(size_t s, size_t a) const { return e.getM2(s, a); }
    size_t getS() const { return e.getS(); }
    size_t getA() const { return e.getA(); }
};
static_assert(MDP::IsExperience<PlainExp> && !MDP::IsExperienceEigen<PlainExp>);
static_assert(MDP::IsExperienceEigen<MDP::Experience> && MDP::IsExperienceEigen<MDP::SparseExperience>);

template <typename M>
static void dumpModel(const M & m, size_t S, size_t A, vio::Out & o) {
    for (size_t a = 0; a < A; ++a) for (size_t s = 0; s < S; ++s) for (size_t s1 = 0; s1 < S; ++s1)
        o << m.getTransitionProbability(s, a, s1);
    for (size_t s = 0; s < S; ++s) for (size_t a = 0; a < A; ++a)
        o << m.getExpectedReward(s, a, 0);
}
template <typename M>
static void dumpRow(const M & m, size_t S, size_t s, size_t a, vio::Out & o) {
    for (size_t s1 = 0; s1 < S; ++s1) o << m.getTransitionProbability(s, a, s1);
    o << m.getExpectedReward(s, a, 0);
}

// Posterior-sampling models draw from their private engine.  The harness fixes the seed the model's
// engine receives (Seeder root seed) and keeps a twin engine in step with it: before each row is
// synced the twin produces the gamma draws Gamma(visits(s,a,s1) + 1/2, 1), s1 = 0..S-1, and (when
// visitSum >= 2) the Student-t draw that the documented sampling scheme consumes.  The draws are
// printed with the resulting row, so the judge can apply the Coq model (thompson_row) to them.
static unsigned pinnedSeed(unsigned root) {
    Seeder::setRootSeed(root); const unsigned sd = Seeder::getSeed(); Seeder::setRootSeed(root);
    return sd;        // the next Seeder::getSeed() returns sd again
}
template <typename VisitsOf>
static void replayRowDraws(RandomEngine & twin, size_t n, unsigned long total, VisitsOf && visits, vio::Out & o) {
    for (size_t k = 0; k < n; ++k) {
        std::gamma_distribution<double> dist(visits(k) + 0.5, 1.0);
        o << dist(twin);
    }
    if (total < 2) o << 0.0;
    else { std::student_t_distribution<double> dist(total - 1); o << dist(twin); }
}

template <typename E>
static void runMdp(vio::Cursor & c, vio::Out & o) {
    using TM = MDP::ThompsonModel<E>;
    struct TEntry { std::unique_ptr<TM> m; RandomEngine twin; };
    std::vector<TEntry> tmodels;
    using DM = MDP::MaximumLikelihoodModel<E>;
    // SparseMaximumLikelihoodModel<MDP::Experience> does not instantiate (sparse row = dense expression);
    // for the dense Experience the "s" model kind is rejected by the generator.
    constexpr bool hasSparse = !std::is_same_v<E, MDP::Experience>;
    using SM = std::conditional_t<hasSparse, MDP::SparseMaximumLikelihoodModel<E>, MDP::MaximumLikelihoodModel<E>>;
    const size_t S = c.nextSize(), A = c.nextSize();
    const size_t nops = c.nextSize();
    E exp(S, A);
    std::vector<std::variant<std::unique_ptr<DM>, std::unique_ptr<SM>>> models;
    auto withModel = [&](size_t k, auto && f) {
        std::visit([&](auto & p) { f(*p); }, models.at(k));
    };
    for (size_t n = 0; n < nops; ++n) {
        const std::string op = c.next();
        if (op == "r") {
            size_t s = c.nextSize(), a = c.nextSize(), s1 = c.nextSize(); double r = c.nextDouble();
            exp.record(s, a, s1, r);
            o << (size_t) exp.getVisits(s, a, s1) << (size_t) exp.getVisitsSum(s, a)
              << exp.getReward(s, a) << exp.getM2(s, a) << (size_t) exp.getTimesteps();
        } else if (op == "z") {
            exp.reset();
            o << (size_t) exp.getTimesteps();
        } else if (op == "m") {
            std::string kind = c.next(); bool flag = c.nextSize() != 0;
            if (kind == "d") models.emplace_back(std::in_place_index<0>, std::make_unique<DM>(exp, 1.0, flag));
            else if (!hasSparse) throw std::logic_error("sparse model over dense Experience does not instantiate");
            else             models.emplace_back(std::in_place_index<1>, std::make_unique<SM>(exp, 1.0, flag));
            withModel(models.size() - 1, [&](auto & m) { dumpModel(m, S, A, o); });
        } else if (op == "y") {
            size_t k = c.nextSize();
            withModel(k, [&](auto & m) { m.sync(); dumpModel(m, S, A, o); });
        } else if (op == "p") {
            size_t k = c.nextSize(), s = c.nextSize(), a = c.nextSize();
            withModel(k, [&](auto & m) { m.sync(s, a); dumpRow(m, S, s, a, o); });
        } else if (op == "i") {
            size_t k = c.nextSize(), s = c.nextSize(), a = c.nextSize(), s1 = c.nextSize();
            withModel(k, [&](auto & m) { m.sync(s, a, s1); dumpRow(m, S, s, a, o); });
        } else if (op == "d") {
            o << (size_t) exp.getTimesteps();
            for (size_t s = 0; s < S; ++s) for (size_t a = 0; a < A; ++a) {
                o << (size_t) exp.getVisitsSum(s, a) << exp.getReward(s, a) << exp.getM2(s, a);
                for (size_t s1 = 0; s1 < S; ++s1) o << (size_t) exp.getVisits(s, a, s1);
            }
            for (size_t k = 0; k < models.size(); ++k)
                withModel(k, [&](auto & m) { dumpModel(m, S, A, o); });
            for (auto & t : tmodels) dumpModel(*t.m, S, A, o);
        } else if (op == "tm" || op == "ty" || op == "tp") {
            // Thompson model: construct (syncs every row) / sync() / sync(s,a); per synced row:
            // S gamma draws, t draw, then the S probabilities and the reward the model exposes
            auto row = [&](TEntry & t, size_t s, size_t a) {
                replayRowDraws(t.twin, S, exp.getVisitsSum(s, a), [&](size_t s1) { return exp.getVisits(s, a, s1); }, o);
            };
            if (op == "tp") {
                size_t k = c.nextSize(), s = c.nextSize(), a = c.nextSize();
                auto & t = tmodels.at(k);
                row(t, s, a); t.m->sync(s, a); dumpRow(*t.m, S, s, a, o);
            } else {
                size_t k;
                if (op == "tm") {
                    const unsigned sd = pinnedSeed(7919u * (unsigned) (tmodels.size() + 1) + (unsigned) n);
                    tmodels.push_back(TEntry{nullptr, RandomEngine(sd)});
                    k = tmodels.size() - 1;
                } else k = c.nextSize();
                auto & t = tmodels.at(k);
                // draws first (same order as sync(): for a, for s), then the rows
                vio::Out draws;
                for (size_t a = 0; a < A; ++a) for (size_t s = 0; s < S; ++s)
                    replayRowDraws(t.twin, S, exp.getVisitsSum(s, a), [&](size_t s1) { return exp.getVisits(s, a, s1); }, draws);
                if (op == "tm") t.m = std::make_unique<TM>(exp, 0.9); else t.m->sync();
                o.os << draws.os.str();
                for (size_t a = 0; a < A; ++a) for (size_t s = 0; s < S; ++s) dumpRow(*t.m, S, s, a, o);
            }
        } else throw std::logic_error("unknown op " + op);
    }
}

// ---- cooperative (factored) experience and maximum-likelihood model
namespace fm = AIToolbox::Factored::MDP;
namespace af = AIToolbox::Factored;

static void dumpCoopExp(const fm::CooperativeExperience & exp, vio::Out & o) {
    const auto & S = exp.getS();
    o << (size_t) exp.getTimesteps();
    for (size_t i = 0; i < S.size(); ++i) {
        const auto & v = exp.getVisitsTable()[i];
        for (long j = 0; j < v.rows(); ++j) {
            for (size_t c = 0; c <= S[i]; ++c) o << (size_t) v(j, c);
            o << exp.getRewardMatrix()[i][j] << exp.getM2Matrix()[i][j];
        }
    }
}
template <typename M>
static void dumpCoopModel(const M & m, vio::Out & o) {
    const auto & S = m.getS();
    const auto & T = m.getTransitionFunction().transitions;
    for (size_t i = 0; i < S.size(); ++i)
        for (long j = 0; j < T[i].rows(); ++j) {
            for (size_t c = 0; c < S[i]; ++c) o << T[i](j, c);
            o << m.getRewardFunction()[i][j];
        }
}
template <typename V> static V readVec(vio::Cursor & c, size_t n) { V v(n); for (size_t k = 0; k < n; ++k) v[k] = c.nextSize(); return v; }

static void runCoop(vio::Cursor & c, vio::Out & o) {
    auto Sv = c.nextSizes(); auto Av = c.nextSizes();
    af::State S(Sv.begin(), Sv.end()); af::Action A(Av.begin(), Av.end());
    af::DDNGraph graph(S, A);
    for (size_t i = 0; i < S.size(); ++i) {
        af::DDNGraph::ParentSet ps;
        auto ag = c.nextSizes(); ps.agents.assign(ag.begin(), ag.end());
        size_t nf = c.nextSize();
        for (size_t k = 0; k < nf; ++k) { auto f = c.nextSizes(); ps.features.emplace_back(f.begin(), f.end()); }
        graph.push(std::move(ps));
    }
    fm::CooperativeExperience exp(graph);
    std::vector<std::unique_ptr<fm::CooperativeMaximumLikelihoodModel>> models;
    fm::CooperativeExperience::Indeces last(S.size(), 0);
    struct CT { std::unique_ptr<fm::CooperativeThompsonModel> m; RandomEngine twin; };
    std::vector<CT> tmodels;
    auto ctDraws = [&](CT & t, size_t i, size_t j, vio::Out & out) {
        const auto & v = exp.getVisitsTable()[i];
        replayRowDraws(t.twin, S[i], v(j, S[i]), [&](size_t c) { return v(j, c); }, out);
    };
    auto ctRow = [&](CT & t, size_t i, size_t j, vio::Out & out) {
        const auto & T = t.m->getTransitionFunction().transitions;
        for (size_t c = 0; c < S[i]; ++c) out << T[i](j, c);
        out << t.m->getRewardFunction()[i][j];
    };
    const size_t nops = c.nextSize();
    for (size_t n = 0; n < nops; ++n) {
        const std::string op = c.next();
        if (op == "r") {
            auto s = readVec<af::State>(c, S.size()); auto a = readVec<af::Action>(c, A.size());
            auto s1 = readVec<af::State>(c, S.size());
            af::Rewards rw(S.size()); for (size_t k = 0; k < S.size(); ++k) rw[k] = c.nextDouble();
            last = exp.record(s, a, s1, rw);
            for (auto id : last) o << id;
            for (size_t i = 0; i < S.size(); ++i) {
                const auto id = last[i];
                o << (size_t) exp.getVisitsTable()[i](id, s1[i]) << (size_t) exp.getVisitsTable()[i](id, S[i])
                  << exp.getRewardMatrix()[i][id] << exp.getM2Matrix()[i][id];
            }
            o << (size_t) exp.getTimesteps();
        } else if (op == "z") { exp.reset(); dumpCoopExp(exp, o); }
        else if (op == "d") { dumpCoopExp(exp, o); for (auto & m : models) dumpCoopModel(*m, o); for (auto & t : tmodels) dumpCoopModel(*t.m, o); }
        else if (op == "ctm" || op == "cty") {      // CooperativeThompsonModel: construct / sync(): draws of all rows, then all rows
            size_t k;
            // CooperativeThompsonModel never seeds rand_ (default-constructed mt19937): the twin is too.
            if (op == "ctm") { tmodels.push_back(CT{nullptr, RandomEngine()}); k = tmodels.size() - 1; }
            else k = c.nextSize();
            auto & t = tmodels.at(k);
            for (size_t i = 0; i < S.size(); ++i) for (size_t j = 0; j < graph.getSize(i); ++j) ctDraws(t, i, j, o);
            if (op == "ctm") t.m = std::make_unique<fm::CooperativeThompsonModel>(exp, 0.9); else t.m->sync();
            for (size_t i = 0; i < S.size(); ++i) for (size_t j = 0; j < graph.getSize(i); ++j) ctRow(t, i, j, o);
        } else if (op == "ctp" || op == "cti") {    // sync(s,a) / sync(indeces): one row per node
            size_t k = c.nextSize(); auto & t = tmodels.at(k);
            fm::CooperativeExperience::Indeces ids = last;
            if (op == "ctp") {
                auto s = readVec<af::State>(c, S.size()); auto a = readVec<af::Action>(c, A.size());
                for (size_t i = 0; i < S.size(); ++i) ids[i] = graph.getId(i, s, a);
                for (size_t i = 0; i < S.size(); ++i) ctDraws(t, i, ids[i], o);
                t.m->sync(s, a);
            } else {
                for (size_t i = 0; i < S.size(); ++i) ctDraws(t, i, ids[i], o);
                t.m->sync(last);
            }
            for (size_t i = 0; i < S.size(); ++i) ctRow(t, i, ids[i], o);
        }
        else if (op == "cm") { bool flag = c.nextSize() != 0; models.emplace_back(std::make_unique<fm::CooperativeMaximumLikelihoodModel>(exp, 0.9, flag)); dumpCoopModel(*models.back(), o); }
        else if (op == "cy") { size_t k = c.nextSize(); models.at(k)->sync(); dumpCoopModel(*models[k], o); }
        else if (op == "cp") { size_t k = c.nextSize(); auto s = readVec<af::State>(c, S.size()); auto a = readVec<af::Action>(c, A.size());
                               models.at(k)->sync(s, a); dumpCoopModel(*models[k], o); }
        else if (op == "ci") { size_t k = c.nextSize(); models.at(k)->sync(last); dumpCoopModel(*models[k], o); }
        else throw std::logic_error("unknown op " + op);
    }
}

// ---- Factored::Bandit::Experience: A, dependency groups, ops (r a.. rews.. | z | d)
static void runFBandit(vio::Cursor & c, vio::Out & o) {
    auto Av = c.nextSizes(); af::Action A(Av.begin(), Av.end());
    const size_t ng = c.nextSize();
    std::vector<af::PartialKeys> deps;            // must outlive the experience (it keeps a reference)
    for (size_t k = 0; k < ng; ++k) { auto d = c.nextSizes(); deps.emplace_back(d.begin(), d.end()); }
    af::Bandit::Experience exp(A, deps);
    auto dump = [&]() {
        o << (size_t) exp.getTimesteps();
        for (size_t i = 0; i < ng; ++i)
            for (size_t arm = 0; arm < exp.getVisitsTable()[i].size(); ++arm)
                o << (size_t) exp.getVisitsTable()[i][arm] << exp.getRewardMatrix().bases[i].values[arm] << exp.getM2Matrix()[i][arm];
    };
    const size_t nops = c.nextSize();
    for (size_t n = 0; n < nops; ++n) {
        const std::string op = c.next();
        if (op == "r") {
            auto a = readVec<af::Action>(c, A.size());
            af::Rewards rw(ng); for (size_t k = 0; k < ng; ++k) rw[k] = c.nextDouble();
            const auto & ids = exp.record(a, rw);
            for (size_t i = 0; i < ng; ++i)
                o << ids[i] << (size_t) exp.getVisitsTable()[i][ids[i]] << exp.getRewardMatrix().bases[i].values[ids[i]] << exp.getM2Matrix()[i][ids[i]];
            o << (size_t) exp.getTimesteps();
        } else if (op == "z") { exp.reset(); dump(); }
        else if (op == "d") dump();
        else throw std::logic_error("unknown op " + op);
    }
}

int main(int argc, char ** argv) {
    return vio::runCases(argc, argv, [](vio::Cursor & c, vio::Out & o) {
        const std::string kind = c.next();
        if (kind == "mdp") {
            const std::string ek = c.next();
            if (ek == "D") runMdp<MDP::Experience>(c, o);
            else if (ek == "S") runMdp<MDP::SparseExperience>(c, o);
            else if (ek == "N") runMdp<PlainExp>(c, o);
            else throw std::logic_error("unknown experience kind " + ek);
        } else if (kind == "coop") { runCoop(c, o);
        } else if (kind == "fbandit") { runFBandit(c, o);
        } else if (kind == "svt") {     // S A table[a][s][s1] : setVisitsTable on a used experience
            const size_t S = c.nextSize(), A = c.nextSize();
            MDP::Experience exp(S, A);
            exp.record(0, 0, 0, 2.0);
            Table3D t(A, Table2D(S, S));
            for (size_t a = 0; a < A; ++a) for (size_t s = 0; s < S; ++s) for (size_t s1 = 0; s1 < S; ++s1)
                t[a](s, s1) = c.nextSize();
            exp.setVisitsTable(t);
            o << (size_t) exp.getTimesteps();
            for (size_t s = 0; s < S; ++s) for (size_t a = 0; a < A; ++a) {
                o << (size_t) exp.getVisitsSum(s, a) << exp.getReward(s, a) << exp.getM2(s, a);
                for (size_t s1 = 0; s1 < S; ++s1) o << (size_t) exp.getVisits(s, a, s1);
            }
        } else if (kind == "bandit") {  // A nops (r a rew | z | d)
            const size_t A = c.nextSize(), nops = c.nextSize();
            Bandit::Experience exp(A);
            for (size_t n = 0; n < nops; ++n) {
                const std::string op = c.next();
                if (op == "r") { size_t a = c.nextSize(); double r = c.nextDouble(); exp.record(a, r); }
                else if (op == "z") exp.reset();
                else throw std::logic_error("unknown op " + op);
                o << (size_t) exp.getTimesteps();
                for (size_t a = 0; a < A; ++a)
                    o << (size_t) exp.getVisitsTable()[a] << exp.getRewardMatrix()[a] << exp.getM2Matrix()[a];
            }
        } else throw std::logic_error("unknown case kind " + kind);
    });
}
