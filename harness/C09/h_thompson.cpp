// harness/C09/h_thompson.cpp — ThompsonSamplingPolicy::sampleAction and TopTwoThompsonSamplingPolicy.
// The posterior samples are learned by replay: the policy's engine is copied before each call and
// the same student_t draws / formula are evaluated on the copy; they become inputs of the model.
// TopTwo keeps its Thompson policy in a private member: this TU is compiled with
// private/protected opened AFTER the standard / boost / Eigen headers have been included.
#include <vector>
#include <random>
#include <limits>
#include <cmath>
#include <string>
#include <AIToolbox/Types.hpp>
#include <AIToolbox/Seeder.hpp>
#include "vio.hpp"
#define private public
#define protected public
#include <AIToolbox/Bandit/Experience.hpp>
#include <AIToolbox/Bandit/Policies/ThompsonSamplingPolicy.hpp>
#include <AIToolbox/Bandit/Policies/TopTwoThompsonSamplingPolicy.hpp>
#include <AIToolbox/Bandit/Policies/T3CPolicy.hpp>
#undef private
#undef protected

using namespace AIToolbox;

namespace {
// the posterior samples ThompsonSamplingPolicy::sampleAction will draw from engine state [e]
// (same order, same distributions, same formula; arms after an under-explored one are not drawn)
std::vector<double> replayVals(const Bandit::Experience & exp, RandomEngine e) {
    const auto & counts = exp.getVisitsTable();
    const auto & q = exp.getRewardMatrix();
    const auto & m2 = exp.getM2Matrix();
    std::vector<double> vals(counts.size(), 0.0);
    for (size_t a = 0; a < counts.size(); ++a) {
        if (counts[a] < 2) break;
        std::student_t_distribution<double> dist(counts[a] - 1);
        vals[a] = q[a] + dist(e) * std::sqrt(m2[a] / (counts[a] * (counts[a] - 1)));
    }
    return vals;
}
}

void c09_thompson(const std::string & kind, vio::Cursor & c, vio::Out & o) {
    const size_t A = c.nextSize();
    const size_t nrec = c.nextSize();
    Bandit::Experience exp(A);
    for (size_t k = 0; k < nrec; ++k) { size_t a = c.nextSize(); double r = c.nextDouble(); exp.record(a, r); }
    const double beta = c.nextDouble();
    const double var = (kind == "t3c") ? c.nextDouble() : 1.0;
    const unsigned seed = (unsigned) c.nextSize();
    const size_t nsamp = c.nextSize();
    Seeder::setRootSeed(seed);
    o.list(exp.getVisitsTable());
    if (kind == "ts" || kind == "tsn") {
        Bandit::ThompsonSamplingPolicy p(exp);
        o << nsamp;
        for (size_t k = 0; k < nsamp; ++k) {
            o.list(replayVals(exp, p.rand_));
            o << p.sampleAction();
        }
    } else if (kind == "t3c") {
        // T3C: Thompson leader from the private policy_, then Bernoulli(beta) and the tie-breaking
        // Bernoulli(1/k) draws from the policy's own engine: each consumes one canonical uniform
        Bandit::T3CPolicy p(exp, beta, var);
        o.list(exp.getRewardMatrix());
        o << nsamp;
        for (size_t k = 0; k < nsamp; ++k) {
            o.list(replayVals(exp, p.policy_.rand_));
            RandomEngine outer = p.rand_;
            std::uniform_real_distribution<double> pd(0.0, 1.0);
            std::vector<double> us;
            for (size_t i = 0; i < A + 1; ++i) us.push_back(pd(outer));
            o.list(us);
            o << p.sampleAction();
        }
    } else {                                            // tt, ttn
        Bandit::TopTwoThompsonSamplingPolicy p(exp, beta);
        o << nsamp;
        for (size_t k = 0; k < nsamp; ++k) {
            // dry run on copies: which inner Thompson calls will be made, and does the loop end?
            Bandit::ThompsonSamplingPolicy inner = p.policy_;       // copies its engine too
            RandomEngine outer = p.rand_;
            std::vector<std::pair<std::vector<double>, size_t>> calls;
            auto callInner = [&]() { auto v = replayVals(exp, inner.rand_); size_t a = inner.sampleAction(); calls.emplace_back(v, a); return a; };
            const size_t first = callInner();
            int pick = 2;                                           // 2 = not drawn
            bool hang = false;
            if (exp.getVisitsTable()[first] >= 2) {
                std::bernoulli_distribution pickBest(beta);
                pick = pickBest(outer) ? 1 : 0;
                if (!pick) {
                    size_t second, guard = 0;
                    do { second = callInner(); } while (second == first && ++guard < 300);
                    hang = (second == first);
                }
            }
            o << (size_t) calls.size();
            for (auto & [v, a] : calls) { o.list(v); o << a; }
            o << pick << (hang ? 1 : 0);
            // the real call (skipped when the dry run shows the do-while loop does not terminate)
            if (!hang) o << p.sampleAction(); else o << (size_t) 0;
        }
    }
}
