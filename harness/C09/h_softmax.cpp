// harness/C09/h_softmax.cpp — QSoftmaxPolicyWrapper through Bandit::QSoftmaxPolicy and
// MDP::QSoftmaxPolicy (one-state-per-row): table, queries, the same for shifted values, samples.
#include <AIToolbox/Seeder.hpp>
#include <AIToolbox/Utils/Probability.hpp>
#include <AIToolbox/Bandit/Policies/QSoftmaxPolicy.hpp>
#include <AIToolbox/MDP/Policies/QSoftmaxPolicy.hpp>
#include <AIToolbox/MDP/Policies/QGreedyPolicy.hpp>
#include <AIToolbox/MDP/Policies/EpsilonPolicy.hpp>
#include "vio.hpp"

using namespace AIToolbox;

namespace {
struct BSoft : Bandit::QSoftmaxPolicy {
    BSoft(const Bandit::QFunction & q, double t) : AIToolbox::PolicyInterface<void, void, size_t>(q.size()), Bandit::QSoftmaxPolicy(q, t) {}
    RandomEngine & eng() const { return rand_; }
};
struct MSoft : MDP::QSoftmaxPolicy {
    MSoft(const MDP::QFunction & q, double t) : AIToolbox::PolicyInterface<size_t, size_t, size_t>(q.rows(), q.cols()), MDP::QSoftmaxPolicy(q, t) {}
    RandomEngine & eng() const { return rand_; }
};
void dumpDraws(vio::Out & o, const RandomEngine & e, size_t A) {
    o << A;
    for (size_t n = 1; n <= A; ++n) {
        RandomEngine c = e;
        std::uniform_int_distribution<unsigned> d(0, n - 1);
        o << (size_t) d(c);
    }
    RandomEngine c = e;
    std::uniform_real_distribution<double> pd(0.0, 1.0);
    o << pd(c);
}
}

// msm: multi-state Q-table whose rows sit at very different offsets (row r = base row + offset_r):
// MDP::QSoftmaxPolicy, MDP::QGreedyPolicy and MDP::EpsilonPolicy tables against their per-state queries
static void c09_multistate(vio::Cursor & c, vio::Out & o) {
    const double T = c.nextDouble();
    const size_t S = c.nextSize(), A = c.nextSize();
    MDP::QFunction q(S, A);
    for (size_t s = 0; s < S; ++s) for (size_t a = 0; a < A; ++a) q(s, a) = c.nextDouble();
    const std::vector<double> offs = c.nextDoubles();
    for (size_t s = 0; s < S; ++s) q.row(s).array() += offs[s];
    const double eps = c.nextDouble();
    const unsigned seed = (unsigned) c.nextSize();
    Seeder::setRootSeed(seed);
    MSoft sm(q, T);
    MDP::QGreedyPolicy g(q);
    MDP::EpsilonPolicy e(g, eps);
    auto dumpM = [&](const auto & pol) {
        const Matrix2D m = pol.getPolicy();
        std::vector<double> t, pr;
        for (size_t s = 0; s < S; ++s) for (size_t a = 0; a < A; ++a) { t.push_back(m(s, a)); pr.push_back(pol.getActionProbability(s, a)); }
        o.list(t); o.list(pr);
    };
    dumpM(sm); dumpM(g); dumpM(e);
    for (size_t s = 0; s < S; ++s) { dumpDraws(o, sm.eng(), A); o << sm.sampleAction(s); }
}

void c09_softmax(const std::string & kind, vio::Cursor & c, vio::Out & o) {
    if (kind == "msm") { c09_multistate(c, o); return; }
    c.next();                                       // exactness flag (driver only)
    const double T = c.nextDouble();
    const std::vector<double> tsets = c.nextDoubles();   // setTemperature calls made after construction
    const std::vector<double> qv = c.nextDoubles();
    const double shift = c.nextDouble();
    const unsigned seed = (unsigned) c.nextSize();
    const size_t nsamp = c.nextSize();
    const size_t A = qv.size();
    Vector q(A); for (size_t i = 0; i < A; ++i) q[i] = qv[i];
    Vector qs = q; qs.array() += shift;
    Seeder::setRootSeed(seed);
    BSoft p(q, T), ps(qs, T);
    // the MDP class on a two-row table (row 0 = q, row 1 = shifted q)
    MDP::QFunction mq(2, A); mq.row(0) = q.transpose(); mq.row(1) = qs.transpose();
    MSoft mp(mq, T);
    auto applySets = [&](auto & pol, bool print) {
        if (print) o << (size_t) tsets.size();
        for (double v : tsets) {
            bool thrown = false;
            try { pol.setTemperature(v); } catch (const std::invalid_argument &) { thrown = true; }
            if (print) o << thrown << pol.getTemperature();
        }
    };
    applySets(p, true); applySets(ps, false); applySets(mp, true);
    auto dumpV = [&](const Vector & v) { o << (size_t) v.size(); for (long i = 0; i < (long) v.size(); ++i) o << (double) v[i]; };
    dumpV(p.getPolicy());
    { std::vector<double> pr; for (size_t a = 0; a < A; ++a) pr.push_back(p.getActionProbability(a)); o.list(pr); }
    dumpV(ps.getPolicy());
    { std::vector<double> pr; for (size_t a = 0; a < A; ++a) pr.push_back(ps.getActionProbability(a)); o.list(pr); }
    const Matrix2D mpol = mp.getPolicy();
    for (size_t s = 0; s < 2; ++s) {
        std::vector<double> t, pr;
        for (size_t a = 0; a < A; ++a) { t.push_back(mpol(s, a)); pr.push_back(mp.getActionProbability(s, a)); }
        o.list(t); o.list(pr);
    }
    o << nsamp;
    for (size_t k = 0; k < nsamp; ++k) { dumpDraws(o, p.eng(), A); o << p.sampleAction(); }
    for (size_t k = 0; k < nsamp; ++k) { dumpDraws(o, mp.eng(), A); o << mp.sampleAction(k % 2); }
}
