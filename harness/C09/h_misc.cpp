// harness/C09/h_misc.cpp — oracle-level drivers (no model): Bandit::ESRLPolicy phase machine,
// Bandit::SuccessiveRejectsPolicy, Bandit::RandomPolicy.  After every update the table, the
// per-action queries and one sampled action are printed.
// ESRLPolicy samples through a private LRPPolicy member that owns its own engine: this TU is compiled
// with private/protected opened AFTER the standard / boost / Eigen headers.
#include <algorithm>
#include <numeric>
#include <cmath>
#include <vector>
#include <random>
#include <stdexcept>
#include <AIToolbox/Types.hpp>
#include "vio.hpp"
#define private public
#define protected public
#include <AIToolbox/Seeder.hpp>
#include <AIToolbox/Bandit/Experience.hpp>
#include <AIToolbox/Bandit/Policies/ESRLPolicy.hpp>
#include <AIToolbox/Bandit/Policies/SuccessiveRejectsPolicy.hpp>
#include <AIToolbox/Bandit/Policies/RandomPolicy.hpp>
#include <AIToolbox/MDP/Policies/RandomPolicy.hpp>
#undef private
#undef protected

using namespace AIToolbox;

namespace {
template <typename P> void dumpAll(vio::Out & o, const P & p, size_t A) {
    const Vector v = p.getPolicy();
    o << (size_t) v.size();
    for (long i = 0; i < (long) v.size(); ++i) o << (double) v[i];
    o << A;
    for (size_t a = 0; a < A; ++a) o << p.getActionProbability(a);
    o << p.sampleAction();
}
}

void c09_misc(const std::string & kind, vio::Cursor & c, vio::Out & o) {
    if (kind == "esrl") {
        const size_t A = c.nextSize();
        const double a = c.nextDouble();
        const unsigned N = (unsigned) c.nextSize(), phases = (unsigned) c.nextSize(), window = (unsigned) c.nextSize();
        // ops: "u act res" = stepUpdateP; setters "a v" setAParam, "t n" setTimesteps,
        //      "e n" setExplorationPhases, "w n" setWindowSize
        const size_t nops = c.nextSize();
        struct Op { char k; size_t n; bool res; double v; };
        std::vector<Op> ops;
        for (size_t k = 0; k < nops; ++k) {
            const std::string t = c.next();
            Op op{t[0], 0, false, 0.0};
            if (t == "u") { op.n = c.nextSize(); op.res = c.nextSize() != 0; }
            else if (t == "a") op.v = c.nextDouble();
            else op.n = c.nextSize();
            ops.push_back(op);
        }
        Seeder::setRootSeed((unsigned) c.nextSize());
        Bandit::ESRLPolicy p(A, a, N, phases, window);
        auto peek = [&]() {                               // the draw lri_.sampleAction() is about to make
            RandomEngine cpy = p.lri_.rand_;
            std::uniform_real_distribution<double> pd(0.0, 1.0);
            return pd(cpy);
        };
        o << peek(); dumpAll(o, p, A);
        for (const auto & op : ops) {
            switch (op.k) {
                case 'u': p.stepUpdateP(op.n, op.res); break;
                case 'a': p.setAParam(op.v); break;
                case 't': p.setTimesteps((unsigned) op.n); break;
                case 'e': p.setExplorationPhases((unsigned) op.n); break;
                default:  p.setWindowSize((unsigned) op.n); break;
            }
            o << peek(); dumpAll(o, p, A); o << p.isExploiting() << p.getAParam();
        }
    } else if (kind == "sr") {
        const size_t A = c.nextSize();
        const unsigned budget = (unsigned) c.nextSize();
        const std::vector<double> rews = c.nextDoubles();
        Seeder::setRootSeed((unsigned) c.nextSize());
        Bandit::Experience exp(A);
        Bandit::SuccessiveRejectsPolicy p(exp, budget);
        dumpAll(o, p, A); o << p.getCurrentPhase() << p.getCurrentNk(); o.list(p.availableActions_);
        for (double r : rews) {
            const size_t a = p.sampleAction();
            exp.record(a, r);
            o.list(exp.getRewardMatrix());          // the means stepUpdateQ is about to read
            p.stepUpdateQ();
            dumpAll(o, p, A);
            o << p.getCurrentPhase() << p.getCurrentNk() << p.canRecommendAction(); o.list(p.availableActions_);
        }
    } else if (kind == "brnd") {
        // round 6: Bandit::RandomPolicy against the model.  Output: bounds of the private
        // uniform_int_distribution, then per sample: the draw a fresh distribution with the DOCUMENTED
        // range [0, A-1] makes on a copy of the engine, table, queries, sampled action.
        const size_t A = c.nextSize();
        const size_t ns = c.nextSize();
        Seeder::setRootSeed((unsigned) c.nextSize());
        Bandit::RandomPolicy p(A);
        o << p.getA() << (size_t) p.randomDistribution_.a() << (size_t) p.randomDistribution_.b();
        for (size_t k = 0; k < ns; ++k) {
            RandomEngine cpy = p.rand_;
            std::uniform_int_distribution<size_t> d(0, A - 1);
            o << d(cpy);
            dumpAll(o, p, A);
        }
    } else if (kind == "mrnd") {
        // round 6: MDP::RandomPolicy = MDP::BanditPolicyAdaptor<Bandit::RandomPolicy>
        const size_t S = c.nextSize();
        const size_t A = c.nextSize();
        const size_t ns = c.nextSize();
        Seeder::setRootSeed((unsigned) c.nextSize());
        MDP::RandomPolicy p(S, A);
        const auto & bp = p.getBanditPolicy();
        o << p.getS() << p.getA() << (size_t) bp.randomDistribution_.a() << (size_t) bp.randomDistribution_.b();
        const Matrix2D m = p.getPolicy();
        o << (size_t) m.rows() << (size_t) m.cols();
        for (long s = 0; s < (long) m.rows(); ++s)
            for (long a = 0; a < (long) m.cols(); ++a) o << (double) m(s, a);
        for (size_t s = 0; s < S; ++s)
            for (size_t a = 0; a < A; ++a) o << p.getActionProbability(s, a);
        for (size_t k = 0; k < ns; ++k) {
            const size_t s = S ? (k * 7 + 3) % S : 0;
            RandomEngine cpy = bp.rand_;
            std::uniform_int_distribution<size_t> d(0, A - 1);
            o << s << d(cpy) << p.sampleAction(s);
        }
    } else {                                            // rnd
        const size_t A = c.nextSize();
        const size_t ns = c.nextSize();
        Seeder::setRootSeed((unsigned) c.nextSize());
        Bandit::RandomPolicy p(A);
        for (size_t k = 0; k < ns; ++k) dumpAll(o, p, A);
    }
}
