// harness/C09/h_misc.cpp — oracle-level drivers (no model): Bandit::ESRLPolicy phase machine,
// Bandit::SuccessiveRejectsPolicy, Bandit::RandomPolicy.  After every update the table, the
// per-action queries and one sampled action are printed.
#include <algorithm>
#include <numeric>
#include <cmath>
#include <AIToolbox/Seeder.hpp>
#include <AIToolbox/Bandit/Experience.hpp>
#include <AIToolbox/Bandit/Policies/ESRLPolicy.hpp>
#include <AIToolbox/Bandit/Policies/SuccessiveRejectsPolicy.hpp>
#include <AIToolbox/Bandit/Policies/RandomPolicy.hpp>
#include "vio.hpp"

using namespace AIToolbox;

namespace {
template <typename P> void dumpAll(vio::Out & o, const P & p, size_t A) {
    const Vector v = p.getPolicy();
    o << (size_t) v.size();
    for (long i = 0; i < (long) v.size(); ++i) o << (double) v[i];
    o << A;
    for (size_t a = 0; a < A; ++a) o << p.getActionProbability(a);
    o << p.sampleAction();
}
}

void c09_misc(const std::string & kind, vio::Cursor & c, vio::Out & o) {
    if (kind == "esrl") {
        const size_t A = c.nextSize();
        const double a = c.nextDouble();
        const unsigned N = (unsigned) c.nextSize(), phases = (unsigned) c.nextSize(), window = (unsigned) c.nextSize();
        const size_t nops = c.nextSize();
        std::vector<std::pair<size_t, bool>> ops;
        for (size_t k = 0; k < nops; ++k) { size_t act = c.nextSize(); bool r = c.nextSize() != 0; ops.emplace_back(act, r); }
        Seeder::setRootSeed((unsigned) c.nextSize());
        Bandit::ESRLPolicy p(A, a, N, phases, window);
        dumpAll(o, p, A);
        for (auto [act, r] : ops) { p.stepUpdateP(act, r); dumpAll(o, p, A); o << p.isExploiting(); }
    } else if (kind == "sr") {
        const size_t A = c.nextSize();
        const unsigned budget = (unsigned) c.nextSize();
        const std::vector<double> rews = c.nextDoubles();
        Seeder::setRootSeed((unsigned) c.nextSize());
        Bandit::Experience exp(A);
        Bandit::SuccessiveRejectsPolicy p(exp, budget);
        dumpAll(o, p, A);
        for (double r : rews) {
            const size_t a = p.sampleAction();
            exp.record(a, r);
            p.stepUpdateQ();
            dumpAll(o, p, A);
            o << p.getCurrentPhase();
        }
    } else {                                            // rnd
        const size_t A = c.nextSize();
        const size_t ns = c.nextSize();
        Seeder::setRootSeed((unsigned) c.nextSize());
        Bandit::RandomPolicy p(A);
        for (size_t k = 0; k < ns; ++k) dumpAll(o, p, A);
    }
}
