// harness/C09/h_grad.cpp — MDP::WoLFPolicy update histories and MDP::Policy built from a matrix.
// WoLFPolicy samples through a private PolicyWrapper member that owns its own engine: this TU is
// compiled with private/protected opened AFTER the standard / boost / Eigen headers.
#include <algorithm>
#include <cmath>
#include <compare>
#include <concepts>
#include <cstddef>
#include <limits>
#include <random>
#include <tuple>
#include <type_traits>
#include <utility>
#include <vector>
#include <stdexcept>
#include <iosfwd>
#include <AIToolbox/Types.hpp>
#include "vio.hpp"
#define private public
#define protected public
#include <AIToolbox/Seeder.hpp>
#include <AIToolbox/Utils/Probability.hpp>
#include <AIToolbox/MDP/Policies/WoLFPolicy.hpp>
#include <AIToolbox/MDP/Policies/PGAAPPPolicy.hpp>
#include <AIToolbox/MDP/Policies/Policy.hpp>
#undef private
#undef protected

using namespace AIToolbox;

namespace {
void dumpCands(vio::Out & o, const RandomEngine & e, size_t A) {
    o << A;
    for (size_t n = 1; n <= A; ++n) {
        RandomEngine c = e;
        std::uniform_int_distribution<unsigned> d(0, n - 1);
        o << (size_t) d(c);
    }
}
double peekU(const RandomEngine & e) {
    RandomEngine c = e;
    std::uniform_real_distribution<double> pd(0.0, 1.0);
    return pd(c);
}
template <typename P> void dumpTables(vio::Out & o, const P & p, size_t S, size_t A) {
    const Matrix2D m = p.getPolicy();
    std::vector<double> t, pr;
    for (size_t s = 0; s < S; ++s) for (size_t a = 0; a < A; ++a) { t.push_back(m(s, a)); pr.push_back(p.getActionProbability(s, a)); }
    o.list(t); o.list(pr);
}
}

void c09_grad(const std::string & kind, vio::Cursor & c, vio::Out & o) {
    // ops: "u s" = stepUpdateP(s); wolf setters "w v" "l v" "s v" = setDeltaW/setDeltaL/setScaling;
    //      pga setters "r v" "p v" = setLearningRate/setPredictionLength (throw when v < 0)
    //      pga Q writes "q s a v" = q(s,a) = v;  "z s a v" = q(s,a) = (sum_{b != a} p(s,b) q(s,b)) / (1 - p(s,a)) + v
    //      (the value that gives action a a gradient of about v: it is printed, the driver reads it)
    struct Op { char k; size_t s; double v; size_t a; };
    auto readOps = [&](vio::Cursor & cc) {
        const size_t nops = cc.nextSize();
        std::vector<Op> ops;
        for (size_t k = 0; k < nops; ++k) {
            const std::string t = cc.next();
            Op op{t[0], 0, 0.0, 0};
            if (t == "u") op.s = cc.nextSize();
            else if (t == "q" || t == "z") { op.s = cc.nextSize(); op.a = cc.nextSize(); op.v = cc.nextDouble(); }
            else op.v = cc.nextDouble();
            ops.push_back(op);
        }
        return ops;
    };
    if (kind == "wolf") {
        const size_t S = c.nextSize(), A = c.nextSize();
        MDP::QFunction q(S, A);
        for (size_t s = 0; s < S; ++s) for (size_t a = 0; a < A; ++a) q(s, a) = c.nextDouble();
        const double dw = c.nextDouble(), dl = c.nextDouble(), sc = c.nextDouble();
        const auto ops = readOps(c);
        const unsigned seed = (unsigned) c.nextSize();
        Seeder::setRootSeed(seed);
        MDP::WoLFPolicy p(q, dw, dl, sc);
        dumpTables(o, p, S, A);
        for (const auto & op : ops) {
            if (op.k == 'u') { dumpCands(o, p.rand_, A); p.stepUpdateP(op.s); }
            else {
                if (op.k == 'w') p.setDeltaW(op.v); else if (op.k == 'l') p.setDeltaL(op.v); else p.setScaling(op.v);
                o << p.getDeltaW() << p.getDeltaL() << p.getScaling();
            }
            dumpTables(o, p, S, A);
        }
        for (size_t s = 0; s < S; ++s) { o << peekU(p.actualPolicy_.rand_); o << p.sampleAction(s); }
    } else if (kind == "pga") {
        const size_t S = c.nextSize(), A = c.nextSize();
        MDP::QFunction q(S, A);
        for (size_t s = 0; s < S; ++s) for (size_t a = 0; a < A; ++a) q(s, a) = c.nextDouble();
        const double lr = c.nextDouble(), pl = c.nextDouble();
        const auto ops = readOps(c);
        const unsigned seed = (unsigned) c.nextSize();
        Seeder::setRootSeed(seed);
        MDP::PGAAPPPolicy p(q, lr, pl);
        dumpTables(o, p, S, A);
        for (const auto & op : ops) {
            if (op.k == 'u') p.stepUpdateP(op.s);
            else if (op.k == 'q' || op.k == 'z') {
                double v = op.v;
                if (op.k == 'z') {
                    const double pa = p.getActionProbability(op.s, op.a);
                    double others = 0.0;
                    for (size_t b = 0; b < A; ++b) if (b != op.a) others += p.getActionProbability(op.s, b) * q(op.s, b);
                    v = (pa < 1.0 ? others / (1.0 - pa) : 0.0) + op.v;
                }
                q(op.s, op.a) = v;                  // the policy holds a reference to q
                o << v;
            }
            else {
                bool thrown = false;
                try { if (op.k == 'r') p.setLearningRate(op.v); else p.setPredictionLength(op.v); }
                catch (const std::invalid_argument &) { thrown = true; }
                o << thrown << p.getLearningRate() << p.getPredictionLength();
            }
            dumpTables(o, p, S, A);
        }
        for (size_t s = 0; s < S; ++s) { o << peekU(p.policy_.rand_); o << p.sampleAction(s); }
    } else if (kind == "mpol") {
        const size_t S = c.nextSize(), A = c.nextSize();
        Matrix2D m(S, A);
        for (size_t s = 0; s < S; ++s) for (size_t a = 0; a < A; ++a) m(s, a) = c.nextDouble();
        const unsigned seed = (unsigned) c.nextSize();
        Seeder::setRootSeed(seed);
        try {
            MDP::Policy p(m);                       // throws invalid_argument unless isProbability(m)
            o << 0;
            dumpTables(o, p, S, A);
            for (size_t s = 0; s < S; ++s) { o << peekU(p.rand_); o << p.sampleAction(s); }
        } catch (const std::invalid_argument &) { o << 1; }
    } else throw std::logic_error("kind not implemented: " + kind);
}
