// harness/C09/h_factored.cpp — round 6: Factored::Bandit::RandomPolicy, Factored::Bandit::SingleActionPolicy and
// Factored::MDP::BanditPolicyAdaptor<Factored::Bandit::RandomPolicy>.  Probabilities are printed for EVERY joint
// action, enumerated lexicographically (first factor slowest) as the Coq spec `joint` does.
#include <algorithm>
#include <numeric>
#include <cmath>
#include <vector>
#include <random>
#include <stdexcept>
#include <AIToolbox/Types.hpp>
#include "vio.hpp"
#define private public
#define protected public
#include <AIToolbox/Seeder.hpp>
#include <AIToolbox/Factored/Bandit/Policies/RandomPolicy.hpp>
#include <AIToolbox/Factored/Bandit/Policies/SingleActionPolicy.hpp>
#include <AIToolbox/Factored/MDP/Policies/BanditPolicyAdaptor.hpp>
#undef private
#undef protected

using namespace AIToolbox;
using Factored::Action;

namespace {
std::vector<Action> jointSpace(const Action & A) {
    std::vector<Action> out;
    Action a(A.size(), 0);
    if (std::any_of(A.begin(), A.end(), [](size_t n) { return n == 0; })) return out;
    while (true) {
        out.push_back(a);
        long i = (long) A.size() - 1;
        while (i >= 0 && ++a[i] == A[i]) { a[i] = 0; --i; }
        if (i < 0) break;
    }
    return out;
}
}

void c09_factored(const std::string & kind, vio::Cursor & c, vio::Out & o) {
    if (kind == "frnd") {
        const Action A = c.nextSizes();
        const Factored::State S = c.nextSizes();
        const size_t ns = c.nextSize();
        Seeder::setRootSeed((unsigned) c.nextSize());
        Factored::Bandit::RandomPolicy p(A);
        Factored::MDP::BanditPolicyAdaptor<Factored::Bandit::RandomPolicy> mp(S, A);
        const auto space = jointSpace(A);
        o.list(p.getA());
        std::vector<size_t> los, his;
        for (const auto & d : p.randomDistributions_) { los.push_back(d.a()); his.push_back(d.b()); }
        o.list(los); o.list(his);
        std::vector<double> probs, mprobs;
        Factored::State s(S.size(), 0);
        for (const auto & a : space) { probs.push_back(p.getActionProbability(a)); mprobs.push_back(mp.getActionProbability(s, a)); }
        o.list(probs); o.list(mprobs);
        for (size_t k = 0; k < ns; ++k) {
            {   // bandit policy
                RandomEngine cpy = p.rand_;
                std::vector<size_t> draws;
                for (size_t i = 0; i < A.size(); ++i) { std::uniform_int_distribution<size_t> d(0, A[i] - 1); draws.push_back(d(cpy)); }
                o.list(draws);
                const Action act = p.sampleAction();
                o.list(act); o << p.getActionProbability(act);
            }
            {   // MDP adaptor (its own engine inside its own bandit policy)
                RandomEngine cpy = mp.getBanditPolicy().rand_;
                std::vector<size_t> draws;
                for (size_t i = 0; i < A.size(); ++i) { std::uniform_int_distribution<size_t> d(0, A[i] - 1); draws.push_back(d(cpy)); }
                o.list(draws);
                const Action act = mp.sampleAction(s);
                o.list(act); o << mp.getActionProbability(s, act);
            }
        }
    } else {                                            // fsa
        const Action A = c.nextSizes();
        const size_t nu = c.nextSize();
        std::vector<Action> ups;
        for (size_t k = 0; k < nu; ++k) ups.push_back(c.nextSizes());
        Factored::Bandit::SingleActionPolicy p(A);
        const auto space = jointSpace(A);
        auto dump = [&]() {
            std::vector<double> probs;
            for (const auto & a : space) probs.push_back(p.getActionProbability(a));
            const Action act = p.sampleAction();
            o.list(act); o << p.getActionProbability(act); o.list(probs);
        };
        dump();
        for (const auto & u : ups) { p.updateAction(u); dump(); }
    }
}
