// harness/C09/h.cpp — dispatch of C09 case kinds to the per-class harness TUs.
#include "vio.hpp"
#include <string>

void c09_greedy(const std::string & kind, vio::Cursor & c, vio::Out & o);    // h_greedy.cpp
void c09_lrp(const std::string & kind, vio::Cursor & c, vio::Out & o);       // h_lrp.cpp
void c09_softmax(const std::string & kind, vio::Cursor & c, vio::Out & o);   // h_softmax.cpp
void c09_thompson(const std::string & kind, vio::Cursor & c, vio::Out & o);  // h_thompson.cpp
void c09_grad(const std::string & kind, vio::Cursor & c, vio::Out & o);      // h_grad.cpp
void c09_misc(const std::string & kind, vio::Cursor & c, vio::Out & o);      // h_misc.cpp
void c09_factored(const std::string & kind, vio::Cursor & c, vio::Out & o);  // h_factored.cpp

int main(int argc, char ** argv) {
    return vio::runCases(argc, argv, [](vio::Cursor & c, vio::Out & o) {
        const std::string kind = c.next();
        if (kind == "gr" || kind == "mgr" || kind == "epg") c09_greedy(kind, c, o);
        else if (kind == "lrp" || kind == "epl") c09_lrp(kind, c, o);
        else if (kind == "smx" || kind == "smu" || kind == "msm") c09_softmax(kind, c, o);
        else if (kind == "ts" || kind == "tsn" || kind == "tt" || kind == "ttn" || kind == "t3c") c09_thompson(kind, c, o);
        else if (kind == "wolf" || kind == "pga" || kind == "mpol") c09_grad(kind, c, o);
        else if (kind == "rnd" || kind == "brnd" || kind == "mrnd" || kind == "sr" || kind == "esrl") c09_misc(kind, c, o);
        else if (kind == "frnd" || kind == "fsa") c09_factored(kind, c, o);
        else throw std::logic_error("unknown case kind " + kind);
    });
}
