// harness/C09/h_greedy.cpp — QGreedyPolicyWrapper through Bandit::QGreedyPolicy / MDP::QGreedyPolicy,
// and EpsilonPolicyInterface through Bandit::EpsilonPolicy / MDP::EpsilonPolicy.
// Sampling: the policies own a protected mt19937; a derived class exposes it, the harness copies
// it before every call and replays the same std:: distributions on the copy to learn the draws.
#include <AIToolbox/Seeder.hpp>
#include <AIToolbox/Utils/Probability.hpp>
#include <AIToolbox/Bandit/Policies/QGreedyPolicy.hpp>
#include <AIToolbox/Bandit/Policies/EpsilonPolicy.hpp>
#include <AIToolbox/MDP/Policies/QGreedyPolicy.hpp>
#include <AIToolbox/MDP/Policies/EpsilonPolicy.hpp>
#include "vio.hpp"

using namespace AIToolbox;

namespace {
// (the virtual base PolicyInterface has no default constructor: the most derived class names it)
struct BGreedy : Bandit::QGreedyPolicy {
    BGreedy(const Bandit::QFunction & q) : AIToolbox::PolicyInterface<void, void, size_t>(q.size()), Bandit::QGreedyPolicy(q) {}
    RandomEngine & eng() const { return rand_; }
};
struct BEps : Bandit::EpsilonPolicy {
    BEps(const Bandit::PolicyInterface & p, double e) : AIToolbox::PolicyInterface<void, void, size_t>(p.getA()), Bandit::EpsilonPolicy(p, e) {}
    RandomEngine & eng() const { return rand_; }
};
struct MGreedy : MDP::QGreedyPolicy {
    MGreedy(const MDP::QFunction & q) : AIToolbox::PolicyInterface<size_t, size_t, size_t>(q.rows(), q.cols()), MDP::QGreedyPolicy(q) {}
    RandomEngine & eng() const { return rand_; }
};
struct MEps : MDP::EpsilonPolicy {
    MEps(const MDP::PolicyInterface & p, double e) : AIToolbox::PolicyInterface<size_t, size_t, size_t>(p.getS(), p.getA()), MDP::EpsilonPolicy(p, e) {}
    RandomEngine & eng() const { return rand_; }
};

Vector toVector(const std::vector<double> & v) {
    Vector r(v.size());
    for (size_t i = 0; i < v.size(); ++i) r[i] = v[i];
    return r;
}
template <typename V> void dump(vio::Out & o, const V & v) {
    o << (size_t) v.size();
    for (long i = 0; i < (long) v.size(); ++i) o << (double) v[i];
}
// what uniform_int_distribution<unsigned>(0, n-1) would return from this engine state, n = 1..A
void dumpCands(vio::Out & o, const RandomEngine & e, size_t A) {
    o << A;
    for (size_t n = 1; n <= A; ++n) {
        RandomEngine c = e;
        std::uniform_int_distribution<unsigned> d(0, n - 1);
        o << (size_t) d(c);
    }
}
// draws of EpsilonPolicyInterface::sampleAction: u, then the random action
void dumpEpsDraws(vio::Out & o, const RandomEngine & e, size_t A) {
    RandomEngine c = e;
    std::uniform_real_distribution<double> pd(0.0, 1.0);
    const double u = pd(c);
    std::uniform_int_distribution<size_t> rd(0, A - 1);
    const size_t r = rd(c);
    o << u << r;
}
// setEpsilon calls before the dumps: prints (thrown, getEpsilon()) per call
template <typename E> void applyEpsSets(vio::Out & o, E & e, const std::vector<double> & sets) {
    o << (size_t) sets.size();
    for (double v : sets) {
        bool thrown = false;
        try { e.setEpsilon(v); } catch (const std::invalid_argument &) { thrown = true; }
        o << thrown << e.getEpsilon();
    }
}
}

void c09_greedy(const std::string & kind, vio::Cursor & c, vio::Out & o) {
    if (kind == "gr") {
        c.next();                                   // exactness flag (driver only)
        const Vector q = toVector(c.nextDoubles());
        const double shift = c.nextDouble();
        const unsigned seed = (unsigned) c.nextSize();
        const size_t nsamp = c.nextSize();
        const size_t A = q.size();
        Vector qs = q; qs.array() += shift;
        Seeder::setRootSeed(seed);
        BGreedy p(q), ps(qs);
        dump(o, p.getPolicy());
        { std::vector<double> pr; for (size_t a = 0; a < A; ++a) pr.push_back(p.getActionProbability(a)); o.list(pr); }
        dump(o, ps.getPolicy());
        { std::vector<double> pr; for (size_t a = 0; a < A; ++a) pr.push_back(ps.getActionProbability(a)); o.list(pr); }
        o << nsamp;
        for (size_t k = 0; k < nsamp; ++k) { dumpCands(o, p.eng(), A); o << p.sampleAction(); }
        for (size_t k = 0; k < nsamp; ++k) { dumpCands(o, ps.eng(), A); o << ps.sampleAction(); }
    } else if (kind == "epg") {
        c.next();
        const Vector q = toVector(c.nextDoubles());
        const double eps = c.nextDouble();
        const std::vector<double> esets = c.nextDoubles();
        const unsigned seed = (unsigned) c.nextSize();
        const size_t nsamp = c.nextSize();
        const size_t A = q.size();
        Seeder::setRootSeed(seed);
        BGreedy g(q);
        BEps e(g, eps);
        applyEpsSets(o, e, esets);
        dump(o, e.getPolicy());
        { std::vector<double> pr; for (size_t a = 0; a < A; ++a) pr.push_back(e.getActionProbability(a)); o.list(pr); }
        o << nsamp;
        for (size_t k = 0; k < nsamp; ++k) {
            dumpEpsDraws(o, e.eng(), A);
            dumpCands(o, g.eng(), A);
            o << e.sampleAction();
        }
    } else {                                        // mgr
        c.next();
        const size_t S = c.nextSize(), A = c.nextSize();
        MDP::QFunction q(S, A);
        for (size_t s = 0; s < S; ++s) for (size_t a = 0; a < A; ++a) q(s, a) = c.nextDouble();
        const double eps = c.nextDouble();
        const std::vector<double> esets = c.nextDoubles();
        const unsigned seed = (unsigned) c.nextSize();
        Seeder::setRootSeed(seed);
        MGreedy g(q);
        MEps e(g, eps);
        applyEpsSets(o, e, esets);
        const Matrix2D pg = g.getPolicy(), pe = e.getPolicy();
        std::vector<double> t1, t2, t3, t4;
        for (size_t s = 0; s < S; ++s) for (size_t a = 0; a < A; ++a) {
            t1.push_back(pg(s, a)); t2.push_back(g.getActionProbability(s, a));
            t3.push_back(pe(s, a)); t4.push_back(e.getActionProbability(s, a));
        }
        o.list(t1); o.list(t2); o.list(t3); o.list(t4);
        for (size_t s = 0; s < S; ++s) { dumpCands(o, g.eng(), A); o << g.sampleAction(s); }
        for (size_t s = 0; s < S; ++s) {
            dumpEpsDraws(o, e.eng(), A);
            dumpCands(o, g.eng(), A);
            o << e.sampleAction(s);
        }
    }
}
