// harness/C09/h_lrp.cpp — Bandit::LRPPolicy histories (stepUpdateP), sampling through
// sampleProbability, and an EpsilonPolicy wrapped around the learned policy.
#include <AIToolbox/Seeder.hpp>
#include <AIToolbox/Utils/Probability.hpp>
#include <AIToolbox/Bandit/Policies/LRPPolicy.hpp>
#include <AIToolbox/Bandit/Policies/EpsilonPolicy.hpp>
#include "vio.hpp"

using namespace AIToolbox;

namespace {
struct BLrp : Bandit::LRPPolicy {
    BLrp(size_t A, double a, double b) : AIToolbox::PolicyInterface<void, void, size_t>(A), Bandit::LRPPolicy(A, a, b) {}
    RandomEngine & eng() const { return rand_; }
};
struct BEps : Bandit::EpsilonPolicy {
    BEps(const Bandit::PolicyInterface & p, double e) : AIToolbox::PolicyInterface<void, void, size_t>(p.getA()), Bandit::EpsilonPolicy(p, e) {}
    RandomEngine & eng() const { return rand_; }
};
template <typename P> void dumpBoth(vio::Out & o, const P & p, size_t A) {
    const Vector v = p.getPolicy();
    o << (size_t) v.size();
    for (long i = 0; i < (long) v.size(); ++i) o << (double) v[i];
    o << A;
    for (size_t a = 0; a < A; ++a) o << p.getActionProbability(a);
}
double peekU(const RandomEngine & e) {
    RandomEngine c = e;
    std::uniform_real_distribution<double> pd(0.0, 1.0);
    return pd(c);
}
}

// ops: "u act res" = stepUpdateP, "a v" = setAParam, "b v" = setBParam
void c09_lrp(const std::string &, vio::Cursor & c, vio::Out & o) {
    c.next();                                       // exactness flag (driver only)
    const size_t A = c.nextSize();
    const double a = c.nextDouble(), b = c.nextDouble(), eps = c.nextDouble();
    const size_t nops = c.nextSize();
    struct Op { char k; size_t act; bool res; double v; };
    std::vector<Op> ops;
    for (size_t k = 0; k < nops; ++k) {
        const std::string t = c.next();
        Op op{t[0], 0, false, 0.0};
        if (t == "u") { op.act = c.nextSize(); op.res = c.nextSize() != 0; }
        else op.v = c.nextDouble();
        ops.push_back(op);
    }
    const std::vector<double> esets = c.nextDoubles();
    const unsigned seed = (unsigned) c.nextSize();
    const size_t nsamp = c.nextSize();
    Seeder::setRootSeed(seed);
    BLrp p(A, a, b);
    dumpBoth(o, p, A); o << p.getAParam() << p.getBParam();
    for (const auto & op : ops) {
        if (op.k == 'u') p.stepUpdateP(op.act, op.res);
        else if (op.k == 'a') p.setAParam(op.v);
        else p.setBParam(op.v);
        dumpBoth(o, p, A); o << p.getAParam() << p.getBParam();
    }
    BEps e(p, eps);
    dumpBoth(o, e, A);
    for (double v : esets) {                        // setEpsilon: throws outside [0,1]
        bool thrown = false;
        try { e.setEpsilon(v); } catch (const std::invalid_argument &) { thrown = true; }
        o << thrown << e.getEpsilon();
        dumpBoth(o, e, A);
    }
    for (size_t k = 0; k < nsamp; ++k) { o << peekU(p.eng()); o << p.sampleAction(); }
    for (size_t k = 0; k < nsamp; ++k) {
        RandomEngine ce = e.eng();
        std::uniform_real_distribution<double> pd(0.0, 1.0);
        const double u = pd(ce);
        std::uniform_int_distribution<size_t> rd(0, A - 1);
        const size_t r = rd(ce);
        o << u << r << peekU(p.eng()) << e.sampleAction();
    }
}
