// harness/C15/h_mdp.cpp — factored-MDP LinearProgramming on small cooperative factored MDPs, plus
// the FLAT LP over every joint (state, action) pair, solved through the same AIToolbox::LP wrapper.
#include <AIToolbox/Factored/MDP/Algorithms/LinearProgramming.hpp>
#include <AIToolbox/Factored/MDP/CooperativeModel.hpp>
#include <AIToolbox/Utils/LP.hpp>
#include <AIToolbox/Factored/Utils/Core.hpp>
#include "vio.hpp"

using namespace AIToolbox;
using namespace AIToolbox::Factored;

struct Recorder;
extern Recorder g_rec;
void recStart(); void recStop();
void dumpRecorder(vio::Out & o);
BasisFunction readBasis(vio::Cursor & c);
FactoredVector readFV(vio::Cursor & c);

static Factors readFactors(vio::Cursor & c) { auto v = c.nextSizes(); return Factors(v.begin(), v.end()); }

static void runMlpCall(const Factored::MDP::LinearProgramming & solver, vio::Cursor & c, vio::Out & o);

bool mdpCase(const std::string & kind, vio::Cursor & c, vio::Out & o) {
    if (kind == "mlp") {          // a fresh solver object, one model
        Factored::MDP::LinearProgramming solver;
        runMlpCall(solver, c, o);
        return true;
    }
    if (kind == "mlpr") {         // mlpr <ncalls> {mlp spec}*  — ONE solver object used on several models
        Factored::MDP::LinearProgramming solver;
        const size_t n = c.nextSize();
        for (size_t i = 0; i < n; ++i) { o << "CALL"; runMlpCall(solver, c, o); }
        return true;
    }
    return false;
}

static void runMlpCall(const Factored::MDP::LinearProgramming & solver, vio::Cursor & c, vio::Out & o) {
    // mlp <S> <A> {agents nFeat {features}*}x|S| {rows cols vals}x|S| nR {tag actionTag rows cols vals}* discount <h>
    Factors S = readFactors(c), A = readFactors(c);
    DDNGraph graph(S, A);
    for (size_t i = 0; i < S.size(); ++i) {
        DDNGraph::ParentSet ps; ps.agents = readFactors(c);
        size_t n = c.nextSize();
        for (size_t k = 0; k < n; ++k) ps.features.push_back(readFactors(c));
        graph.push(std::move(ps));
    }
    DDN::TransitionMatrix T;
    for (size_t i = 0; i < S.size(); ++i) {
        size_t rows = c.nextSize(), cols = c.nextSize();
        Matrix2D m(rows, cols);
        for (size_t r = 0; r < rows; ++r) for (size_t k = 0; k < cols; ++k) m(r, k) = c.nextDouble();
        T.push_back(std::move(m));
    }
    FactoredMatrix2D R;
    size_t nR = c.nextSize();
    for (size_t i = 0; i < nR; ++i) {
        BasisMatrix bm; bm.tag = readFactors(c); bm.actionTag = readFactors(c);
        size_t rows = c.nextSize(), cols = c.nextSize();
        bm.values.resize(rows, cols);
        for (size_t r = 0; r < rows; ++r) for (size_t k = 0; k < cols; ++k) bm.values(r, k) = c.nextDouble();
        R.bases.push_back(std::move(bm));
    }
    const double discount = c.nextDouble();
    FactoredVector h = readFV(c);

    Factored::MDP::CooperativeModel model(std::move(graph), std::move(T), std::move(R), discount);

    const size_t NS = factorSpace(S), NA = factorSpace(A), K = h.bases.size();

    // ---- the factored algorithm under test (rows + solution recorded)
    recStart();
    bool solved = true;
    std::tuple<Vector, Factored::MDP::QFunction> res;
    try { res = solver(model, h); }
    catch (const std::runtime_error &) { solved = false; }
    catch (...) { recStop(); throw; }
    recStop();

    o << (solved ? 1 : 0);
    if (solved) {
        const auto & v = std::get<0>(res);
        o.list(v.data(), v.data() + v.size());
        // returned Q-function at every joint (state, action)
        o << NS * NA;
        for (size_t s = 0; s < NS; ++s) for (size_t a = 0; a < NA; ++a)
            o << std::get<1>(res).getValue(S, A, toFactors(S, s), toFactors(A, a));
    } else { o << (size_t) 0 << (size_t) 0; }
    dumpRecorder(o);

    // ---- g = backProject(T, h) (property C14), input of the model's rule setup
    {
        auto g = backProject(model.getTransitionFunction(), h);
        o << "G" << g.bases.size();
        for (auto & bmx : g.bases) {
            o.list(bmx.tag); o.list(bmx.actionTag);
            o << (size_t) bmx.values.rows() << (size_t) bmx.values.cols();
            for (long r = 0; r < bmx.values.rows(); ++r) for (long k = 0; k < bmx.values.cols(); ++k) o << (double) bmx.values(r, k);
        }
    }

    // ---- the flat MDP: P(s'|s,a) and R(s,a) at every joint pair (real model accessors; C14)
    o << "MDP" << NS << NA;
    std::vector<double> P(NS * NA * NS), Rf(NS * NA);
    for (size_t s = 0; s < NS; ++s) for (size_t a = 0; a < NA; ++a) {
        const auto sf = toFactors(S, s); const auto af = toFactors(A, a);
        Rf[s * NA + a] = model.getRewardFunction().getValue(S, A, sf, af);
        for (size_t s1 = 0; s1 < NS; ++s1)
            P[(s * NA + a) * NS + s1] = model.getTransitionProbability(sf, af, toFactors(S, s1));
    }
    o.list(P); o.list(Rf);

    // ---- the flat LP: one row per (s,a):  sum_k w_k (gamma * E[h_k(s')] - h_k(s)) <= -R(s,a)
    std::vector<std::vector<double>> H(K, std::vector<double>(NS));
    for (size_t k = 0; k < K; ++k) for (size_t s = 0; s < NS; ++s)
        H[k][s] = h.bases[k].values[toIndexPartial(h.bases[k].tag, S, toFactors(S, s))];
    LP lp(K);
    for (size_t k = 0; k < K; ++k) {
        double m = 0.0; for (size_t s = 0; s < NS; ++s) m += H[k][s];
        lp.row[k] = m / NS;
    }
    lp.setObjective(false);
    for (size_t s = 0; s < NS; ++s) for (size_t a = 0; a < NA; ++a) {
        for (size_t k = 0; k < K; ++k) {
            double e = 0.0;
            for (size_t s1 = 0; s1 < NS; ++s1) e += P[(s * NA + a) * NS + s1] * H[k][s1];
            lp.row[k] = discount * e - H[k][s];
        }
        lp.pushRow(LP::Constraint::LessEqual, -Rf[s * NA + a]);
    }
    for (size_t k = 0; k < K; ++k) lp.setUnbounded(k);
    double obj = 0.0;
    auto fw = lp.solve(K, &obj);
    o << "FLAT" << (fw ? 1 : 0) << obj;
    if (fw) o.list(fw->data(), fw->data() + fw->size()); else o << (size_t) 0;
}
