// harness/C15/h.cpp — runs the real Factored::MDP::FactoredLP (and the flat LP through the same
// AIToolbox::LP wrapper) on exact cases.
//
// Observation of the constraint system WITHOUT any change to /repo: the harness is linked with
//   -Wl,--wrap=add_constraint -Wl,--wrap=solve
// so that every call the real wrapper (src/Utils/LP/LpSolveWrapper.cpp: LP::pushRow, LP::solve)
// makes into lp_solve passes through the recorders below (which forward to the real functions
// unchanged).  Recording is on only while the factored algorithm under test runs.
#include <AIToolbox/Factored/MDP/Algorithms/Utils/FactoredLP.hpp>
#include <AIToolbox/Utils/LP.hpp>
#include <AIToolbox/Factored/Utils/Core.hpp>
#include <lpsolve/lp_lib.h>
#include "vio.hpp"
bool mdpCase(const std::string & kind, vio::Cursor & c, vio::Out & o);   // h_mdp.cpp

using namespace AIToolbox;
using namespace AIToolbox::Factored;

// ---------------------------------------------------------------- lp_solve interposition
struct RecRow { int type; double rhs; int ncols; std::vector<std::pair<int,double>> nz; };
struct Recorder {
    bool on = false;
    std::vector<RecRow> rows;
    std::vector<double> solution;   // all columns after solve
    int solveResult = -99;
    int ncolsAtSolve = 0;
    void reset() { rows.clear(); solution.clear(); solveResult = -99; ncolsAtSolve = 0; }
};
Recorder g_rec;

extern "C" {
    MYBOOL __real_add_constraint(lprec *lp, REAL *row, int constr_type, REAL rh);
    MYBOOL __wrap_add_constraint(lprec *lp, REAL *row, int constr_type, REAL rh) {
        if (g_rec.on) {
            RecRow r; r.type = constr_type; r.rhs = (double) rh; r.ncols = get_Ncolumns(lp);
            for (int c = 1; c <= r.ncols; ++c)
                if (row[c] != 0.0) r.nz.emplace_back(c - 1, (double) row[c]);
            g_rec.rows.push_back(std::move(r));
        }
        return __real_add_constraint(lp, row, constr_type, rh);
    }
    int __real_solve(lprec *lp);
    int __wrap_solve(lprec *lp) {
        int res = __real_solve(lp);
        if (g_rec.on) {
            g_rec.solveResult = res;
            g_rec.ncolsAtSolve = get_Ncolumns(lp);
            g_rec.solution.clear();
            if (res == 0 || res == 1) {
                REAL * vp; get_ptr_variables(lp, &vp);
                g_rec.solution.assign(vp, vp + g_rec.ncolsAtSolve);
            }
        }
        return res;
    }
}

void recStart() { g_rec.reset(); g_rec.on = true; }
void recStop() { g_rec.on = false; }

void dumpRecorder(vio::Out & o) {
    o << "ROWS" << g_rec.rows.size();
    for (auto & r : g_rec.rows) {
        o << r.type << r.rhs << r.ncols << r.nz.size();
        for (auto & [c, v] : r.nz) o << (size_t) c << v;
    }
    o << "SOL" << g_rec.solveResult << (size_t) g_rec.ncolsAtSolve;
    o.list(g_rec.solution);
}

// ---------------------------------------------------------------- helpers
static Factors readFactors(vio::Cursor & c) { auto v = c.nextSizes(); return Factors(v.begin(), v.end()); }
BasisFunction readBasis(vio::Cursor & c) {
    BasisFunction b; b.tag = readFactors(c);
    auto v = c.nextDoubles(); b.values.resize(v.size());
    for (size_t i = 0; i < v.size(); ++i) b.values[i] = v[i];
    return b;
}
FactoredVector readFV(vio::Cursor & c) {
    FactoredVector fv; size_t n = c.nextSize();
    for (size_t i = 0; i < n; ++i) fv.bases.push_back(readBasis(c));
    return fv;
}
static double bfAt(const Factors & S, const BasisFunction & b, const Factors & x) {
    return b.values[toIndexPartial(b.tag, S, x)];
}

// one call of a FactoredLP object (possibly already used): reads <addConst> <C> <b>, prints the
// result, the recorded rows/solution, and the flat LP solved through the same wrapper
static void runFlpCall(Factored::MDP::FactoredLP & flp, const State & S, vio::Cursor & c, vio::Out & o) {
    bool addConst = c.nextSize() != 0;
    FactoredVector C = readFV(c), b = readFV(c);

    // ---- the factored LP under test (recorded)
    g_rec.reset(); g_rec.on = true;
    std::optional<Vector> w;
    try { w = flp(C, b, addConst); } catch (...) { g_rec.on = false; throw; }
    g_rec.on = false;

    o << (w ? 1 : 0);
    if (w) o.list(w->data(), w->data() + w->size()); else o << (size_t) 0;
    dumpRecorder(o);

    // ---- the flat LP: one pair of rows per joint assignment, same wrapper
    const size_t nW = C.bases.size() + (addConst ? 1 : 0);
    LP lp(nW + 1);
    lp.setObjective(nW, false);
    const size_t N = factorSpace(S);
    for (size_t id = 0; id < N; ++id) {
        Factors x = toFactors(S, id);
        double target = 0.0;
        for (auto & f : b.bases) target += bfAt(S, f, x);
        lp.row.setZero();
        for (size_t k = 0; k < C.bases.size(); ++k) lp.row[k] = bfAt(S, C.bases[k], x);
        if (addConst) lp.row[nW - 1] = 1.0;
        lp.row[nW] = -1.0;
        lp.pushRow(LP::Constraint::LessEqual, target);       //  Cw - phi <= b
        for (size_t k = 0; k < nW; ++k) lp.row[k] = -lp.row[k];
        lp.pushRow(LP::Constraint::LessEqual, -target);      // -Cw - phi <= -b
    }
    for (size_t i = 0; i < nW + 1; ++i) lp.setUnbounded(i);
    double obj = 0.0;
    auto fw = lp.solve(nW + 1, &obj);
    o << "FLAT" << (fw ? 1 : 0) << obj;
    if (fw) o.list(fw->data(), fw->data() + fw->size()); else o << (size_t) 0;
}

int main(int argc, char ** argv) {
    return vio::runCases(argc, argv, [](vio::Cursor & c, vio::Out & o) {
        const std::string kind = c.next();
        if (kind == "flp") {
            // flp <S> <addConst> <C: n {tag vals}> <b: n {tag vals}>   — a fresh object, one call
            State S = readFactors(c);
            Factored::MDP::FactoredLP flp(S);
            runFlpCall(flp, S, c, o);
        } else if (kind == "flpr") {
            // flpr <S> <ncalls> {<addConst> <C> <b>}*   — ONE FactoredLP object called ncalls times
            State S = readFactors(c);
            Factored::MDP::FactoredLP flp(S);
            const size_t n = c.nextSize();
            for (size_t i = 0; i < n; ++i) { o << "CALL"; runFlpCall(flp, S, c, o); }
        } else if (!mdpCase(kind, c, o)) {
            throw std::logic_error("unknown case kind " + kind);
        }
    });
}
