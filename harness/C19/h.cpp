// harness/C19/h.cpp — runs the real MCTS / POMCP templates on a scripted, logging generative model.
//
// The planners are templates over the generative model, so no hook and no private access is
// needed: the scripted model (tabulated outcomes chosen by its own LCG) logs every
// sampleSR / sampleSOR call together with the planner's *root visit counter* read through the
// public getGraph() at the time of the call.  The root counter is incremented exactly once at
// the start of every simulation, so it delimits simulations in the log without any knowledge of
// the planner's internals.  The planner's own random choices (UCB action, rollout actions, root
// particle) are visible as the arguments of the logged calls.
//
// case:  mcts  <seed> <S> <A> <O> <K> <disc> <term:S> <table:S*A*K*(s1 o r)> <iters> <expl> <nops> ops…
//          (every op may be preceded by model setter calls "D <disc>" / "W <idx> <r>", see nextOp)
//          op = F <s> <h>            sampleAction(s, h)
//             | A <a> <s1> <h>       sampleAction(a, s1, h)
//        pomcp <seed> <S> <A> <O> <K> <disc> <term:S> <table…> <beliefSize> <iters> <expl> <nops> ops…
//          op = F <b:S doubles> <h>  sampleAction(b, h)
//             | A <a> <o> <h>        sampleAction(a, o, h)
//        mctsv <seed> <S> <Amax> <O> <K> <disc> <term:S> <table…> <acnt:S> <iters> <expl> <nops> ops…
//          MCTS on a model with a VARIABLE action space: getA(s) = acnt[s] (1..Amax), no getA()
//        rpomcp <entropy:0|1> <seed> <S> <A> <O> <K> <disc> <term:S> <table…> <beliefSize> <iters> <expl> <k> <nops> ops…
//          rPOMCP<Model, UseEntropy>, ops as for pomcp; per op:  OP <ret> <nTerm> LOG … SB <n> (s cnt)* TREE <rdump>
//          rdump(node) = <N> <V> <actionsV> <bestAction> <maxS_> <knowledgeMeasure_> <ntrack> (s cnt)* sorted by s
//                        <nacts> (aN aV <nkids> (key rdump(kid))*)*
// output per op:  OP <returned action> <nIsTerminalCalls> LOG <n> (rootN s a s1 o r)*n TREE <dump>
//   dump(node) = <N> <nbel> bel… <nacts> (aN aV <nkids> (key dump(kid))*)*   kids sorted by key
#include <vector>
#include <tuple>
#include <map>
#include <algorithm>
#include <cstdint>
#include <AIToolbox/Seeder.hpp>
#include <AIToolbox/MDP/Algorithms/MCTS.hpp>
#include <AIToolbox/Logging.hpp>
#include <AIToolbox/Utils/Probability.hpp>
#include <AIToolbox/POMDP/Types.hpp>
#include <AIToolbox/POMDP/TypeTraits.hpp>
// rPOMCP keeps its tracking / sampling beliefs protected / private; they are part of what the
// property speaks about (particle beliefs), so this translation unit (only) opens them up.  All
// standard / Eigen headers are already included above through MCTS.hpp and the POMDP type headers.
// POMCP's private random engine is read (copied) to predict what a (re)start must resample.
#define private public
#define protected public
#include <AIToolbox/POMDP/Algorithms/POMCP.hpp>
#include <AIToolbox/POMDP/Algorithms/rPOMCP.hpp>
#undef private
#undef protected
#include "vio.hpp"

// NOTE: POMCP.hpp calls `rollout(model_, …)` unqualified from namespace AIToolbox::POMDP while the
// function lives in AIToolbox::MDP; it is only found through ADL on the model type.  A user model
// declared outside AIToolbox::MDP therefore does not compile with POMCP (observed; reported in
// notes/C19.md).  The scripted model is declared inside AIToolbox::MDP for that reason.
namespace AIToolbox::MDP {

struct VerifOutcome { size_t s1, o; double r; };
struct VerifEvent { unsigned rootN; size_t s, a, s1, o; double r; };

struct VerifScriptBase {
    size_t S = 0, A = 0, O = 0, K = 0;
    double discount = 1.0;
    std::vector<char> term;
    std::vector<VerifOutcome> table;               // [(s*A + a)*K + k]
    mutable uint64_t rng = 0;
    mutable std::vector<VerifEvent> log;
    mutable size_t termCalls = 0;
    const unsigned * rootN = nullptr;

    size_t getS() const { return S; }
    size_t getO() const { return O; }
    double getDiscount() const { return discount; }
    bool isTerminal(size_t s) const { ++termCalls; return s < S && term[s]; }

    const VerifOutcome & draw(size_t s, size_t a) const {
        rng = rng * 6364136223846793005ULL + 1442695040888963407ULL;
        const size_t k = (size_t)((rng >> 33) % K);
        if (s >= S) throw std::logic_error("scripted model called with a state out of range");
        // an action outside the table (possible only if the planner passes an illegal action) gets a
        // fixed outcome; the call is logged as it was made and judged by the oracle
        if (a >= A) { static const VerifOutcome none{0, 0, 0.0}; return none; }
        return table[(s * A + a) * K + k];
    }
    std::tuple<size_t, double> sampleSR(size_t s, size_t a) const {
        const VerifOutcome & oc = draw(s, a);
        log.push_back(VerifEvent{rootN ? *rootN : 0u, s, a, oc.s1, oc.o, oc.r});
        return std::make_tuple(oc.s1, oc.r);
    }
    std::tuple<size_t, size_t, double> sampleSOR(size_t s, size_t a) const {
        const VerifOutcome & oc = draw(s, a);
        log.push_back(VerifEvent{rootN ? *rootN : 0u, s, a, oc.s1, oc.o, oc.r});
        return std::make_tuple(oc.s1, oc.o, oc.r);
    }
};

// fixed action space
struct VerifScriptModel : VerifScriptBase { size_t getA() const { return A; } };
// variable action space: getA(s) only (HasFixedActionSpace is false)
struct VerifVarModel : VerifScriptBase {
    std::vector<size_t> acnt;
    size_t getA(size_t s) const { return s < S ? acnt[s] : 1; }
};
}  // namespace AIToolbox::MDP

namespace {
using AIToolbox::MDP::VerifScriptModel; using AIToolbox::MDP::VerifVarModel; using AIToolbox::MDP::VerifScriptBase; using AIToolbox::MDP::VerifOutcome; using AIToolbox::MDP::VerifEvent;

void readModel(vio::Cursor & c, VerifScriptBase & m) {
    m.rng = (uint64_t) c.nextSize();
    m.S = c.nextSize(); m.A = c.nextSize(); m.O = c.nextSize(); m.K = c.nextSize();
    m.discount = c.nextDouble();
    m.term.resize(m.S);
    for (auto & t : m.term) t = (char) c.nextSize();
    m.table.resize(m.S * m.A * m.K);
    for (auto & oc : m.table) { oc.s1 = c.nextSize(); oc.o = c.nextSize(); oc.r = c.nextDouble(); }
}

// Reads the next planner op.  Before it, any number of model-side setter calls (NOT counted in <nops>):
//   D <disc>     the model's setDiscount: from now on getDiscount() returns <disc>
//   W <idx> <r>  the model's reward of table entry <idx> (mod table size) becomes <r>
// The planner object already exists and holds the model by const reference; it has to see the
// model's current parameters in every later call.
std::string nextOp(vio::Cursor & c, VerifScriptBase & m) {
    std::string op = c.next();
    while (op == "D" || op == "W") {
        if (op == "D") m.discount = c.nextDouble();
        else { const size_t i = c.nextSize(); const double r = c.nextDouble(); if (!m.table.empty()) m.table[i % m.table.size()].r = r; }
        op = c.next();
    }
    return op;
}

void dumpLog(vio::Out & o, const VerifScriptBase & m) {
    o << "LOG" << m.log.size();
    for (const auto & e : m.log) o << e.rootN << e.s << e.a << e.s1 << e.o << e.r;
}

template <typename Node>
void dumpNode(vio::Out & o, const Node & n, const std::vector<size_t> * belief) {
    o << n.N;
    if (belief) o.list(*belief); else o << (size_t) 0;
    o << (size_t) n.children.size();
    for (const auto & an : n.children) {
        o << an.N << an.V << (size_t) an.children.size();
        std::vector<size_t> keys;
        for (const auto & kv : an.children) keys.push_back(kv.first);
        std::sort(keys.begin(), keys.end());
        for (size_t k : keys) {
            o << k;
            const auto & kid = an.children.at(k);
            if constexpr (requires { kid.belief; }) dumpNode(o, kid, &kid.belief);
            else dumpNode(o, kid, nullptr);
        }
    }
}

template <typename Model>
void runMCTS(vio::Cursor & c, vio::Out & o) {
    Model m; readModel(c, m);
    if constexpr (requires { m.acnt; }) { m.acnt.resize(m.S); for (auto & x : m.acnt) x = c.nextSize(); }
    const unsigned iters = (unsigned) c.nextSize();
    const double expl = c.nextDouble();
    AIToolbox::Seeder::setRootSeed((unsigned) m.rng);
    AIToolbox::MDP::MCTS<Model> planner(m, iters, expl);
    m.rootN = &planner.getGraph().N;
    const size_t nops = c.nextSize();
    for (size_t i = 0; i < nops; ++i) {
        const std::string op = nextOp(c, m);
        m.log.clear(); m.termCalls = 0;
        size_t ret;
        if (op == "F") { size_t s = c.nextSize(); unsigned h = (unsigned) c.nextSize(); ret = planner.sampleAction(s, h); }
        else if (op == "A") { size_t a = c.nextSize(); size_t s1 = c.nextSize(); unsigned h = (unsigned) c.nextSize(); ret = planner.sampleAction(a, s1, h); }
        else throw std::logic_error("unknown op " + op);
        o << "OP" << ret << m.termCalls;
        dumpLog(o, m);
        o << "TREE";
        dumpNode(o, planner.getGraph(), nullptr);
    }
}

void runPOMCP(vio::Cursor & c, vio::Out & o) {
    VerifScriptModel m; readModel(c, m);
    const size_t beliefSize = c.nextSize();
    const unsigned iters = (unsigned) c.nextSize();
    const double expl = c.nextDouble();
    AIToolbox::Seeder::setRootSeed((unsigned) m.rng);
    AIToolbox::POMDP::POMCP<VerifScriptModel> planner(m, beliefSize, iters, expl);
    m.rootN = &planner.getGraph().N;
    const size_t nops = c.nextSize();
    for (size_t i = 0; i < nops; ++i) {
        const std::string op = nextOp(c, m);
        m.log.clear(); m.termCalls = 0;
        size_t ret;
        // what a (re)start must put into the root: beliefSize draws of sampleProbability from the
        // given belief (call from scratch) / the uniform belief (restart), with the planner's engine
        // as it is before the call (copied, the planner's own engine is untouched)
        auto engine = planner.rand_;
        AIToolbox::POMDP::Belief rb(m.S);
        if (op == "F") {
            AIToolbox::POMDP::Belief b(m.S);
            for (size_t s = 0; s < m.S; ++s) b[s] = c.nextDouble();
            unsigned h = (unsigned) c.nextSize();
            rb = b;
            ret = planner.sampleAction(b, h);
        }
        else if (op == "A") { size_t a = c.nextSize(); size_t ob = c.nextSize(); unsigned h = (unsigned) c.nextSize(); rb.fill(1.0 / m.S); ret = planner.sampleAction(a, ob, h); }
        else throw std::logic_error("unknown op " + op);
        o << "OP" << ret << m.termCalls;
        dumpLog(o, m);
        o << "RS" << (size_t) beliefSize;
        for (size_t i2 = 0; i2 < beliefSize; ++i2) o << AIToolbox::sampleProbability(m.S, rb, engine);
        o << "TREE";
        dumpNode(o, planner.getGraph(), &planner.getGraph().belief);
    }
}

template <bool UseEntropy>
void dumpRNode(vio::Out & o, const AIToolbox::POMDP::BeliefNode<UseEntropy> & n) {
    o << n.N << n.V << n.actionsV << n.bestAction;
    if constexpr (UseEntropy) o << (size_t) 0; else o << n.maxS_;
    o << n.knowledgeMeasure_;
    std::vector<std::pair<size_t, unsigned>> tb;
    for (const auto & kv : n.trackBelief_) tb.emplace_back(kv.first, kv.second.N);
    std::sort(tb.begin(), tb.end());
    o << (size_t) tb.size();
    for (const auto & p : tb) o << p.first << p.second;
    o << (size_t) n.children.size();
    for (const auto & an : n.children) {
        o << an.N << an.V << (size_t) an.children.size();
        std::vector<size_t> keys;
        for (const auto & kv : an.children) keys.push_back(kv.first);
        std::sort(keys.begin(), keys.end());
        for (size_t k : keys) { o << k; dumpRNode<UseEntropy>(o, an.children.at(k)); }
    }
}

template <bool UseEntropy>
void runRPOMCP(vio::Cursor & c, vio::Out & o) {
    VerifScriptModel m; readModel(c, m);
    const size_t beliefSize = c.nextSize();
    const unsigned iters = (unsigned) c.nextSize();
    const double expl = c.nextDouble();
    const unsigned k = (unsigned) c.nextSize();
    AIToolbox::Seeder::setRootSeed((unsigned) m.rng);
    AIToolbox::POMDP::rPOMCP<VerifScriptModel, UseEntropy> planner(m, beliefSize, iters, expl, k);
    m.rootN = &planner.getGraph().N;
    const size_t nops = c.nextSize();
    for (size_t i = 0; i < nops; ++i) {
        const std::string op = nextOp(c, m);
        m.log.clear(); m.termCalls = 0;
        size_t ret;
        auto engine = planner.rand_;
        AIToolbox::POMDP::Belief rb(m.S);
        if (op == "F") {
            AIToolbox::POMDP::Belief b(m.S);
            for (size_t s = 0; s < m.S; ++s) b[s] = c.nextDouble();
            unsigned h = (unsigned) c.nextSize();
            rb = b;
            ret = planner.sampleAction(b, h);
        }
        else if (op == "A") { size_t a = c.nextSize(); size_t ob = c.nextSize(); unsigned h = (unsigned) c.nextSize(); rb.fill(1.0 / m.S); ret = planner.sampleAction(a, ob, h); }
        else throw std::logic_error("unknown op " + op);
        o << "OP" << ret << m.termCalls;
        dumpLog(o, m);
        o << "RS" << (size_t) beliefSize;
        for (size_t i2 = 0; i2 < beliefSize; ++i2) o << AIToolbox::sampleProbability(m.S, rb, engine);
        o << "SB" << (size_t) planner.getGraph().sampleBelief_.size();
        for (const auto & p : planner.getGraph().sampleBelief_) o << p.first << p.second;
        o << "TREE";
        dumpRNode<UseEntropy>(o, planner.getGraph());
    }
}

} // namespace

int main(int argc, char ** argv) {
    return vio::runCases(argc, argv, [](vio::Cursor & c, vio::Out & o) {
        const std::string kind = c.next();
        if (kind == "mcts") runMCTS<VerifScriptModel>(c, o);
        else if (kind == "mctsv") runMCTS<VerifVarModel>(c, o);
        else if (kind == "rpomcp") { if (c.nextSize()) runRPOMCP<true>(c, o); else runRPOMCP<false>(c, o); }
        else if (kind == "pomcp") runPOMCP(c, o);
        else throw std::logic_error("unknown case kind " + kind);
    });
}
