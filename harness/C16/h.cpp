// harness/C16/h.cpp — property C16: results are reproducible and independent of unrelated history.
//
// Every scenario executes the SAME call under test several times inside one process (or in forked
// children where a process-wide static must be in its initial state), each time after a different
// unrelated history: a fresh solver object vs. an object already used on a differently sized
// problem, an empty node pool vs. a pool full of stale nodes, different numbers of earlier
// Seeder::getSeed() calls before Seeder::setRootSeed(), ...   Every run is dumped as a list of
// tokens (doubles as hex floats) and the runs are compared BITWISE by the driver (string equality).
//
// Output of a case:   <nruns> { <ntokens> tok… }   [ "X" extra tokens used by the correspondence ]
//
// The library's private members are reached with `#define private public` in this translation unit
// only (after all standard/third-party headers have been included), to reseed object engines,
// compare an object's engine with std::mt19937(seed), and to clear / inspect the FactorGraph pool.
#include "vio.hpp"
#include <algorithm>
#include <array>
#include <chrono>
#include <cmath>
#include <cstddef>
#include <functional>
#include <iosfwd>
#include <iostream>
#include <iterator>
#include <limits>
#include <list>
#include <map>
#include <memory>
#include <numeric>
#include <optional>
#include <queue>
#include <random>
#include <set>
#include <sstream>
#include <string>
#include <tuple>
#include <type_traits>
#include <unordered_map>
#include <unordered_set>
#include <utility>
#include <variant>
#include <thread>
#include <exception>
#include <vector>
#include <Eigen/Core>
#include <Eigen/Dense>
#include <Eigen/SparseCore>
#include <boost/multi_array.hpp>
#include <boost/functional/hash.hpp>
#include <boost/heap/fibonacci_heap.hpp>
#include <boost/iterator/iterator_adaptor.hpp>
#include <boost/iterator/transform_iterator.hpp>
#include <boost/container/flat_set.hpp>
#include <sys/types.h>
#include <sys/wait.h>
#include <unistd.h>
#include <csignal>

#define private public
#define protected public
#include <AIToolbox/Seeder.hpp>
#include <AIToolbox/MDP/Model.hpp>
#include <AIToolbox/MDP/SparseModel.hpp>
#include <AIToolbox/MDP/Policies/Policy.hpp>
#include <AIToolbox/Bandit/Policies/RandomPolicy.hpp>
#include <AIToolbox/MDP/Algorithms/ValueIteration.hpp>
#include <AIToolbox/MDP/Algorithms/PolicyIteration.hpp>
#include <AIToolbox/POMDP/Model.hpp>
#include <AIToolbox/POMDP/SparseModel.hpp>
#include <AIToolbox/POMDP/Algorithms/AMDP.hpp>
#include <AIToolbox/POMDP/Algorithms/IncrementalPruning.hpp>
#include <AIToolbox/POMDP/Algorithms/Witness.hpp>
#include <AIToolbox/POMDP/Algorithms/LinearSupport.hpp>
#include <AIToolbox/POMDP/Algorithms/SARSOP.hpp>
#include <AIToolbox/POMDP/Algorithms/GapMin.hpp>
#include <AIToolbox/POMDP/Algorithms/QMDP.hpp>
#include <AIToolbox/POMDP/Algorithms/FastInformedBound.hpp>
#include <AIToolbox/POMDP/Algorithms/BlindStrategies.hpp>
#include <AIToolbox/POMDP/Algorithms/PBVI.hpp>
#include <AIToolbox/POMDP/Algorithms/PERSEUS.hpp>
#include <AIToolbox/POMDP/Algorithms/POMCP.hpp>
#include <AIToolbox/MDP/Algorithms/MCTS.hpp>
#include <AIToolbox/Factored/Utils/FactorGraph.hpp>
#include <AIToolbox/Factored/Bandit/Algorithms/Utils/VariableElimination.hpp>
#include <AIToolbox/Factored/Bandit/Algorithms/Utils/LocalSearch.hpp>
#include <AIToolbox/Factored/Bandit/Algorithms/Utils/ReusingIterativeLocalSearch.hpp>
#include <AIToolbox/Factored/Bandit/Algorithms/Utils/GraphUtils.hpp>
#undef private
#undef protected

using namespace AIToolbox;
namespace fb = AIToolbox::Factored::Bandit;

// ------------------------------------------------------------------ runs (token lists)
struct Run {
    std::vector<std::string> v;
    void d(double x) {
        char b[64];
        if (std::isnan(x)) std::snprintf(b, sizeof b, "nan");
        else if (std::isinf(x)) std::snprintf(b, sizeof b, x > 0 ? "inf" : "-inf");
        else std::snprintf(b, sizeof b, "%a", x);
        v.push_back(b);
    }
    void u(unsigned long x) { v.push_back(std::to_string(x)); }
    void s(const std::string & x) { v.push_back(x); }
};
static void emitRuns(vio::Out & o, const std::vector<Run> & runs) {
    o << runs.size();
    for (const auto & r : runs) { o << r.v.size(); for (const auto & t : r.v) o << t; }
}

// run f in a forked child (process-wide statics in their initial state, as inherited from a
// parent that never touches them) and bring its tokens back
static Run forked(const std::function<void(Run &)> & f, unsigned alarmSeconds = 0) {
    int fd[2];
    if (pipe(fd) != 0) throw std::runtime_error("pipe");
    std::fflush(nullptr);
    pid_t pid = fork();
    if (pid < 0) throw std::runtime_error("fork");
    if (pid == 0) {
        close(fd[0]);
        if (alarmSeconds) alarm(alarmSeconds);
        Run r;
        try { f(r); } catch (const std::exception & e) { r.v.clear(); r.s(std::string("THROW_") + vio::exnName(e)); }
        std::string all;
        for (const auto & t : r.v) { all += t; all += '\n'; }
        size_t off = 0;
        while (off < all.size()) { ssize_t w = write(fd[1], all.data() + off, all.size() - off); if (w <= 0) break; off += w; }
        close(fd[1]);
        _exit(0);
    }
    close(fd[1]);
    std::string all; char buf[4096]; ssize_t n;
    while ((n = read(fd[0], buf, sizeof buf)) > 0) all.append(buf, n);
    close(fd[0]);
    int st = 0; waitpid(pid, &st, 0);
    if (WIFSIGNALED(st) && WTERMSIG(st) == SIGALRM) { Run r; r.s("CHILD_TIMEOUT"); return r; }
    if (WIFSIGNALED(st)) { Run r; r.s("CHILD_SIGNAL_" + std::to_string(WTERMSIG(st))); return r; }
    if (!WIFEXITED(st) || WEXITSTATUS(st) != 0) throw std::runtime_error("child failed");
    Run r; std::istringstream is(all); std::string t;
    while (is >> t) r.v.push_back(t);
    return r;
}

// ------------------------------------------------------------------ models from cases
struct MdpT { size_t S, A; double g; DumbMatrix3D T, R; };
static MdpT readMdp(vio::Cursor & c) {
    MdpT t; t.S = c.nextSize(); t.A = c.nextSize(); t.g = c.nextDouble();
    t.T.resize(boost::extents[t.S][t.A][t.S]); t.R.resize(boost::extents[t.S][t.A][t.S]);
    for (size_t a = 0; a < t.A; ++a) for (size_t s = 0; s < t.S; ++s) for (size_t s1 = 0; s1 < t.S; ++s1) t.T[s][a][s1] = c.nextDouble();
    for (size_t s = 0; s < t.S; ++s) for (size_t a = 0; a < t.A; ++a) { double r = c.nextDouble(); for (size_t s1 = 0; s1 < t.S; ++s1) t.R[s][a][s1] = r; }
    return t;
}
struct PomdpT { size_t S, A, O; double g; DumbMatrix3D T, R, Ob; };
static PomdpT readPomdp(vio::Cursor & c) {
    PomdpT t; t.S = c.nextSize(); t.A = c.nextSize(); t.O = c.nextSize(); t.g = c.nextDouble();
    t.T.resize(boost::extents[t.S][t.A][t.S]); t.R.resize(boost::extents[t.S][t.A][t.S]); t.Ob.resize(boost::extents[t.S][t.A][t.O]);
    for (size_t a = 0; a < t.A; ++a) for (size_t s = 0; s < t.S; ++s) for (size_t s1 = 0; s1 < t.S; ++s1) t.T[s][a][s1] = c.nextDouble();
    for (size_t s = 0; s < t.S; ++s) for (size_t a = 0; a < t.A; ++a) { double r = c.nextDouble(); for (size_t s1 = 0; s1 < t.S; ++s1) t.R[s][a][s1] = r; }
    for (size_t a = 0; a < t.A; ++a) for (size_t s1 = 0; s1 < t.S; ++s1) for (size_t o = 0; o < t.O; ++o) t.Ob[s1][a][o] = c.nextDouble();
    return t;
}
static MDP::Model mkMdp(const MdpT & t) { return MDP::Model(t.S, t.A, t.T, t.R, t.g); }
static POMDP::Model<MDP::Model> mkPomdp(const PomdpT & t) { return POMDP::Model<MDP::Model>(t.O, t.Ob, t.S, t.A, t.T, t.R, t.g); }
static POMDP::Belief readBelief(vio::Cursor & c) {
    auto v = c.nextDoubles(); POMDP::Belief b(v.size()); for (size_t i = 0; i < v.size(); ++i) b[i] = v[i]; return b;
}

static void dumpMat(Run & o, const Matrix2D & m) { o.u(m.rows()); o.u(m.cols()); for (long i = 0; i < m.rows(); ++i) for (long j = 0; j < m.cols(); ++j) o.d(m(i, j)); }
static void dumpVec(Run & o, const Vector & v) { o.u(v.size()); for (long i = 0; i < v.size(); ++i) o.d(v[i]); }
static void dumpMdpVF(Run & o, const MDP::ValueFunction & vf) { dumpVec(o, vf.values); o.u(vf.actions.size()); for (auto a : vf.actions) o.u(a); }
static void dumpVList(Run & o, const POMDP::VList & l) {
    o.u(l.size());
    for (const auto & e : l) { o.u(e.action); o.u(e.observations.size()); for (auto x : e.observations) o.u(x); dumpVec(o, e.values); }
}
static void dumpVF(Run & o, const POMDP::ValueFunction & vf) { o.u(vf.size()); for (const auto & l : vf) dumpVList(o, l); }
static void dumpModel(Run & o, const MDP::Model & m) {
    o.u(m.getS()); o.u(m.getA()); o.d(m.getDiscount());
    for (const auto & t : m.getTransitionFunction()) dumpMat(o, t);
    dumpMat(o, m.getRewardFunction());
}

// ------------------------------------------------------------------ scenario: Seeder programs
// prog <pre1> <pre2> <root> <nops> ops…     ops: G | Q | R <seed> | N <type> | D <i>
//   run k: `pre_k` unrelated getSeed() calls and one unrelated object sampled, then setRootSeed(root), then ops.
//   tokens: G -> seed; Q -> root seed; N -> for every engine of the new object the index k such
//   that engine == std::mt19937(k-th output of std::mt19937(current root)) (or "none"); D -> sample.
// extra: X <nseeds> { <seed> <n> draws… }   (reference std::mt19937 outputs for every root seed used)
struct Obj {
    std::function<void(Run &)> draw;
    std::vector<const RandomEngine *> engines;
    std::shared_ptr<void> keep;
};
static Obj makeObj(size_t type) {
    Obj o;
    switch (type) {
    case 0: { auto p = std::make_shared<MDP::Model>(3, 2); o.keep = p; o.engines = { &p->rand_ };
              o.draw = [p](Run & r) { auto [s1, rew] = p->sampleSR(1, 0); r.u(s1); r.d(rew); }; break; }
    case 1: { auto p = std::make_shared<MDP::Policy>(3, 5); o.keep = p; o.engines = { &p->rand_ };
              o.draw = [p](Run & r) { r.u(p->sampleAction(2)); }; break; }
    case 2: { auto p = std::make_shared<MDP::SparseModel>(3, 2); o.keep = p; o.engines = { &p->rand_ };
              o.draw = [p](Run & r) { auto [s1, rew] = p->sampleSR(1, 0); r.u(s1); r.d(rew); }; break; }
    case 3: { auto p = std::make_shared<POMDP::Model<MDP::Model>>(2, 3, 2); o.keep = p;
              o.engines = { &static_cast<MDP::Model &>(*p).rand_, &p->rand_ };
              o.draw = [p](Run & r) { auto [s1, ob, rew] = p->sampleSOR(0, 1); r.u(s1); r.u(ob); r.d(rew); }; break; }
    case 4: { auto p = std::make_shared<Bandit::RandomPolicy>(7); o.keep = p; o.engines = { &p->rand_ };
              o.draw = [p](Run & r) { r.u(p->sampleAction()); }; break; }
    default: throw std::logic_error("unknown object type");
    }
    return o;
}
static std::string findSeedIndex(const RandomEngine & e, const std::vector<unsigned> & table) {
    for (size_t k = 0; k < table.size(); ++k) if (e == RandomEngine(table[k])) return std::to_string(k);
    return "none";
}
static void scenarioProg(vio::Cursor & c, vio::Out & o, bool threads) {
    size_t pre[2] = { c.nextSize(), c.nextSize() };
    unsigned root = (unsigned) c.nextSize();
    size_t nops = c.nextSize();
    struct Op { char k; size_t arg; };
    std::vector<Op> ops;
    size_t nseedops = 0;
    std::vector<unsigned> roots{root};
    for (size_t i = 0; i < nops; ++i) {
        std::string t = c.next(); Op op{t[0], 0};
        if (op.k == 'R' || op.k == 'N' || op.k == 'D') op.arg = c.nextSize();
        if (op.k == 'R') roots.push_back((unsigned) op.arg);
        if (op.k == 'G') nseedops += 1;
        if (op.k == 'N') nseedops += 2;
        ops.push_back(op);
    }
    std::map<unsigned, std::vector<unsigned>> table;
    for (unsigned r : roots) if (!table.count(r)) { RandomEngine e(r); auto & v = table[r]; for (size_t i = 0; i < nseedops + 2; ++i) v.push_back(e()); }
    // the program proper (everything after the initial setRootSeed(root))
    auto program = [&](Run & r) {
        unsigned cur = root;
        std::vector<Obj> objs;
        for (const auto & op : ops) {
            switch (op.k) {
            case 'G': r.u(Seeder::getSeed()); break;
            case 'Q': r.u(Seeder::getRootSeed()); break;
            case 'R': Seeder::setRootSeed((unsigned) op.arg); cur = (unsigned) op.arg; break;
            case 'N': { objs.push_back(makeObj(op.arg)); for (auto e : objs.back().engines) r.s(findSeedIndex(*e, table[cur])); break; }
            case 'D': if (op.arg < objs.size()) objs[op.arg].draw(r); break;
            default: throw std::logic_error("bad op");
            }
        }
    };
    std::vector<Run> runs;
    // run 0 / run 1: in the main thread after two different unrelated prefixes.
    // thread variant: runs 1 and 2 execute the program inside a std::thread worker that is joined at once
    // (setRootSeed is called by the main thread): sequential threads do not change the sequence of calls.
    for (int k = 0; k < (threads ? 3 : 2); ++k) {
        Run r;
        {   // unrelated history
            size_t n = pre[k % 2];
            for (size_t i = 0; i < n; ++i) (void) Seeder::getSeed();
            if (n % 2) { MDP::Policy p(2, 2); for (size_t i = 0; i < n; ++i) (void) p.sampleAction(0); }
        }
        Seeder::setRootSeed(root);
        if (threads && k > 0) {
            std::exception_ptr err;
            std::thread worker([&] { try { program(r); } catch (...) { err = std::current_exception(); } });
            worker.join();
            if (err) std::rethrow_exception(err);
        } else program(r);
        runs.push_back(r);
    }
    emitRuns(o, runs);
    o << "X" << table.size();
    for (const auto & [s, v] : table) { o << (size_t) s << v.size(); for (auto x : v) o << (size_t) x; }
}

// ------------------------------------------------------------------ scenario: AMDP discretizer
// amdp <S1> <B1> <S2> <B2> <nb> beliefs(S2 entries each)
//   run 0 (forked child): discretizer(S2,B2) on the beliefs.
//   run 1 (forked child): discretizer(S1,B1) called once on a uniform belief, then as run 0.
static void scenarioAmdp(vio::Cursor & c, vio::Out & o) {
    size_t S1 = c.nextSize(), B1 = c.nextSize(), S2 = c.nextSize(), B2 = c.nextSize(), nb = c.nextSize();
    std::vector<POMDP::Belief> bs;
    for (size_t i = 0; i < nb; ++i) { POMDP::Belief b(S2); for (size_t s = 0; s < S2; ++s) b[s] = c.nextDouble(); bs.push_back(b); }
    auto body = [&](Run & r) {
        POMDP::AMDP amdp(10, B2);
        auto d = amdp.makeDiscretizer(S2);
        for (const auto & b : bs) r.u(d(b));
    };
    std::vector<Run> runs;
    runs.push_back(forked(body));
    runs.push_back(forked([&](Run & r) {
        POMDP::AMDP first(10, B1);
        auto d1 = first.makeDiscretizer(S1);
        POMDP::Belief u(S1); u.fill(1.0 / S1);
        (void) d1(u);
        body(r);
    }));
    emitRuns(o, runs);
}
// amdpkeep <root> <nBeliefs> <B1> <B2> <nBeliefs2> <pomdp1> <pomdp2> <nb> beliefs(S1 entries each)
//   what an object RETURNED must not change when the producing object is reconfigured or reused: the
//   Discretizer (and MDP) returned by AMDP::discretizeDense(pomdp1) with B1 buckets is probed
//   run 0 right away; run 1 after setEntropyBuckets(B2); run 2 after setBeliefSize(nBeliefs2);
//   run 3 after the same AMDP object discretized pomdp2 (sparse); run 4 after setEntropyBuckets(1).
static void scenarioAmdpKeep(vio::Cursor & c, vio::Out & o) {
    unsigned root = (unsigned) c.nextSize(); size_t nB = c.nextSize(), B1 = c.nextSize(), B2 = c.nextSize(), nB2 = c.nextSize();
    PomdpT t1 = readPomdp(c), t2 = readPomdp(c);
    size_t nb = c.nextSize();
    std::vector<POMDP::Belief> bs;
    for (size_t i = 0; i < nb; ++i) { POMDP::Belief b(t1.S); for (size_t s = 0; s < t1.S; ++s) b[s] = c.nextDouble(); bs.push_back(b); }
    Seeder::setRootSeed(root);
    auto m1 = mkPomdp(t1); auto m2 = mkPomdp(t2);
    POMDP::AMDP amdp(nB, B1);
    auto [mdp1, disc1] = amdp.discretizeDense(m1);
    auto probe = [&](Run & r) { for (const auto & b : bs) r.u(disc1(b)); dumpModel(r, mdp1); };
    std::vector<Run> runs(5);
    probe(runs[0]);
    amdp.setEntropyBuckets(B2);   probe(runs[1]);
    amdp.setBeliefSize(nB2);      probe(runs[2]);
    { auto second = amdp.discretizeSparse(m2); (void) second; } probe(runs[3]);
    amdp.setEntropyBuckets(1);    probe(runs[4]);
    emitRuns(o, runs);
}
// amdpm <root> <nBeliefs> <B1> <pomdp1> <B2> <pomdp2>: the whole AMDP::discretizeDense, same protocol
static void scenarioAmdpModel(vio::Cursor & c, vio::Out & o) {
    unsigned root = (unsigned) c.nextSize(); size_t nB = c.nextSize();
    size_t B1 = c.nextSize(); PomdpT t1 = readPomdp(c);
    size_t B2 = c.nextSize(); PomdpT t2 = readPomdp(c);
    auto body = [&](Run & r) {
        Seeder::setRootSeed(root);
        auto m2 = mkPomdp(t2);
        POMDP::AMDP amdp(nB, B2);
        auto [mdp, d] = amdp.discretizeDense(m2);
        dumpModel(r, mdp);
        POMDP::Belief u(t2.S); u.fill(1.0 / t2.S); r.u(d(u));
        POMDP::Belief e(t2.S); e.setZero(); e[t2.S - 1] = 1.0; r.u(d(e));
    };
    std::vector<Run> runs;
    runs.push_back(forked(body));
    runs.push_back(forked([&](Run & r) {
        Seeder::setRootSeed(root + 1);
        auto m1 = mkPomdp(t1);
        POMDP::AMDP first(nB, B1);
        (void) first.discretizeDense(m1);
        body(r);
    }));
    emitRuns(o, runs);
}

// ------------------------------------------------------------------ scenario: MDP solver reuse
// vi <h> <tol> <repr> <mdp1> <mdp2>      pi <h> <tol> <repr> <mdp1> <mdp2>
//   run 0: fresh solver on mdp2;  run 1: same-parameter solver used on mdp1 first;  run 2: on mdp2, mdp1, then mdp2;
//   run 3: on mdp2 twice (second result)
template <typename M>
static void dumpVI(Run & r, MDP::ValueIteration & s, const M & m) {
    auto [var, vf, q] = s(m); r.d(var); dumpMdpVF(r, vf); dumpMat(r, q);
}
static void scenarioVI(vio::Cursor & c, vio::Out & o, bool pi) {
    unsigned h = (unsigned) c.nextSize(); double tol = c.nextDouble(); std::string repr = c.next();
    MdpT t1 = readMdp(c), t2 = readMdp(c);
    auto m1 = mkMdp(t1), m2 = mkMdp(t2);
    MDP::SparseModel s1(m1), s2(m2);
    std::vector<Run> runs(4);
    if (!pi) {
        auto call = [&](Run & r, MDP::ValueIteration & s, int which) {
            // repr: dense | sparse | mixed (problem 1 dense, problem 2 sparse)
            if (which == 1) { if (repr == "sparse") dumpVI(r, s, s1); else dumpVI(r, s, m1); }
            else            { if (repr == "dense") dumpVI(r, s, m2); else dumpVI(r, s, s2); }
        };
        Run scratch;
        { MDP::ValueIteration s(h, tol); call(runs[0], s, 2); }
        { MDP::ValueIteration s(h, tol); call(scratch, s, 1); call(runs[1], s, 2); }
        { MDP::ValueIteration s(h, tol); call(scratch, s, 2); call(scratch, s, 1); call(runs[2], s, 2); }
        { MDP::ValueIteration s(h, tol); call(scratch, s, 2); call(runs[3], s, 2); }
    } else {
        auto call = [&](Run & r, MDP::PolicyIteration & s, int which) {
            if (which == 1) { if (repr == "sparse") dumpMat(r, s(s1)); else dumpMat(r, s(m1)); }
            else            { if (repr == "dense") dumpMat(r, s(m2)); else dumpMat(r, s(s2)); }
        };
        Run scratch;
        { MDP::PolicyIteration s(h, tol); call(runs[0], s, 2); }
        { MDP::PolicyIteration s(h, tol); call(scratch, s, 1); call(runs[1], s, 2); }
        { MDP::PolicyIteration s(h, tol); call(scratch, s, 2); call(scratch, s, 1); call(runs[2], s, 2); }
        { MDP::PolicyIteration s(h, tol); call(scratch, s, 2); call(runs[3], s, 2); }
    }
    emitRuns(o, runs);
}

// ------------------------------------------------------------------ scenario: exact POMDP solver reuse
// pomdp <alg> <h> <pomdp1> <pomdp2>   alg: ip | wit | ls
template <typename Solver>
static void pomdpReuse(std::vector<Run> & runs, unsigned h, const POMDP::Model<MDP::Model> & m1, const POMDP::Model<MDP::Model> & m2) {
    auto solve = [](Run * r, Solver & s, const POMDP::Model<MDP::Model> & m) { auto [var, vf] = s(m); if (r) { r->d(var); dumpVF(*r, vf); } };
    { Solver s(h, 0.0); solve(&runs[0], s, m2); }
    { Solver s(h, 0.0); solve(nullptr, s, m1); solve(&runs[1], s, m2); }
    { Solver s(h, 0.0); solve(nullptr, s, m2); solve(nullptr, s, m1); solve(&runs[2], s, m2); }
    { Solver s(h, 0.0); solve(nullptr, s, m2); solve(&runs[3], s, m2); }
}
static void scenarioPomdp(vio::Cursor & c, vio::Out & o) {
    std::string alg = c.next(); unsigned h = (unsigned) c.nextSize();
    PomdpT t1 = readPomdp(c), t2 = readPomdp(c);
    auto m1 = mkPomdp(t1), m2 = mkPomdp(t2);
    std::vector<Run> runs(4);
    if (alg == "ip") pomdpReuse<POMDP::IncrementalPruning>(runs, h, m1, m2);
    else if (alg == "wit") pomdpReuse<POMDP::Witness>(runs, h, m1, m2);
    else if (alg == "ls") pomdpReuse<POMDP::LinearSupport>(runs, h, m1, m2);
    else throw std::logic_error("unknown solver");
    emitRuns(o, runs);
}

// sarsop <tol1> <tol2> <pomdp1> <belief1> <pomdp2> <belief2>
//   the complete returned tuple (lb, ub, the whole lower-bound VList in order, ubQ) of a solve of problem 2
//   with tolerance tol2:  run 0 fresh solver;  run 1 a solver constructed with tol1 that solved problem 1
//   (which moves the adaptive pruning threshold delta_) and then had setTolerance(tol2);  run 2 problem 2 twice.
// extra: X <delta_ after the first solve of run 1> <initial delta>
static void scenarioSarsop(vio::Cursor & c, vio::Out & o) {
    double tol1 = c.nextDouble(), tol2 = c.nextDouble();
    PomdpT t1 = readPomdp(c); auto b1 = readBelief(c);
    PomdpT t2 = readPomdp(c); auto b2 = readBelief(c);
    auto m1 = mkPomdp(t1), m2 = mkPomdp(t2);
    auto solve = [](Run * r, POMDP::SARSOP & s, const POMDP::Model<MDP::Model> & m, const POMDP::Belief & b) {
        auto [lb, ub, vl, q] = s(m, b);
        if (r) { r->d(lb); r->d(ub); dumpVList(*r, vl); dumpMat(*r, q); }
    };
    // SARSOP has no iteration bound: the runs are made in one forked child with an alarm; the child
    // returns the runs separated by "|" tokens, then the observed delta
    Run all = forked([&](Run & r) {
        { POMDP::SARSOP s(tol2); solve(&r, s, m2, b2); } r.s("|");
        double moved = 0.0;
        { POMDP::SARSOP s(tol1); solve(nullptr, s, m1, b1); moved = s.delta_; s.setTolerance(tol2); solve(&r, s, m2, b2); } r.s("|");
        { POMDP::SARSOP s(tol2); solve(nullptr, s, m2, b2); solve(&r, s, m2, b2); } r.s("|");
        r.d(moved);
    }, 3);
    std::vector<Run> runs(1);
    for (const auto & t : all.v) { if (t == "|") runs.emplace_back(); else runs.back().s(t); }
    Run extra;
    if (runs.size() == 4) { extra = runs.back(); runs.pop_back(); }
    emitRuns(o, runs);
    o << "X"; for (const auto & t : extra.v) o << t;
    o << 0.1;
}

// gapmin <tol> <digits> <pomdp1> <belief1> <pomdp2> <belief2>
//   GapMin adapts tolerance_ while it runs and resets it from initialTolerance_ on entry; complete tuple
//   (lb, ub, lbVList, ubQ) fresh vs. after a solve of problem 1 vs. twice.  Forked child + alarm.
// extra: X <tolerance_ after the first solve of run 1> <initial tolerance>
static void scenarioGapMin(vio::Cursor & c, vio::Out & o) {
    double tol = c.nextDouble(); unsigned digits = (unsigned) c.nextSize();
    PomdpT t1 = readPomdp(c); auto b1 = readBelief(c);
    PomdpT t2 = readPomdp(c); auto b2 = readBelief(c);
    auto m1 = mkPomdp(t1), m2 = mkPomdp(t2);
    auto solve = [](Run * r, POMDP::GapMin & s, const POMDP::Model<MDP::Model> & m, const POMDP::Belief & b) {
        auto [lb, ub, vl, q] = s(m, b);
        if (r) { r->d(lb); r->d(ub); dumpVList(*r, vl); dumpMat(*r, q); }
    };
    Run all = forked([&](Run & r) {
        { POMDP::GapMin s(tol, digits); solve(&r, s, m2, b2); } r.s("|");
        double moved = 0.0;
        { POMDP::GapMin s(tol, digits); solve(nullptr, s, m1, b1); moved = s.tolerance_; solve(&r, s, m2, b2); } r.s("|");
        { POMDP::GapMin s(tol, digits); solve(nullptr, s, m2, b2); solve(&r, s, m2, b2); } r.s("|");
        r.d(moved);
    }, 4);
    std::vector<Run> runs(1);
    for (const auto & t : all.v) { if (t == "|") runs.emplace_back(); else runs.back().s(t); }
    Run extra;
    if (runs.size() == 4) { extra = runs.back(); runs.pop_back(); }
    emitRuns(o, runs);
    o << "X"; for (const auto & t : extra.v) o << t;
    o << tol;
}

// pbreuse <alg> <seed> <pomdp1> <pomdp2>     alg: pbvi | perseus
//   point-based solver object reuse.  The object's engine and the Seeder (the BeliefGenerator made inside
//   operator() takes a seed from it) are part of the declared state, so both are put in the same state
//   right before the call under test:  run 0 fresh object;  run 1 object that solved problem 1 before;
//   run 2 object that solved problem 2 before.
static void scenarioPbReuse(vio::Cursor & c, vio::Out & o) {
    std::string alg = c.next(); unsigned seed = (unsigned) c.nextSize();
    PomdpT t1 = readPomdp(c), t2 = readPomdp(c);
    auto m1 = mkPomdp(t1), m2 = mkPomdp(t2);
    double minR = 0.0;
    for (size_t x = 0; x < t2.S; ++x) for (size_t a = 0; a < t2.A; ++a) minR = std::min(minR, t2.R[x][a][0]);
    double minR1 = 0.0;
    for (size_t x = 0; x < t1.S; ++x) for (size_t a = 0; a < t1.A; ++a) minR1 = std::min(minR1, t1.R[x][a][0]);
    std::vector<Run> runs(3);
    for (int k = 0; k < 3; ++k) {
        if (alg == "pbvi") {
            POMDP::PBVI s(6, 2, 0.0);
            if (k == 1) (void) s(m1);
            if (k == 2) (void) s(m2);
            Seeder::setRootSeed(seed); s.rand_.seed(seed + 1);
            auto [var, vf] = s(m2); runs[k].d(var); dumpVF(runs[k], vf);
        } else if (alg == "perseus") {
            POMDP::PERSEUS s(6, 2, 0.0);
            if (k == 1) (void) s(m1, minR1);
            if (k == 2) (void) s(m2, minR);
            Seeder::setRootSeed(seed); s.rand_.seed(seed + 1);
            auto [var, vf] = s(m2, minR); runs[k].d(var); dumpVF(runs[k], vf);
        } else throw std::logic_error("unknown point-based solver");
    }
    emitRuns(o, runs);
}

// ------------------------------------------------------------------ scenario: heap-history independence
// heap <alg> <h> <hp> <pomdp_prefix> <pomdp>
//   alg: ls | ip | wit | pbvi | perseus | qmdp | fib | blind
//   The call under test (a new solver of horizon <h> on <pomdp>, typically a symmetric model with exact
//   ties) is executed in forked children that all start from the parent's heap:
//     run 0 alone;  run 1 after another solver object of the same class solved <pomdp_prefix> with horizon <hp>;
//     run 2 after the same class solved <pomdp> itself with horizon <hp>;
//     run 3 after allocating many blocks of assorted sizes and freeing every other one (rest kept alive);
//     run 4 after allocating and freeing blocks in reverse order (fills the allocator's free lists).
//   The complete result (order of entries, actions, observation links, values) must be bit-identical:
//   anything ordered or keyed by an address shows up here.
static void heapSolve(Run * r, const std::string & alg, unsigned h, const PomdpT & t) {
    // the model's and the solver's engines are part of the declared state: fixed root seed, then the
    // model and the solver are constructed in the same order
    Seeder::setRootSeed(42);
    const auto m = mkPomdp(t);
    if (alg == "ls")        { POMDP::LinearSupport s(h, 0.0); auto [var, vf] = s(m); if (r) { r->d(var); dumpVF(*r, vf); } }
    else if (alg == "ip")   { POMDP::IncrementalPruning s(h, 0.0); auto [var, vf] = s(m); if (r) { r->d(var); dumpVF(*r, vf); } }
    else if (alg == "wit")  { POMDP::Witness s(h, 0.0); auto [var, vf] = s(m); if (r) { r->d(var); dumpVF(*r, vf); } }
    else if (alg == "pbvi") { POMDP::PBVI s(8, h, 0.0); auto [var, vf] = s(m); if (r) { r->d(var); dumpVF(*r, vf); } }
    else if (alg == "perseus") {
        POMDP::PERSEUS s(8, h, 0.0);
        double minR = 0.0; for (size_t x = 0; x < t.S; ++x) for (size_t a = 0; a < t.A; ++a) minR = std::min(minR, t.R[x][a][0]);
        auto [var, vf] = s(m, minR); if (r) { r->d(var); dumpVF(*r, vf); } }
    else if (alg == "qmdp") { POMDP::QMDP s(h, 0.0); auto [var, vf, q] = s(m); if (r) { r->d(var); dumpVF(*r, vf); dumpMat(*r, q); } }
    else if (alg == "fib")  { POMDP::FastInformedBound s(h, 0.0); auto [var, q] = s(m); if (r) { r->d(var); dumpMat(*r, q); } }
    else if (alg == "blind") { POMDP::BlindStrategies s(h, 0.0); auto [var, vl] = s(m, false); if (r) { r->d(var); dumpVList(*r, vl); } }
    else throw std::logic_error("unknown solver " + alg);
}
static void scenarioHeap(vio::Cursor & c, vio::Out & o) {
    std::string alg = c.next(); unsigned h = (unsigned) c.nextSize(), hp = (unsigned) c.nextSize();
    PomdpT tp = readPomdp(c), t = readPomdp(c);
    std::vector<Run> runs;
    runs.push_back(forked([&](Run & r) { heapSolve(&r, alg, h, t); }, 20));
    runs.push_back(forked([&](Run & r) { heapSolve(nullptr, alg, hp, tp); heapSolve(&r, alg, h, t); }, 20));
    runs.push_back(forked([&](Run & r) { heapSolve(nullptr, alg, hp, t); heapSolve(&r, alg, h, t); }, 20));
    runs.push_back(forked([&](Run & r) {
        std::vector<void *> blocks;
        for (size_t i = 0; i < 3000; ++i) blocks.push_back(std::malloc(16 + 8 * (i * 7 % 61)));
        for (size_t i = 1; i < blocks.size(); i += 2) std::free(blocks[i]);     // the others stay alive
        heapSolve(&r, alg, h, t);
    }, 20));
    runs.push_back(forked([&](Run & r) {
        std::vector<void *> blocks;
        for (size_t i = 0; i < 3000; ++i) blocks.push_back(std::malloc(24 + 8 * (i * 5 % 37)));
        for (size_t i = blocks.size(); i-- > 0; ) std::free(blocks[i]);
        heapSolve(&r, alg, h, t);
    }, 20));
    bool timeout = false;
    for (const auto & r : runs) if (r.v.size() == 1 && r.v[0] == "CHILD_TIMEOUT") timeout = true;
    if (timeout) { std::vector<Run> one(1); one[0].s("CHILD_TIMEOUT"); emitRuns(o, one); return; }
    emitRuns(o, runs);
}

// ------------------------------------------------------------------ scenario: seeded algorithms
// seeded <alg> <pre1> <pre2> <root> <pomdp> <belief>
//   alg: pomcp | pbvi | perseus | mcts | amdp   — the same program (construct model, construct
//   algorithm, run) executed twice after setRootSeed(root), with different unrelated prefixes
static void scenarioSeeded(vio::Cursor & c, vio::Out & o) {
    std::string alg = c.next();
    size_t pre[2] = { c.nextSize(), c.nextSize() };
    unsigned root = (unsigned) c.nextSize();
    PomdpT t = readPomdp(c); auto b = readBelief(c);
    std::vector<Run> runs(2);
    for (int k = 0; k < 2; ++k) {
        Run & r = runs[k];
        for (size_t i = 0; i < pre[k]; ++i) (void) Seeder::getSeed();
        if (pre[k] % 2) { auto junk = mkPomdp(t); for (size_t i = 0; i < pre[k]; ++i) (void) junk.sampleSOR(0, 0); }
        Seeder::setRootSeed(root);
        auto m = mkPomdp(t);
        if (alg == "pomcp") {
            POMDP::POMCP<POMDP::Model<MDP::Model>> s(m, 20, 60, 2.0);
            size_t a = s.sampleAction(b, 3); r.u(a);
            auto [s1, ob, rew] = m.sampleSOR(0, a); r.u(s1); r.u(ob); r.d(rew);
            r.u(s.sampleAction(a, ob, 2));
        } else if (alg == "mcts") {
            MDP::MCTS<POMDP::Model<MDP::Model>> s(m, 60, 2.0);
            size_t a = s.sampleAction(0, 3); r.u(a);
            auto [s1, rew] = m.sampleSR(0, a); r.u(s1); r.d(rew);
            r.u(s.sampleAction(a, s1, 2));
        } else if (alg == "pbvi") {
            POMDP::PBVI s(6, 2, 0.0);
            auto [var, vf] = s(m); r.d(var); dumpVF(r, vf);
        } else if (alg == "perseus") {
            POMDP::PERSEUS s(6, 2, 0.0);
            double minR = 0.0; for (size_t x = 0; x < t.S; ++x) for (size_t a = 0; a < t.A; ++a) minR = std::min(minR, t.R[x][a][0]);
            auto [var, vf] = s(m, minR); r.d(var); dumpVF(r, vf);
        } else throw std::logic_error("unknown seeded algorithm");
    }
    emitRuns(o, runs);
}

// ------------------------------------------------------------------ scenario: FactorGraph programs
// fg <ngraphs> sizes… <njunk> <nops> ops…
//   ops:  g <i> <k> vars… | s <i> <k> vars… <d> | e <i> <a> | r <i> <n> | c <dst> <src>
//   run 0: pool emptied first;  run 1: pool emptied, then filled with <njunk> stale nodes (carrying
//   data and variables of an unrelated graph) before the program.  Dump = every graph, completely.
// extra: X <pool size before the program in run 1> <pool size after it>
using FD = std::vector<size_t>;
using FG = Factored::FactorGraph<FD>;
static void dumpGraph(Run & r, const FG & g) {
    r.u(g.factorSize()); r.u(g.variableSize());
    for (auto it = g.begin(); it != g.end(); ++it) {
        r.u(it->getVariables().size()); for (auto x : it->getVariables()) r.u(x);
        r.u(it->getData().size()); for (auto x : it->getData()) r.u(x);
    }
    r.u(g.variableAdjacencies_.size());
    for (const auto & va : g.variableAdjacencies_) {
        r.u(va.active ? 1 : 0);
        r.u(va.factors.size());
        for (auto it : va.factors) { r.u(it->getVariables().size()); for (auto x : it->getVariables()) r.u(x); }
        r.u(va.vNeighbors.size()); for (auto x : va.vNeighbors) r.u(x);
    }
}
static void scenarioFG(vio::Cursor & c, vio::Out & o) {
    auto sizes = c.nextSizes();
    size_t njunk = c.nextSize(), nops = c.nextSize();
    struct Op { char k; size_t i, j; std::vector<size_t> vars; size_t d; };
    std::vector<Op> ops;
    for (size_t n = 0; n < nops; ++n) {
        Op op; op.k = c.next()[0]; op.i = c.nextSize(); op.j = 0; op.d = 0;
        if (op.k == 'g') op.vars = c.nextSizes();
        else if (op.k == 's') { op.vars = c.nextSizes(); op.d = c.nextSize(); }
        else op.j = c.nextSize();
        ops.push_back(op);
    }
    std::vector<Run> runs(2);
    size_t poolBefore = 0, poolAfter = 0;
    for (int k = 0; k < 2; ++k) {
        FG::factorAdjacenciesPool_.clear();
        if (k == 1 && njunk > 0) {
            FG junk(njunk + 1);
            for (size_t i = 0; i < njunk; ++i) { auto it = junk.getFactor(Factored::PartialKeys{i, i + 1}); it->getData() = FD{777 + i, 888, 999}; }
            for (size_t i = 0; i <= njunk; ++i) junk.erase(i);
            poolBefore = FG::factorAdjacenciesPool_.size();
        }
        {
            std::vector<std::unique_ptr<FG>> gs;
            for (auto n : sizes) gs.push_back(std::make_unique<FG>(n));
            for (const auto & op : ops) {
                if (op.i >= gs.size()) continue;
                switch (op.k) {
                case 'g': (void) gs[op.i]->getFactor(Factored::PartialKeys(op.vars.begin(), op.vars.end())); break;
                case 's': gs[op.i]->getFactor(Factored::PartialKeys(op.vars.begin(), op.vars.end()))->getData() = FD{op.d, op.d + 1}; break;
                case 'e': gs[op.i]->erase(op.j); break;
                case 'r': gs[op.i]->reset(op.j); break;
                case 'c': if (op.j < gs.size()) gs[op.i] = std::make_unique<FG>(*gs[op.j]); break;
                default: throw std::logic_error("bad fg op");
                }
            }
            if (k == 1) poolAfter = FG::factorAdjacenciesPool_.size();
            for (const auto & g : gs) dumpGraph(runs[k], *g);
        }
    }
    FG::factorAdjacenciesPool_.clear();
    emitRuns(o, runs);
    o << "X" << poolBefore << poolAfter;
}

// ------------------------------------------------------------------ scenario: VariableElimination / RILS reuse
static Factored::Factors readFactors(vio::Cursor & c) { auto v = c.nextSizes(); return Factored::Factors(v.begin(), v.end()); }
static std::vector<fb::QFunctionRule> readRules(vio::Cursor & c) {
    size_t n = c.nextSize();
    std::vector<fb::QFunctionRule> rules;
    for (size_t i = 0; i < n; ++i) {
        auto k = readFactors(c); auto v = readFactors(c); double x = c.nextDouble();
        rules.push_back(fb::QFunctionRule{Factored::PartialAction{k, v}, x});
    }
    return rules;
}
// ve <A1> <rules1> <A2> <rules2>
//   run 0: pool of VE's graph type emptied, fresh VariableElimination + graph on problem 2
//   run 1: the same VE + graph objects solve problem 1 first (its erased factors fill the pool)
//   run 2: problem 2, problem 1, problem 2
static void scenarioVE(vio::Cursor & c, vio::Out & o) {
    Factored::Action A1 = readFactors(c); auto r1 = readRules(c);
    Factored::Action A2 = readFactors(c); auto r2 = readRules(c);
    using G = fb::VariableElimination::Graph;
    auto solve = [](Run * r, fb::VariableElimination & ve, G & graph, const Factored::Action & A, const std::vector<fb::QFunctionRule> & rules) {
        fb::UpdateGraph<fb::VariableElimination>()(graph, rules, A);
        auto [a, v] = ve(A, graph);
        if (r) { r->u(a.size()); for (auto x : a) r->u(x); r->d(v); }
    };
    std::vector<Run> runs(3);
    size_t poolSeen = 0;
    { G::factorAdjacenciesPool_.clear(); fb::VariableElimination ve; G g(0); solve(&runs[0], ve, g, A2, r2); }
    { G::factorAdjacenciesPool_.clear(); fb::VariableElimination ve; G g(0); solve(nullptr, ve, g, A1, r1); poolSeen = G::factorAdjacenciesPool_.size(); solve(&runs[1], ve, g, A2, r2); }
    { fb::VariableElimination ve; G g(0); solve(nullptr, ve, g, A2, r2); solve(nullptr, ve, g, A1, r1); solve(&runs[2], ve, g, A2, r2); }
    G::factorAdjacenciesPool_.clear();
    emitRuns(o, runs);
    o << "X" << poolSeen;
}
// rils <trials> <seed> <A1> <rules1> <A2> <rules2>
//   forceResetAction = true (the documented "solve a different graph" mode).  The object's engines are
//   part of its declared state, so they are put in the same state (seed) before the call under test:
//   run 0: fresh object; run 1: object that solved problem 1 before (action_/newAction_ left over).
static void scenarioRils(vio::Cursor & c, vio::Out & o) {
    unsigned trials = (unsigned) c.nextSize(); unsigned seed = (unsigned) c.nextSize();
    Factored::Action A1 = readFactors(c); auto r1 = readRules(c);
    Factored::Action A2 = readFactors(c); auto r2 = readRules(c);
    auto g1 = fb::MakeGraph<fb::ReusingIterativeLocalSearch>()(r1, A1);
    fb::UpdateGraph<fb::ReusingIterativeLocalSearch>()(g1, r1, A1);
    auto g2 = fb::MakeGraph<fb::ReusingIterativeLocalSearch>()(r2, A2);
    fb::UpdateGraph<fb::ReusingIterativeLocalSearch>()(g2, r2, A2);
    auto under_test = [&](Run & r, fb::ReusingIterativeLocalSearch & s) {
        s.rnd_.seed(seed); s.ls_.rnd_.seed(seed + 1);
        auto [a, v] = s(A2, g2);
        r.u(a.size()); for (auto x : a) r.u(x); r.d(v);
    };
    std::vector<Run> runs(2);
    { fb::ReusingIterativeLocalSearch s(0.3, 0.3, trials, true); under_test(runs[0], s); }
    { fb::ReusingIterativeLocalSearch s(0.3, 0.3, trials, true); (void) s(A1, g1); under_test(runs[1], s); }
    emitRuns(o, runs);
}

int main(int argc, char ** argv) {
    return vio::runCases(argc, argv, [](vio::Cursor & c, vio::Out & o) {
        const std::string kind = c.next();
        if (kind == "prog") scenarioProg(c, o, false);
        else if (kind == "thread") scenarioProg(c, o, true);
        else if (kind == "amdpkeep") scenarioAmdpKeep(c, o);
        else if (kind == "amdp") scenarioAmdp(c, o);
        else if (kind == "amdpm") scenarioAmdpModel(c, o);
        else if (kind == "vi") scenarioVI(c, o, false);
        else if (kind == "pi") scenarioVI(c, o, true);
        else if (kind == "pomdp") scenarioPomdp(c, o);
        else if (kind == "sarsop") scenarioSarsop(c, o);
        else if (kind == "seeded") scenarioSeeded(c, o);
        else if (kind == "gapmin") scenarioGapMin(c, o);
        else if (kind == "heap") scenarioHeap(c, o);
        else if (kind == "pbreuse") scenarioPbReuse(c, o);
        else if (kind == "fg") scenarioFG(c, o);
        else if (kind == "ve") scenarioVE(c, o);
        else if (kind == "rils") scenarioRils(c, o);
        else if (kind == "carrier") { o << "ok"; }       // inventory cases are judged by the driver alone
        else throw std::logic_error("unknown case kind " + kind);
    });
}
