// harness/common/vio.hpp — exact text I/O shared by all C++ correspondence harnesses.
// Case file lines:  "C <id> <tokens…>";  output lines: "R <id> <tokens…>".
// Numbers are exchanged exactly: ints, n/d with d a power of two, or hex floats (%a).
#pragma once
#include <cstdio>
#include <cstdlib>
#include <cstring>
#include <cmath>
#include <string>
#include <vector>
#include <sstream>
#include <fstream>
#include <iostream>
#include <stdexcept>
#include <functional>
#include <limits>
#include <typeinfo>

namespace vio {

struct Cursor {
    std::vector<std::string> toks;
    size_t pos = 0;
    bool atEnd() const { return pos >= toks.size(); }
    const std::string & peek() const {
        if (atEnd()) throw std::logic_error("vio: unexpected end of case");
        return toks[pos];
    }
    std::string next() { auto & t = peek(); ++pos; return t; }
    long nextInt() { return std::strtol(next().c_str(), nullptr, 10); }
    size_t nextSize() { return (size_t) std::strtoull(next().c_str(), nullptr, 10); }
    double nextDouble() {
        std::string t = next();
        auto slash = t.find('/');
        if (slash != std::string::npos) {
            // n/d, both exactly representable, d a power of two => exact quotient
            double n = std::strtod(t.substr(0, slash).c_str(), nullptr);
            double d = std::strtod(t.substr(slash + 1).c_str(), nullptr);
            return n / d;
        }
        if (t == "nan" || t == "NaN") return std::numeric_limits<double>::quiet_NaN();
        if (t == "inf" || t == "+inf") return std::numeric_limits<double>::infinity();
        if (t == "-inf") return -std::numeric_limits<double>::infinity();
        return std::strtod(t.c_str(), nullptr);   // decimal ints and hex floats are exact
    }
    std::vector<size_t> nextSizes() {
        size_t n = nextSize(); std::vector<size_t> v(n);
        for (auto & x : v) x = nextSize();
        return v;
    }
    std::vector<double> nextDoubles() {
        size_t n = nextSize(); std::vector<double> v(n);
        for (auto & x : v) x = nextDouble();
        return v;
    }
    void expect(const char * w) {
        auto t = next();
        if (t != w) throw std::logic_error(std::string("vio: expected ") + w + " got " + t);
    }
};

struct Out {
    std::ostringstream os;
    Out & operator<<(const char * s) { os << ' ' << s; return *this; }
    Out & operator<<(const std::string & s) { os << ' ' << s; return *this; }
    Out & operator<<(long v) { os << ' ' << v; return *this; }
    Out & operator<<(int v) { os << ' ' << v; return *this; }
    Out & operator<<(unsigned v) { os << ' ' << v; return *this; }
    Out & operator<<(size_t v) { os << ' ' << v; return *this; }
    Out & operator<<(bool v) { os << ' ' << (v ? 1 : 0); return *this; }
    Out & operator<<(double v) {
        char buf[64];
        if (std::isnan(v)) std::snprintf(buf, sizeof buf, "nan");
        else if (std::isinf(v)) std::snprintf(buf, sizeof buf, v > 0 ? "inf" : "-inf");
        else std::snprintf(buf, sizeof buf, "%a", v);
        os << ' ' << buf; return *this;
    }
    template <typename T>
    Out & list(const T & v) {           // "<n> x1 … xn"
        *this << (size_t) v.size();
        for (const auto & x : v) *this << x;
        return *this;
    }
    template <typename It>
    Out & list(It b, It e) {
        *this << (size_t) std::distance(b, e);
        for (; b != e; ++b) *this << *b;
        return *this;
    }
};

inline const char * exnName(const std::exception & e) {
    if (dynamic_cast<const std::invalid_argument*>(&e)) return "invalid_argument";
    if (dynamic_cast<const std::out_of_range*>(&e)) return "out_of_range";
    if (dynamic_cast<const std::domain_error*>(&e)) return "domain_error";
    if (dynamic_cast<const std::length_error*>(&e)) return "length_error";
    if (dynamic_cast<const std::logic_error*>(&e)) return "logic_error";
    if (dynamic_cast<const std::range_error*>(&e)) return "range_error";
    if (dynamic_cast<const std::overflow_error*>(&e)) return "overflow_error";
    if (dynamic_cast<const std::runtime_error*>(&e)) return "runtime_error";
    if (dynamic_cast<const std::bad_alloc*>(&e)) return "bad_alloc";
    return "exception";
}

// usage: h cases.txt out.txt [skip]
// Handler gets (kind-agnostic) cursor positioned after the id; writes its result into Out.
// A C++ exception escaping the handler is reported as "THROW <type>".
inline int runCases(int argc, char ** argv, const std::function<void(Cursor &, Out &)> & handler) {
    if (argc < 3) { std::fprintf(stderr, "usage: %s cases.txt out.txt [skip]\n", argv[0]); return 2; }
    std::ifstream in(argv[1]);
    if (!in) { std::fprintf(stderr, "cannot open %s\n", argv[1]); return 2; }
    size_t skip = argc > 3 ? std::strtoull(argv[3], nullptr, 10) : 0;
    std::FILE * out = std::fopen(argv[2], skip ? "a" : "w");
    if (!out) { std::fprintf(stderr, "cannot open %s\n", argv[2]); return 2; }
    std::string line; size_t n = 0;
    while (std::getline(in, line)) {
        if (line.size() < 2 || line[0] != 'C' || line[1] != ' ') continue;
        if (n++ < skip) continue;
        Cursor c;
        { std::istringstream ls(line.substr(2)); std::string t; while (ls >> t) c.toks.push_back(t); }
        std::string id = c.next();
        // mark the case as started so the runner can attribute a crash to it
        std::fprintf(out, "S %s\n", id.c_str()); std::fflush(out);
        Out o;
        try { handler(c, o); }
        catch (const std::exception & e) { o.os.str(""); o.os.clear(); o << "THROW" << exnName(e); }
        catch (...) { o.os.str(""); o.os.clear(); o << "THROW" << "unknown"; }
        std::fprintf(out, "R %s%s\n", id.c_str(), o.os.str().c_str()); std::fflush(out);
    }
    std::fclose(out);
    return 0;
}

} // namespace vio
