// harness/C12/h.cpp — runs the real Utils/Prune.hpp, Utils/Polytope.hpp and src/Utils/Polytope.cpp
// functions on exact cases.  Vector lists are encoded "n d x_11 … x_nd".
#include <AIToolbox/Utils/Prune.hpp>
#include <AIToolbox/Utils/Polytope.hpp>
#include "vio.hpp"
using namespace AIToolbox;

static Vector readVec(vio::Cursor & c, size_t d) {
    Vector v(d);
    for (size_t i = 0; i < d; ++i) v[i] = c.nextDouble();
    return v;
}
static std::vector<Vector> readVecs(vio::Cursor & c, size_t & d) {
    size_t n = c.nextSize(); d = c.nextSize();
    std::vector<Vector> l;
    for (size_t i = 0; i < n; ++i) l.push_back(readVec(c, d));
    return l;
}
static void outVec(vio::Out & o, const Vector & v) { for (Eigen::Index i = 0; i < v.size(); ++i) o << (double) v[i]; }
static void outVecs(vio::Out & o, const std::vector<Vector> & l, size_t d) {
    o << l.size() << d;
    for (const auto & v : l) outVec(o, v);
}
// ubQ: "S A" then S rows of A entries
static Matrix2D readMat(vio::Cursor & c) {
    size_t S = c.nextSize(), A = c.nextSize();
    Matrix2D m(S, A);
    for (size_t s = 0; s < S; ++s) for (size_t a = 0; a < A; ++a) m(s, a) = c.nextDouble();
    return m;
}

int main(int argc, char ** argv) {
    return vio::runCases(argc, argv, [](vio::Cursor & c, vio::Out & o) {
        const std::string kind = c.next();
        size_t d;
        if (kind == "dom") {                // d u v -> dominates(u,v) dominates(v,u)
            d = c.nextSize(); Vector u = readVec(c, d), v = readVec(c, d);
            o << dominates(u, v) << dominates(v, u);
        } else if (kind == "ed") {          // vecs -> end, array
            auto l = readVecs(c, d);
            auto e = extractDominated(l.begin(), l.end());
            o << (size_t) std::distance(l.begin(), e); outVecs(o, l, d);
        } else if (kind == "edi") {         // nOld vecs(old ++ new) -> oldEnd mid end array
            size_t nOld = c.nextSize();
            auto l = readVecs(c, d);
            auto [a, b, e] = extractDominatedIncremental(l.begin(), l.begin() + nOld, l.end());
            o << (size_t) std::distance(l.begin(), a) << (size_t) std::distance(l.begin(), b) << (size_t) std::distance(l.begin(), e);
            outVecs(o, l, d);
        } else if (kind == "fbp") {         // vecs point -> index value
            auto l = readVecs(c, d); Vector p = readVec(c, d);
            double v; auto it = findBestAtPoint(p, l.begin(), l.end(), &v);
            o << (size_t) std::distance(l.begin(), it) << v;
        } else if (kind == "fbc") {         // vecs corner -> index value
            auto l = readVecs(c, d); size_t corner = c.nextSize();
            double v; auto it = findBestAtSimplexCorner(corner, l.begin(), l.end(), &v);
            o << (size_t) std::distance(l.begin(), it) << v;
        } else if (kind == "ebp") {         // vecs bound point -> bound array
            auto l = readVecs(c, d); size_t bound = c.nextSize(); Vector p = readVec(c, d);
            auto b = extractBestAtPoint(p, l.begin(), l.begin() + bound, l.end());
            o << (size_t) std::distance(l.begin(), b); outVecs(o, l, d);
        } else if (kind == "ebc") {         // vecs bound -> bound array
            auto l = readVecs(c, d); size_t bound = c.nextSize();
            auto b = extractBestAtSimplexCorners(d, l.begin(), l.begin() + bound, l.end());
            o << (size_t) std::distance(l.begin(), b); outVecs(o, l, d);
        } else if (kind == "prune" || kind == "prune2") {   // vecs [vecs] -> per set: bound array transcript
            // prune2 reuses ONE Pruner object (and its WitnessLP) on two sets of the same dimension
            // but different sizes; the transcript always comes from a FRESH WitnessLP, so any state
            // leaking from the first run into the second shows up as a difference.
            const size_t runs = kind == "prune" ? 1 : 2;
            std::vector<std::vector<Vector>> sets;
            for (size_t i = 0; i < runs; ++i) sets.push_back(readVecs(c, d));
            Pruner pr(d);
            for (auto & l : sets) {
                auto l2 = l;
                auto b = pr(l.begin(), l.end());
                o << (size_t) std::distance(l.begin(), b); outVecs(o, l, d);
                auto begin = l2.begin(); auto end = extractDominated(begin, l2.end());
                const size_t size = std::distance(begin, end);
                std::vector<std::tuple<size_t, Vector, bool, Vector>> log;
                if (size >= 2) {
                    auto bound = extractBestAtSimplexCorners(d, begin, begin, end);
                    WitnessLP lp(d);
                    if (bound < end) { lp.reset(); lp.allocate(size); for (auto it = begin; it != bound; ++it) lp.addOptimalRow(*it); }
                    while (bound < end) {
                        const auto w = lp.findWitness(*(end - 1));
                        log.emplace_back((size_t) std::distance(begin, bound), *(end - 1), (bool) w, w ? *w : Vector());
                        if (w) { bound = extractBestAtPoint(*w, bound, bound, end); lp.addOptimalRow(*(bound - 1)); }
                        else --end;
                    }
                }
                o << log.size();
                for (const auto & [n, v, f, w] : log) { o << n; outVec(o, v); o << f; if (f) outVec(o, w); }
            }
        } else if (kind == "fvn" || kind == "fvr") {   // fvn: newVs alphas | fvr: range -> n, then per vertex: point value
            PointSurface vs;
            if (kind == "fvn") {
                auto news = readVecs(c, d); auto alphas = readVecs(c, d);
                vs = findVerticesNaive(news.begin(), news.end(), alphas.begin(), alphas.end());
            } else {
                auto range = readVecs(c, d);
                vs = findVerticesNaive(range);
            }
            o << vs.first.size() << d;
            for (size_t i = 0; i < vs.first.size(); ++i) { outVec(o, vs.first[i]); o << vs.second[i]; }
        } else if (kind == "saw" || kind == "lpi") {   // ubQ points vals query -> value weights
            Matrix2D ubQ = readMat(c);
            PointSurface ubV;
            ubV.first = readVecs(c, d);
            ubV.second = c.nextDoubles();
            Vector q = readVec(c, (size_t) ubQ.rows());
            auto [v, w] = kind == "saw" ? sawtoothInterpolation(q, ubQ, ubV) : LPInterpolation(q, ubQ, ubV);
            o << v << (size_t) w.size(); outVec(o, w);
        } else if (kind == "ubp") {         // planes points -> bound array   (extractBestUsefulPoints)
            auto w = readVecs(c, d); size_t d2; auto pts = readVecs(c, d2);
            auto b = extractBestUsefulPoints(pts.begin(), pts.end(), w.begin(), w.end());
            o << (size_t) std::distance(pts.begin(), b); outVecs(o, pts, d2);
        } else if (kind == "fbdd") {        // vecs point plane delta -> index (n = end)   (findBestDeltaDominated)
            auto l = readVecs(c, d); Vector p = readVec(c, d); Vector plane = readVec(c, d);
            const double delta = c.nextDouble();
            auto it = findBestDeltaDominated(p, plane, delta, l.begin(), l.end());
            o << (size_t) std::distance(l.begin(), it);
        } else throw std::logic_error("unknown case kind " + kind);
    });
}
