// harness/C20/h.cpp — drives the real Trie / FasterTrie / FilterMap on exact operation histories.
// Case:   trie  <F list> ops <op>*      (Trie, and FilterMap<size_t,Trie> for the "fm" kind)
//         ftrie <F list> ops <op>*      (FasterTrie)
// Ops:    i <pf>            insert                      -> id
//         e <id>            Trie::erase(id)             -> (nothing)
//         E <id> <pf>       erase(id, pf), id stored    -> (nothing)
//         X <id> <pf>       erase(id, pf), id NOT stored (erased before / never inserted)
//         f <f list> <off>  Trie::filter(Factors, offset)   -> id list
//         p <pf>            Trie::filter(PartialFactors)    -> id list
//         r <ids> <pf>      Trie::refine                    -> id list
//         z                 size()                          -> n
//         a / A             filter(PartialFactors{}) / filter(Factors{})  (= getAllIds) -> id list
//         F <f list>        FasterTrie::filter(Factors)     -> id list (order unspecified)
//         R <pf> <remove>   FasterTrie::reconstruct         -> entries (id pf)*, factors, orders_, ids of every bucket
//         cc / ca / mv / ma / sw <k> / gt   copies (see copyOp); all kinds
// <pf> = <keys list> <values list>; lists are count-prefixed.
#include "vio.hpp"
#include <random>
#include <tuple>
#include <algorithm>
#include <memory>
#include <AIToolbox/Factored/Types.hpp>
#include <AIToolbox/Factored/Utils/Core.hpp>
#include <AIToolbox/Utils/IndexMap.hpp>
#include <AIToolbox/Factored/Utils/Trie.hpp>
// FasterTrie's private members (keys_, orders_) are read after reconstruct() so that the shuffles it
// performed become inputs of the model.  Everything FasterTrie.hpp includes is already included
// above, so the define only touches the class itself.
#define private public
#include <AIToolbox/Factored/Utils/FasterTrie.hpp>
#undef private
#include <AIToolbox/Factored/Utils/FilterMap.hpp>
using namespace AIToolbox::Factored;

static Factors readFactors(vio::Cursor & c) { auto v = c.nextSizes(); return Factors(v.begin(), v.end()); }
static PartialFactors readPf(vio::Cursor & c) { auto k = readFactors(c); auto v = readFactors(c); return PartialFactors{k, v}; }

// Copy operations, shared by all kinds.  Several objects live side by side; the new one becomes current:
//   cc  copy-construct from the current object        ca  copy-assign the current object into a fresh one
//   mv  move-construct from a temporary copy          ma  move-assign a temporary copy into a fresh one
//   sw <k>  continue on object k
template <typename T, typename Make>
static bool copyOp(const std::string & op, vio::Cursor & c, std::vector<std::unique_ptr<T>> & objs, size_t & cur, Make make) {
    if (op == "cc") { objs.push_back(std::make_unique<T>(*objs[cur])); }
    else if (op == "ca") { auto n = make(); *n = *objs[cur]; objs.push_back(std::move(n)); }
    else if (op == "mv") { T tmp(*objs[cur]); objs.push_back(std::make_unique<T>(std::move(tmp))); }
    else if (op == "ma") { T tmp(*objs[cur]); auto n = make(); *n = std::move(tmp); objs.push_back(std::move(n)); }
    else if (op == "sw") { cur = c.nextSize(); if (cur >= objs.size()) throw std::logic_error("sw: no such object"); return true; }
    else return false;
    cur = objs.size() - 1;
    return true;
}

static void runTrie(vio::Cursor & c, vio::Out & o) {
    Factors F = readFactors(c);
    c.expect("ops");
    std::vector<std::unique_ptr<Trie>> objs; size_t cur = 0;
    objs.push_back(std::make_unique<Trie>(F));
    while (!c.atEnd()) {
        const std::string op = c.next();
        if (copyOp(op, c, objs, cur, [&]{ return std::make_unique<Trie>(F); })) continue;
        Trie & t = *objs[cur];
        if (op == "i") { auto pf = readPf(c); o << t.insert(pf); }
        else if (op == "e") { t.erase(c.nextSize()); }
        else if (op == "E" || op == "X") { size_t id = c.nextSize(); auto pf = readPf(c); t.erase(id, pf); }
        else if (op == "f") { Factors f = readFactors(c); size_t off = c.nextSize(); o.list(t.filter(f, off)); }
        else if (op == "p") { auto pf = readPf(c); o.list(t.filter(pf)); }
        else if (op == "r") { auto ids = c.nextSizes(); auto pf = readPf(c); o.list(t.refine(ids, pf)); }
        else if (op == "z") { o << t.size(); }
        else if (op == "a") { o.list(t.filter(PartialFactors{})); }
        else if (op == "A") { o.list(t.filter(Factors{})); }
        else throw std::logic_error("unknown trie op " + op);
    }
}

// FilterMap<size_t, TrieType>: item stored for id k is 1000 + k; the IndexMap returned by filter is
// iterated and the items are printed (so ids -> items indirection is exercised).
template <typename It>
static std::vector<size_t> items(It && it) { std::vector<size_t> v; for (const auto & x : it) v.push_back(x); return v; }

// Traverses an IndexMap in every way its iterator type offers and compares each traversal with [ref]
// (the range-for traversal, which the driver compares with the spec).  Returns "ok" or the comma
// separated names of the traversals that differ.  Nothing is dereferenced outside [begin, end):
// positions are compared with == first.  [minusOk]: (end - k) == (begin + (n - k)) for every k.
template <typename M>
static std::string traverse(M & im, const std::vector<size_t> & ref, bool & minusOk) {
    std::string bad;
    auto fail = [&](const char * name) { if (!bad.empty()) bad += ","; bad += name; };
    const auto b = im.begin(), e = im.end();
    const std::ptrdiff_t n = (std::ptrdiff_t) ref.size();
    // the positions begin + k, by repeated pre-increment (the reference for the position checks)
    std::vector<std::decay_t<decltype(b)>> pos;
    { auto it = b; for (std::ptrdiff_t k = 0; k < n; ++k) { pos.push_back(it); ++it; } pos.push_back(it); if (!(it == e)) fail("size_vs_end"); }
    if (bad.empty()) {
        { std::vector<size_t> v; for (auto it = b; it != e; ++it) v.push_back(*it); if (v != ref) fail("pre_increment"); }
        { bool ok = true; auto it = b; for (std::ptrdiff_t k = 0; k < n; ++k) { auto old = it++; ok = ok && old == pos[k] && it == pos[k + 1]; } if (!ok) fail("post_increment_value"); 
          else { std::vector<size_t> v; auto jt = b; while (jt != e) v.push_back(*jt++); if (v != ref) fail("post_increment_deref"); } }
        { std::vector<size_t> v(b, e); if (v != ref) fail("iterator_range"); }
        if (std::distance(b, e) != n || (e - b) != n || (std::ptrdiff_t) im.size() != n) fail("distance");
        { bool ok = true; for (std::ptrdiff_t k = 0; k <= n; ++k) { ok = ok && (b + k) == pos[k]; auto it = b; it += k; ok = ok && it == pos[k]; } if (!ok) fail("plus"); }
        { std::vector<size_t> v; for (std::ptrdiff_t k = 0; k < n; ++k) v.push_back(b[k]); if (v != ref) fail("subscript"); }
        { bool ok = true; auto it = e; for (std::ptrdiff_t k = n; k > 0; --k) { --it; ok = ok && it == pos[k - 1]; } if (!ok) fail("pre_decrement"); }
        { bool ok = true; auto it = e; for (std::ptrdiff_t k = n; k > 0; --k) { auto old = it--; ok = ok && old == pos[k] && it == pos[k - 1]; } if (!ok) fail("post_decrement"); }
        { bool ok = true; for (std::ptrdiff_t k = 0; k <= n; ++k) { auto it = e; it -= k; ok = ok && it == pos[n - k]; } if (!ok) fail("minus_assign"); }
        { bool ok = true; for (std::ptrdiff_t k = 0; k < n; ++k) ok = ok && pos[k] < pos[k + 1] && pos[k + 1] > pos[k] && pos[k] <= pos[k + 1] && pos[k + 1] >= pos[k]
                                                                       && !(pos[k + 1] < pos[k]) && pos[k] <= pos[k] && pos[k] >= pos[k] && pos[k] != pos[k + 1];
          if (!ok) fail("comparisons"); }
        { bool ok = true; for (std::ptrdiff_t k = 0; k < n; ++k) { auto it = pos[k]; ok = ok && *(it.operator->()) == ref[k] && *it == ref[k]; } if (!ok) fail("arrow"); }
        { bool ok = true; for (std::ptrdiff_t k = 0; k <= n; ++k) ok = ok && (e - k) == pos[n - k]; minusOk = ok; }
    }
    return bad.empty() ? "ok" : bad;
}

// prints: the range-for traversal, the traversal report for the object and for a const view of it,
// and whether iterator - n works
template <typename M>
static void emit(vio::Out & o, M im) {
    const auto ref = items(im);
    o.list(ref);
    bool m1 = true, m2 = true;
    const M & cim = im;
    std::string r1 = traverse(im, ref, m1), r2 = traverse(cim, ref, m2);
    o << (r1 == "ok" ? r2 : r1) << (m1 && m2);
}

// Every query is issued twice: through the non-const overload (Iterable) and through the const
// overload (ConstIterable) of the same FilterMap; both item lists are printed, in that order.
template <typename TrieType>
static void runFilterMap(vio::Cursor & c, vio::Out & o) {
    Factors F = readFactors(c);
    c.expect("ops");
    using FM = FilterMap<size_t, TrieType>;
    std::vector<std::unique_ptr<FM>> objs; size_t cur = 0;
    objs.push_back(std::make_unique<FM>(F));
    while (!c.atEnd()) {
        const std::string op = c.next();
        if (copyOp(op, c, objs, cur, [&]{ return std::make_unique<FM>(F); })) continue;
        if (op == "gt") {   // a FilterMap built from the current one's trie and container
            objs.push_back(std::make_unique<FM>(objs[cur]->getTrie(), objs[cur]->getContainer())); cur = objs.size() - 1; continue;
        }
        FM & m = *objs[cur];
        const FM & cm = m;
        if (op == "i") { auto pf = readPf(c); m.emplace(pf, 1000 + m.size()); }
        else if (op == "F") { Factors f = readFactors(c); emit(o, m.filter(f)); emit(o, cm.filter(f)); }
        else if (op == "f") {
            Factors f = readFactors(c); size_t off = c.nextSize();
            if constexpr (std::is_same_v<TrieType, Trie>) { emit(o, m.filter(f, off)); emit(o, cm.filter(f, off)); }
            else throw std::logic_error("offset filter needs Trie");
        }
        else if (op == "p") {
            auto pf = readPf(c);
            // FilterMap<T, FasterTrie>::filter(PartialFactors) does not instantiate (FasterTrie has no such overload)
            if constexpr (std::is_same_v<TrieType, Trie>) { emit(o, m.filter(pf)); emit(o, cm.filter(pf)); }
            else throw std::logic_error("PartialFactors filter needs Trie");
        }
        else if (op == "z") {
            // size(), the trie's size, and the container seen through operator[] / begin..end / getContainer
            o << cm.size() << cm.getTrie().size();
            std::vector<size_t> viaIndex, viaIter(cm.begin(), cm.end());
            for (size_t k = 0; k < cm.size(); ++k) viaIndex.push_back(cm[k]);
            o << (viaIndex == cm.getContainer() && viaIter == cm.getContainer() && std::vector<size_t>(m.begin(), m.end()) == viaIter);
            o << (cm.getF() == F);
        }
        else throw std::logic_error("unknown filtermap op " + op);
    }
}

static void runFaster(vio::Cursor & c, vio::Out & o) {
    Factors F = readFactors(c);
    c.expect("ops");
    std::vector<std::unique_ptr<FasterTrie>> objs; size_t cur = 0;
    objs.push_back(std::make_unique<FasterTrie>(F));
    while (!c.atEnd()) {
        const std::string op = c.next();
        if (copyOp(op, c, objs, cur, [&]{ return std::make_unique<FasterTrie>(F); })) continue;
        FasterTrie & t = *objs[cur];
        if (op == "i") { auto pf = readPf(c); o << t.insert(pf); }
        else if (op == "E" || op == "X") { size_t id = c.nextSize(); auto pf = readPf(c); t.erase(id, pf); }
        else if (op == "F") { Factors f = readFactors(c); o.list(t.filter(f)); }
        else if (op == "z") { o << t.size(); }
        else if (op == "R") {
            auto pf = readPf(c); bool remove = c.nextSize() != 0;
            auto [entries, f] = t.reconstruct(pf, remove);
            o << (size_t) entries.size();
            for (const auto & [id, epf] : entries) { o << id; o.list(epf.first); o.list(epf.second); }
            o.list(f);
            // the shuffles: orders_[0], orders_[o+1], and every bucket's order after the call
            o << (size_t) t.orders_.size();
            for (const auto & ord : t.orders_) o.list(ord);
            for (const auto & row : t.keys_)
                for (const auto & bucket : row) {
                    o << (size_t) bucket.size();
                    for (const auto & e : bucket) o << e.first;
                }
        }
        else throw std::logic_error("unknown ftrie op " + op);
    }
}

// IndexMap / IndexSkipMap used directly:  imap <items> <ids> <sorted ids to skip>
// -> for IndexMap owning its ids, IndexMap over a pointer to the ids, IndexMap over a const container:
//    range-for traversal, traversal report, iterator-minus flag;  then IndexSkipMap: range-for traversal,
//    and whether a pre-increment loop over a const view gives the same
static void runIndexMap(vio::Cursor & c, vio::Out & o) {
    std::vector<size_t> itemsV = c.nextSizes(), ids = c.nextSizes(), skip = c.nextSizes();
    const std::vector<size_t> & citems = itemsV;
    emit(o, AIToolbox::IndexMap<std::vector<size_t>, std::vector<size_t>>(ids, itemsV));
    emit(o, AIToolbox::IndexMap<std::vector<size_t>*, std::vector<size_t>>(&ids, itemsV));
    emit(o, AIToolbox::IndexMap<std::vector<size_t>, const std::vector<size_t>>(ids, citems));
    AIToolbox::IndexSkipMap<std::vector<size_t>, std::vector<size_t>> sm(skip, itemsV);
    const auto ref = items(sm);
    o.list(ref);
    const auto & csm = sm;
    std::vector<size_t> v; for (auto it = csm.begin(); it != csm.end(); ++it) v.push_back(*it);
    std::vector<size_t> w; for (auto it = sm.begin(); it != sm.end(); ++it) w.push_back(*(it.operator->()));
    o << (v == ref && w == ref);
}

int main(int argc, char ** argv) {
    return vio::runCases(argc, argv, [](vio::Cursor & c, vio::Out & o) {
        const std::string kind = c.next();
        if (kind == "trie") runTrie(c, o);
        else if (kind == "ftrie") runFaster(c, o);
        else if (kind == "fmT") runFilterMap<Trie>(c, o);
        else if (kind == "fmF") runFilterMap<FasterTrie>(c, o);
        else if (kind == "imap") runIndexMap(c, o);
        else throw std::logic_error("unknown case kind " + kind);
    });
}
