// harness/C20/h.cpp — drives the real Trie / FasterTrie / FilterMap on exact operation histories.
// Case:   trie  <F list> ops <op>*      (Trie, and FilterMap<size_t,Trie> for the "fm" kind)
//         ftrie <F list> ops <op>*      (FasterTrie)
// Ops:    i <pf>            insert                      -> id
//         e <id>            Trie::erase(id)             -> (nothing)
//         E <id> <pf>       erase(id, pf), id stored    -> (nothing)
//         X <id> <pf>       erase(id, pf), id NOT stored (erased before / never inserted)
//         f <f list> <off>  Trie::filter(Factors, offset)   -> id list
//         p <pf>            Trie::filter(PartialFactors)    -> id list
//         r <ids> <pf>      Trie::refine                    -> id list
//         z                 size()                          -> n
//         a / A             filter(PartialFactors{}) / filter(Factors{})  (= getAllIds) -> id list
//         F <f list>        FasterTrie::filter(Factors)     -> id list (order unspecified)
//         R <pf> <remove>   FasterTrie::reconstruct         -> entries (id pf)*, factors, orders_, ids of every bucket
//         cc / ca / mv / ma / sw <k> / gt   copies (see copyOp); all kinds
// <pf> = <keys list> <values list>; lists are count-prefixed.
#include "vio.hpp"
#include <random>
#include <tuple>
#include <algorithm>
#include <memory>
#include <AIToolbox/Factored/Types.hpp>
#include <AIToolbox/Factored/Utils/Core.hpp>
#include <AIToolbox/Utils/IndexMap.hpp>
#include <AIToolbox/Factored/Utils/Trie.hpp>
// FasterTrie's private members (keys_, orders_) are read after reconstruct() so that the shuffles it
// performed become inputs of the model.  Everything FasterTrie.hpp includes is already included
// above, so the define only touches the class itself.
#define private public
#include <AIToolbox/Factored/Utils/FasterTrie.hpp>
#undef private
#include <AIToolbox/Factored/Utils/FilterMap.hpp>
using namespace AIToolbox::Factored;

static Factors readFactors(vio::Cursor & c) { auto v = c.nextSizes(); return Factors(v.begin(), v.end()); }
static PartialFactors readPf(vio::Cursor & c) { auto k = readFactors(c); auto v = readFactors(c); return PartialFactors{k, v}; }

// Copy operations, shared by all kinds.  Several objects live side by side; the new one becomes current:
//   cc  copy-construct from the current object        ca  copy-assign the current object into a fresh one
//   mv  move-construct from a temporary copy          ma  move-assign a temporary copy into a fresh one
//   sw <k>  continue on object k
template <typename T, typename Make>
static bool copyOp(const std::string & op, vio::Cursor & c, std::vector<std::unique_ptr<T>> & objs, size_t & cur, Make make) {
    if (op == "cc") { objs.push_back(std::make_unique<T>(*objs[cur])); }
    else if (op == "ca") { auto n = make(); *n = *objs[cur]; objs.push_back(std::move(n)); }
    else if (op == "mv") { T tmp(*objs[cur]); objs.push_back(std::make_unique<T>(std::move(tmp))); }
    else if (op == "ma") { T tmp(*objs[cur]); auto n = make(); *n = std::move(tmp); objs.push_back(std::move(n)); }
    else if (op == "sw") { cur = c.nextSize(); if (cur >= objs.size()) throw std::logic_error("sw: no such object"); return true; }
    else return false;
    cur = objs.size() - 1;
    return true;
}

static void runTrie(vio::Cursor & c, vio::Out & o) {
    Factors F = readFactors(c);
    c.expect("ops");
    std::vector<std::unique_ptr<Trie>> objs; size_t cur = 0;
    objs.push_back(std::make_unique<Trie>(F));
    while (!c.atEnd()) {
        const std::string op = c.next();
        if (copyOp(op, c, objs, cur, [&]{ return std::make_unique<Trie>(F); })) continue;
        Trie & t = *objs[cur];
        if (op == "i") { auto pf = readPf(c); o << t.insert(pf); }
        else if (op == "e") { t.erase(c.nextSize()); }
        else if (op == "E" || op == "X") { size_t id = c.nextSize(); auto pf = readPf(c); t.erase(id, pf); }
        else if (op == "f") { Factors f = readFactors(c); size_t off = c.nextSize(); o.list(t.filter(f, off)); }
        else if (op == "p") { auto pf = readPf(c); o.list(t.filter(pf)); }
        else if (op == "r") { auto ids = c.nextSizes(); auto pf = readPf(c); o.list(t.refine(ids, pf)); }
        else if (op == "z") { o << t.size(); }
        else if (op == "a") { o.list(t.filter(PartialFactors{})); }
        else if (op == "A") { o.list(t.filter(Factors{})); }
        else throw std::logic_error("unknown trie op " + op);
    }
}

// FilterMap<size_t, TrieType>: item stored for id k is 1000 + k; the IndexMap returned by filter is
// iterated and the items are printed (so ids -> items indirection is exercised).
template <typename It>
static std::vector<size_t> items(It && it) { std::vector<size_t> v; for (const auto & x : it) v.push_back(x); return v; }

// Every query is issued twice: through the non-const overload (Iterable) and through the const
// overload (ConstIterable) of the same FilterMap; both item lists are printed, in that order.
template <typename TrieType>
static void runFilterMap(vio::Cursor & c, vio::Out & o) {
    Factors F = readFactors(c);
    c.expect("ops");
    using FM = FilterMap<size_t, TrieType>;
    std::vector<std::unique_ptr<FM>> objs; size_t cur = 0;
    objs.push_back(std::make_unique<FM>(F));
    while (!c.atEnd()) {
        const std::string op = c.next();
        if (copyOp(op, c, objs, cur, [&]{ return std::make_unique<FM>(F); })) continue;
        if (op == "gt") {   // a FilterMap built from the current one's trie and container
            objs.push_back(std::make_unique<FM>(objs[cur]->getTrie(), objs[cur]->getContainer())); cur = objs.size() - 1; continue;
        }
        FM & m = *objs[cur];
        const FM & cm = m;
        if (op == "i") { auto pf = readPf(c); m.emplace(pf, 1000 + m.size()); }
        else if (op == "F") { Factors f = readFactors(c); o.list(items(m.filter(f))); o.list(items(cm.filter(f))); }
        else if (op == "f") {
            Factors f = readFactors(c); size_t off = c.nextSize();
            if constexpr (std::is_same_v<TrieType, Trie>) { o.list(items(m.filter(f, off))); o.list(items(cm.filter(f, off))); }
            else throw std::logic_error("offset filter needs Trie");
        }
        else if (op == "p") {
            auto pf = readPf(c);
            // FilterMap<T, FasterTrie>::filter(PartialFactors) does not instantiate (FasterTrie has no such overload)
            if constexpr (std::is_same_v<TrieType, Trie>) { o.list(items(m.filter(pf))); o.list(items(cm.filter(pf))); }
            else throw std::logic_error("PartialFactors filter needs Trie");
        }
        else if (op == "z") {
            // size(), the trie's size, and the container seen through operator[] / begin..end / getContainer
            o << cm.size() << cm.getTrie().size();
            std::vector<size_t> viaIndex, viaIter(cm.begin(), cm.end());
            for (size_t k = 0; k < cm.size(); ++k) viaIndex.push_back(cm[k]);
            o << (viaIndex == cm.getContainer() && viaIter == cm.getContainer() && std::vector<size_t>(m.begin(), m.end()) == viaIter);
            o << (cm.getF() == F);
        }
        else throw std::logic_error("unknown filtermap op " + op);
    }
}

static void runFaster(vio::Cursor & c, vio::Out & o) {
    Factors F = readFactors(c);
    c.expect("ops");
    std::vector<std::unique_ptr<FasterTrie>> objs; size_t cur = 0;
    objs.push_back(std::make_unique<FasterTrie>(F));
    while (!c.atEnd()) {
        const std::string op = c.next();
        if (copyOp(op, c, objs, cur, [&]{ return std::make_unique<FasterTrie>(F); })) continue;
        FasterTrie & t = *objs[cur];
        if (op == "i") { auto pf = readPf(c); o << t.insert(pf); }
        else if (op == "E" || op == "X") { size_t id = c.nextSize(); auto pf = readPf(c); t.erase(id, pf); }
        else if (op == "F") { Factors f = readFactors(c); o.list(t.filter(f)); }
        else if (op == "z") { o << t.size(); }
        else if (op == "R") {
            auto pf = readPf(c); bool remove = c.nextSize() != 0;
            auto [entries, f] = t.reconstruct(pf, remove);
            o << (size_t) entries.size();
            for (const auto & [id, epf] : entries) { o << id; o.list(epf.first); o.list(epf.second); }
            o.list(f);
            // the shuffles: orders_[0], orders_[o+1], and every bucket's order after the call
            o << (size_t) t.orders_.size();
            for (const auto & ord : t.orders_) o.list(ord);
            for (const auto & row : t.keys_)
                for (const auto & bucket : row) {
                    o << (size_t) bucket.size();
                    for (const auto & e : bucket) o << e.first;
                }
        }
        else throw std::logic_error("unknown ftrie op " + op);
    }
}

int main(int argc, char ** argv) {
    return vio::runCases(argc, argv, [](vio::Cursor & c, vio::Out & o) {
        const std::string kind = c.next();
        if (kind == "trie") runTrie(c, o);
        else if (kind == "ftrie") runFaster(c, o);
        else if (kind == "fmT") runFilterMap<Trie>(c, o);
        else if (kind == "fmF") runFilterMap<FasterTrie>(c, o);
        else throw std::logic_error("unknown case kind " + kind);
    });
}
