// harness/C11/h.cpp — drives the real reinforcement learners of /repo on exact experience
// sequences and dumps their tables / trace lists / queues after every `every` steps.
// Standard / third-party headers first, then private members are opened for this TU only
// (DoubleQLearning's RNG, PrioritizedSweeping's queue).
#include <cstddef>
#include <cmath>
#include <random>
#include <vector>
#include <tuple>
#include <utility>
#include <string>
#include <sstream>
#include <iostream>
#include <fstream>
#include <algorithm>
#include <limits>
#include <stdexcept>
#include <unordered_map>
#include <unordered_set>
#include <memory>
#include <array>
#include <chrono>
#include <concepts>
#include <type_traits>
#include <functional>
#include <Eigen/Core>
#include <Eigen/Sparse>
#include <boost/heap/fibonacci_heap.hpp>
#include <boost/functional/hash.hpp>
#include <boost/multi_array.hpp>
#include "vio.hpp"

#define private public
#define protected public
#include <AIToolbox/MDP/Algorithms/QLearning.hpp>
#include <AIToolbox/MDP/Algorithms/DoubleQLearning.hpp>
#include <AIToolbox/MDP/Algorithms/HystereticQLearning.hpp>
#include <AIToolbox/MDP/Algorithms/SARSA.hpp>
#include <AIToolbox/MDP/Algorithms/ExpectedSARSA.hpp>
#include <AIToolbox/MDP/Algorithms/SARSAL.hpp>
#include <AIToolbox/MDP/Algorithms/QL.hpp>
#include <AIToolbox/MDP/Algorithms/RetraceL.hpp>
#include <AIToolbox/MDP/Algorithms/TreeBackupL.hpp>
#include <AIToolbox/MDP/Algorithms/ImportanceSampling.hpp>
#include <AIToolbox/MDP/Algorithms/PrioritizedSweeping.hpp>
#include <AIToolbox/MDP/Algorithms/DynaQ.hpp>
#include <AIToolbox/MDP/Algorithms/Dyna2.hpp>
#include <AIToolbox/MDP/Model.hpp>
#undef private
#undef protected

using namespace AIToolbox;
using namespace AIToolbox::MDP;

// A table policy whose entries the harness can overwrite between calls.
struct TablePolicy : public MDP::PolicyInterface {
    Matrix2D table;
    TablePolicy(size_t s, size_t a) : AIToolbox::PolicyInterface<size_t, size_t, size_t>(s, a), table(s, a) { table.setZero(); }
    size_t sampleAction(const size_t &) const override { return 0; }
    double getActionProbability(const size_t & s, const size_t & a) const override { return table(s, a); }
    Matrix2D getPolicy() const override { return table; }
};

static void readMatrix(vio::Cursor & c, Matrix2D & m) {
    for (Eigen::Index i = 0; i < m.rows(); ++i)
        for (Eigen::Index j = 0; j < m.cols(); ++j) m(i, j) = c.nextDouble();
}
static void dumpTable(vio::Out & o, const Matrix2D & m) {
    for (Eigen::Index i = 0; i < m.rows(); ++i)
        for (Eigen::Index j = 0; j < m.cols(); ++j) o << m(i, j);
}
template <typename Traces>
static void dumpTraces(vio::Out & o, const Traces & tr) {
    o << (size_t) tr.size();
    for (const auto & [s, a, el] : tr) { o << s << a << el; }
}

// generative model replaying scripted (s1, rew) samples; records the (s,a) it was asked for
struct ScriptModel {
    size_t S, A; double discount;
    mutable std::vector<std::pair<size_t, double>> script;
    mutable size_t pos = 0;
    mutable std::vector<std::pair<size_t, size_t>> asked;
    size_t getS() const { return S; }
    size_t getA() const { return A; }
    double getDiscount() const { return discount; }
    std::vector<bool> terminal;
    bool isTerminal(size_t s) const { return s < terminal.size() && terminal[s]; }
    std::tuple<size_t, double> sampleSR(size_t s, size_t a) const {
        asked.emplace_back(s, a);
        auto [s1, r] = script.at(pos++);
        return std::make_tuple(s1, r);
    }
    // DynaQ::batchUpdateQ calls model_.sample(s, a)
    std::tuple<size_t, double> sample(size_t s, size_t a) const { return sampleSR(s, a); }
};

// run-time setter op: a single capital letter followed by the new value
static bool isOp(vio::Cursor & c) {
    if (c.atEnd()) return false;
    const std::string & t = c.peek();
    return t.size() == 1 && t[0] >= 'A' && t[0] <= 'Z';
}

// a model answering probability / reward queries only (IsModel, not IsModelEigen): drives the
// non-Eigen branch of PrioritizedSweeping::stepUpdateQ
struct TableModel {
    size_t S, A; double discount;
    std::vector<double> T, R;     // [s][a][s1]
    size_t getS() const { return S; }
    size_t getA() const { return A; }
    double getDiscount() const { return discount; }
    bool isTerminal(size_t) const { return false; }
    double getTransitionProbability(size_t s, size_t a, size_t s1) const { return T[(s * A + a) * S + s1]; }
    double getExpectedReward(size_t s, size_t a, size_t s1) const { return R[(s * A + a) * S + s1]; }
    std::tuple<size_t, double> sampleSR(size_t, size_t) const { return std::make_tuple((size_t) 0, 0.0); }
};
static_assert(MDP::IsModel<TableModel> && !MDP::IsModelEigen<TableModel>);

// policy replaying scripted actions (Dyna2's internal policy)
struct ScriptPolicy : public MDP::PolicyInterface {
    mutable std::vector<size_t> script; mutable size_t pos = 0;
    ScriptPolicy(size_t s, size_t a) : AIToolbox::PolicyInterface<size_t, size_t, size_t>(s, a) {}
    size_t sampleAction(const size_t &) const override { return script.at(pos++); }
    double getActionProbability(const size_t &, const size_t &) const override { return 1.0 / A; }
    Matrix2D getPolicy() const override { Matrix2D m(S, A); m.fill(1.0 / A); return m; }
};

template <typename PS, typename F>
static void runPS(vio::Cursor & c, vio::Out & o, PS & ps, size_t S, size_t A, bool quiesce, F) {
    auto dump = [&]() {
        dumpTable(o, ps.getQFunction());
        const auto & vf = ps.getValueFunction();
        for (size_t s = 0; s < S; ++s) o << vf.values[s];
        for (size_t s = 0; s < S; ++s) o << vf.actions[s];
        o << (size_t) ps.queue_.size();
        for (auto it = ps.queue_.begin(); it != ps.queue_.end(); ++it) o << it->stateAction.first << it->stateAction.second << it->priority;
        o << (size_t) ps.queueHandles_.size();
    };
    if (!quiesce) {
        size_t nops = c.nextSize();
        for (size_t i = 0; i < nops; ++i) {
            const std::string op = c.next();
            if (op == "s") { size_t s = c.nextSize(), a = c.nextSize(); ps.stepUpdateQ(s, a); }
            else if (op == "b") {            // N single pops, reporting queue_.top() before each
                size_t N = c.nextSize(); ps.setN(1);
                std::vector<size_t> tops;
                for (size_t j = 0; j < N && !ps.queue_.empty(); ++j) {
                    auto t = ps.queue_.top(); tops.push_back(t.stateAction.first); tops.push_back(t.stateAction.second);
                    ps.batchUpdateQ();
                }
                o.list(tops);
            } else if (op == "B") { size_t N = c.nextSize(); ps.setN((unsigned) N); ps.batchUpdateQ(); }
            else throw std::logic_error("unknown ps op " + op);
            dump();
        }
    } else {
        for (size_t s = 0; s < S; ++s) for (size_t a = 0; a < A; ++a) ps.stepUpdateQ(s, a);
        ps.setN(1000);
        size_t rounds = 0;
        while (ps.getQueueLength() > 0 && rounds < 2000) { ps.batchUpdateQ(); ++rounds; }
        o << rounds;
        dump();
    }
}

int main(int argc, char ** argv) {
    return vio::runCases(argc, argv, [](vio::Cursor & c, vio::Out & o) {
        const std::string kind = c.next();
        if (kind == "ql" || kind == "hyst" || kind == "dq") {
            size_t S = c.nextSize(), A = c.nextSize();
            double alpha = c.nextDouble();
            double beta = kind == "hyst" ? c.nextDouble() : 0.0;
            double gamma = c.nextDouble();
            size_t every = c.nextSize(), n = c.nextSize();
            QLearning ql(S, A, gamma, alpha);
            HystereticQLearning hy(S, A, gamma, alpha, beta);
            DoubleQLearning dq(S, A, gamma, alpha);
            for (size_t i = 0; i < n; ++i) {
                while (isOp(c)) {
                    const char op = c.next()[0]; const double v = c.nextDouble();
                    if (op == 'A') { ql.setLearningRate(v); hy.setPositiveLearningRate(v); dq.setLearningRate(v); }
                    else if (op == 'B') hy.setNegativeLearningRate(v);
                    else if (op == 'G') { ql.setDiscount(v); hy.setDiscount(v); dq.setDiscount(v); }
                    else throw std::logic_error("unknown setter");
                }
                size_t s = c.nextSize(), a = c.nextSize(), s1 = c.nextSize(); double r = c.nextDouble();
                if (kind == "ql") ql.stepUpdateQ(s, a, s1, r);
                else if (kind == "hyst") hy.stepUpdateQ(s, a, s1, r);
                else {
                    // learn the coin: replay the draw on copies of the private generator/distribution
                    auto rcopy = dq.rand_; auto dcopy = dq.dist_;
                    bool coin = dcopy(rcopy);
                    dq.stepUpdateQ(s, a, s1, r);
                    o << coin;
                }
                if ((i + 1) % every == 0 || i + 1 == n) {
                    if (kind == "ql") dumpTable(o, ql.getQFunction());
                    else if (kind == "hyst") dumpTable(o, hy.getQFunction());
                    else { dumpTable(o, dq.getQFunctionA()); dumpTable(o, dq.getQFunction()); }
                }
            }
        } else if (kind == "sarsa") {
            size_t S = c.nextSize(), A = c.nextSize();
            double alpha = c.nextDouble(), gamma = c.nextDouble();
            size_t every = c.nextSize(), n = c.nextSize();
            SARSA l(S, A, gamma, alpha);
            for (size_t i = 0; i < n; ++i) {
                while (isOp(c)) {
                    const char op = c.next()[0]; const double v = c.nextDouble();
                    if (op == 'A') l.setLearningRate(v); else if (op == 'G') l.setDiscount(v); else throw std::logic_error("unknown setter");
                }
                size_t s = c.nextSize(), a = c.nextSize(), s1 = c.nextSize(), a1 = c.nextSize(); double r = c.nextDouble();
                l.stepUpdateQ(s, a, s1, a1, r);
                if ((i + 1) % every == 0 || i + 1 == n) dumpTable(o, l.getQFunction());
            }
        } else if (kind == "esarsa") {
            size_t S = c.nextSize(), A = c.nextSize();
            double alpha = c.nextDouble(), gamma = c.nextDouble();
            size_t every = c.nextSize(), n = c.nextSize();
            TablePolicy pol(S, A);
            QFunction q = makeQFunction(S, A);
            ExpectedSARSA l(q, pol, gamma, alpha);
            for (size_t i = 0; i < n; ++i) {
                while (isOp(c)) {
                    const char op = c.next()[0]; const double v = c.nextDouble();
                    if (op == 'A') l.setLearningRate(v); else if (op == 'G') l.setDiscount(v); else throw std::logic_error("unknown setter");
                }
                size_t s = c.nextSize(), a = c.nextSize(), s1 = c.nextSize(); double r = c.nextDouble();
                for (size_t x = 0; x < A; ++x) pol.table(s1, x) = c.nextDouble();
                l.stepUpdateQ(s, a, s1, r);
                if ((i + 1) % every == 0 || i + 1 == n) dumpTable(o, l.getQFunction());
            }
        } else if (kind == "sarsal") {
            size_t S = c.nextSize(), A = c.nextSize();
            double alpha = c.nextDouble(), gamma = c.nextDouble(), lambda = c.nextDouble(), tol = c.nextDouble();
            size_t every = c.nextSize(), n = c.nextSize();
            SARSAL l(S, A, gamma, alpha, lambda, tol);
            for (size_t i = 0; i < n; ++i) {
                while (isOp(c)) {
                    const char op = c.next()[0]; const double v = c.nextDouble();
                    if (op == 'A') l.setLearningRate(v); else if (op == 'G') l.setDiscount(v);
                    else if (op == 'L') l.setLambda(v); else if (op == 'T') l.setTolerance(v);
                    else throw std::logic_error("unknown setter");
                }
                size_t s = c.nextSize(), a = c.nextSize(), s1 = c.nextSize(), a1 = c.nextSize(); double r = c.nextDouble();
                l.stepUpdateQ(s, a, s1, a1, r);
                if ((i + 1) % every == 0 || i + 1 == n) { dumpTable(o, l.getQFunction()); dumpTraces(o, l.getTraces()); }
            }
        } else if (kind == "octl" || kind == "oevl") {
            const std::string k = c.next();
            size_t S = c.nextSize(), A = c.nextSize();
            double alpha = c.nextDouble(), gamma = c.nextDouble(), lambda = c.nextDouble(), tol = c.nextDouble();
            double eps = kind == "octl" ? c.nextDouble() : 0.0;
            TablePolicy tgt(S, A), beh(S, A);
            if (kind == "oevl") readMatrix(c, tgt.table);
            readMatrix(c, beh.table);
            size_t every = c.nextSize(), n = c.nextSize();
            std::unique_ptr<QL> c_ql; std::unique_ptr<RetraceL> c_re; std::unique_ptr<TreeBackupL> c_tb; std::unique_ptr<ImportanceSampling> c_is;
            std::unique_ptr<QLEvaluation> e_ql; std::unique_ptr<RetraceLEvaluation> e_re; std::unique_ptr<TreeBackupLEvaluation> e_tb; std::unique_ptr<ImportanceSamplingEvaluation> e_is;
            OffPolicyBase * base = nullptr;
            if (kind == "octl") {
                if (k == "ql") { c_ql = std::make_unique<QL>(S, A, gamma, alpha, lambda, tol, eps); base = c_ql.get(); }
                else if (k == "retrace") { c_re = std::make_unique<RetraceL>(beh, gamma, alpha, lambda, tol, eps); base = c_re.get(); }
                else if (k == "tb") { c_tb = std::make_unique<TreeBackupL>(S, A, gamma, alpha, lambda, tol, eps); base = c_tb.get(); }
                else if (k == "is") { c_is = std::make_unique<ImportanceSampling>(beh, gamma, alpha, tol, eps); base = c_is.get(); }
                else throw std::logic_error("unknown off-policy kind " + k);
            } else {
                if (k == "ql") { e_ql = std::make_unique<QLEvaluation>(tgt, gamma, alpha, lambda, tol); base = e_ql.get(); }
                else if (k == "retrace") { e_re = std::make_unique<RetraceLEvaluation>(tgt, beh, gamma, alpha, lambda, tol); base = e_re.get(); }
                else if (k == "tb") { e_tb = std::make_unique<TreeBackupLEvaluation>(tgt, gamma, alpha, lambda, tol); base = e_tb.get(); }
                else if (k == "is") { e_is = std::make_unique<ImportanceSamplingEvaluation>(tgt, beh, gamma, alpha, tol); base = e_is.get(); }
                else throw std::logic_error("unknown off-policy kind " + k);
            }
            for (size_t i = 0; i < n; ++i) {
                while (isOp(c)) {
                    const char op = c.next()[0]; const double v = c.nextDouble();
                    if (op == 'A') base->setLearningRate(v); else if (op == 'G') base->setDiscount(v);
                    else if (op == 'T') base->setTolerance(v);
                    else if (op == 'L') {
                        if (c_ql) c_ql->setLambda(v); else if (c_re) c_re->setLambda(v); else if (c_tb) c_tb->setLambda(v);
                        else if (e_ql) e_ql->setLambda(v); else if (e_re) e_re->setLambda(v); else if (e_tb) e_tb->setLambda(v);
                        else throw std::logic_error("ImportanceSampling has no lambda");
                    } else if (op == 'E') {
                        if (c_ql) c_ql->setEpsilon(v); else if (c_re) c_re->setEpsilon(v); else if (c_tb) c_tb->setEpsilon(v);
                        else if (c_is) c_is->setEpsilon(v); else throw std::logic_error("evaluation learners have no epsilon");
                    } else throw std::logic_error("unknown setter");
                }
                size_t s = c.nextSize(), a = c.nextSize(), s1 = c.nextSize(); double r = c.nextDouble();
                if (c_ql) c_ql->stepUpdateQ(s, a, s1, r); else if (c_re) c_re->stepUpdateQ(s, a, s1, r);
                else if (c_tb) c_tb->stepUpdateQ(s, a, s1, r); else if (c_is) c_is->stepUpdateQ(s, a, s1, r);
                else if (e_ql) e_ql->stepUpdateQ(s, a, s1, r); else if (e_re) e_re->stepUpdateQ(s, a, s1, r);
                else if (e_tb) e_tb->stepUpdateQ(s, a, s1, r); else e_is->stepUpdateQ(s, a, s1, r);
                if ((i + 1) % every == 0 || i + 1 == n) { dumpTable(o, base->getQFunction()); dumpTraces(o, base->getTraces()); }
            }
        } else if (kind == "ps" || kind == "psq") {
            // ps  S A gamma theta T[a][s][s1] R[s][a] nops (s <s> <a> | b <N> | B <N>)*
            // psq S A gamma theta T R : every pair stepped once, then batches until the queue is empty
            size_t S = c.nextSize(), A = c.nextSize();
            double gamma = c.nextDouble(), theta = c.nextDouble();
            Matrix3D T(A, Matrix2D(S, S)); Matrix2D R(S, A);
            for (size_t a = 0; a < A; ++a) readMatrix(c, T[a]);
            readMatrix(c, R);
            MDP::Model model(NO_CHECK, S, A, std::move(T), std::move(R), gamma);
            PrioritizedSweeping<MDP::Model> ps(model, theta, 1);
            runPS(c, o, ps, S, A, kind == "psq", 0);
        } else if (kind == "psn") {
            // psn S A gamma theta T[s][a][s1] R[s][a][s1] nops ops : non-Eigen branch
            size_t S = c.nextSize(), A = c.nextSize();
            double gamma = c.nextDouble(), theta = c.nextDouble();
            TableModel model{S, A, gamma, {}, {}};
            model.T.resize(S * A * S); model.R.resize(S * A * S);
            for (auto & x : model.T) x = c.nextDouble();
            for (auto & x : model.R) x = c.nextDouble();
            PrioritizedSweeping<TableModel> ps(model, theta, 1);
            runPS(c, o, ps, S, A, false, 0);
        } else if (kind == "dyna2") {
            // dyna2 S A alpha gamma lambda tol <nterm> <terminal states> nops
            //   ( s <s a s1 a1 r> | b <initS> <N> <a0> (<s1> <r> <a1> <ar>)*N | r | P <l> | Q <l> | T <t> )*
            size_t S = c.nextSize(), A = c.nextSize();
            double alpha = c.nextDouble(), gamma = c.nextDouble(), lambda = c.nextDouble(), tol = c.nextDouble();
            ScriptModel model{S, A, gamma};
            model.terminal.assign(S, false);
            for (size_t s : c.nextSizes()) model.terminal.at(s) = true;
            Dyna2<ScriptModel> d(model, alpha, lambda, tol, 1);
            ScriptPolicy * pol = new ScriptPolicy(S, A);
            d.setInternalPolicy(pol);           // Dyna2 owns it from here on
            size_t nops = c.nextSize();
            for (size_t i = 0; i < nops; ++i) {
                const std::string op = c.next();
                if (op == "s") {
                    size_t s = c.nextSize(), a = c.nextSize(), s1 = c.nextSize(), a1 = c.nextSize(); double r = c.nextDouble();
                    d.stepUpdateQ(s, a, s1, a1, r);
                } else if (op == "b") {
                    size_t initS = c.nextSize(), N = c.nextSize(), a0 = c.nextSize();
                    model.script.clear(); model.pos = 0; model.asked.clear();
                    pol->script.clear(); pol->pos = 0; pol->script.push_back(a0);
                    for (size_t j = 0; j < N; ++j) {
                        size_t s1 = c.nextSize(); double r = c.nextDouble(); size_t a1 = c.nextSize(), ar = c.nextSize();
                        model.script.emplace_back(s1, r);
                        pol->script.push_back(a1);
                        if (model.isTerminal(s1)) pol->script.push_back(ar);
                    }
                    d.setN((unsigned) N);
                    d.batchUpdateQ(initS);
                } else if (op == "r") d.resetTransientLearning();
                else if (op == "P") d.setPermanentLambda(c.nextDouble());
                else if (op == "Q") d.setTransientLambda(c.nextDouble());
                else if (op == "T") d.setTolerance(c.nextDouble());
                else throw std::logic_error("unknown dyna2 op " + op);
                dumpTable(o, d.getPermanentQFunction()); dumpTraces(o, d.permanentLearning_.getTraces());
                dumpTable(o, d.getTransientQFunction()); dumpTraces(o, d.transientLearning_.getTraces());
            }
        } else if (kind == "dyna") {
            // dyna S A alpha gamma nops ( s <s> <a> <s1> <r> | b <N> (<s1> <r>)*N )*
            size_t S = c.nextSize(), A = c.nextSize();
            double alpha = c.nextDouble(), gamma = c.nextDouble();
            ScriptModel model{S, A, gamma};
            DynaQ<ScriptModel> d(model, alpha, 1);
            size_t nops = c.nextSize();
            for (size_t i = 0; i < nops; ++i) {
                const std::string op = c.next();
                if (op == "s") {
                    size_t s = c.nextSize(), a = c.nextSize(), s1 = c.nextSize(); double r = c.nextDouble();
                    d.stepUpdateQ(s, a, s1, r);
                } else if (op == "b") {
                    size_t N = c.nextSize();
                    model.script.clear(); model.pos = 0; model.asked.clear();
                    for (size_t j = 0; j < N; ++j) { size_t s1 = c.nextSize(); double r = c.nextDouble(); model.script.emplace_back(s1, r); }
                    d.N = (unsigned) N;          // DynaQ declares setN but never defines it
                    d.batchUpdateQ();
                    o << (size_t) model.asked.size();
                    for (auto & [s, a] : model.asked) o << s << a;
                } else if (op == "a") { d.setLearningRate(c.nextDouble()); }
                else throw std::logic_error("unknown dyna op " + op);
                dumpTable(o, d.getQFunction());
            }
        } else if (kind == "dqstar") {
            // round 6: both tables set to Q* through setQFunction, then ONE stepUpdateQ per successor state with
            // the model's reward; the table is reset before every probe, the generator keeps running (coins vary)
            size_t S = c.nextSize(), A = c.nextSize();
            double alpha = c.nextDouble(), gamma = c.nextDouble();
            for (size_t i = 0; i < A * S * S; ++i) c.nextDouble();          // transition rows (driver only)
            MDP::QFunction q(S, A), rw(S, A);
            for (size_t s = 0; s < S; ++s) for (size_t a = 0; a < A; ++a) q(s, a) = c.nextDouble();
            for (size_t s = 0; s < S; ++s) for (size_t a = 0; a < A; ++a) rw(s, a) = c.nextDouble();
            DoubleQLearning dq(S, A, gamma, alpha);
            size_t np = c.nextSize();
            for (size_t i = 0; i < np; ++i) {
                size_t s = c.nextSize(), a = c.nextSize();
                for (size_t s1 = 0; s1 < S; ++s1) {
                    // every other probe sets the tables through an argument that ALIASES the learner's own sum table
                    // (getQFunction() returns a reference to it): setQFunction(Q*/2) makes the sum table Q*, and
                    // setQFunction(getQFunction()) must then give A = B = Q* exactly as setQFunction(Q*) does
                    if ((i + s1) % 2 == 1) { MDP::QFunction h = q * 0.5; dq.setQFunction(h); dq.setQFunction(dq.getQFunction()); }
                    else dq.setQFunction(q);
                    auto rcopy = dq.rand_; auto dcopy = dq.dist_;
                    bool coin = dcopy(rcopy);
                    dq.stepUpdateQ(s, a, s1, rw(s, a));
                    o << coin;
                    dumpTable(o, dq.getQFunctionA()); dumpTable(o, dq.getQFunction()); dumpTable(o, dq.getQFunctionB());
                }
            }
        } else throw std::logic_error("unknown case kind " + kind);
    });
}
