// harness/C02/h.cpp — runs the real exact POMDP solvers (IncrementalPruning, Witness,
// LinearSupport, RTBSS) and POMDP::Policy on exact cases; dumps full value functions.
#include <AIToolbox/POMDP/Model.hpp>
#include <AIToolbox/POMDP/SparseModel.hpp>
#include <AIToolbox/MDP/Model.hpp>
#include <AIToolbox/MDP/SparseModel.hpp>
#include <AIToolbox/POMDP/Algorithms/IncrementalPruning.hpp>
#include <AIToolbox/POMDP/Algorithms/Witness.hpp>
#include <AIToolbox/POMDP/Algorithms/LinearSupport.hpp>
#include <AIToolbox/POMDP/Algorithms/RTBSS.hpp>
#include <AIToolbox/POMDP/Policies/Policy.hpp>
#include "vio.hpp"
using namespace AIToolbox;


// A user-defined POMDP model: probability queries only (IsModel but not IsModelEigen), wrapping dense tables.
class GenericPOMDP {
    public:
        GenericPOMDP(const POMDP::Model<MDP::Model> & m) : m_(m) {}
        size_t getS() const { return m_.getS(); }
        size_t getA() const { return m_.getA(); }
        size_t getO() const { return m_.getO(); }
        double getDiscount() const { return m_.getDiscount(); }
        bool isTerminal(size_t s) const { return m_.isTerminal(s); }
        double getTransitionProbability(size_t s, size_t a, size_t s1) const { return m_.getTransitionProbability(s, a, s1); }
        double getExpectedReward(size_t s, size_t a, size_t s1) const { return m_.getExpectedReward(s, a, s1); }
        double getObservationProbability(size_t s1, size_t a, size_t o) const { return m_.getObservationProbability(s1, a, o); }
        std::tuple<size_t, double> sampleSR(size_t s, size_t a) const { return m_.sampleSR(s, a); }
        std::tuple<size_t, size_t, double> sampleSOR(size_t s, size_t a) const { return m_.sampleSOR(s, a); }
    private:
        const POMDP::Model<MDP::Model> & m_;
};
static_assert(POMDP::IsModel<GenericPOMDP>);
static_assert(!POMDP::IsModelEigen<GenericPOMDP>);

// A user-defined Eigen model (IsModelEigen) whose matrix accessors return BY VALUE (e.g. computed on request)
class ByValuePOMDP {
    public:
        ByValuePOMDP(const POMDP::Model<MDP::Model> & m) : m_(m) {}
        size_t getS() const { return m_.getS(); }
        size_t getA() const { return m_.getA(); }
        size_t getO() const { return m_.getO(); }
        double getDiscount() const { return m_.getDiscount(); }
        bool isTerminal(size_t s) const { return m_.isTerminal(s); }
        double getTransitionProbability(size_t s, size_t a, size_t s1) const { return m_.getTransitionProbability(s, a, s1); }
        double getExpectedReward(size_t s, size_t a, size_t s1) const { return m_.getExpectedReward(s, a, s1); }
        double getObservationProbability(size_t s1, size_t a, size_t o) const { return m_.getObservationProbability(s1, a, o); }
        std::tuple<size_t, double> sampleSR(size_t s, size_t a) const { return m_.sampleSR(s, a); }
        std::tuple<size_t, size_t, double> sampleSOR(size_t s, size_t a) const { return m_.sampleSOR(s, a); }
        Matrix2D getTransitionFunction(size_t a) const { return m_.getTransitionFunction(a); }
        Matrix2D getObservationFunction(size_t a) const { return m_.getObservationFunction(a); }
        Matrix2D getRewardFunction() const { return m_.getRewardFunction(); }
    private:
        const POMDP::Model<MDP::Model> & m_;
};
static_assert(POMDP::IsModelEigen<ByValuePOMDP>);

struct Tables { size_t S, A, O; double g; DumbMatrix3D T, R, Ob; };

static Tables readPomdp(vio::Cursor & c) {
    Tables t; t.S = c.nextSize(); t.A = c.nextSize(); t.O = c.nextSize(); t.g = c.nextDouble();
    t.T.resize(boost::extents[t.S][t.A][t.S]); t.R.resize(boost::extents[t.S][t.A][t.S]); t.Ob.resize(boost::extents[t.S][t.A][t.O]);
    for (size_t a = 0; a < t.A; ++a) for (size_t s = 0; s < t.S; ++s) for (size_t s1 = 0; s1 < t.S; ++s1) t.T[s][a][s1] = c.nextDouble();
    for (size_t s = 0; s < t.S; ++s) for (size_t a = 0; a < t.A; ++a) { double r = c.nextDouble(); for (size_t s1 = 0; s1 < t.S; ++s1) t.R[s][a][s1] = r; }
    for (size_t a = 0; a < t.A; ++a) for (size_t s1 = 0; s1 < t.S; ++s1) for (size_t o = 0; o < t.O; ++o) t.Ob[s1][a][o] = c.nextDouble();
    return t;
}

static void dumpVF(vio::Out & o, const POMDP::ValueFunction & vf) {
    o << vf.size();
    for (const auto & l : vf) {
        o << l.size();
        for (const auto & e : l) {
            o << e.action; o.list(e.observations);
            o << (size_t) e.values.size(); for (Eigen::Index i = 0; i < e.values.size(); ++i) o << e.values[i];
        }
    }
}

template <typename M>
static void solve(const std::string & alg, const M & model, unsigned h, vio::Out & o, const M * first = nullptr, unsigned hFirst = 0) {
    // with [first]: ONE solver object solves *first (horizon hFirst) and then, after setHorizon(h), the model of interest
    if (alg == "ip")  { POMDP::IncrementalPruning s(first ? hFirst : h, 0.0); if (first) { s(*first); s.setHorizon(h); } auto [var, vf] = s(model); o << var; dumpVF(o, vf); }
    else if (alg == "wit") {
        // transcript of the real LP answers (hook events, AITOOLBOX_VERIF): Q <t> <a> <cand> <0|1 b> <rows>  /  D <t> <a> <entries>
        struct Ev { bool query; unsigned t; size_t a; std::vector<double> cand; bool has; std::vector<double> b; POMDP::VList found; };
        std::vector<Ev> evs;
        POMDP::Witness::verifEventObserver() = [&](const POMDP::Witness::VerifEvent & e) {
            Ev x; x.query = e.kind == POMDP::Witness::VerifEvent::Query; x.t = e.timestep; x.a = e.action; x.has = false;
            if (x.query) {
                for (Eigen::Index i = 0; i < e.candidate->size(); ++i) x.cand.push_back((*e.candidate)[i]);
                if (*e.witness) { x.has = true; for (Eigen::Index i = 0; i < (*e.witness)->size(); ++i) x.b.push_back((**e.witness)[i]); }
            }
            x.found = *e.found;
            evs.push_back(std::move(x));
        };
        POMDP::Witness s(first ? hFirst : h, 0.0);
        if (first) { auto keep = POMDP::Witness::verifEventObserver(); POMDP::Witness::verifEventObserver() = nullptr; s(*first); s.setHorizon(h); POMDP::Witness::verifEventObserver() = keep; }
        try { auto [var, vf] = s(model); o << var; dumpVF(o, vf); }
        catch (...) { POMDP::Witness::verifEventObserver() = nullptr; throw; }
        POMDP::Witness::verifEventObserver() = nullptr;
        o << evs.size();
        for (const auto & e : evs) {
            o << (e.query ? "Q" : "D") << e.t << e.a;
            if (e.query) { o.list(e.cand); o << (e.has ? 1 : 0); o.list(e.b); }
            o << e.found.size();
            for (const auto & f : e.found) {
                o << f.action; o.list(f.observations);
                o << (size_t) f.values.size(); for (Eigen::Index i = 0; i < f.values.size(); ++i) o << f.values[i];
            }
        }
    }
    else if (alg == "ls")  { POMDP::LinearSupport s(first ? hFirst : h, 0.0); if (first) { s(*first); s.setHorizon(h); } auto [var, vf] = s(model); o << var; dumpVF(o, vf); }
    else throw std::logic_error("unknown solver " + alg);
}

// RTBSS on a fresh object, and on an object that was constructed while the model still had a much smaller discount
// and that answered another query before the discount was set to its final value (RTBSS keeps a reference to the
// model): both answers must be the same
template <typename M>
static void runRtbss(M & model, double maxR, const POMDP::Belief & b, unsigned h, vio::Out & o) {
    { POMDP::RTBSS s(model, maxR); auto [a, v] = s.sampleAction(b, h); o << a << v; }
    const double g = model.getDiscount();
    if constexpr (requires { model.setDiscount(0.5); }) model.setDiscount(g / 8);
    POMDP::RTBSS s2(model, maxR);
    { POMDP::Belief u(b.size()); u.fill(1.0 / b.size()); s2.sampleAction(u, h > 1 ? h - 1 : 1); }
    if constexpr (requires { model.setDiscount(0.5); }) model.setDiscount(g);
    auto [a2, v2] = s2.sampleAction(b, h); o << a2 << v2;
}

int main(int argc, char ** argv) {
    return vio::runCases(argc, argv, [](vio::Cursor & c, vio::Out & o) {
        const std::string kind = c.next();
        if (kind == "solve") {          // solve <alg> <dense|sparse> <h> <pomdp> <nb> <beliefs…>
            const std::string alg = c.next(); const std::string repr = c.next(); unsigned h = c.nextSize();
            Tables t = readPomdp(c);
            POMDP::Model<MDP::Model> dense(t.O, t.Ob, t.S, t.A, t.T, t.R, t.g);
            if (repr == "dense") solve(alg, dense, h, o);
            else if (repr == "generic") { GenericPOMDP g(dense); solve(alg, g, h, o); }
            else if (repr == "byvalue") { ByValuePOMDP x(dense); solve(alg, x, h, o); }
            else if (repr == "mixed1") { POMDP::Model<MDP::SparseModel> x(dense); solve(alg, x, h, o); }
            else if (repr == "mixed2") { POMDP::SparseModel<MDP::Model> x(dense); solve(alg, x, h, o); }
            else { POMDP::SparseModel<MDP::SparseModel> sp(dense); solve(alg, sp, h, o); }
        } else if (kind == "resolve") {   // resolve <alg> <repr> <hA> <pomdpA> <h> <pomdp> <nb> <beliefs…>: solver object reused
            const std::string alg = c.next(); const std::string repr = c.next(); unsigned hA = c.nextSize();
            Tables ta = readPomdp(c);
            unsigned h = c.nextSize();
            Tables t = readPomdp(c);
            POMDP::Model<MDP::Model> denseA(ta.O, ta.Ob, ta.S, ta.A, ta.T, ta.R, ta.g);
            POMDP::Model<MDP::Model> dense(t.O, t.Ob, t.S, t.A, t.T, t.R, t.g);
            if (repr == "dense") solve(alg, dense, h, o, &denseA, hA);
            else if (repr == "generic") { GenericPOMDP ga(denseA); GenericPOMDP g(dense); solve(alg, g, h, o, &ga, hA); }
            else { POMDP::SparseModel<MDP::SparseModel> spa(denseA); POMDP::SparseModel<MDP::SparseModel> sp(dense); solve(alg, sp, h, o, &spa, hA); }
        } else if (kind == "rtbss") {   // rtbss <dense|sparse> <h> <maxR> <pomdp> <belief>
            const std::string repr = c.next(); unsigned h = c.nextSize(); double maxR = c.nextDouble();
            Tables t = readPomdp(c);
            auto bv = c.nextDoubles(); POMDP::Belief b(bv.size()); for (size_t i = 0; i < bv.size(); ++i) b[i] = bv[i];
            POMDP::Model<MDP::Model> dense(t.O, t.Ob, t.S, t.A, t.T, t.R, t.g);
            if (repr == "dense") runRtbss(dense, maxR, b, h, o);
            else if (repr == "generic") { GenericPOMDP g(dense); runRtbss(g, maxR, b, h, o); }
            else if (repr == "byvalue") { ByValuePOMDP x(dense); runRtbss(x, maxR, b, h, o); }
            else if (repr == "mixed1") { POMDP::Model<MDP::SparseModel> x(dense); runRtbss(x, maxR, b, h, o); }
            else if (repr == "mixed2") { POMDP::SparseModel<MDP::Model> x(dense); runRtbss(x, maxR, b, h, o); }
            else { POMDP::SparseModel<MDP::SparseModel> sp(dense); runRtbss(sp, maxR, b, h, o); }
        } else throw std::logic_error("unknown case kind " + kind);
    });
}
