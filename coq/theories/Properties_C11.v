(* Properties_C11.v — property C11: reinforcement learners apply exactly their documented backup.
   Only statements, each closed by [exact <lemma>] and followed by Print Assumptions. *)
From Coq Require Import List Arith QArith Qminmax Lqa Lia Bool.
From AIT Require Import Base.Qx Base.Mdp C11.Model C11.Spec C11.Proofs C11.ProofsTraces C11.ProofsPS C11.ProofsFix C11.ProofsSetters C11.ProofsIndex C11.ProofsLink.
From AIT Require C01.Model C10.Model.
Import ListNotations.
Local Open Scope Q_scope.

(* ---- one-step learners: every entry stays in [rmin,rmax]/(1-gamma) (DESIGN Appendix A statement) *)
Theorem ql_bounded : forall nS nA alpha g rmin rmax hist,
  (0 < nA)%nat -> 0 < alpha -> alpha <= 1 -> 0 < g -> g < 1 -> rmin <= 0 -> 0 <= rmax ->
  Forall (fun e : nat * nat * nat * Q => let '(s, a, s1, r) := e in
            (s < nS)%nat /\ (a < nA)%nat /\ (s1 < nS)%nat /\ rmin <= r /\ r <= rmax) hist ->
  in_box (rmin / (1 - g)) (rmax / (1 - g))
         (fold_left (ql_step alpha g) hist (repeat (repeat 0 nA) nS)).
Proof. exact ql_bounded_lemma. Qed.
Print Assumptions ql_bounded.

Theorem sarsa_bounded : forall nS nA alpha g rmin rmax hist,
  0 < alpha -> alpha <= 1 -> 0 < g -> g < 1 -> rmin <= 0 -> 0 <= rmax ->
  Forall (exp5_ok nS nA rmin rmax) hist ->
  in_box (rmin / (1 - g)) (rmax / (1 - g)) (fold_left (sarsa_step alpha g) hist (qzero nS nA)).
Proof. exact sarsa_bounded_lemma. Qed.
Print Assumptions sarsa_bounded.

Theorem expected_sarsa_bounded : forall nS nA alpha g rmin rmax hist,
  0 < alpha -> alpha <= 1 -> 0 < g -> g < 1 -> rmin <= 0 -> 0 <= rmax ->
  Forall (expE_ok nS nA rmin rmax) hist ->
  in_box (rmin / (1 - g)) (rmax / (1 - g)) (fold_left (esarsa_step alpha g) hist (qzero nS nA)).
Proof. exact expected_sarsa_bounded_lemma. Qed.
Print Assumptions expected_sarsa_bounded.

Theorem hysteretic_bounded : forall nS nA alpha beta g rmin rmax hist,
  0 < alpha -> alpha <= 1 -> 0 <= beta -> beta <= 1 -> 0 < g -> g < 1 -> rmin <= 0 -> 0 <= rmax ->
  Forall (exp_ok nS nA rmin rmax) hist ->
  in_box (rmin / (1 - g)) (rmax / (1 - g)) (fold_left (hyst_step alpha beta g) hist (qzero nS nA)).
Proof. exact hysteretic_bounded_lemma. Qed.
Print Assumptions hysteretic_bounded.

(* both tables: qa and qb = qc - qa, for every sequence of coin flips *)
Theorem doubleq_bounded : forall nS nA alpha g rmin rmax hist,
  0 < alpha -> alpha <= 1 -> 0 < g -> g < 1 -> rmin <= 0 -> 0 <= rmax ->
  Forall (expD_ok nS nA rmin rmax) hist ->
  let st := fold_left (dq_step alpha g) hist (qzero nS nA, qzero nS nA) in
  boxed2 (rmin / (1 - g)) (rmax / (1 - g)) (fst st) (snd st).
Proof. exact doubleq_bounded_lemma. Qed.
Print Assumptions doubleq_bounded.

(* hypotheses are satisfiable on a non-trivial history (rewards of both signs) *)
Definition ex_hist : list (nat * nat * nat * Q) := [(0%nat, 1%nat, 1%nat, 2); (1%nat, 0%nat, 0%nat, -(1))].
Example ex_ql_hist :
  Forall (exp_ok 2 2 (-(1)) 2) ex_hist /\
  qget (fold_left (ql_step (1#2) (1#2)) ex_hist (qzero 2 2)) 1 0 == -(1#4).
Proof.
  split; [| vm_compute; reflexivity].
  repeat (constructor; [cbn; repeat split; try lia; lra|]). constructor.
Qed.

(* ---- eligibility-trace learners (SARSAL, OffPolicyControl/Evaluation with QL, RetraceL, TreeBackupL):
        a history is any sequence of their steps applied to (q0, no traces) *)
Theorem trace_range : forall p hist q0, tparams_ok p -> Forall tstep_lam hist ->
  traces_in (tp_tol p) (snd (fold_left (tstep_apply p) hist (q0, []))).
Proof. exact trace_range_lemma. Qed.
Print Assumptions trace_range.

(* holds for ImportanceSampling too *)
Theorem traces_unique_keys : forall p hist q0,
  uniq_keys (snd (fold_left (tstep_apply p) hist (q0, []))).
Proof. exact traces_unique_keys_lemma. Qed.
Print Assumptions traces_unique_keys.

(* lambda = 0: after any history, the next step writes exactly the one-step expected backup of the
   target policy (point mass on a1 for SARSAL, epsilon-greedy on the current table for the control
   variants, the supplied target row for the evaluation variants) and leaves every other entry alone *)
Theorem lambda0_is_one_step : forall p hist t,
  tp_lam p == 0 -> (1 <= tp_nA p)%nat -> tstep_lam t -> tstep_inrange p t ->
  let st := fold_left (tstep_apply p) hist (qzero (tp_nS p) (tp_nA p), []) in
  let '(s1, r, prow) := tstep_target p (fst st) t in
  is_update (fst st) (fst (tstep_apply p st t)) (fst (tstep_key t)) (snd (tstep_key t))
            (one_step (tp_alpha p) (tp_g p) (fst st) (fst (tstep_key t)) (snd (tstep_key t)) s1 r prow).
Proof. exact lambda0_is_one_step_lemma. Qed.
Print Assumptions lambda0_is_one_step.

Definition ex_tp : tparams :=
  {| tp_alpha := 1#2; tp_g := 3#4; tp_lam := 1#2; tp_tol := 1#8; tp_eps := 1#4; tp_nS := 2; tp_nA := 2 |}.
Definition ex_thist : list tstep :=
  [TCtrl KRetrace (0%nat, 1%nat, 1%nat, 2, 1#2); TSarsal (1%nat, 0%nat, 0%nat, 1%nat, -(1));
   TEval KTreeBackup (0%nat, 0%nat, 1%nat, 1, [1#4; 3#4], 1#4, 1#2); TCtrl KQL (1%nat, 1%nat, 0%nat, 0, 1)].
(* a history satisfying the hypotheses on which a trace is really cut off (4 steps, two traces cut off at step 3, 2 left) *)
Example ex_trace_hist :
  tparams_ok ex_tp /\ Forall tstep_lam ex_thist /\ Forall (tstep_inrange ex_tp) ex_thist /\
  length (snd (fold_left (tstep_apply ex_tp) ex_thist (qzero 2 2, []))) = 2%nat.
Proof.
  split; [unfold tparams_ok; cbn; repeat split; try lra; lia|].
  split; [| split; [| vm_compute; reflexivity]].
  - unfold ex_thist. repeat constructor; cbn; try congruence; try lra.
  - unfold ex_thist. repeat constructor; cbn; lia.
Qed.

(* ---- prioritized sweeping, theta = 0: after any sequence of stepUpdateQ / batchUpdateQ calls (the
        heap may return any maximal element on ties), V = max Q and every pair backed up so far
        ([ps_done], ghost) is queued or satisfies Q(s,a) == R(s,a) + gamma * sum_s' T(s,a,s') V(s') *)
Theorem ps_invariant : forall m theta ops st, wf_mdp m -> theta == 0 ->
  Forall (ps_op_ok m) ops -> ps_run m theta ops = PsOk st -> ps_inv m st.
Proof. exact ps_invariant_lemma. Qed.
Print Assumptions ps_invariant.

(* quiescent + every pair backed up  ==>  Q is a Bellman fixed point and V has zero residual, i.e.
   (by C01's approx_fixpoints_close) V is value iteration's limit *)
Theorem ps_quiescent_is_bellman : forall m st, wf_mdp m -> ps_inv m st -> ps_queue st = [] ->
  (forall s a, (s < nS m)%nat -> (a < nA m)%nat -> In (s, a) (ps_done st)) ->
  (forall s a, (s < nS m)%nat -> (a < nA m)%nat -> qget (ps_q st) s a == q_of m (ps_v st) s a) /\
  residual_le m (ps_v st) 0.
Proof. exact ps_quiescent_lemma. Qed.
Print Assumptions ps_quiescent_is_bellman.

Definition ex_mdp : mdp :=
  {| nS := 2; nA := 1; P := [[[1#2; 1#2]; [0; 1]]]; R := [[1]; [0]]; gam := 1#2 |}.
(* a well-formed MDP and a run (two steps, one batch of two pops) that ends with a non-empty queue *)
Example ex_mdp_wf : wf_mdp ex_mdp.
Proof.
  unfold wf_mdp, ex_mdp; cbn [nS nA P R gam].
  split; [lia|]. split; [lia|]. split; [lra|]. split; [lra|]. split; [reflexivity|]. split; [reflexivity|].
  split; [| split].
  - intros a Ha. assert (a = 0)%nat by lia. subst. reflexivity.
  - intros a s Ha Hs. assert (a = 0)%nat by lia. subst.
    destruct s as [|[|s]]; try lia; (split; [reflexivity| split; [repeat constructor; lra| cbn; lra]]).
  - intros s Hs. destruct s as [|[|s]]; try lia; reflexivity.
Qed.
Example ex_ps_run :
  match ps_run ex_mdp 0 [PsStep 0 0; PsStep 1 0; PsBatch 2 [(0%nat, 0%nat); (0%nat, 0%nat)]] with
  | PsOk st => ps_queue st <> [] /\ length (ps_done st) = 4%nat
  | PsBadChoice => False
  end.
Proof. vm_compute. split; [discriminate| reflexivity]. Qed.

(* ---- DynaQ's embedded learner: direct steps and model-sampled batch steps (any sampled indices,
        any sampled successor states, sampled rewards in [rmin,rmax]) keep the table in the box *)
Theorem dynaq_bounded : forall nS nA alpha g rmin rmax ops,
  0 < alpha -> alpha <= 1 -> 0 < g -> g < 1 -> rmin <= 0 -> 0 <= rmax ->
  Forall (dyna_op_ok rmin rmax) ops ->
  match fold_left (dyna_apply alpha g) ops (Some (qzero nS nA, [])) with
  | Some st => in_box (rmin / (1 - g)) (rmax / (1 - g)) (fst st)
  | None => True
  end.
Proof. exact dynaq_bounded_lemma. Qed.
Print Assumptions dynaq_bounded.

(* ---- fixed points: on a deterministic transition of m, one step from Q* with the sample the MDP
        produces returns Q* (entrywise ==) *)
Theorem ql_optimal_fixpoint : forall m alpha q s a s1,
  is_qstar m q -> (s < nS m)%nat -> (a < nA m)%nat -> det_at m s a s1 ->
  qeqv (ql_step alpha (gam m) q (s, a, s1, nthq (row (R m) s) a)) q.
Proof. exact ql_optimal_fixpoint_lemma. Qed.
Print Assumptions ql_optimal_fixpoint.

Theorem hysteretic_optimal_fixpoint : forall m alpha beta q s a s1,
  is_qstar m q -> (s < nS m)%nat -> (a < nA m)%nat -> det_at m s a s1 ->
  qeqv (hyst_step alpha beta (gam m) q (s, a, s1, nthq (row (R m) s) a)) q.
Proof. exact hysteretic_optimal_fixpoint_lemma. Qed.
Print Assumptions hysteretic_optimal_fixpoint.

(* evaluation learners: a table consistent with its own one-step target is left unchanged *)
Theorem sarsa_consistent_fixpoint : forall alpha g q s a s1 a1 r,
  qget q s a == r + g * qget q s1 a1 -> qeqv (sarsa_step alpha g q (s, a, s1, a1, r)) q.
Proof. exact sarsa_consistent_fix. Qed.
Print Assumptions sarsa_consistent_fixpoint.

Theorem expected_sarsa_consistent_fixpoint : forall alpha g q s a s1 r prow,
  qget q s a == r + g * dot prow (row q s1) -> qeqv (esarsa_step alpha g q (s, a, s1, r, prow)) q.
Proof. exact esarsa_consistent_fix. Qed.
Print Assumptions expected_sarsa_consistent_fixpoint.

(* a deterministic 2-state MDP (0 -> 1 -> 1, rewards 1 then 2, gamma 1/2) and its Q* = [[3],[4]] *)
Definition ex_det : mdp := {| nS := 2; nA := 1; P := [[[0; 1]; [0; 1]]]; R := [[1]; [2]]; gam := 1#2 |}.
Example ex_qstar : is_qstar ex_det [[3]; [4]] /\ det_at ex_det 0 0 1.
Proof.
  split.
  - intros s a Hs Ha. cbn in Hs, Ha. assert (a = 0)%nat by lia. subst.
    destruct s as [|[|s]]; try lia; vm_compute; reflexivity.
  - intros v. unfold det_at, trow, ex_det, row, nthq. cbn [P nth]. destruct v as [|x [|y v]]; cbn [dot nth]; lra.
Qed.

(* ---- DoubleQLearning at the optimum: qa = qb = Qstar (qc = 2 Qstar), deterministic transition: either
        coin leaves both stored tables unchanged *)
Theorem doubleq_optimal_fixpoint : forall m alpha qa qc coin s a s1,
  wf_mdp m -> is_qstar m qa -> shape (nS m) (nA m) qa -> shape (nS m) (nA m) qc ->
  (forall x y, qget qc x y == qget qa x y + qget qa x y) ->
  (s < nS m)%nat -> (a < nA m)%nat -> (s1 < nS m)%nat -> det_at m s a s1 ->
  let st' := dq_step alpha (gam m) (qa, qc) (coin, s, a, s1, nthq (row (R m) s) a) in
  qeqv (fst st') qa /\ qeqv (snd st') qc.
Proof. exact doubleq_optimal_fixpoint_lemma. Qed.
Print Assumptions doubleq_optimal_fixpoint.

(* ---- prioritized sweeping reproduces value iteration (C01's contraction corollary, imported):
        at quiescence with every pair backed up, V is within e/(1-gamma) of ANY vector of Bellman
        residual e, and Q within gamma*e/(1-gamma) of its look-ahead ... *)
Theorem ps_reproduces_value_iteration : forall m st w e, wf_mdp m -> ps_inv m st -> ps_queue st = [] ->
  (forall s a, (s < nS m)%nat -> (a < nA m)%nat -> In (s, a) (ps_done st)) ->
  residual_le m w e ->
  close (e / (1 - gam m)) (ps_v st) w /\
  (forall s a, (s < nS m)%nat -> (a < nA m)%nat ->
     - (gam m * (e / (1 - gam m))) <= qget (ps_q st) s a - q_of m w s a /\
     qget (ps_q st) s a - q_of m w s a <= gam m * (e / (1 - gam m))).
Proof. exact ps_reproduces_vi_lemma. Qed.
Print Assumptions ps_reproduces_value_iteration.

(* ... in particular of the output of C01's model of MDP::ValueIteration, whatever stopped its loop *)
Theorem ps_reproduces_vi_run : forall m st h tol v0, wf_mdp m -> ps_inv m st -> ps_queue st = [] ->
  (forall s a, (s < nS m)%nat -> (a < nA m)%nat -> In (s, a) (ps_done st)) ->
  epsS < tol -> (0 < h)%nat ->
  let '(var, v, acts, qv) := AIT.C01.Model.vi_run m h tol v0 in
  close (gam m * var / (1 - gam m)) (ps_v st) v.
Proof. exact ps_reproduces_vi_run_lemma. Qed.
Print Assumptions ps_reproduces_vi_run.

(* ---- OffPolicyBase::updateTraces: the index-based model with checked accesses (C10/Model.v: every
        traces_[i], swap, pop_back and q_(s,a) is checked, size_t counter with the --i wrap) returns Ok
        and exactly the zone-list model's result, on one call and on whole histories *)
Theorem updateTraces_index_eq_zone : forall nS nA s a err td tol q tr,
  shape nS nA q -> (s < nS)%nat -> (a < nA)%nat -> keys_in nS nA tr ->
  AIT.C10.Model.updateTraces s a err td tol (q, tr) = AIT.C10.Model.Ok (update_traces s a err td tol (q, tr)) /\
  shape nS nA (fst (update_traces s a err td tol (q, tr))) /\
  keys_in nS nA (snd (update_traces s a err td tol (q, tr))).
Proof. exact updateTraces_index_eq_zone_lemma. Qed.
Print Assumptions updateTraces_index_eq_zone.

Theorem updateTraces_history_index_eq_zone : forall nS nA tol ops q tr,
  shape nS nA q -> keys_in nS nA tr ->
  Forall (fun o : nat * nat * Q * Q => (fst (fst (fst o)) < nS)%nat /\ (snd (fst (fst o)) < nA)%nat) ops ->
  AIT.C10.Model.updateTraces_history ops tol (q, tr) =
  AIT.C10.Model.Ok (fold_left (fun st (o : nat * nat * Q * Q) =>
                     update_traces (fst (fst (fst o))) (snd (fst (fst o))) (snd (fst o)) (snd o) tol st) ops (q, tr)).
Proof. exact updateTraces_history_eq_lemma. Qed.
Print Assumptions updateTraces_history_index_eq_zone.

(* ---- SARSAL under its run-time setters (setLambda / setDiscount / setLearningRate / setTolerance in any
        order, cached gammaL_ modelled): however lambda became 0, the next step is one-step SARSA ... *)
Theorem sarsal_setters_lambda0 : forall nS nA alpha g lam tol ops s a s1 a1 r,
  0 <= lam -> lam <= 1 -> 0 <= g -> g <= 1 -> tol <= 1 -> Forall sl_op_ok ops ->
  (s < nS)%nat -> (a < nA)%nat -> (s1 < nS)%nat -> (a1 < nA)%nat ->
  let x := fold_left sl_apply ops (sl_ctor alpha g lam tol, (qzero nS nA, [])) in
  sl_lam (fst x) == 0 ->
  is_update (fst (snd x)) (fst (sarsal_step_p (fst x) (snd x) (s, a, s1, a1, r))) s a
            (one_step (sl_alpha (fst x)) (sl_g (fst x)) (fst (snd x)) s a s1 r (point_row nA a1)).
Proof. exact sarsal_setters_lambda0_lemma. Qed.
Print Assumptions sarsal_setters_lambda0.

(* ... and after every step the traces lie in [current tolerance, 1] with unique keys *)
Theorem sarsal_setters_trace_range : forall nS nA alpha g lam tol ops e,
  0 <= lam -> lam <= 1 -> 0 <= g -> g <= 1 -> tol <= 1 -> Forall sl_op_ok ops ->
  let x := fold_left sl_apply ops (sl_ctor alpha g lam tol, (qzero nS nA, [])) in
  traces_in (sl_tol (fst x)) (snd (sarsal_step_p (fst x) (snd x) e)) /\
  uniq_keys (snd (sarsal_step_p (fst x) (snd x) e)).
Proof. exact sarsal_setters_trace_range_lemma. Qed.
Print Assumptions sarsal_setters_trace_range.

(* ---- OffPolicyControl (RetraceL / TreeBackupL / ImportanceSampling), REPAIRED code
        (fixes/C11-offpolicy-trace-state.patch): the traces are cut with gamma times the documented factor,
        built from the epsilon-greedy target probability of the pair (s,a) that was acted *)
Theorem offctrl_trace_cut_documented : forall k alpha g lam tol eps nA st s a s1 r mu,
  exists err td, offctrl_step k alpha g lam tol eps nA st (s, a, s1, r, mu) = update_traces s a err td tol st /\
    (length (row (fst st) s) = nA -> (a < nA)%nat -> td == g * doc_ctrl_discount k lam eps (fst st) s a mu).
Proof. exact offctrl_step_documented. Qed.
Print Assumptions offctrl_trace_cut_documented.

(* the code as it stands in the unrepaired tree does not: two TreeBackup steps after which the documented
   factor is 1 (trace of (0,1) stays 1) while the legacy step zeroes that trace *)
Theorem offctrl_legacy_trace_cut_refuted :
  snd wit_legacy = [(0%nat, 1%nat, 0); (1%nat, 0%nat, 1)] /\
  snd wit_fixed = [(0%nat, 1%nat, 1); (1%nat, 0%nat, 1)] /\
  doc_ctrl_discount KTreeBackup 1 0 (fst (fold_left (offctrl_step KTreeBackup 1 1 1 0 0 2) [(0%nat, 1%nat, 1%nat, 1, 1#2)] (qzero 2 2, []))) 1 0 (1#2) == 1.
Proof. exact offctrl_legacy_refuted_lemma. Qed.
Print Assumptions offctrl_legacy_trace_cut_refuted.

(* a setter history that brings lambda to 0 after construction with lambda = 1 *)
Example ex_setters :
  Forall sl_op_ok [SlStep (0%nat, 0%nat, 1%nat, 1%nat, 1); SlDiscount (1#2); SlLambda 0; SlTol (1#8)] /\
  sl_lam (fst (fold_left sl_apply [SlStep (0%nat, 0%nat, 1%nat, 1%nat, 1); SlDiscount (1#2); SlLambda 0; SlTol (1#8)]
                          (sl_ctor (1#2) (3#4) 1 (1#64), (qzero 2 2, [])))) == 0.
Proof. split; [repeat constructor; cbn; lra| vm_compute; reflexivity]. Qed.

(* ================================================================ round 6: DoubleQLearning *)
From AIT Require Import C11.SpecDQ C11.ProofsDQ.

(* ---- DoubleQLearning applies its DOCUMENTED rule on the documented tables A = qa_, B = qc_ - qa_
        (any tables, any sample, either coin): the coin's table moves towards r + gamma * OTHER(s1, argmax own(s1,.)),
        only at (s,a); the other table is not touched *)
Theorem doubleq_documented_rule : forall nS nA alpha g qa qc coin s a s1 r,
  (0 < nA)%nat -> shape nS nA qa -> shape nS nA qc -> (s < nS)%nat -> (a < nA)%nat -> (s1 < nS)%nat ->
  dq_documented nA alpha g (qa, qc) (dq_step alpha g (qa, qc) (coin, s, a, s1, r)) coin s a s1 r.
Proof. exact dq_documented_lemma. Qed.
Print Assumptions doubleq_documented_rule.

(* ---- full-strength fixed point of DoubleQLearning: ANY well-formed (stochastic) MDP, qa = qb = Qstar
        (qc = 2 Qstar): for either coin the average over s1 ~ T(s,a,.) of the updated entries (sample
        reward = the model's R(s,a)) is the old entry, for both stored tables *)
Theorem doubleq_optimal_expected_fixpoint : forall m alpha qa qc coin s a,
  wf_mdp m -> is_qstar m qa -> shape (nS m) (nA m) qa -> shape (nS m) (nA m) qc ->
  (forall x y, qget qc x y == qget qa x y + qget qa x y) ->
  (s < nS m)%nat -> (a < nA m)%nat ->
  let nxt := fun s1 => dq_step alpha (gam m) (qa, qc) (coin, s, a, s1, nthq (row (R m) s) a) in
  dq_expected m s a (fun s1 => qget (fst (nxt s1)) s a) == qget qa s a /\
  dq_expected m s a (fun s1 => qget (snd (nxt s1)) s a) == qget qc s a.
Proof. exact doubleq_optimal_expected_fixpoint_lemma. Qed.
Print Assumptions doubleq_optimal_expected_fixpoint.

(* a stochastic 2-state MDP (0 -> 0 or 1 evenly, 1 -> 1; rewards 1, 2; gamma 1/2), its Qstar = [[8/3],[4]] and
   the stored pair (Qstar, 2 Qstar) *)
Definition ex_sto : mdp := {| nS := 2; nA := 1; P := [[[1#2; 1#2]; [0; 1]]]; R := [[1]; [2]]; gam := 1#2 |}.
Example ex_dq_star : wf_mdp ex_sto /\ is_qstar ex_sto [[8#3]; [4]] /\
  shape 2 1 [[8#3]; [4]] /\ shape 2 1 [[16#3]; [8]] /\
  (forall x y, qget [[16#3]; [8]] x y == qget [[8#3]; [4]] x y + qget [[8#3]; [4]] x y).
Proof.
  split; [| split; [| split; [| split]]].
  - unfold wf_mdp, ex_sto; cbn [nS nA P R gam].
    split; [lia|]. split; [lia|]. split; [lra|]. split; [lra|]. split; [reflexivity|]. split; [reflexivity|].
    split; [| split].
    + intros a Ha. assert (a = 0)%nat by lia. subst. reflexivity.
    + intros a s Ha Hs. assert (a = 0)%nat by lia. subst.
      destruct s as [|[|s]]; try lia; (split; [reflexivity| split; [repeat constructor; lra| cbn; lra]]).
    + intros s Hs. destruct s as [|[|s]]; try lia; reflexivity.
  - intros s a Hs Ha. cbn in Hs, Ha. assert (a = 0)%nat by lia. subst.
    destruct s as [|[|s]]; try lia; vm_compute; reflexivity.
  - split; [reflexivity| repeat constructor].
  - split; [reflexivity| repeat constructor].
  - intros x y. unfold qget, row, nthq.
    destruct x as [|[|[|x]]]; cbn [nth]; destruct y as [|[|y]]; cbn [nth]; lra.
Qed.

(* ---- the driver's checker of the documented rule (run on consecutive dumps of the real learner) is sound
        on the cells of the table *)
Theorem doubleq_documented_checker_sound : forall nS nA alpha g st st' coin s a s1 r,
  dq_documentedb nS nA alpha g st st' coin s a s1 r = true ->
  exists a1,
    row_argmax nA ((if coin then dq_a else dq_b) st s1) a1 /\
    (if coin then dq_a else dq_b) st' s a ==
      (if coin then dq_a else dq_b) st s a +
      alpha * (r + g * (if coin then dq_b else dq_a) st s1 a1 - (if coin then dq_a else dq_b) st s a) /\
    (forall x y, (x < nS)%nat -> (y < nA)%nat -> (x, y) <> (s, a) ->
       (if coin then dq_a else dq_b) st' x y == (if coin then dq_a else dq_b) st x y) /\
    (forall x y, (x < nS)%nat -> (y < nA)%nat ->
       (if coin then dq_b else dq_a) st' x y == (if coin then dq_b else dq_a) st x y).
Proof. exact dq_documentedb_sound. Qed.
Print Assumptions doubleq_documented_checker_sound.

(* the checker accepts a model step from a state with A <> B (tails: B moves towards r + gamma A(s1, argmax B)) *)
Example ex_dq_checker :
  dq_documentedb 2 2 (1#2) (1#2) ([[1; 0]; [0; 2]], [[1; 3]; [4; 2]])
    (dq_step (1#2) (1#2) ([[1; 0]; [0; 2]], [[1; 3]; [4; 2]]) (false, 0%nat, 1%nat, 1%nat, 1)) false 0 1 1 1 = true.
Proof. vm_compute. reflexivity. Qed.
