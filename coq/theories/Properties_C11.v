(* Properties_C11.v — property C11: reinforcement learners apply exactly their documented backup.
   Only statements, each closed by [exact <lemma>] and followed by Print Assumptions. *)
From Coq Require Import List Arith QArith Qminmax Lqa Lia Bool.
From AIT Require Import Base.Qx Base.Mdp C11.Model C11.Spec C11.Proofs C11.ProofsTraces.
Import ListNotations.
Local Open Scope Q_scope.

(* ---- one-step learners: every entry stays in [rmin,rmax]/(1-gamma) (DESIGN Appendix A statement) *)
Theorem ql_bounded : forall nS nA alpha g rmin rmax hist,
  (0 < nA)%nat -> 0 < alpha -> alpha <= 1 -> 0 < g -> g < 1 -> rmin <= 0 -> 0 <= rmax ->
  Forall (fun e : nat * nat * nat * Q => let '(s, a, s1, r) := e in
            (s < nS)%nat /\ (a < nA)%nat /\ (s1 < nS)%nat /\ rmin <= r /\ r <= rmax) hist ->
  in_box (rmin / (1 - g)) (rmax / (1 - g))
         (fold_left (ql_step alpha g) hist (repeat (repeat 0 nA) nS)).
Proof. exact ql_bounded_lemma. Qed.
Print Assumptions ql_bounded.

Theorem sarsa_bounded : forall nS nA alpha g rmin rmax hist,
  0 < alpha -> alpha <= 1 -> 0 < g -> g < 1 -> rmin <= 0 -> 0 <= rmax ->
  Forall (exp5_ok nS nA rmin rmax) hist ->
  in_box (rmin / (1 - g)) (rmax / (1 - g)) (fold_left (sarsa_step alpha g) hist (qzero nS nA)).
Proof. exact sarsa_bounded_lemma. Qed.
Print Assumptions sarsa_bounded.

Theorem expected_sarsa_bounded : forall nS nA alpha g rmin rmax hist,
  0 < alpha -> alpha <= 1 -> 0 < g -> g < 1 -> rmin <= 0 -> 0 <= rmax ->
  Forall (expE_ok nS nA rmin rmax) hist ->
  in_box (rmin / (1 - g)) (rmax / (1 - g)) (fold_left (esarsa_step alpha g) hist (qzero nS nA)).
Proof. exact expected_sarsa_bounded_lemma. Qed.
Print Assumptions expected_sarsa_bounded.

Theorem hysteretic_bounded : forall nS nA alpha beta g rmin rmax hist,
  0 < alpha -> alpha <= 1 -> 0 <= beta -> beta <= 1 -> 0 < g -> g < 1 -> rmin <= 0 -> 0 <= rmax ->
  Forall (exp_ok nS nA rmin rmax) hist ->
  in_box (rmin / (1 - g)) (rmax / (1 - g)) (fold_left (hyst_step alpha beta g) hist (qzero nS nA)).
Proof. exact hysteretic_bounded_lemma. Qed.
Print Assumptions hysteretic_bounded.

(* both tables: qa and qb = qc - qa, for every sequence of coin flips *)
Theorem doubleq_bounded : forall nS nA alpha g rmin rmax hist,
  0 < alpha -> alpha <= 1 -> 0 < g -> g < 1 -> rmin <= 0 -> 0 <= rmax ->
  Forall (expD_ok nS nA rmin rmax) hist ->
  let st := fold_left (dq_step alpha g) hist (qzero nS nA, qzero nS nA) in
  boxed2 (rmin / (1 - g)) (rmax / (1 - g)) (fst st) (snd st).
Proof. exact doubleq_bounded_lemma. Qed.
Print Assumptions doubleq_bounded.

(* hypotheses are satisfiable on a non-trivial history (rewards of both signs) *)
Definition ex_hist : list (nat * nat * nat * Q) := [(0%nat, 1%nat, 1%nat, 2); (1%nat, 0%nat, 0%nat, -(1))].
Example ex_ql_hist :
  Forall (exp_ok 2 2 (-(1)) 2) ex_hist /\
  qget (fold_left (ql_step (1#2) (1#2)) ex_hist (qzero 2 2)) 1 0 == -(1#4).
Proof.
  split; [| vm_compute; reflexivity].
  repeat (constructor; [cbn; repeat split; try lia; lra|]). constructor.
Qed.

(* ---- eligibility-trace learners (SARSAL, OffPolicyControl/Evaluation with QL, RetraceL, TreeBackupL):
        a history is any sequence of their steps applied to (q0, no traces) *)
Theorem trace_range : forall p hist q0, tparams_ok p -> Forall tstep_lam hist ->
  traces_in (tp_tol p) (snd (fold_left (tstep_apply p) hist (q0, []))).
Proof. exact trace_range_lemma. Qed.
Print Assumptions trace_range.

(* holds for ImportanceSampling too *)
Theorem traces_unique_keys : forall p hist q0,
  uniq_keys (snd (fold_left (tstep_apply p) hist (q0, []))).
Proof. exact traces_unique_keys_lemma. Qed.
Print Assumptions traces_unique_keys.

(* lambda = 0: after any history, the next step writes exactly the one-step expected backup of the
   target policy (point mass on a1 for SARSAL, epsilon-greedy on the current table for the control
   variants, the supplied target row for the evaluation variants) and leaves every other entry alone *)
Theorem lambda0_is_one_step : forall p hist t,
  tp_lam p == 0 -> (1 <= tp_nA p)%nat -> tstep_lam t -> tstep_inrange p t ->
  let st := fold_left (tstep_apply p) hist (qzero (tp_nS p) (tp_nA p), []) in
  let '(s1, r, prow) := tstep_target p (fst st) t in
  is_update (fst st) (fst (tstep_apply p st t)) (fst (tstep_key t)) (snd (tstep_key t))
            (one_step (tp_alpha p) (tp_g p) (fst st) (fst (tstep_key t)) (snd (tstep_key t)) s1 r prow).
Proof. exact lambda0_is_one_step_lemma. Qed.
Print Assumptions lambda0_is_one_step.

Definition ex_tp : tparams :=
  {| tp_alpha := 1#2; tp_g := 3#4; tp_lam := 1#2; tp_tol := 1#8; tp_eps := 1#4; tp_nS := 2; tp_nA := 2 |}.
Definition ex_thist : list tstep :=
  [TCtrl KRetrace (0%nat, 1%nat, 1%nat, 2, 1#2); TSarsal (1%nat, 0%nat, 0%nat, 1%nat, -(1));
   TEval KTreeBackup (0%nat, 0%nat, 1%nat, 1, [1#4; 3#4], 1#4, 1#2); TCtrl KQL (1%nat, 1%nat, 0%nat, 0, 1)].
(* a history satisfying the hypotheses on which a trace is really cut off (4 steps, two traces cut off at step 3, 2 left) *)
Example ex_trace_hist :
  tparams_ok ex_tp /\ Forall tstep_lam ex_thist /\ Forall (tstep_inrange ex_tp) ex_thist /\
  length (snd (fold_left (tstep_apply ex_tp) ex_thist (qzero 2 2, []))) = 2%nat.
Proof.
  split; [unfold tparams_ok; cbn; repeat split; try lra; lia|].
  split; [| split; [| vm_compute; reflexivity]].
  - unfold ex_thist. repeat constructor; cbn; try congruence; try lra.
  - unfold ex_thist. repeat constructor; cbn; lia.
Qed.
