(* Properties_C01.v — property C01: MDP planners return the optimal value function.
   Only statements, each closed by [exact <lemma>] and followed by Print Assumptions.
   Models: C01/Model.v (vi_run, vi_run_g, pe_run, pe_run_g follow ValueIteration.hpp,
   PolicyEvaluation.hpp, MDP/Utils.hpp); spec: Base/Mdp.v (T_op, dp, T_pi, dp_pi, residual_le). *)
From Coq Require Import List Arith QArith.
From AIT Require Import Base.Qx Base.Mdp C01.Model C01.Spec C01.Proofs C01.ProofsVI C01.ProofsRepr C01.ProofsSpec C01.ProofsLP C01.ProofsPI C01.ProofsSparse C01.ProofsExt.
Import ListNotations.
Local Open Scope Q_scope.

(* ---- 2. the Bellman optimality operator is a gamma-contraction in the sup norm *)
Theorem T_contraction : forall m v w d, wf_mdp m -> 0 <= d ->
  close d v w -> close (gam m * d) (T_op m v) (T_op m w).
Proof. exact T_contraction_lemma. Qed.
Print Assumptions T_contraction.

(* the policy-evaluation operator likewise (policy rows are distributions) *)
Theorem T_pi_contraction : forall m pol v w d, wf_mdp m -> wf_policy m pol -> 0 <= d ->
  close d v w -> close (gam m * d) (T_pi m pol v) (T_pi m pol w).
Proof. exact T_pi_contraction_lemma. Qed.
Print Assumptions T_pi_contraction.

(* ---- 1. tolerance 0, horizon h: exactly the h-step dynamic-programming values, the Q-table is the
   look-ahead of dp (h-1), the actions are the first maximisers of the Q rows, max_a Q = V *)
Theorem vi_exact : forall m h, wf_mdp m ->
  let '(var, v, acts, q) := vi_run m h 0 (repeat 0 (nS m)) in
  var == 0 /\ veq v (dp m h) /\
  (forall s a, (s < nS m)%nat -> (a < nA m)%nat -> (0 < h)%nat ->
     nthq (row q s) a == q_of m (dp m (h - 1)) s a) /\
  (forall s, (s < nS m)%nat -> (0 < h)%nat ->
     (nth s acts O < nA m)%nat /\ nthq (row q s) (nth s acts O) == nthq v s /\
     maxl (row q s) == nthq v s /\
     (forall a, (a < nth s acts O)%nat -> nthq (row q s) a < nthq v s)).
Proof. exact vi_exact_lemma. Qed.
Print Assumptions vi_exact.

(* same from any start vector of the right size, needing only A > 0 *)
Theorem vi_exact_from : forall m h v0, (0 < nA m)%nat -> length v0 = nS m ->
  let '(var, v, acts, q) := vi_run m h 0 v0 in
  var == 0 /\ veq v (iterT m h v0) /\ length acts = nS m /\
  ((0 < h)%nat ->
     (forall s a, (s < nS m)%nat -> (a < nA m)%nat -> nthq (row q s) a == q_of m (iterT m (h - 1) v0) s a) /\
     (forall s, (s < nS m)%nat ->
        (nth s acts O < nA m)%nat /\ nthq (row q s) (nth s acts O) == nthq v s /\
        maxl (row q s) == nthq v s /\
        (forall a, (a < nth s acts O)%nat -> nthq (row q s) a < nthq v s))).
Proof. exact vi_exact_from_lemma. Qed.
Print Assumptions vi_exact_from.

(* user-defined (probability-query only) model: exactly the DP values of the MDP it denotes *)
Theorem vi_exact_generic : forall g h v0, (0 < gA g)%nat -> length v0 = gS g ->
  let m := dense_of_g g in
  let '(var, v, acts, q) := vi_run_g g h 0 v0 in
  var == 0 /\ veq v (iterT m h v0) /\ length acts = nS m /\
  ((0 < h)%nat ->
     (forall s a, (s < nS m)%nat -> (a < nA m)%nat -> nthq (row q s) a == q_of m (iterT m (h - 1) v0) s a) /\
     (forall s, (s < nS m)%nat ->
        (nth s acts O < nA m)%nat /\ nthq (row q s) (nth s acts O) == nthq v s /\
        maxl (row q s) == nthq v s /\
        (forall a, (a < nth s acts O)%nat -> nthq (row q s) a < nthq v s))).
Proof. exact vi_exact_g_lemma. Qed.
Print Assumptions vi_exact_generic.

Theorem pe_exact : forall m pol h,
  let '(var, v, q) := pe_run m pol h 0 (repeat 0 (nS m)) in
  var == 0 /\ veq v (dp_pi m pol h) /\
  (forall s a, (s < nS m)%nat -> (a < nA m)%nat -> (0 < h)%nat ->
     nthq (row q s) a == q_of m (dp_pi m pol (h - 1)) s a).
Proof. exact pe_exact_lemma. Qed.
Print Assumptions pe_exact.

(* ---- 3. stopped by the tolerance with variation e: Bellman residual <= gamma * e (the discount is
   applied before the backup and the variation compares V_n with V_{n-1} = the vector Q_n was computed
   from, hence the factor gamma); max_a Q = V exactly; Q within gamma*e of the look-ahead of V *)
Theorem vi_residual : forall m h tol v0, wf_mdp m -> epsS < tol ->
  let '(var, v, acts, q) := vi_run m h tol v0 in
  var <= tol ->
  residual_le m v (gam m * var) /\
  (forall s, (s < nS m)%nat -> maxl (row q s) == nthq v s /\ nthq (row q s) (nth s acts O) == nthq v s) /\
  (forall s a, (s < nS m)%nat -> (a < nA m)%nat ->
     - (gam m * var) <= nthq (row q s) a - q_of m v s a /\ nthq (row q s) a - q_of m v s a <= gam m * var).
Proof. exact vi_residual_lemma. Qed.
Print Assumptions vi_residual.

(* the bound holds whatever stopped the loop, once one sweep has run *)
Theorem vi_residual_any_stop : forall m h tol v0, wf_mdp m -> epsS < tol -> (0 < h)%nat ->
  let '(var, v, acts, q) := vi_run m h tol v0 in
  0 <= var /\ residual_le m v (gam m * var).
Proof. exact vi_residual_any_stop_lemma. Qed.
Print Assumptions vi_residual_any_stop.

Theorem pe_residual : forall m pol h tol v0, wf_mdp m -> wf_policy m pol -> epsS < tol -> (0 < h)%nat ->
  let '(var, v, q) := pe_run m pol h tol v0 in
  0 <= var /\ close (gam m * var) v (T_pi m pol v).
Proof. exact pe_residual_lemma. Qed.
Print Assumptions pe_residual.

(* ---- 4. two approximate fixed points are within (e1+e2)/(1-gamma): the "agree with each other
   within the bound implied by the tolerance" clause (no V* needed) *)
Theorem approx_fixpoints_close : forall m v w e1 e2, wf_mdp m ->
  length v = nS m -> length w = nS m ->
  residual_le m v e1 -> residual_le m w e2 -> close ((e1 + e2) / (1 - gam m)) v w.
Proof. exact approx_fixpoints_close_lemma. Qed.
Print Assumptions approx_fixpoints_close.

(* ---- 7. representation independence: the probability-query branch and the Eigen branch return
   equal variation/values/Q (==) and identical actions, for every horizon, tolerance and start *)
Theorem repr_independent : forall g h tol v0 pol,
  st_equiv (vi_run_g g h tol v0) (vi_run (dense_of_g g) h tol v0) /\
  pst_equiv (pe_run_g g pol h tol v0) (pe_run (dense_of_g g) pol h tol v0).
Proof. exact repr_independent_lemma. Qed.
Print Assumptions repr_independent.

(* a well-formed table model queried through getTransitionProbability/getExpectedReward only *)
Theorem repr_independent_query : forall m h tol v0 pol, wf_mdp m ->
  st_equiv (vi_run_g (g_of_mdp m) h tol v0) (vi_run m h tol v0) /\
  pst_equiv (pe_run_g (g_of_mdp m) pol h tol v0) (pe_run m pol h tol v0).
Proof. exact repr_independent_query_lemma. Qed.
Print Assumptions repr_independent_query.

(* ---- 5. the LP that MDP::LinearProgramming builds (objective 1/S each, one >= row per (s,a), free
   variables): feasible <-> V >= T V; every feasible point dominates every Bellman fixed point; an optimal
   point is the fixed point, and the fixed point is optimal (the solver itself is not modelled: these
   are statements about the problem handed to lp_solve) *)
Theorem lp_feasible_iff_superharmonic : forall m v, wf_mdp m ->
  lp_feasible (lp_nvars (lp_problem_of_mdp m)) (lp_rows (lp_problem_of_mdp m)) v <-> superharmonic m v.
Proof. exact lp_feasible_iff_superharmonic_lemma. Qed.
Print Assumptions lp_feasible_iff_superharmonic.

Theorem lp_feasible_ge_fixpoint : forall m v w, wf_mdp m ->
  lp_feasible (lp_nvars (lp_problem_of_mdp m)) (lp_rows (lp_problem_of_mdp m)) v -> bellman_fixpoint m w ->
  forall s, (s < nS m)%nat -> nthq w s <= nthq v s.
Proof. exact lp_feasible_ge_fixpoint_lemma. Qed.
Print Assumptions lp_feasible_ge_fixpoint.

Theorem lp_opt_is_fixpoint : forall m v w, wf_mdp m -> bellman_fixpoint m w ->
  lp_optimal (lp_nvars (lp_problem_of_mdp m)) (lp_obj (lp_problem_of_mdp m)) (lp_rows (lp_problem_of_mdp m)) v ->
  veq v w.
Proof. exact lp_opt_is_fixpoint_lemma. Qed.
Print Assumptions lp_opt_is_fixpoint.

Theorem fixpoint_is_lp_optimal : forall m w, wf_mdp m -> bellman_fixpoint m w ->
  lp_optimal (lp_nvars (lp_problem_of_mdp m)) (lp_obj (lp_problem_of_mdp m)) (lp_rows (lp_problem_of_mdp m)) w.
Proof. exact fixpoint_is_lp_optimal_lemma. Qed.
Print Assumptions fixpoint_is_lp_optimal.

(* post-processing after lp.solve: Q is the look-ahead of the returned values, actions its first maximisers *)
Theorem lp_post_spec : forall m values, (0 < nA m)%nat ->
  let '(v, acts, q) := lp_post m values in
  v = values /\
  (forall s a, (s < nS m)%nat -> (a < nA m)%nat -> nthq (row q s) a == q_of m values s a) /\
  (forall s, (s < nS m)%nat -> (nth s acts O < nA m)%nat /\
     nthq (row q s) (nth s acts O) == maxl (row q s) /\
     forall a, (a < nth s acts O)%nat -> nthq (row q s) a < maxl (row q s)).
Proof. exact lp_post_spec_lemma. Qed.
Print Assumptions lp_post_spec.

(* ---- 6 (partial). PolicyIteration: if the (fuel-bounded) outer loop returns, the returned Q-table is
   the Q-table of an evaluation of a policy matrix that greedification w.r.t. that Q-table leaves
   unchanged (entrywise within 1e-6), and with a tolerance in use that evaluation's residual is at most
   gamma * variation.
   Full statement (not proved): additionally max_a Q is within gamma*tol + tie slack of its own Bellman
   backup (checked at run time by the oracle clause pi_fixpoint), and the outer loop terminates. *)
Theorem pi_fixpoint_partial : forall m h tol fuel n q,
  pi_run m h tol fuel = Some (n, q) ->
  exists pol vp,
    let '(var, v, q') := pe_run m pol h tol vp in
    q' = q /\ matrices_differ pol (greedy_matrix q) = false /\
    (wf_mdp m -> wf_policy m pol -> epsS < tol -> (0 < h)%nat ->
       0 <= var /\ close (gam m * var) v (T_pi m pol v)).
Proof. exact pi_fixpoint_partial_lemma. Qed.
Print Assumptions pi_fixpoint_partial.

(* ---- 7 (sparse, separated case). When no probability and no expected reward lies in the band
   (0, 1e-6] that SparseModel drops, the sparse representation returns equal results.
   Full statement with an error term S*epsS*|V|/(1-gamma) for dropped entries: not proved. *)
Theorem sparse_independent_partial : forall g h tol v0 pol, no_small_entries g ->
  st_equiv (vi_run (sparse_of_g g) h tol v0) (vi_run (dense_of_g g) h tol v0) /\
  pst_equiv (pe_run (sparse_of_g g) pol h tol v0) (pe_run (dense_of_g g) pol h tol v0).
Proof. exact sparse_independent_lemma. Qed.
Print Assumptions sparse_independent_partial.

(* ---- 6 (full). PolicyIteration: when the outer loop returns (tolerance in use, at least one sweep per
   evaluation), the returned Q-table is that of the last evaluation (variation var) of a policy matrix
   pol that greedification w.r.t. Q leaves unchanged, and — provided the rows of pol are distributions —
   the greedy values max_a Q(s,.) (= bellmanOperator(Q)) have Bellman residual at most
   gamma * (var + kappa), kappa = 2*(epsS + Qb*epsG) + A*2*epsS*Qb being the slack of the
   checkEqualGeneral ties (Qb bounds |Q|).  [wf_policy pol] is a premise because QGreedyPolicyWrapper
   counts ties against the running maximum but assigns weights against the final one (a row need not sum
   to one when checkEqualGeneral is not transitive on that row; exact or separated ties make it so). *)
Theorem pi_fixpoint : forall m h tol fuel n q Qb, wf_mdp m -> epsS < tol -> (0 < h)%nat -> 0 <= Qb ->
  pi_run m h tol fuel = Some (n, q) ->
  (forall s a, (s < nS m)%nat -> (a < nA m)%nat -> - Qb <= nthq (row q s) a /\ nthq (row q s) a <= Qb) ->
  exists pol vp var v,
    pe_run m pol h tol vp = (var, v, q) /\ 0 <= var /\
    matrices_differ pol (greedy_matrix q) = false /\
    (wf_policy m pol -> residual_le m (fst (bellman q)) (gam m * (var + kappa m Qb))).
Proof. exact pi_fixpoint_lemma. Qed.
Print Assumptions pi_fixpoint.

(* … hence within ((gamma*var_vi) + e_pi)/(1-gamma) of what value iteration returns *)
Theorem pi_vi_close : forall m h tol v0 vpi e_pi, wf_mdp m -> epsS < tol -> (0 < h)%nat ->
  length vpi = nS m -> residual_le m vpi e_pi ->
  let '(var, v, acts, q) := vi_run m h tol v0 in
  close ((gam m * var + e_pi) / (1 - gam m)) v vpi.
Proof. exact pi_vi_close_lemma. Qed.
Print Assumptions pi_vi_close.

(* pi_terminates (partial): a returned answer does not depend on the fuel. Not proved: that some fuel
   suffices (termination of the goto loop). *)
Theorem pi_terminates_partial : forall m h tol fuel k r,
  pi_run m h tol fuel = Some r -> pi_run m h tol (fuel + k) = Some r.
Proof. exact pi_fuel_independent_lemma. Qed.
Print Assumptions pi_terminates_partial.

(* ---- 7 (sparse, error term). Entries in the dropped band: the SparseModel constructor accepts the table
   only if every stored row still sums to one within 1e-6 (sparse_accepts), so each row loses at most epsS
   of mass; then the h-step values of the sparse and of the dense model differ by at most
   (epsS + rmax*epsS + gamma*B*epsS)/(1-gamma), |r| <= rmax, |V_sparse,k| <= B for k < h. *)
Theorem sparse_error_term : forall g rmax B h, wf_mdp (dense_of_g g) -> sparse_accepts g = true ->
  rewards_bounded g rmax -> 0 <= B -> 0 <= rmax ->
  (forall k, (k < h)%nat -> bounded B (dp (sparse_of_g g) k)) ->
  let '(_, vs, _, _) := vi_run (sparse_of_g g) h 0 (repeat 0 (gS g)) in
  let '(_, vd, _, _) := vi_run (dense_of_g g) h 0 (repeat 0 (gS g)) in
  close (sparse_eta g epsS rmax B / (1 - ggam g)) vs vd.
Proof. exact sparse_error_term_lemma. Qed.
Print Assumptions sparse_error_term.

(* the same for an arbitrary per-row mass loss delta (without the constructor's validation delta <= S*epsS) *)
Theorem sparse_dp_close : forall g delta rmax B h, wf_mdp (dense_of_g g) ->
  row_loss_le g delta -> rewards_bounded g rmax -> 0 <= delta -> 0 <= B -> 0 <= rmax ->
  (forall k, (k < h)%nat -> bounded B (dp (sparse_of_g g) k)) ->
  close (sparse_eta g delta rmax B / (1 - ggam g)) (dp (sparse_of_g g) h) (dp (dense_of_g g) h).
Proof. exact sparse_dp_close_lemma. Qed.
Print Assumptions sparse_dp_close.

(* ---- 7 (learned / any representation). The answers depend only on the MDP: models that agree entrywise
   (==) give equal results. With C07's ml_model_is_empirical / unvisited_default (tables of
   MaximumLikelihoodModel == empirical frequencies, mean rewards, self-loops) this is "value iteration on
   the learned model = value iteration on the empirical MDP". *)
Theorem model_ext_independent : forall g1 g2 h tol v0 pol, gmodel_eq g1 g2 ->
  st_equiv (vi_run_g g1 h tol v0) (vi_run_g g2 h tol v0) /\
  pst_equiv (pe_run_g g1 pol h tol v0) (pe_run_g g2 pol h tol v0) /\
  st_equiv (vi_run (dense_of_g g1) h tol v0) (vi_run (dense_of_g g2) h tol v0).
Proof. exact model_ext_independent_lemma. Qed.
Print Assumptions model_ext_independent.

(* ---- O. the oracle's checkers are sound w.r.t. the spec *)
Theorem check_mdp_solution_sound : forall m v q acts e d,
  check_mdp_solution m v q acts e d = true -> solution_spec m v q acts e d.
Proof. exact check_mdp_solution_sound_lemma. Qed.
Print Assumptions check_mdp_solution_sound.

Theorem check_iter_sound : forall m n v0 v d, check_iter m n v0 v d = true -> close d v (iterT m n v0).
Proof. exact check_iter_sound_lemma. Qed.
Print Assumptions check_iter_sound.

Theorem check_dp_sound : forall m h v d, check_dp m h v d = true -> close d v (dp m h).
Proof. exact check_dp_sound_lemma. Qed.
Print Assumptions check_dp_sound.

Theorem check_iter_pi_sound : forall m pol n v0 v d,
  check_iter_pi m pol n v0 v d = true -> close d v (iterTpi m pol n v0).
Proof. exact check_iter_pi_sound_lemma. Qed.
Print Assumptions check_iter_pi_sound.

Theorem cross_check_implied : forall m v w e1 e2, wf_mdp m ->
  length v = nS m -> length w = nS m ->
  residual_leb m v e1 = true -> residual_leb m w e2 = true -> close (cross_bound m e1 e2) v w.
Proof. exact cross_check_implied_lemma. Qed.
Print Assumptions cross_check_implied.

Theorem wf_mdpb_is_wf : forall m, wf_mdpb m = true -> wf_mdp m.
Proof. exact wf_mdpb_sound. Qed.
Print Assumptions wf_mdpb_is_wf.

(* ------------------------------------------------------------------ hypotheses are satisfiable *)
(* 2 states, 2 actions, gamma = 1/2; stochastic self-loop, absorbing transition, a negative reward *)
Definition ex_m : mdp := {| nS := 2; nA := 2;
  P := [ [[1#2; 1#2]; [0; 1]] ; [[1; 0]; [1#4; 3#4]] ]; R := [[1; 0]; [-1#1; 2]]; gam := 1#2 |}.

Example ex_wf : wf_mdp ex_m.
Proof. apply wf_mdpb_sound. vm_compute. reflexivity. Qed.

(* vi_exact on a non-trivial input: the model's answer after two sweeps *)
Example ex_vi_exact :
  vi_run ex_m 2 0 (repeat 0 2) = (0, [7 # 4; 23 # 8], [0%nat; 1%nat], [[7 # 4; 1 # 2]; [0; 23 # 8]]) /\
  veqb [7 # 4; 23 # 8] (dp ex_m 2) = true.
Proof. split; vm_compute; reflexivity. Qed.

(* vi_residual's premises hold together: tolerance 1/8 > epsS, stopped with variation <= 1/8 *)
Example ex_vi_residual : epsS < 1 # 8 /\
  (let '(var, v, acts, q) := vi_run ex_m 8 (1 # 8) (repeat 0 2) in var <= 1 # 8 /\ 0 < var).
Proof. split; [reflexivity|]. vm_compute. split; [discriminate| reflexivity]. Qed.

(* a user-defined model with successor-dependent rewards whose table form is well formed *)
Definition ex_g : gmodel :=
  g_of_tables 2 2 [ [[1#2; 1#2]; [1; 0]] ; [[0; 1]; [1#4; 3#4]] ] [ [[1; 3]; [0; 5]] ; [[7; -1#1]; [2; 2]] ] (3#4).

Example ex_generic : wf_mdp (dense_of_g ex_g) /\ (0 < gA ex_g)%nat /\
  vi_run_g ex_g 2 0 (repeat 0 2) = (0, [7 # 2; 7 # 2], [0%nat; 1%nat], [[7 # 2; 3 # 2]; [1 # 2; 7 # 2]]).
Proof. split; [apply wf_mdpb_sound; vm_compute; reflexivity|]. split; [repeat constructor| vm_compute; reflexivity]. Qed.

(* a stochastic policy for pe_exact / pe_residual *)
Example ex_policy : wf_policy ex_m [[1#2; 1#2]; [0; 1]] /\
  pe_run ex_m [[1#2; 1#2]; [0; 1]] 1 0 (repeat 0 2) = (0, [2 # 4; 2], [[1; 0]; [-1 # 1; 2]]).
Proof.
  split.
  - intros s Hs. assert (E : s = 0%nat \/ s = 1%nat) by (cbn in Hs; destruct s as [|[|s]]; auto; exfalso; apply (Nat.nlt_0_r s); do 2 apply Nat.succ_lt_mono; exact Hs).
    destruct E as [-> | ->]; split; try (repeat constructor; discriminate); reflexivity.
  - vm_compute. reflexivity.
Qed.

(* approximate fixed points: dp 3 has residual at most 1/2 on ex_m *)
Example ex_residual : residual_le ex_m (dp ex_m 3) (1 # 2) /\ length (dp ex_m 3) = nS ex_m.
Proof. split; [apply residual_leb_sound; vm_compute; reflexivity| reflexivity]. Qed.

(* a Bellman fixed point exists in Q for ex_m: the LP theorems are not vacuous *)
Example ex_fixpoint : bellman_fixpoint ex_m [18 # 7; 26 # 7].
Proof.
  split; [reflexivity|]. constructor; [vm_compute; reflexivity|]. constructor; [vm_compute; reflexivity| constructor].
Qed.

(* PolicyIteration returns on ex_m (two evaluations of 20 sweeps, tolerance 1/100) *)
Example ex_pi : exists q, pi_run ex_m 20 (1 # 100) 50 = Some (2%nat, q).
Proof. eexists. vm_compute. reflexivity. Qed.

(* ex_g has no entry in the dropped band *)
Example ex_no_small : no_small_entries ex_g.
Proof.
  split.
  - intros s a s1 Hs Ha Hs1. change (gS ex_g) with 2%nat in *. change (gA ex_g) with 2%nat in *.
    assert (Es : s = 0%nat \/ s = 1%nat) by (destruct s as [|[|s]]; auto; exfalso; apply (Nat.nlt_0_r s); do 2 apply Nat.succ_lt_mono; exact Hs).
    assert (Ea : a = 0%nat \/ a = 1%nat) by (destruct a as [|[|a]]; auto; exfalso; apply (Nat.nlt_0_r a); do 2 apply Nat.succ_lt_mono; exact Ha).
    assert (Es1 : s1 = 0%nat \/ s1 = 1%nat) by (destruct s1 as [|[|s1]]; auto; exfalso; apply (Nat.nlt_0_r s1); do 2 apply Nat.succ_lt_mono; exact Hs1).
    destruct Es as [-> | ->], Ea as [-> | ->], Es1 as [-> | ->]; unfold separated0; vm_compute;
      ((left; reflexivity) || (right; reflexivity)).
  - intros s a Hs Ha. change (gS ex_g) with 2%nat in *. change (gA ex_g) with 2%nat in *.
    assert (Es : s = 0%nat \/ s = 1%nat) by (destruct s as [|[|s]]; auto; exfalso; apply (Nat.nlt_0_r s); do 2 apply Nat.succ_lt_mono; exact Hs).
    assert (Ea : a = 0%nat \/ a = 1%nat) by (destruct a as [|[|a]]; auto; exfalso; apply (Nat.nlt_0_r a); do 2 apply Nat.succ_lt_mono; exact Ha).
    destruct Es as [-> | ->], Ea as [-> | ->]; unfold separated0; vm_compute;
      ((left; reflexivity) || (right; reflexivity)).
Qed.

(* a model with an entry in the dropped band that SparseModel accepts: hypotheses of sparse_error_term *)
Definition ex_tiny : gmodel :=
  g_of_tables 2 1 [ [[1 # 2097152; 2097151 # 2097152]] ; [[0; 1]] ] [ [[3; 3]] ; [[-2 # 1; -2 # 1]] ] (1#2).

Example ex_sparse_tiny : wf_mdp (dense_of_g ex_tiny) /\ sparse_accepts ex_tiny = true /\
  rewards_bounded ex_tiny 3 /\ (forall k, (k < 1)%nat -> bounded 0 (dp (sparse_of_g ex_tiny) k)) /\
  ~ no_small_entries ex_tiny.
Proof.
  split; [apply wf_mdpb_sound; vm_compute; reflexivity|]. split; [vm_compute; reflexivity|]. split; [| split].
  - intros s a s1 Hs Ha Hs1. change (gS ex_tiny) with 2%nat in *. change (gA ex_tiny) with 1%nat in *.
    assert (Es : s = 0%nat \/ s = 1%nat) by (destruct s as [|[|s]]; auto; exfalso; apply (Nat.nlt_0_r s); do 2 apply Nat.succ_lt_mono; exact Hs).
    assert (Ea : a = 0%nat) by (destruct a; auto; exfalso; apply (Nat.nlt_0_r a); apply Nat.succ_lt_mono; exact Ha).
    assert (Es1 : s1 = 0%nat \/ s1 = 1%nat) by (destruct s1 as [|[|s1]]; auto; exfalso; apply (Nat.nlt_0_r s1); do 2 apply Nat.succ_lt_mono; exact Hs1).
    subst a. destruct Es as [-> | ->], Es1 as [-> | ->]; vm_compute; split; discriminate.
  - intros k Hk. assert (k = 0%nat) by (destruct k; auto; exfalso; apply (Nat.nlt_0_r k); apply Nat.succ_lt_mono; exact Hk). subst k.
    intros i. destruct i as [|[|[|i]]]; vm_compute; split; discriminate.
  - intros [HP _]. specialize (HP 0%nat 0%nat 0%nat). change (gS ex_tiny) with 2%nat in HP. change (gA ex_tiny) with 1%nat in HP.
    destruct (HP (Nat.lt_0_succ 1) (Nat.lt_0_succ 0) (Nat.lt_0_succ 1)) as [H|H]; vm_compute in H; discriminate.
Qed.

(* two different but entrywise equal query models *)
Example ex_gmodel_eq : gmodel_eq ex_g (g_of_tables 2 2 [ [[2#4; 1#2]; [1; 0]] ; [[0; 1]; [1#4; 6#8]] ] [ [[1; 3]; [0; 5]] ; [[7; -1#1]; [4#2; 2]] ] (3#4)).
Proof.
  split; [reflexivity|]. split; [reflexivity|]. split; [reflexivity|].
  intros s a s1 Hs Ha Hs1. change (gS ex_g) with 2%nat in *. change (gA ex_g) with 2%nat in *.
  assert (Es : s = 0%nat \/ s = 1%nat) by (destruct s as [|[|s]]; auto; exfalso; apply (Nat.nlt_0_r s); do 2 apply Nat.succ_lt_mono; exact Hs).
  assert (Ea : a = 0%nat \/ a = 1%nat) by (destruct a as [|[|a]]; auto; exfalso; apply (Nat.nlt_0_r a); do 2 apply Nat.succ_lt_mono; exact Ha).
  assert (Es1 : s1 = 0%nat \/ s1 = 1%nat) by (destruct s1 as [|[|s1]]; auto; exfalso; apply (Nat.nlt_0_r s1); do 2 apply Nat.succ_lt_mono; exact Hs1).
  destruct Es as [-> | ->], Ea as [-> | ->], Es1 as [-> | ->]; split; vm_compute; reflexivity.
Qed.
