(* Properties_C17.v — property C17: saved models, experiences and policies load back identically;
   a failed load signals it and leaves the destination untouched.
   Only statements, each closed by [exact <lemma>] and followed by Print Assumptions.
   Numbers are abstract tokens: [show]/[read] stand for `os << double` at max_digits10 precision and
   `is >> double`; the hypothesis [read (show d) = Some (d, None)] for doubles [d] is the IEEE
   "17 significant digits suffice" fact (trusted; exercised by the correspondence on every run). *)
From Coq Require Import List NArith QArith Qround.
From AIT Require Import C17.Model C17.Spec C17.Proofs C17.ProofsPolicy C17.ProofsSparse C17.ProofsTrunc.
Import ListNotations.
Local Open Scope nat_scope.

Theorem roundtrip_model :
  forall (token : Type) (show : Q -> token) (read : token -> option (Q * option token)) (dbl : Q -> Prop),
  (forall d, dbl d -> read (show d) = Some (d, None)) ->
  forall x dest, wf_model dbl x -> mS dest = mS x -> mA dest = mA x ->
  read_model token read (write_model token show x) dest = (x, ROk x []).
Proof. exact roundtrip_model_lemma. Qed.
Print Assumptions roundtrip_model.

(* The stream may end right after the last token (no trailing separator: [rest = []], which is
   what every roundtrip_X theorem states) or continue with anything else: the object is read back
   and the remainder is left on the stream. *)
Theorem roundtrip_model_any_suffix :
  forall (token : Type) (show : Q -> token) (read : token -> option (Q * option token)) (dbl : Q -> Prop),
  (forall d, dbl d -> read (show d) = Some (d, None)) ->
  forall x dest rest, wf_model dbl x -> mS dest = mS x -> mA dest = mA x ->
  read_model token read (write_model token show x ++ rest) dest = (x, ROk x rest).
Proof. exact roundtrip_model_suffix_lemma. Qed.
Print Assumptions roundtrip_model_any_suffix.

Theorem roundtrip_experience :
  forall (token : Type) (show : Q -> token) (read : token -> option (Q * option token))
         (showN : N -> token) (readN : token -> option (N * option token)) (dbl : Q -> Prop) (u64 : N -> Prop),
  (forall d, dbl d -> read (show d) = Some (d, None)) ->
  (forall n, u64 n -> readN (showN n) = Some (n, None)) ->
  forall x dest, wf_experience dbl u64 x -> eS dest = eS x -> eA dest = eA x ->
  read_experience token read readN (write_experience token show showN x) dest = (x, ROk x []).
Proof. exact roundtrip_experience_lemma. Qed.
Print Assumptions roundtrip_experience.

Theorem roundtrip_mdp_policy :
  forall (token : Type) (show : Q -> token) (read : token -> option (Q * option token)) (dbl : Q -> Prop),
  (forall d, dbl d -> read (show d) = Some (d, None)) ->
  forall x dest, wf_mdp_policy dbl x -> pS dest = pS x -> pA dest = pA x ->
  read_mdp_policy token read (write_mdp_policy token show x) dest = (x, ROk x []).
Proof. exact roundtrip_mdp_policy_lemma. Qed.
Print Assumptions roundtrip_mdp_policy.

Theorem roundtrip_pomdp_model :
  forall (token : Type) (show : Q -> token) (read : token -> option (Q * option token)) (dbl : Q -> Prop),
  (forall d, dbl d -> read (show d) = Some (d, None)) ->
  forall x dest, wf_pomdp_model dbl x ->
  pmO dest = pmO x -> mS (pmM dest) = mS (pmM x) -> mA (pmM dest) = mA (pmM x) ->
  read_pomdp_model token read (write_pomdp_model token show x) dest = (x, ROk x []).
Proof. exact roundtrip_pomdp_model_lemma. Qed.
Print Assumptions roundtrip_pomdp_model.

(* POMDP::Policy with the writer repaired by fixes/C17-pomdp-policy-precision.patch (values
   written through [show], i.e. with max_digits10 digits) *)
Theorem roundtrip_pomdp_policy :
  forall (token : Type) (show : Q -> token) (read : token -> option (Q * option token))
         (showN : N -> token) (readN : token -> option (N * option token))
         (at_tok : token) (split_at : token -> option (option token)) (dbl : Q -> Prop) (u64 : N -> Prop),
  (forall d, dbl d -> read (show d) = Some (d, None)) ->
  (forall n, u64 n -> readN (showN n) = Some (n, None)) ->
  split_at at_tok = Some None ->
  (forall d, dbl d -> split_at (show d) = None) ->
  (forall n, u64 n -> split_at (showN n) = None) ->
  forall x dest, wf_pomdp_policy dbl u64 x ->
  ppS dest = ppS x -> ppA dest = ppA x -> ppO dest = ppO x ->
  read_pomdp_policy token read readN split_at (write_pomdp_policy token show showN at_tok x) dest = (x, ROk x []).
Proof. exact roundtrip_pomdp_policy_thm. Qed.
Print Assumptions roundtrip_pomdp_policy.

(* The writer as it stands in /repo formats the values with the stream's default 6 significant
   digits: a formatter [show6] that maps two distinct doubles to the same token (0.1234567 and
   0.1234568 both give "0.123457"; checked on the real writer by the `digits` case).  Then no
   reader whatsoever reads back every well-formed policy. *)
Theorem pomdp_policy_roundtrip_refuted :
  forall (token : Type) (show6 : Q -> token) (showN : N -> token) (at_tok : token)
         (dbl : Q -> Prop) (u64 : N -> Prop), u64 0%N ->
  forall d1 d2 : Q, dbl d1 -> dbl d2 -> d1 <> d2 -> show6 d1 = show6 d2 ->
  forall reader : list token -> pomdp_policy,
  ~ (forall x, wf_pomdp_policy dbl u64 x ->
               reader (write_pomdp_policy_with token showN at_tok show6 x) = x).
Proof. exact pomdp_policy_roundtrip_refuted_lemma. Qed.
Print Assumptions pomdp_policy_roundtrip_refuted.

(* ---- sparse variants (SparseTable2D reader as repaired by fixes/C17-sparse-table-read-type.patch) ---- *)
Theorem roundtrip_sparse_model :
  forall (token : Type) (show : Q -> token) (read : token -> option (Q * option token))
         (showN : N -> token) (readN : token -> option (N * option token)) (dbl : Q -> Prop) (u64 : N -> Prop),
  (forall d, dbl d -> read (show d) = Some (d, None)) ->
  (forall n, u64 n -> readN (showN n) = Some (n, None)) ->
  forall x dest, wf_smodel dbl u64 x -> smS dest = smS x -> smA dest = smA x ->
  read_smodel token read readN (write_smodel token show showN x) dest = (x, ROk x []).
Proof. exact roundtrip_sparse_model_lemma. Qed.
Print Assumptions roundtrip_sparse_model.

Theorem roundtrip_sparse_experience :
  forall (token : Type) (show : Q -> token) (read : token -> option (Q * option token))
         (showN : N -> token) (readN : token -> option (N * option token)) (dbl : Q -> Prop) (u64 : N -> Prop),
  (forall d, dbl d -> read (show d) = Some (d, None)) ->
  (forall n, u64 n -> readN (showN n) = Some (n, None)) ->
  forall x dest, wf_sexperience dbl u64 x -> seS dest = seS x -> seA dest = seA x ->
  read_sexperience token read readN (write_sexperience token show showN x) dest = (x, ROk x []).
Proof. exact roundtrip_sparse_experience_lemma. Qed.
Print Assumptions roundtrip_sparse_experience.

Theorem roundtrip_sparse_pomdp_model :
  forall (token : Type) (show : Q -> token) (read : token -> option (Q * option token))
         (showN : N -> token) (readN : token -> option (N * option token)) (dbl : Q -> Prop) (u64 : N -> Prop),
  (forall d, dbl d -> read (show d) = Some (d, None)) ->
  (forall n, u64 n -> readN (showN n) = Some (n, None)) ->
  forall x dest, wf_spomdp_model dbl u64 x ->
  spmO dest = spmO x -> smS (spmM dest) = smS (spmM x) -> smA (spmM dest) = smA (spmM x) ->
  read_spomdp_model token read readN (write_spomdp_model token show showN x) dest = (x, ROk x []).
Proof. exact roundtrip_sparse_pomdp_model_lemma. Qed.
Print Assumptions roundtrip_sparse_pomdp_model.

(* Eigen's setFromTriplets (sort, sum duplicates) is the identity on sorted duplicate-free storage *)
Theorem set_from_triplets_sorted_id :
  forall (V : Type) (add : V -> V -> V) (l : list (nat * nat * V)),
  sorted_keys l -> set_from_triplets add l = l.
Proof. exact set_from_triplets_sorted. Qed.
Print Assumptions set_from_triplets_sorted_id.

(* ---- every truncation point (dense kinds): a file cut after n < length tokens fails to load ---- *)
Theorem truncation_fails :
  forall (token : Type) (show : Q -> token) (read : token -> option (Q * option token))
         (showN : N -> token) (readN : token -> option (N * option token)) (dbl : Q -> Prop) (u64 : N -> Prop),
  (forall d, dbl d -> read (show d) = Some (d, None)) ->
  (forall n, u64 n -> readN (showN n) = Some (n, None)) ->
  (forall x dest n, wf_model dbl x -> mS dest = mS x -> mA dest = mA x ->
     n < length (write_model token show x) ->
     read_model token read (firstn n (write_model token show x)) dest = (dest, RFail)) /\
  (forall x dest n, wf_experience dbl u64 x -> eS dest = eS x -> eA dest = eA x ->
     n < length (write_experience token show showN x) ->
     read_experience token read readN (firstn n (write_experience token show showN x)) dest = (dest, RFail)) /\
  (forall x dest n, wf_mdp_policy dbl x -> pS dest = pS x -> pA dest = pA x ->
     n < length (write_mdp_policy token show x) ->
     read_mdp_policy token read (firstn n (write_mdp_policy token show x)) dest = (dest, RFail)) /\
  (forall x dest n, wf_pomdp_model dbl x ->
     pmO dest = pmO x -> mS (pmM dest) = mS (pmM x) -> mA (pmM dest) = mA (pmM x) ->
     n < length (write_pomdp_model token show x) ->
     read_pomdp_model token read (firstn n (write_pomdp_model token show x)) dest = (dest, RFail)).
Proof. exact truncation_fails_lemma. Qed.
Print Assumptions truncation_fails.

(* A load whose status is not ok (failbit, or an exception out of setDiscount) returns the
   destination unchanged — for all eight operator>> and for any token stream whatsoever
   (truncated, corrupted, or semantically invalid). *)
Theorem failed_load_leaves_dest :
  forall (token : Type) (read : token -> option (Q * option token))
         (readN : token -> option (N * option token)) (split_at : token -> option (option token)),
  leaves_dest token (read_model token read) /\
  leaves_dest token (read_smodel token read readN) /\
  leaves_dest token (read_experience token read readN) /\
  leaves_dest token (read_sexperience token read readN) /\
  leaves_dest token (read_mdp_policy token read) /\
  leaves_dest token (read_pomdp_model token read) /\
  leaves_dest token (read_spomdp_model token read readN) /\
  leaves_dest token (read_pomdp_policy token read readN split_at).
Proof. exact failed_load_leaves_dest_lemma. Qed.
Print Assumptions failed_load_leaves_dest.

(* hypotheses are satisfiable: a concrete token instance and non-trivial objects *)
Example ex_roundtrip_model_nonvacuous :
  (forall d, anyQ d -> x_read (x_show d) = Some (d, None)) /\ wf_model anyQ ex_model /\
  read_model xtoken x_read (write_model xtoken x_show ex_model) ex_model_dest = (ex_model, ROk ex_model []).
Proof. split; [exact x_digits17|]. split; [exact ex_model_wf|]. reflexivity. Qed.

Example ex_roundtrip_experience_nonvacuous :
  wf_experience anyQ anyN ex_experience /\ (forall n, anyN n -> x_readN (x_showN n) = Some (n, None)).
Proof. split; [exact ex_experience_wf | exact x_showN_ok]. Qed.

Example ex_roundtrip_policy_nonvacuous : wf_mdp_policy anyQ ex_policy /\ wf_pomdp_model anyQ ex_pomdp_model.
Proof. split; [exact ex_policy_wf | exact ex_pomdp_model_wf]. Qed.

(* a load that fails: the truncated file of ex_model leaves the destination as it was *)
Example ex_failed_load :
  read_model xtoken x_read (firstn 5 (write_model xtoken x_show ex_model)) ex_model_dest = (ex_model_dest, RFail).
Proof. reflexivity. Qed.

Example ex_roundtrip_pomdp_policy_nonvacuous :
  wf_pomdp_policy anyQ anyN ex_pomdp_policy /\ x_split_at XAt = Some None /\
  (forall d, anyQ d -> x_split_at (x_show d) = None) /\ (forall n, anyN n -> x_split_at (x_showN n) = None) /\
  read_pomdp_policy xtoken x_read x_readN x_split_at (write_pomdp_policy xtoken x_show x_showN XAt ex_pomdp_policy)
    ex_pomdp_policy_dest = (ex_pomdp_policy, ROk ex_pomdp_policy []).
Proof. split; [exact ex_pomdp_policy_wf|]. repeat split. Qed.

(* a formatter that is not injective on doubles exists: keep 6 decimal digits after the point *)
Example ex_refuted_hypotheses :
  let show6 := fun q : Q => XQ (Qred (Qmake (Qfloor (q * 1000000)) 1000000)) in
  (1234567 # 10000000) <> (1234568 # 10000000) /\ show6 (1234567 # 10000000) = show6 (1234568 # 10000000).
Proof. split; [discriminate | reflexivity]. Qed.

Example ex_roundtrip_sparse_nonvacuous :
  wf_smodel anyQ anyN ex_smodel /\ wf_sexperience anyQ anyN ex_sexperience /\
  read_smodel xtoken x_read x_readN (write_smodel xtoken x_show x_showN ex_smodel) ex_smodel_dest
    = (ex_smodel, ROk ex_smodel []).
Proof. split; [exact ex_smodel_wf|]. split; [exact ex_sexperience_wf|]. reflexivity. Qed.
