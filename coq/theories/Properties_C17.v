(* Properties_C17.v — property C17: saved models, experiences and policies load back identically;
   a failed load signals it and leaves the destination untouched.
   Only statements, each closed by [exact <lemma>] and followed by Print Assumptions.
   Numbers are abstract tokens: [show]/[read] stand for `os << double` at max_digits10 precision and
   `is >> double`; the hypothesis [read (show d) = Some (d, None)] for doubles [d] is the IEEE
   "17 significant digits suffice" fact (trusted; exercised by the correspondence on every run). *)
From Coq Require Import List NArith QArith Qround.
From AIT Require Import C17.Model C17.Spec C17.Proofs C17.ProofsPolicy C17.ProofsSparse C17.ProofsTrunc
  C17.ProofsFuel C17.ProofsTruncSparse C17.ProofsValid C17.ProofsValidPolicy.
Import ListNotations.
Local Open Scope nat_scope.

Theorem roundtrip_model :
  forall (token : Type) (show : Q -> token) (read : token -> option (Q * option token)) (dbl : Q -> Prop),
  (forall d, dbl d -> read (show d) = Some (d, None)) ->
  forall x dest, wf_model dbl x -> mS dest = mS x -> mA dest = mA x ->
  read_model token read (write_model token show x) dest = (x, ROk x []).
Proof. exact roundtrip_model_lemma. Qed.
Print Assumptions roundtrip_model.

(* The stream may end right after the last token (no trailing separator: [rest = []], which is
   what every roundtrip_X theorem states) or continue with anything else: the object is read back
   and the remainder is left on the stream. *)
Theorem roundtrip_model_any_suffix :
  forall (token : Type) (show : Q -> token) (read : token -> option (Q * option token)) (dbl : Q -> Prop),
  (forall d, dbl d -> read (show d) = Some (d, None)) ->
  forall x dest rest, wf_model dbl x -> mS dest = mS x -> mA dest = mA x ->
  read_model token read (write_model token show x ++ rest) dest = (x, ROk x rest).
Proof. exact roundtrip_model_suffix_lemma. Qed.
Print Assumptions roundtrip_model_any_suffix.

Theorem roundtrip_experience :
  forall (token : Type) (show : Q -> token) (read : token -> option (Q * option token))
         (showN : N -> token) (readN : token -> option (N * option token)) (dbl : Q -> Prop) (u64 : N -> Prop),
  (forall d, dbl d -> read (show d) = Some (d, None)) ->
  (forall n, u64 n -> readN (showN n) = Some (n, None)) ->
  forall x dest, wf_experience dbl u64 x -> eS dest = eS x -> eA dest = eA x ->
  read_experience token read readN (write_experience token show showN x) dest = (x, ROk x []).
Proof. exact roundtrip_experience_lemma. Qed.
Print Assumptions roundtrip_experience.

Theorem roundtrip_mdp_policy :
  forall (token : Type) (show : Q -> token) (read : token -> option (Q * option token)) (dbl : Q -> Prop),
  (forall d, dbl d -> read (show d) = Some (d, None)) ->
  forall x dest, wf_mdp_policy dbl x -> pS dest = pS x -> pA dest = pA x ->
  read_mdp_policy token read (write_mdp_policy token show x) dest = (x, ROk x []).
Proof. exact roundtrip_mdp_policy_lemma. Qed.
Print Assumptions roundtrip_mdp_policy.

Theorem roundtrip_pomdp_model :
  forall (token : Type) (show : Q -> token) (read : token -> option (Q * option token)) (dbl : Q -> Prop),
  (forall d, dbl d -> read (show d) = Some (d, None)) ->
  forall x dest, wf_pomdp_model dbl x ->
  pmO dest = pmO x -> mS (pmM dest) = mS (pmM x) -> mA (pmM dest) = mA (pmM x) ->
  read_pomdp_model token read (write_pomdp_model token show x) dest = (x, ROk x []).
Proof. exact roundtrip_pomdp_model_lemma. Qed.
Print Assumptions roundtrip_pomdp_model.

(* POMDP::Policy with the writer repaired by fixes/C17-pomdp-policy-precision.patch (values
   written through [show], i.e. with max_digits10 digits) *)
Theorem roundtrip_pomdp_policy :
  forall (token : Type) (show : Q -> token) (read : token -> option (Q * option token))
         (showN : N -> token) (readN : token -> option (N * option token))
         (at_tok : token) (split_at : token -> option (option token)) (tsize : token -> nat)
         (dbl : Q -> Prop) (u64 : N -> Prop),
  (forall t, 1 <= tsize t) ->
  (forall d, dbl d -> read (show d) = Some (d, None)) ->
  (forall n, u64 n -> readN (showN n) = Some (n, None)) ->
  split_at at_tok = Some None ->
  (forall d, dbl d -> split_at (show d) = None) ->
  (forall n, u64 n -> split_at (showN n) = None) ->
  forall x dest, wf_pomdp_policy dbl u64 x ->
  ppS dest = ppS x -> ppA dest = ppA x -> ppO dest = ppO x ->
  read_pomdp_policy token read readN split_at tsize (write_pomdp_policy token show showN at_tok x) dest = (x, ROk x []).
Proof. exact roundtrip_pomdp_policy_thm. Qed.
Print Assumptions roundtrip_pomdp_policy.

(* The writer as it stands in /repo formats the values with the stream's default 6 significant
   digits: a formatter [show6] that maps two distinct doubles to the same token (0.1234567 and
   0.1234568 both give "0.123457"; checked on the real writer by the `digits` case).  Then no
   reader whatsoever reads back every well-formed policy. *)
Theorem pomdp_policy_roundtrip_refuted :
  forall (token : Type) (show6 : Q -> token) (showN : N -> token) (at_tok : token)
         (dbl : Q -> Prop) (u64 : N -> Prop), u64 0%N ->
  forall d1 d2 : Q, dbl d1 -> dbl d2 -> d1 <> d2 -> show6 d1 = show6 d2 ->
  forall reader : list token -> pomdp_policy,
  ~ (forall x, wf_pomdp_policy dbl u64 x ->
               reader (write_pomdp_policy_with token showN at_tok show6 x) = x).
Proof. exact pomdp_policy_roundtrip_refuted_lemma. Qed.
Print Assumptions pomdp_policy_roundtrip_refuted.

(* ---- sparse variants (SparseTable2D reader as repaired by fixes/C17-sparse-table-read-type.patch) ---- *)
Theorem roundtrip_sparse_model :
  forall (token : Type) (show : Q -> token) (read : token -> option (Q * option token))
         (showN : N -> token) (readN : token -> option (N * option token)) (dbl : Q -> Prop) (u64 : N -> Prop),
  (forall d, dbl d -> read (show d) = Some (d, None)) ->
  (forall n, u64 n -> readN (showN n) = Some (n, None)) ->
  forall x dest, wf_smodel dbl u64 x -> smS dest = smS x -> smA dest = smA x ->
  read_smodel token read readN (write_smodel token show showN x) dest = (x, ROk x []).
Proof. exact roundtrip_sparse_model_lemma. Qed.
Print Assumptions roundtrip_sparse_model.

Theorem roundtrip_sparse_experience :
  forall (token : Type) (show : Q -> token) (read : token -> option (Q * option token))
         (showN : N -> token) (readN : token -> option (N * option token)) (dbl : Q -> Prop) (u64 : N -> Prop),
  (forall d, dbl d -> read (show d) = Some (d, None)) ->
  (forall n, u64 n -> readN (showN n) = Some (n, None)) ->
  forall x dest, wf_sexperience dbl u64 x -> seS dest = seS x -> seA dest = seA x ->
  read_sexperience token read readN (write_sexperience token show showN x) dest = (x, ROk x []).
Proof. exact roundtrip_sparse_experience_lemma. Qed.
Print Assumptions roundtrip_sparse_experience.

Theorem roundtrip_sparse_pomdp_model :
  forall (token : Type) (show : Q -> token) (read : token -> option (Q * option token))
         (showN : N -> token) (readN : token -> option (N * option token)) (dbl : Q -> Prop) (u64 : N -> Prop),
  (forall d, dbl d -> read (show d) = Some (d, None)) ->
  (forall n, u64 n -> readN (showN n) = Some (n, None)) ->
  forall x dest, wf_spomdp_model dbl u64 x ->
  spmO dest = spmO x -> smS (spmM dest) = smS (spmM x) -> smA (spmM dest) = smA (spmM x) ->
  read_spomdp_model token read readN (write_spomdp_model token show showN x) dest = (x, ROk x []).
Proof. exact roundtrip_sparse_pomdp_model_lemma. Qed.
Print Assumptions roundtrip_sparse_pomdp_model.

(* Eigen's setFromTriplets (sort, sum duplicates) is the identity on sorted duplicate-free storage *)
Theorem set_from_triplets_sorted_id :
  forall (V : Type) (add : V -> V -> V) (l : list (nat * nat * V)),
  sorted_keys l -> set_from_triplets add l = l.
Proof. exact set_from_triplets_sorted. Qed.
Print Assumptions set_from_triplets_sorted_id.

(* ---- every truncation point, all eight kinds: a file cut after n < length tokens fails to load ---- *)
Theorem truncation_fails :
  forall (token : Type) (show : Q -> token) (read : token -> option (Q * option token))
         (showN : N -> token) (readN : token -> option (N * option token)) (dbl : Q -> Prop) (u64 : N -> Prop),
  (forall d, dbl d -> read (show d) = Some (d, None)) ->
  (forall n, u64 n -> readN (showN n) = Some (n, None)) ->
  (forall x dest n, wf_model dbl x -> mS dest = mS x -> mA dest = mA x ->
     n < length (write_model token show x) ->
     read_model token read (firstn n (write_model token show x)) dest = (dest, RFail)) /\
  (forall x dest n, wf_experience dbl u64 x -> eS dest = eS x -> eA dest = eA x ->
     n < length (write_experience token show showN x) ->
     read_experience token read readN (firstn n (write_experience token show showN x)) dest = (dest, RFail)) /\
  (forall x dest n, wf_mdp_policy dbl x -> pS dest = pS x -> pA dest = pA x ->
     n < length (write_mdp_policy token show x) ->
     read_mdp_policy token read (firstn n (write_mdp_policy token show x)) dest = (dest, RFail)) /\
  (forall x dest n, wf_pomdp_model dbl x ->
     pmO dest = pmO x -> mS (pmM dest) = mS (pmM x) -> mA (pmM dest) = mA (pmM x) ->
     n < length (write_pomdp_model token show x) ->
     read_pomdp_model token read (firstn n (write_pomdp_model token show x)) dest = (dest, RFail)).
Proof. exact truncation_fails_lemma. Qed.
Print Assumptions truncation_fails.

Theorem truncation_fails_sparse :
  forall (token : Type) (show : Q -> token) (read : token -> option (Q * option token))
         (showN : N -> token) (readN : token -> option (N * option token)) (dbl : Q -> Prop) (u64 : N -> Prop),
  (forall d, dbl d -> read (show d) = Some (d, None)) ->
  (forall n, u64 n -> readN (showN n) = Some (n, None)) ->
  (forall x dest n, wf_smodel dbl u64 x -> smS dest = smS x -> smA dest = smA x ->
     n < length (write_smodel token show showN x) ->
     read_smodel token read readN (firstn n (write_smodel token show showN x)) dest = (dest, RFail)) /\
  (forall x dest n, wf_sexperience dbl u64 x -> seS dest = seS x -> seA dest = seA x ->
     n < length (write_sexperience token show showN x) ->
     read_sexperience token read readN (firstn n (write_sexperience token show showN x)) dest = (dest, RFail)) /\
  (forall x dest n, wf_spomdp_model dbl u64 x ->
     spmO dest = spmO x -> smS (spmM dest) = smS (spmM x) -> smA (spmM dest) = smA (spmM x) ->
     n < length (write_spomdp_model token show showN x) ->
     read_spomdp_model token read readN (firstn n (write_spomdp_model token show showN x)) dest = (dest, RFail)).
Proof. exact truncation_fails_sparse_lemma. Qed.
Print Assumptions truncation_fails_sparse.

(* POMDP::Policy, any horizon.  [tsize] = number of characters of a token; what an extraction
   leaves of a token is shorter than the token (needed only to bound the loop). *)
Theorem truncation_fails_pomdp_policy :
  forall (token : Type) (show : Q -> token) (read : token -> option (Q * option token))
         (showN : N -> token) (readN : token -> option (N * option token))
         (at_tok : token) (split_at : token -> option (option token)) (tsize : token -> nat)
         (dbl : Q -> Prop) (u64 : N -> Prop),
  (forall t, 1 <= tsize t) ->
  (forall d, dbl d -> read (show d) = Some (d, None)) ->
  (forall n, u64 n -> readN (showN n) = Some (n, None)) ->
  split_at at_tok = Some None ->
  (forall d, dbl d -> split_at (show d) = None) ->
  (forall n, u64 n -> split_at (showN n) = None) ->
  (forall t q t', read t = Some (q, Some t') -> tsize t' < tsize t) ->
  (forall t n t', readN t = Some (n, Some t') -> tsize t' < tsize t) ->
  (forall t t', split_at t = Some (Some t') -> tsize t' < tsize t) ->
  forall x dest n, wf_pomdp_policy dbl u64 x ->
  ppS dest = ppS x -> ppA dest = ppA x -> ppO dest = ppO x ->
  n < length (write_pomdp_policy token show showN at_tok x) ->
  read_pomdp_policy token read readN split_at tsize
    (firstn n (write_pomdp_policy token show showN at_tok x)) dest = (dest, RFail).
Proof. exact truncation_fails_pomdp_policy_thm. Qed.
Print Assumptions truncation_fails_pomdp_policy.

(* ---- the POMDP::Policy reader terminates: every iteration of its while(true) loop consumes at
        least one character, so the model's fuel (characters on the stream + 1) is never exhausted
        and the status St_fuel is unreachable — for every token stream ---- *)
Theorem pomdp_policy_reader_terminates :
  forall (token : Type) (read : token -> option (Q * option token)) (readN : token -> option (N * option token))
         (split_at : token -> option (option token)) (tsize : token -> nat),
  (forall t, 1 <= tsize t) ->
  (forall t q t', read t = Some (q, Some t') -> tsize t' < tsize t) ->
  (forall t n t', readN t = Some (n, Some t') -> tsize t' < tsize t) ->
  (forall t t', split_at t = Some (Some t') -> tsize t' < tsize t) ->
  forall toks dest,
  status_of (snd (read_pomdp_policy token read readN split_at tsize toks dest)) <> St_fuel.
Proof. exact pomdp_policy_reader_terminates_lemma. Qed.
Print Assumptions pomdp_policy_reader_terminates.

(* ---- corruption: whatever token stream a reader accepts (a corrupted file included), the object
        it commits is exactly what it returns and is well-formed — shapes, probabilities, discount,
        links in range — with the destination's dimensions; hence, by the round-trip theorems, it
        is the object whose own written image loads back to it.  Together with
        failed_load_leaves_dest: a corrupted stream is either rejected with the destination
        unchanged, or loads a well-formed object.  [dbl]/[u64] = what the extractors can produce. ---- *)
Theorem loaded_object_is_wf :
  forall (token : Type) (read : token -> option (Q * option token)) (readN : token -> option (N * option token))
         (split_at : token -> option (option token)) (tsize : token -> nat) (dbl : Q -> Prop) (u64 : N -> Prop),
  (forall t q l, read t = Some (q, l) -> dbl q) ->
  (forall t n l, readN t = Some (n, l) -> u64 n) ->
  (accepts token (read_model token read) (fun d x => wf_model dbl x /\ mS x = mS d /\ mA x = mA d) /\
   accepts token (read_experience token read readN) (fun d x => wf_experience dbl u64 x /\ eS x = eS d /\ eA x = eA d) /\
   accepts token (read_mdp_policy token read) (fun d x => wf_mdp_policy dbl x /\ pS x = pS d /\ pA x = pA d) /\
   accepts token (read_pomdp_model token read)
     (fun d x => wf_pomdp_model dbl x /\ pmO x = pmO d /\ mS (pmM x) = mS (pmM d) /\ mA (pmM x) = mA (pmM d))) /\
  accepts token (read_pomdp_policy token read readN split_at tsize)
    (fun d x => wf_pomdp_policy dbl u64 x /\ ppS x = ppS d /\ ppA x = ppA d /\ ppO x = ppO d).
Proof. exact loaded_object_is_wf_lemma. Qed.
Print Assumptions loaded_object_is_wf.

(* sparse kinds: sorted duplicate-free in-range storage, valid probabilities and discount
   (the sum of two duplicate entries is exact in the model, so no "is a double" claim here) *)
Theorem loaded_sparse_object_is_wf :
  forall (token : Type) (read : token -> option (Q * option token)) (readN : token -> option (N * option token)),
  accepts token (read_smodel token read readN) (fun d x => wf_smodel anyQ anyN x /\ smS x = smS d /\ smA x = smA d) /\
  accepts token (read_sexperience token read readN)
    (fun d x => wf_sexperience anyQ anyN x /\ seS x = seS d /\ seA x = seA d) /\
  accepts token (read_spomdp_model token read readN)
    (fun d x => wf_spomdp_model anyQ anyN x /\ spmO x = spmO d /\
                smS (spmM x) = smS (spmM d) /\ smA (spmM x) = smA (spmM d)).
Proof. exact loaded_sparse_lemma. Qed.
Print Assumptions loaded_sparse_object_is_wf.

(* ---- the oracle's boolean validity checkers are sound for the wf_ predicates ---- *)
Theorem valid_checkers_sound :
  (forall m, valid_model_b m = true -> wf_model anyQ m) /\
  (forall p, valid_mdp_policy_b p = true -> wf_mdp_policy anyQ p) /\
  (forall p, valid_pomdp_policy_b p = true -> wf_pomdp_policy anyQ anyN p) /\
  (forall A (dest res : A) st same, (same = true -> res = dest) -> load_atomic_b st same = true -> load_atomic dest res st).
Proof. exact valid_checkers_sound_lemma. Qed.
Print Assumptions valid_checkers_sound.

(* A load whose status is not ok (failbit, or an exception out of setDiscount) returns the
   destination unchanged — for all eight operator>> and for any token stream whatsoever
   (truncated, corrupted, or semantically invalid). *)
Theorem failed_load_leaves_dest :
  forall (token : Type) (read : token -> option (Q * option token))
         (readN : token -> option (N * option token)) (split_at : token -> option (option token))
         (tsize : token -> nat),
  leaves_dest token (read_model token read) /\
  leaves_dest token (read_smodel token read readN) /\
  leaves_dest token (read_experience token read readN) /\
  leaves_dest token (read_sexperience token read readN) /\
  leaves_dest token (read_mdp_policy token read) /\
  leaves_dest token (read_pomdp_model token read) /\
  leaves_dest token (read_spomdp_model token read readN) /\
  leaves_dest token (read_pomdp_policy token read readN split_at tsize).
Proof. exact failed_load_leaves_dest_lemma. Qed.
Print Assumptions failed_load_leaves_dest.

(* hypotheses are satisfiable: a concrete token instance and non-trivial objects *)
Example ex_roundtrip_model_nonvacuous :
  (forall d, anyQ d -> x_read (x_show d) = Some (d, None)) /\ wf_model anyQ ex_model /\
  read_model xtoken x_read (write_model xtoken x_show ex_model) ex_model_dest = (ex_model, ROk ex_model []).
Proof. split; [exact x_digits17|]. split; [exact ex_model_wf|]. reflexivity. Qed.

Example ex_roundtrip_experience_nonvacuous :
  wf_experience anyQ anyN ex_experience /\ (forall n, anyN n -> x_readN (x_showN n) = Some (n, None)).
Proof. split; [exact ex_experience_wf | exact x_showN_ok]. Qed.

Example ex_roundtrip_policy_nonvacuous : wf_mdp_policy anyQ ex_policy /\ wf_pomdp_model anyQ ex_pomdp_model.
Proof. split; [exact ex_policy_wf | exact ex_pomdp_model_wf]. Qed.

(* a load that fails: the truncated file of ex_model leaves the destination as it was *)
Example ex_failed_load :
  read_model xtoken x_read (firstn 5 (write_model xtoken x_show ex_model)) ex_model_dest = (ex_model_dest, RFail).
Proof. reflexivity. Qed.

Example ex_roundtrip_pomdp_policy_nonvacuous :
  wf_pomdp_policy anyQ anyN ex_pomdp_policy /\ x_split_at XAt = Some None /\
  (forall d, anyQ d -> x_split_at (x_show d) = None) /\ (forall n, anyN n -> x_split_at (x_showN n) = None) /\
  read_pomdp_policy xtoken x_read x_readN x_split_at x_tsize (write_pomdp_policy xtoken x_show x_showN XAt ex_pomdp_policy)
    ex_pomdp_policy_dest = (ex_pomdp_policy, ROk ex_pomdp_policy []).
Proof. split; [exact ex_pomdp_policy_wf|]. repeat split. Qed.

(* a formatter that is not injective on doubles exists: keep 6 decimal digits after the point *)
Example ex_refuted_hypotheses :
  let show6 := fun q : Q => XQ (Qred (Qmake (Qfloor (q * 1000000)) 1000000)) in
  (1234567 # 10000000) <> (1234568 # 10000000) /\ show6 (1234567 # 10000000) = show6 (1234568 # 10000000).
Proof. split; [discriminate | reflexivity]. Qed.

Example ex_roundtrip_sparse_nonvacuous :
  wf_smodel anyQ anyN ex_smodel /\ wf_sexperience anyQ anyN ex_sexperience /\
  read_smodel xtoken x_read x_readN (write_smodel xtoken x_show x_showN ex_smodel) ex_smodel_dest
    = (ex_smodel, ROk ex_smodel []).
Proof. split; [exact ex_smodel_wf|]. split; [exact ex_sexperience_wf|]. reflexivity. Qed.

(* the size hypotheses of the termination / POMDP::Policy truncation theorems are satisfiable *)
Example ex_fuel_hypotheses :
  (forall t, 1 <= x_tsize t) /\
  (forall t q t', x_read t = Some (q, Some t') -> x_tsize t' < x_tsize t) /\
  (forall t n t', x_readN t = Some (n, Some t') -> x_tsize t' < x_tsize t) /\
  (forall t t', x_split_at t = Some (Some t') -> x_tsize t' < x_tsize t) /\
  read_pomdp_policy xtoken x_read x_readN x_split_at x_tsize
    (firstn 7 (write_pomdp_policy xtoken x_show x_showN XAt ex_pomdp_policy)) ex_pomdp_policy_dest
    = (ex_pomdp_policy_dest, RFail).
Proof.
  split; [intros; cbn; auto|]. split; [intros [| |] ? ? H; inversion H|].
  split; [intros [| |] ? ? H; inversion H|]. split; [intros [| |] ? H; inversion H|]. reflexivity.
Qed.

Example ex_checkers_nonvacuous :
  valid_model_b ex_model = true /\ valid_mdp_policy_b ex_policy = true /\ valid_pomdp_policy_b ex_pomdp_policy = true.
Proof. repeat split. Qed.
