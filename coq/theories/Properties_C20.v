(* Properties_C20.v — property C20: rule indexes return exactly the matching entries.
   Only statements, each closed by [exact <lemma>] and followed by Print Assumptions.
   Model.v: [trie_history fixed F ops] runs the modelled Trie (constructor, then the operations);
   fixed = true is the repaired code (fixes/C20-trie-size.patch, fixes/C20-trie-erase-end.patch),
   fixed = false the code as it stands in /repo.  Spec.v: the abstract store after a history
   ([spec_store]), [compatible], [filter_spec], the expected outputs ([spec_outs]) and the
   admissible histories ([history_ok]: >= 2 factors, well-formed keys, erase(id, pf) with the
   inserting key or a non-stored id, strictly increasing id lists for refine). *)
From Coq Require Import List Arith Bool Sorted Permutation.
From AIT Require Import C20.Model C20.Spec C20.ProofsLists C20.ProofsApply C20.Proofs C20.ProofsFaster C20.ProofsFilterMap C20.ProofsReconstruct C20.ProofsChecker C20.ProofsReconstruct2 C20.ProofsCopy.
Import ListNotations.

(* --- meaning of the spec's boolean filter --- *)
Theorem compatibleb_iff : forall q e, compatibleb q e = true <-> compatible q e.
Proof. exact Proofs.compatibleb_iff. Qed.
Print Assumptions compatibleb_iff.

Theorem filter_spec_char : forall st q id,
  In id (filter_spec st q) <-> exists pf, In (id, pf) st /\ compatible q pf.
Proof. exact Proofs.filter_spec_char. Qed.
Print Assumptions filter_spec_char.

Theorem erased_not_stored : forall ops id, ~ In id (map fst (spec_store (ops ++ [OErase id]))).
Proof. exact Proofs.erased_not_stored. Qed.
Print Assumptions erased_not_stored.

(* --- applyFilters (cursor algorithm with the lastMaxFound skip): any number >= 1 of filters, each a
       pair of strictly increasing, disjoint id ranges, not both empty: the result is the strictly
       increasing list of the ids common to all filters; no UB, the loop terminates. --- *)
Theorem applyFilters_is_intersection : forall fs : list (list nat * list nat),
  fs <> [] ->
  (forall f, In f fs ->
     StronglySorted lt (fst f) /\ StronglySorted lt (snd f) /\ (forall x, In x (fst f) -> In x (snd f) -> False) /\
     (fst f <> [] \/ snd f <> [])) ->
  exists m, applyFilters fs = ADone m /\ StronglySorted lt m /\
            forall x, In x m <-> (forall f, In f fs -> In x (fst f) \/ In x (snd f)).
Proof. exact applyFilters_is_intersection_lemma. Qed.
Print Assumptions applyFilters_is_intersection.

(* --- every output along every admissible history is the spec's (ids returned by insert, filter ×2,
       refine, size, getAllIds), and no operation reaches UB or throws --- *)
Theorem outputs_exact : forall F ops, history_ok F ops ->
  exists t, trie_history true F ops = Ok (t, spec_outs ops).
Proof. exact outputs_exact_lemma. Qed.
Print Assumptions outputs_exact.

(* --- after any admissible history, any query returns exactly the ids of the stored compatible
       entries, in increasing order: no omission, nothing spurious, nothing stale --- *)
Theorem filter_exact : forall F ops, history_ok F ops ->
  exists t, trie_history true F ops = Ok (t, spec_outs ops) /\
    (forall q, pf_okb F q = true -> trie_filterPf true t q = Ok (filter_spec (spec_store ops) q)) /\
    (forall f off, pf_okb F (query_of_factors f off) = true ->
       trie_filterF true t f off = Ok (filter_spec (spec_store ops) (query_of_factors f off))).
Proof. exact filter_exact_lemma. Qed.
Print Assumptions filter_exact.

Theorem refine_exact : forall F ops ids q, history_ok F ops -> pf_okb F q = true -> sortedb ids = true ->
  exists t, trie_history true F ops = Ok (t, spec_outs ops) /\
    trie_refine t ids q = Ok (match fst q with
                              | [] => ids
                              | _ => List.filter (fun id => memb id (filter_spec (spec_store ops) q)) ids
                              end).
Proof. exact refine_exact_lemma. Qed.
Print Assumptions refine_exact.

Theorem size_eq_card : forall F ops, history_ok F ops ->
  exists t, trie_history true F ops = Ok (t, spec_outs ops) /\ trie_size true t = Ok (length (spec_store ops)).
Proof. exact size_eq_card_lemma. Qed.
Print Assumptions size_eq_card.

Theorem getAllIds_eq_dom : forall F ops, history_ok F ops ->
  exists t, trie_history true F ops = Ok (t, spec_outs ops) /\ trie_getAllIds true t = Ok (map fst (spec_store ops)).
Proof. exact getAllIds_eq_dom_lemma. Qed.
Print Assumptions getAllIds_eq_dom.

(* --- the unrepaired code: size / getAllIds read out of bounds on Trie({3,2}); erasing the same
       (id, key) twice dereferences end() --- *)
Theorem size_orig_refuted : exists F t, trie_new F = Ok t /\ trie_size false t = UB.
Proof. exact size_orig_refuted_lemma. Qed.
Print Assumptions size_orig_refuted.

Theorem getAllIds_orig_refuted : exists F t, trie_new F = Ok t /\ trie_getAllIds false t = UB.
Proof. exact getAllIds_orig_refuted_lemma. Qed.
Print Assumptions getAllIds_orig_refuted.

Theorem erasePf_orig_refuted :
  history_ok [2;2] double_erase /\ trie_history false [2;2] double_erase = UB.
Proof. exact erasePf_orig_refuted_lemma. Qed.
Print Assumptions erasePf_orig_refuted.

(* --- FasterTrie (buckets by first key/value, swap-and-pop erase): after any admissible history of
       insert / erase(id, key) / filter / size calls, filter(f) (f a prefix of the factor space) returns
       exactly the ids of the stored entries compatible with f; no UB.  (The order of the ids is
       unspecified; that no id is repeated is checked by the correspondence, not proved.) --- *)
Theorem FasterTrie_filter_exact : forall F ops f, ft_history_ok F ops ->
  pf_okb F (query_of_factors f 0) = true ->
  exists t outs l, ft_history F ops = Ok (t, outs) /\ ft_filter t f = Ok l /\
    forall id, In id l <-> exists pf, In (id, pf) (spec_store ops) /\ compatible (query_of_factors f 0) pf.
Proof. exact FasterTrie_filter_exact_lemma. Qed.
Print Assumptions FasterTrie_filter_exact.

(* --- FasterTrie, round 2: along every admissible history every output is the spec's (id lists up to
       order, and without repeated ids), size() = number of stored entries, filter has no repeated id --- *)
Theorem FasterTrie_history : forall F ops, ft_history_ok F ops ->
  exists t outs, ft_history F ops = Ok (t, outs) /\ Forall2 out_sim (spec_outs ops) outs /\
    ft_size t = length (spec_store ops) /\
    forall f, pf_okb F (query_of_factors f 0) = true ->
      exists l, ft_filter t f = Ok l /\ NoDup l /\ Permutation (filter_spec (spec_store ops) (query_of_factors f 0)) l.
Proof. exact FasterTrie_history_lemma. Qed.
Print Assumptions FasterTrie_history.

(* --- FasterTrie::reconstruct, for ANY outcome of its three std::shuffle calls (ord0 = order of the
       factors, ordv = orders of the values, keysS = keys_ after the in-place bucket shuffles, bucket
       by bucket a permutation of keys_), from any state that represents a store st:
       every returned entry is stored and compatible with the query, any two returned entries are
       compatible, the returned factors carry the query's and the entries' values, and the buckets
       afterwards (plus the returned entries when remove = true) hold exactly the store. --- *)
Theorem reconstruct_compatible : forall t c st q remove ord0 ordv keysS t' entries f',
  FInv2 t (c, st) -> pf_okb (fF t) q = true -> shuffle_of (fkeys t) keysS ->
  ft_reconstruct t q remove ord0 ordv keysS = Ok (t', entries, f') ->
  (forall e, In e entries -> In e st /\ compatible q (snd e)) /\
  (forall e1 e2, In e1 entries -> In e2 entries -> compatible (snd e1) (snd e2)) /\
  length f' = length (fF t) /\
  (forall k v, pf_get q k = Some v -> nth_error f' k = Some v) /\
  (forall e k v, In e entries -> pf_get (snd e) k = Some v -> nth_error f' k = Some v) /\
  fF t' = fF t /\
  Permutation (flat (fkeys t') ++ (if remove then entries else [])) st.
Proof. exact reconstruct_compatible_lemma. Qed.
Print Assumptions reconstruct_compatible.

(* remove = true: the returned entries are erased, none is returned twice, sizes add up *)
Theorem reconstruct_removed : forall t c st q ord0 ordv keysS t' entries f',
  FInv2 t (c, st) -> pf_okb (fF t) q = true -> shuffle_of (fkeys t) keysS ->
  ft_reconstruct t q true ord0 ordv keysS = Ok (t', entries, f') ->
  NoDup (map fst entries) /\
  (forall e, In e entries -> ~ In (fst e) (map fst (flat (fkeys t')))) /\
  ft_size t' + length entries = length st.
Proof. exact reconstruct_removed_lemma. Qed.
Print Assumptions reconstruct_removed.

(* the representation invariant FInv2 used above is the one every admissible history establishes *)
Theorem FasterTrie_history_inv : forall ops F t s, FInv2 t s -> ft_hist_okb (fF t) s ops = true -> F = fF t ->
  exists t' outs, ft_run t ops = Ok (t', outs) /\ fF t' = F /\ FInv2 t' (fst (spec_run s ops)).
Proof.
  intros ops F t s H1 H2 ->. destruct (ft_run_sim2 ops t s H1 H2) as [t' [outs [E [HF [HI _]]]]]. eauto.
Qed.
Print Assumptions FasterTrie_history_inv.

Theorem FasterTrie_new_inv : forall F, FInv2 (ft_new F) (0, []).
Proof. exact ft_new_inv2. Qed.
Print Assumptions FasterTrie_new_inv.

(* --- FilterMap<T, Trie> / IndexMap: a FilterMap built by any sequence of emplace(key, item) refines the
       abstract store "list of (key, item) in emplace order": every filter overload — PartialFactors,
       Factors with offset, Factors; each in its non-const and its const version — returns exactly the
       items whose key is compatible with the query, in emplace order; no item index is out of range;
       size() is the number of items. --- *)
Theorem FilterMap_refines : forall (A : Type) F (entries : list (pfactors * A)),
  2 <= length F -> Forall (fun e => pf_okb F (fst e) = true) entries ->
  exists m, fm_build F entries = Ok m /\ fm_size m = length entries /\
    (forall q, pf_okb F q = true ->
       fm_filterPf m q = Ok (fm_spec entries q) /\ fm_filterPf_const m q = Ok (fm_spec entries q)) /\
    (forall f off, pf_okb F (query_of_factors f off) = true ->
       fm_filterFO m f off = Ok (fm_spec entries (query_of_factors f off)) /\
       fm_filterFO_const m f off = Ok (fm_spec entries (query_of_factors f off))) /\
    (forall f, pf_okb F (query_of_factors f 0) = true ->
       fm_filterF m f = Ok (fm_spec entries (query_of_factors f 0)) /\
       fm_filterF_const m f = Ok (fm_spec entries (query_of_factors f 0))).
Proof. exact FilterMap_refines_lemma. Qed.
Print Assumptions FilterMap_refines.

(* --- fuel-free statements for the two loops of applyFilters (the only model functions that recurse
       on fuel; rc_bucket recurses on an iteration bound): the loops are the big-step relations
       [loop_runs] / [drain_runs] generated by their bodies; on well-formed filters the relations are
       total, their unique result is the sorted intersection, and every sufficient fuel computes it. --- *)
Theorem applyFilters_loop_fuel_free : forall fs m0, 2 <= length fs ->
  Forall fwf fs -> Forall (fun f => f_valid f = true) fs -> f_min (hd ([], []) fs) = Some m0 ->
  exists m, loop_runs (fs, 1, 0, m0) m /\ StronglySorted lt m /\ (forall x, In x m <-> inall fs x) /\
            forall fuel, apply_fuel fs <= fuel -> apply_loop fuel (fs, 1, 0, m0) = ADone m.
Proof. exact loop_total_correct. Qed.
Print Assumptions applyFilters_loop_fuel_free.

Theorem loop_runs_deterministic : forall st m1 m2, loop_runs st m1 -> loop_runs st m2 -> m1 = m2.
Proof. exact loop_runs_det. Qed.
Print Assumptions loop_runs_deterministic.

Theorem apply_loop_is_loop_runs : forall st m, (exists fuel, apply_loop fuel st = ADone m) <-> loop_runs st m.
Proof.
  intros st m. split.
  - intros [fuel H]. eapply apply_loop_runs; eauto.
  - intros H. destruct (runs_apply_loop st m H) as [fuel Hf]. exists fuel. apply Hf. apply le_n.
Qed.
Print Assumptions apply_loop_is_loop_runs.

Theorem drain_fuel_free : forall f, fwf f ->
  exists m, drain_runs f m /\ StronglySorted lt m /\ (forall x, In x m <-> In x (content f)) /\
            forall fuel, f_size f < fuel -> drain fuel f = ADone m.
Proof. exact drain_total_correct. Qed.
Print Assumptions drain_fuel_free.

Theorem rc_bucket_bound_free : forall F remove n m todo kept f acc done,
  length todo <= n -> length todo <= m ->
  rc_bucket n F remove todo kept f acc done = rc_bucket m F remove todo kept f acc done.
Proof. exact rc_bucket_bound_irrelevant. Qed.
Print Assumptions rc_bucket_bound_free.

(* --- reconstruct, round 3.
   (a) No out-of-range access: whatever the shuffles produce — [orders_ok]: factor indices inside F, per
       factor a non-empty order of values inside that factor's range; keysS bucket-wise a permutation of
       keys_ — the checked model returns Ok (never UB). --- *)
Theorem reconstruct_no_UB : forall t c st q remove ord0 ordv keysS,
  FInv2 t (c, st) -> pf_okb (fF t) q = true -> shuffle_of (fkeys t) keysS -> orders_ok (fF t) ord0 ordv ->
  exists t' entries f', ft_reconstruct t q remove ord0 ordv keysS = Ok (t', entries, f').
Proof. exact reconstruct_no_UB_lemma. Qed.
Print Assumptions reconstruct_no_UB.

(* (b) Nothing else changes: F and the id counter are untouched and the object afterwards represents
       exactly the store without the returned entries (remove = true) / the same store (remove = false)
       — bucket placement, no repeated ids, multiset — so that any further history starts from a valid
       state (FasterTrie_history_inv applies to t'). *)
Theorem reconstruct_state : forall t c st q remove ord0 ordv keysS t' entries f',
  FInv2 t (c, st) -> pf_okb (fF t) q = true -> shuffle_of (fkeys t) keysS ->
  ft_reconstruct t q remove ord0 ordv keysS = Ok (t', entries, f') ->
  fF t' = fF t /\ fcounter t' = fcounter t /\ FInv2 t' (c, store_after remove entries st).
Proof. exact reconstruct_state_lemma. Qed.
Print Assumptions reconstruct_state.

(* (c) The executable checker the driver runs on the REAL reconstruct's output is sound for the Prop
       [reconstruct_spec] (entries stored, agreeing with the query and pairwise, factors carrying the
       query's and the entries' values) and for "no id twice"; the model's output satisfies the same Prop. *)
Theorem reconstruct_okb_sound : forall F (st : store) q entries f,
  (forall e, In e st -> pf_okb F (snd e) = true) -> pf_okb F q = true -> reconstruct_okb F st q entries f = true ->
  reconstruct_spec st q entries f /\ NoDup (map fst entries).
Proof. exact reconstruct_okb_sound_lemma. Qed.
Print Assumptions reconstruct_okb_sound.

Theorem reconstruct_meets_spec : forall t c st q remove ord0 ordv keysS t' entries f',
  FInv2 t (c, st) -> pf_okb (fF t) q = true -> shuffle_of (fkeys t) keysS ->
  ft_reconstruct t q remove ord0 ordv keysS = Ok (t', entries, f') ->
  reconstruct_spec st q entries f'.
Proof. exact reconstruct_meets_spec_lemma. Qed.
Print Assumptions reconstruct_meets_spec.

(* the returned factors are exactly the list the checker compares with: the query's value, else the value
   of a returned entry naming the factor, else the "unset" marker F[k] *)
Theorem reconstruct_factors_exact : forall t c st q remove ord0 ordv keysS t' entries f',
  FInv2 t (c, st) -> pf_okb (fF t) q = true -> shuffle_of (fkeys t) keysS ->
  ft_reconstruct t q remove ord0 ordv keysS = Ok (t', entries, f') ->
  f' = expected_factors (fF t) q entries.
Proof. exact reconstruct_factors_exact_lemma. Qed.
Print Assumptions reconstruct_factors_exact.

(* [agree] (both name the factor -> same value) is [compatible] on well-formed keys *)
Theorem agree_iff_compatible : forall F a b, pf_okb F a = true -> (agree a b <-> compatible a b).
Proof. intros F a b H. split; [apply (agree_compatible F); auto|apply compatible_agree]. Qed.
Print Assumptions agree_iff_compatible.

(* --- copies (copy construction, copy assignment, move) are values: the copy represents the same store
       with the same id counter — which is above every stored id, so an insert into the copy never reuses
       a stored id — and a history continued on the copy, like one continued on the original, gets the
       spec's outputs from the spec state reached before the copy. --- *)
Theorem trie_fork : forall F ops1 ops2, history_ok F ops1 -> hist_okb F (spec_state ops1) ops2 = true ->
  exists t t2, trie_history true F ops1 = Ok (t, spec_outs ops1) /\
    trie_run true (trie_copy t) ops2 = Ok (t2, snd (spec_run (spec_state ops1) ops2)) /\
    (exists t3, trie_run true t ops2 = Ok (t3, snd (spec_run (spec_state ops1) ops2))).
Proof. exact trie_fork_lemma. Qed.
Print Assumptions trie_fork.

Theorem ft_fork : forall F ops1 ops2, ft_history_ok F ops1 -> ft_hist_okb F (spec_state ops1) ops2 = true ->
  exists t outs1, ft_history F ops1 = Ok (t, outs1) /\
    (exists t2 outs2, ft_run (ft_copy t) ops2 = Ok (t2, outs2) /\ Forall2 out_sim (snd (spec_run (spec_state ops1) ops2)) outs2 /\
                      FInv2 t2 (fst (spec_run (spec_state ops1) ops2))) /\
    (exists t3 outs3, ft_run t ops2 = Ok (t3, outs3) /\ Forall2 out_sim (snd (spec_run (spec_state ops1) ops2)) outs3).
Proof. exact ft_fork_lemma. Qed.
Print Assumptions ft_fork.

Theorem ft_copy_keeps_invariant : forall t c st, FInv2 t (c, st) ->
  FInv2 (ft_copy t) (c, st) /\ fcounter (ft_copy t) = c /\ forall e, In e st -> fst e < fcounter (ft_copy t).
Proof.
  intros t c st H. destruct (ft_copy_inv t _ H) as [Hc _]. destruct (finv_counter_fresh _ _ _ Hc) as [H1 H2]. auto.
Qed.
Print Assumptions ft_copy_keeps_invariant.

(* --- the hypotheses are satisfiable on non-trivial inputs --- *)
Definition ex_hist : list op :=
  [OInsert ([0], [1]); OInsert ([1;2], [0;2]); OInsert ([], []); OInsert ([0;2], [1;0]);
   OErase 1; OInsert ([2], [2]); OErasePf 0 ([0], [1]); OErasePf 0 ([0], [1])].

Example ex_history_ok : history_ok [3;2;4] ex_hist /\ spec_store ex_hist = [(2, ([], [])); (3, ([0;2], [1;0])); (4, ([2], [2]))]
  /\ filter_spec (spec_store ex_hist) ([0;2], [1;2]) = [2; 4]
  /\ (exists t, trie_history true [3;2;4] ex_hist = Ok (t, spec_outs ex_hist) /\ trie_filterPf true t ([0;2], [1;2]) = Ok [2;4]
                /\ trie_size true t = Ok 3).
Proof.
  split; [split; [cbn; repeat constructor|vm_compute; reflexivity]|].
  split; [vm_compute; reflexivity|]. split; [vm_compute; reflexivity|].
  eexists. split; [vm_compute; reflexivity|]. split; vm_compute; reflexivity.
Qed.

Example ex_applyFilters :
  applyFilters [([1;4;9], [2;7]); ([2;3;9], [1;8]); ([], [0;1;2;5;9])] = ADone [1;2;9].
Proof. vm_compute. reflexivity. Qed.

Definition ex_fhist : list op :=
  [OInsert ([0], [1]); OInsert ([1;2], [0;2]); OInsert ([0;2], [1;0]); OErasePf 0 ([0], [1]); OInsert ([2], [2]);
   OFilterF [1;0] 0; OSize].

Example ex_ft_history_ok : ft_history_ok [3;2;4] ex_fhist /\
  (exists t outs, ft_history [3;2;4] ex_fhist = Ok (t, outs) /\ ft_filter t [1;0;2] = Ok [1;3]).
Proof. split; [vm_compute; reflexivity|]. eexists. eexists. split; vm_compute; reflexivity. Qed.

(* a reconstruct call whose hypotheses hold: state after three inserts, buckets shuffled *)
Example ex_reconstruct :
  exists t outs, ft_history [3;2;4] [OInsert ([0], [1]); OInsert ([1;2], [0;2]); OInsert ([0;2], [1;0]); OInsert ([0;2], [1;2])] = Ok (t, outs) /\
    shuffle_of (fkeys t) [[[]; [(3, ([0;2], [1;2])); (0, ([0], [1])); (2, ([0;2], [1;0]))]; []]; [[(1, ([1;2], [0;2]))]; []]; [[]; []; []; []]] /\
    exists t', ft_reconstruct t ([1], [0]) true [1;0;2] [[1;0;2]; [0;1]; [2;0;3;1]]
                 [[[]; [(3, ([0;2], [1;2])); (0, ([0], [1])); (2, ([0;2], [1;0]))]; []]; [[(1, ([1;2], [0;2]))]; []]; [[]; []; []; []]]
               = Ok (t', [(1, ([1;2], [0;2])); (3, ([0;2], [1;2])); (0, ([0], [1]))], [1;0;2]).
Proof.
  eexists. eexists. split; [vm_compute; reflexivity|]. split.
  - repeat constructor. apply perm_trans with (l' := [(0, ([0], [1])); (3, ([0; 2], [1; 2])); (2, ([0; 2], [1; 0]))]).
    + apply perm_skip. apply perm_swap.
    + apply perm_swap.
  - eexists. vm_compute. reflexivity.
Qed.

Example ex_filtermap :
  exists m, fm_build [2;3] [(([0], [1]), 10); (([1], [2]), 20); (([0;1], [0;2]), 30)] = Ok m /\
            fm_filterFO_const m [2] 1 = Ok [10; 20; 30] /\ fm_filterPf m ([0], [1]) = Ok [10; 20].
Proof. eexists. split; [vm_compute; reflexivity|]. split; vm_compute; reflexivity. Qed.

Example ex_orders_ok : orders_ok [3;2;4] [1;0;2] [[1;0;2]; [0;1]; [2;0;3;1]].
Proof.
  split.
  - intros o [<-|[<-|[<-|[]]]]; cbn; auto.
  - intros [|[|[|o]]] s H; cbn in H; try (destruct o; discriminate); inversion H; subst; eexists; eexists; (split; [reflexivity|]);
      cbn; intros v Hv; repeat (destruct Hv as [<-|Hv]; [auto|]); destruct Hv.
Qed.

Example ex_checker : reconstruct_okb [3;2;4] [(0, ([0], [1])); (1, ([1;2], [0;2])); (2, ([0;2], [1;0])); (3, ([0;2], [1;2]))]
                       ([1], [0]) [(1, ([1;2], [0;2])); (3, ([0;2], [1;2])); (0, ([0], [1]))] [1;0;2] = true.
Proof. vm_compute. reflexivity. Qed.
