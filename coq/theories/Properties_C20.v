(* Properties_C20.v — property C20: rule indexes return exactly the matching entries.
   Only statements, each closed by [exact <lemma>] and followed by Print Assumptions.
   Model.v: [trie_history fixed F ops] runs the modelled Trie (constructor, then the operations);
   fixed = true is the repaired code (fixes/C20-trie-size.patch, fixes/C20-trie-erase-end.patch),
   fixed = false the code as it stands in /repo.  Spec.v: the abstract store after a history
   ([spec_store]), [compatible], [filter_spec], the expected outputs ([spec_outs]) and the
   admissible histories ([history_ok]: >= 2 factors, well-formed keys, erase(id, pf) with the
   inserting key or a non-stored id, strictly increasing id lists for refine). *)
From Coq Require Import List Arith Bool Sorted.
From AIT Require Import C20.Model C20.Spec C20.Proofs C20.ProofsFaster.
Import ListNotations.

(* --- meaning of the spec's boolean filter --- *)
Theorem compatibleb_iff : forall q e, compatibleb q e = true <-> compatible q e.
Proof. exact Proofs.compatibleb_iff. Qed.
Print Assumptions compatibleb_iff.

Theorem filter_spec_char : forall st q id,
  In id (filter_spec st q) <-> exists pf, In (id, pf) st /\ compatible q pf.
Proof. exact Proofs.filter_spec_char. Qed.
Print Assumptions filter_spec_char.

Theorem erased_not_stored : forall ops id, ~ In id (map fst (spec_store (ops ++ [OErase id]))).
Proof. exact Proofs.erased_not_stored. Qed.
Print Assumptions erased_not_stored.

(* --- applyFilters (cursor algorithm with the lastMaxFound skip): any number >= 1 of filters, each a
       pair of strictly increasing, disjoint id ranges, not both empty: the result is the strictly
       increasing list of the ids common to all filters; no UB, the loop terminates. --- *)
Theorem applyFilters_is_intersection : forall fs : list (list nat * list nat),
  fs <> [] ->
  (forall f, In f fs ->
     StronglySorted lt (fst f) /\ StronglySorted lt (snd f) /\ (forall x, In x (fst f) -> In x (snd f) -> False) /\
     (fst f <> [] \/ snd f <> [])) ->
  exists m, applyFilters fs = ADone m /\ StronglySorted lt m /\
            forall x, In x m <-> (forall f, In f fs -> In x (fst f) \/ In x (snd f)).
Proof. exact applyFilters_is_intersection_lemma. Qed.
Print Assumptions applyFilters_is_intersection.

(* --- every output along every admissible history is the spec's (ids returned by insert, filter ×2,
       refine, size, getAllIds), and no operation reaches UB or throws --- *)
Theorem outputs_exact : forall F ops, history_ok F ops ->
  exists t, trie_history true F ops = Ok (t, spec_outs ops).
Proof. exact outputs_exact_lemma. Qed.
Print Assumptions outputs_exact.

(* --- after any admissible history, any query returns exactly the ids of the stored compatible
       entries, in increasing order: no omission, nothing spurious, nothing stale --- *)
Theorem filter_exact : forall F ops, history_ok F ops ->
  exists t, trie_history true F ops = Ok (t, spec_outs ops) /\
    (forall q, pf_okb F q = true -> trie_filterPf true t q = Ok (filter_spec (spec_store ops) q)) /\
    (forall f off, pf_okb F (query_of_factors f off) = true ->
       trie_filterF true t f off = Ok (filter_spec (spec_store ops) (query_of_factors f off))).
Proof. exact filter_exact_lemma. Qed.
Print Assumptions filter_exact.

Theorem refine_exact : forall F ops ids q, history_ok F ops -> pf_okb F q = true -> sortedb ids = true ->
  exists t, trie_history true F ops = Ok (t, spec_outs ops) /\
    trie_refine t ids q = Ok (match fst q with
                              | [] => ids
                              | _ => List.filter (fun id => memb id (filter_spec (spec_store ops) q)) ids
                              end).
Proof. exact refine_exact_lemma. Qed.
Print Assumptions refine_exact.

Theorem size_eq_card : forall F ops, history_ok F ops ->
  exists t, trie_history true F ops = Ok (t, spec_outs ops) /\ trie_size true t = Ok (length (spec_store ops)).
Proof. exact size_eq_card_lemma. Qed.
Print Assumptions size_eq_card.

Theorem getAllIds_eq_dom : forall F ops, history_ok F ops ->
  exists t, trie_history true F ops = Ok (t, spec_outs ops) /\ trie_getAllIds true t = Ok (map fst (spec_store ops)).
Proof. exact getAllIds_eq_dom_lemma. Qed.
Print Assumptions getAllIds_eq_dom.

(* --- the unrepaired code: size / getAllIds read out of bounds on Trie({3,2}); erasing the same
       (id, key) twice dereferences end() --- *)
Theorem size_orig_refuted : exists F t, trie_new F = Ok t /\ trie_size false t = UB.
Proof. exact size_orig_refuted_lemma. Qed.
Print Assumptions size_orig_refuted.

Theorem getAllIds_orig_refuted : exists F t, trie_new F = Ok t /\ trie_getAllIds false t = UB.
Proof. exact getAllIds_orig_refuted_lemma. Qed.
Print Assumptions getAllIds_orig_refuted.

Theorem erasePf_orig_refuted :
  history_ok [2;2] double_erase /\ trie_history false [2;2] double_erase = UB.
Proof. exact erasePf_orig_refuted_lemma. Qed.
Print Assumptions erasePf_orig_refuted.

(* --- FasterTrie (buckets by first key/value, swap-and-pop erase): after any admissible history of
       insert / erase(id, key) / filter / size calls, filter(f) (f a prefix of the factor space) returns
       exactly the ids of the stored entries compatible with f; no UB.  (The order of the ids is
       unspecified; that no id is repeated is checked by the correspondence, not proved.) --- *)
Theorem FasterTrie_filter_exact : forall F ops f, ft_history_ok F ops ->
  pf_okb F (query_of_factors f 0) = true ->
  exists t outs l, ft_history F ops = Ok (t, outs) /\ ft_filter t f = Ok l /\
    forall id, In id l <-> exists pf, In (id, pf) (spec_store ops) /\ compatible (query_of_factors f 0) pf.
Proof. exact FasterTrie_filter_exact_lemma. Qed.
Print Assumptions FasterTrie_filter_exact.

(* --- the hypotheses are satisfiable on non-trivial inputs --- *)
Definition ex_hist : list op :=
  [OInsert ([0], [1]); OInsert ([1;2], [0;2]); OInsert ([], []); OInsert ([0;2], [1;0]);
   OErase 1; OInsert ([2], [2]); OErasePf 0 ([0], [1]); OErasePf 0 ([0], [1])].

Example ex_history_ok : history_ok [3;2;4] ex_hist /\ spec_store ex_hist = [(2, ([], [])); (3, ([0;2], [1;0])); (4, ([2], [2]))]
  /\ filter_spec (spec_store ex_hist) ([0;2], [1;2]) = [2; 4]
  /\ (exists t, trie_history true [3;2;4] ex_hist = Ok (t, spec_outs ex_hist) /\ trie_filterPf true t ([0;2], [1;2]) = Ok [2;4]
                /\ trie_size true t = Ok 3).
Proof.
  split; [split; [cbn; repeat constructor|vm_compute; reflexivity]|].
  split; [vm_compute; reflexivity|]. split; [vm_compute; reflexivity|].
  eexists. split; [vm_compute; reflexivity|]. split; vm_compute; reflexivity.
Qed.

Example ex_applyFilters :
  applyFilters [([1;4;9], [2;7]); ([2;3;9], [1;8]); ([], [0;1;2;5;9])] = ADone [1;2;9].
Proof. vm_compute. reflexivity. Qed.

Definition ex_fhist : list op :=
  [OInsert ([0], [1]); OInsert ([1;2], [0;2]); OInsert ([0;2], [1;0]); OErasePf 0 ([0], [1]); OInsert ([2], [2]);
   OFilterF [1;0] 0; OSize].

Example ex_ft_history_ok : ft_history_ok [3;2;4] ex_fhist /\
  (exists t outs, ft_history [3;2;4] ex_fhist = Ok (t, outs) /\ ft_filter t [1;0;2] = Ok [1;3]).
Proof. split; [vm_compute; reflexivity|]. eexists. eexists. split; vm_compute; reflexivity. Qed.
