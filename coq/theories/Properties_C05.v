(* Properties_C05.v — property C05: belief updates are exact Bayes filtering.
   Only statements, each closed by [exact <lemma>] and followed by Print Assumptions.
   Notation: *E = Eigen (matrix-expression) branch of POMDP/Utils.hpp, *Q = query-loop branch run on a
   query model g with [repr g m] (g answers m's tables); tau_step is Base.Mdp's unnormalised filter. *)
From Coq Require Import List Arith QArith Lia.
From AIT Require Import Base.Qx Base.Mdp C05.Model C05.Spec C05.ProofsWf C05.ProofsMain C05.ProofsSparse C05.ProofsOps C05.ProofsHist.
Import ListNotations.
Local Open Scope Q_scope.

Theorem unnorm_is_bayes : forall m g b a o,
  wf_pomdp m -> repr g m -> length b = nS (pm m) -> (a < nA (pm m))%nat -> (o < nO m)%nat ->
  veq (unnormE m b a o) (tau_step m b a o) /\ veq (unnormQ g b a o) (tau_step m b a o).
Proof. exact unnorm_is_bayes_lemma. Qed.
Print Assumptions unnorm_is_bayes.

Theorem unnorm_nonneg : forall m g b a o,
  wf_pomdp m -> repr g m -> length b = nS (pm m) -> nonneg b -> (a < nA (pm m))%nat -> (o < nO m)%nat ->
  nonneg (unnormE m b a o) /\ nonneg (unnormQ g b a o).
Proof. exact unnorm_nonneg_lemma. Qed.
Print Assumptions unnorm_nonneg.

Theorem unnorm_sums_to_obs_prob : forall m g b a o,
  wf_pomdp m -> repr g m -> length b = nS (pm m) -> (a < nA (pm m))%nat -> (o < nO m)%nat ->
  qsum (unnormE m b a o) == obs_prob m b a o /\ qsum (unnormQ g b a o) == obs_prob m b a o /\
  obs_prob m b a o ==
    qsum (map (fun s' => Op m s' a o * qsum (map (fun s => Tp m s a s' * nthq b s) (states m))) (states m)).
Proof. exact unnorm_sums_lemma. Qed.
Print Assumptions unnorm_sums_to_obs_prob.

Theorem sum_over_obs_is_prediction : forall m g b a,
  wf_pomdp m -> repr g m -> length b = nS (pm m) -> (a < nA (pm m))%nat ->
  (forall s', (s' < nS (pm m))%nat ->
     qsum (map (fun o => nthq (unnormE m b a o) s') (obss m)) == pred_at m b a s' /\
     qsum (map (fun o => nthq (unnormQ g b a o) s') (obss m)) == pred_at m b a s' /\
     nthq (partialE m b a) s' == pred_at m b a s' /\ nthq (partialQ g b a) s' == pred_at m b a s') /\
  qsum (map (fun o => obs_prob m b a o) (obss m)) == qsum b.
Proof. exact sum_over_obs_lemma. Qed.
Print Assumptions sum_over_obs_is_prediction.

Theorem prediction_on_simplex : forall m g b a,
  wf_pomdp m -> repr g m -> simplex (nS (pm m)) b -> (a < nA (pm m))%nat ->
  simplex (nS (pm m)) (predict m b a) /\ veq (partialE m b a) (predict m b a) /\ veq (partialQ g b a) (predict m b a).
Proof. exact predict_simplex_lemma. Qed.
Print Assumptions prediction_on_simplex.

Theorem normalised_is_posterior : forall m g b a o,
  wf_pomdp m -> repr g m -> simplex (nS (pm m)) b -> (a < nA (pm m))%nat -> (o < nO m)%nat ->
  0 < obs_prob m b a o ->
  (exists p, updateE m b a o = map XFin p /\ is_posterior m b a o p) /\
  (exists p, updateQ g b a o = map XFin p /\ is_posterior m b a o p) /\
  (exists p, pnormE m (partialE m b a) a o = map XFin p /\ is_posterior m b a o p) /\
  (exists p, pnormQ g (partialQ g b a) a o = map XFin p /\ is_posterior m b a o p).
Proof. exact normalised_is_posterior_lemma. Qed.
Print Assumptions normalised_is_posterior.

(* what the code does outside the property's domain: a zero-probability observation gives 0/0 = NaN everywhere *)
Theorem normalised_zero_prob : forall m g b a o,
  wf_pomdp m -> repr g m -> simplex (nS (pm m)) b -> (a < nA (pm m))%nat -> (o < nO m)%nat ->
  obs_prob m b a o == 0 ->
  updateE m b a o = repeat XNaN (nS (pm m)) /\ updateQ g b a o = repeat XNaN (nS (pm m)).
Proof. exact normalised_zero_prob_lemma. Qed.
Print Assumptions normalised_zero_prob.

Theorem two_stage_eq : forall m g b a o,
  wf_pomdp m -> repr g m -> length b = nS (pm m) -> (a < nA (pm m))%nat -> (o < nO m)%nat ->
  veq (punnormE m (partialE m b a) a o) (unnormE m b a o) /\
  veq (punnormQ g (partialQ g b a) a o) (unnormQ g b a o) /\
  xveq (pnormE m (partialE m b a) a o) (updateE m b a o) /\
  xveq (pnormQ g (partialQ g b a) a o) (updateQ g b a o).
Proof. exact two_stage_lemma. Qed.
Print Assumptions two_stage_eq.

Theorem sosa_row : forall m g b a o,
  wf_pomdp m -> repr g m -> length b = nS (pm m) -> (a < nA (pm m))%nat -> (o < nO m)%nat ->
  veq (vecmat b (sosaE m a o) (nS (pm m))) (unnormE m b a o) /\
  veq (vecmat b (sosaQ g a o) (qS g)) (unnormQ g b a o) /\
  (forall s s', (s < nS (pm m))%nat -> (s' < nS (pm m))%nat ->
     nthq (row (sosaE m a o) s) s' == sosa_at m a o s s' /\ nthq (row (sosaQ g a o) s) s' == sosa_at m a o s s').
Proof. exact sosa_row_lemma. Qed.
Print Assumptions sosa_row.

Theorem paths_agree : forall m g b a o,
  wf_pomdp m -> repr g m -> length b = nS (pm m) -> (a < nA (pm m))%nat -> (o < nO m)%nat ->
  veq (unnormE m b a o) (unnormQ g b a o) /\
  xveq (updateE m b a o) (updateQ g b a o) /\
  veq (partialE m b a) (partialQ g b a) /\
  (forall v, length v = nS (pm m) -> veq (punnormE m v a o) (punnormQ g v a o) /\
                                      xveq (pnormE m v a o) (pnormQ g v a o)) /\
  (forall s s', (s < nS (pm m))%nat -> (s' < nS (pm m))%nat ->
     nthq (row (sosaE m a o) s) s' == nthq (row (sosaQ g a o) s) s').
Proof. exact paths_agree_lemma. Qed.
Print Assumptions paths_agree.

Theorem expected_reward_eq : forall m g b a,
  wf_pomdp m -> repr g m -> length b = nS (pm m) -> (a < nA (pm m))%nat ->
  rewE m b a == rew_at m b a /\
  rewQ g b a == exp_reward3 m (qR g) b a /\
  (repr_rew g m -> rewQ g b a == rewE m b a) /\
  rewQ (queries_of m) b a == rewE m b a.
Proof. exact expected_reward_lemma. Qed.
Print Assumptions expected_reward_eq.

(* [repr]/[repr_rew] are met by the library's own models read through their query interface and by
   table-backed user models paired with the dense model the 5-argument constructor builds *)
Theorem repr_instances :
  (forall m, repr (queries_of m) m) /\
  (forall m, wf_pomdp m -> repr_rew (queries_of m) m) /\
  (forall S A O T Obs R3 g, repr (table_model S A O T Obs R3) (mk_pomdp S A O T Obs R3 g) /\
                             repr_rew (table_model S A O T Obs R3) (mk_pomdp S A O T Obs R3 g)).
Proof. exact repr_instances_lemma. Qed.
Print Assumptions repr_instances.

Theorem wf_checker_sound : forall m, wf_pomdpb m = true -> wf_pomdp m.
Proof. exact wf_pomdpb_sound. Qed.
Print Assumptions wf_checker_sound.

(* sparse library models (tables sparsified with the 1e-6 threshold): when every entry is zero or above
   the threshold, all Eigen-branch functions give the dense model's results exactly (general case with the
   error term: sparse_path_error below) *)
Theorem sparse_path_exact : forall m b v a o, sparse_safe m ->
  veq (partialE (sparse_of m) b a) (partialE m b a) /\
  veq (unnormE (sparse_of m) b a o) (unnormE m b a o) /\
  xveq (updateE (sparse_of m) b a o) (updateE m b a o) /\
  veq (punnormE (sparse_of m) v a o) (punnormE m v a o) /\
  xveq (pnormE (sparse_of m) v a o) (pnormE m v a o) /\
  meq (sosaE (sparse_of m) a o) (sosaE m a o) /\
  rewE (sparse_of m) b a == rewE m b a.
Proof. exact sparse_exact_lemma. Qed.
Print Assumptions sparse_path_exact.

Theorem sparse_safe_entries : forall x, (safe_entry x <-> (x == 0 \/ epsS < qabs x)) /\
  (x == 0 \/ (1 # 524288) <= x -> safe_entry x).
Proof. exact (fun x => conj (safe_entry_iff x) (safe_entry_big x)). Qed.
Print Assumptions sparse_safe_entries.

(* ---- the model object over its life (construct, then any sequence of setter calls) ----
   [step] models one call of setObservationFunction / setTransitionFunction (validate, then commit; a
   rejected call — std::invalid_argument in the C++ — returns the OLD state) or setRewardFunction. *)
Theorem setter_validate_then_commit : forall st t,
  (prob_tableb t = false -> step st (OpSetObs t) = (st, false) /\ step st (OpSetT t) = (st, false)) /\
  (prob_tableb t = true -> step st (OpSetObs t) = (with_obs st t, true) /\ step st (OpSetT t) = (with_T st t, true)) /\
  (forall r, prob_rowb r = true <-> nonneg r /\ - epsS <= qsum r - 1 /\ qsum r - 1 <= epsS).
Proof. exact (fun st t => conj (step_rejected st t) (conj (step_accepted st t) prob_rowb_spec)). Qed.
Print Assumptions setter_validate_then_commit.

(* invariant, by induction over the operation list: every reachable state is a well-formed POMDP of the
   same dimensions, provided every table offered is either an exact set of distributions or rejected by
   the validator ([op_ok]) *)
Theorem reachable_states_wf : forall ops st,
  wf_pomdp st -> Forall (op_ok (nS (pm st)) (nA (pm st)) (nO st)) ops ->
  wf_pomdp (run st ops) /\ nS (pm (run st ops)) = nS (pm st) /\ nA (pm (run st ops)) = nA (pm st) /\ nO (run st ops) = nO st.
Proof. exact run_wf. Qed.
Print Assumptions reachable_states_wf.

(* hence every belief update on a reachable state is the Bayes filter / posterior of the tables it holds *)
Theorem history_updates_are_bayes : forall st0 ops,
  wf_pomdp st0 -> Forall (op_ok (nS (pm st0)) (nA (pm st0)) (nO st0)) ops ->
  let st := run st0 ops in
  wf_pomdp st /\
  forall b a o, simplex (nS (pm st)) b -> (a < nA (pm st))%nat -> (o < nO st)%nat ->
    veq (unnormE st b a o) (tau_step st b a o) /\
    veq (unnormQ (queries_of st) b a o) (tau_step st b a o) /\
    nonneg (unnormE st b a o) /\ qsum (unnormE st b a o) == obs_prob st b a o /\
    (0 < obs_prob st b a o ->
       (exists p, updateE st b a o = map XFin p /\ is_posterior st b a o p) /\
       (exists p, pnormE st (partialE st b a) a o = map XFin p /\ is_posterior st b a o p)).
Proof. exact history_bayes_lemma. Qed.
Print Assumptions history_updates_are_bayes.

(* the general sparse statement (closes the "sparse within the sparsification term" clause): for ANY
   well-formed POMDP, entries in (0, 1e-6] being dropped by the sparse models, every entry of the sparse
   unnormalised update is below the dense one by at most 2 * 1e-6, for every belief on the simplex *)
Theorem sparse_path_error : forall m b a o s',
  wf_pomdp m -> simplex (nS (pm m)) b -> (a < nA (pm m))%nat -> (o < nO m)%nat -> (s' < nS (pm m))%nat ->
  0 <= nthq (unnormE m b a o) s' - nthq (unnormE (sparse_of m) b a o) s' /\
  nthq (unnormE m b a o) s' - nthq (unnormE (sparse_of m) b a o) s' <= 2 * epsS.
Proof. exact sparse_error_lemma. Qed.
Print Assumptions sparse_path_error.

(* boundary case: a constant observation column carries no information *)
Theorem uninformative_observation : forall m b a o c p,
  wf_pomdp m -> simplex (nS (pm m)) b -> (a < nA (pm m))%nat -> (o < nO m)%nat ->
  (forall s', (s' < nS (pm m))%nat -> Op m s' a o == c) -> 0 < c ->
  is_posterior m b a o p ->
  obs_prob m b a o == c /\ veq p (predict m b a).
Proof. exact uninformative_lemma. Qed.
Print Assumptions uninformative_observation.

(* filtering along a history of (action, observation) pairs: calling updateBelief repeatedly (normalising
   at every step; either branch) gives a belief on the simplex that is proportional to the composed
   unnormalised filter, with normaliser hist_prob = the probability of the observation sequence *)
Theorem history_filter : forall m g h b,
  wf_pomdp m -> repr g m -> hist_ok m h -> simplex (nS (pm m)) b -> 0 < hist_prob m b h ->
  (exists p, updateE_hist m b h = Some p /\ simplex (nS (pm m)) p /\
             forall i, nthq p i * hist_prob m b h == nthq (tau_hist m b h) i) /\
  (exists p, updateQ_hist g b h = Some p /\ simplex (nS (pm m)) p /\
             forall i, nthq p i * hist_prob m b h == nthq (tau_hist m b h) i).
Proof. exact hist_filter_lemma. Qed.
Print Assumptions history_filter.

Theorem history_twin : forall m h v, veq (tau_hist_r m v h) (tau_hist m v h).
Proof. exact tau_hist_r_veq. Qed.
Print Assumptions history_twin.

(* for ANY tables (no well-formedness): sum over observations of the filter = prediction * (row sum of O).
   Hence on a model whose observation rows sum to 1 - d the clause sum_over_obs_is_prediction is off by exactly
   the factor d: within the library's 1e-6 tolerance iff the rows are. *)
Theorem obs_total_general : forall m b a s',
  qsum (map (fun o => bayes_unnorm m b a o s') (obss m)) == pred_at m b a s' * qsum (map (fun o => Op m s' a o) (obss m)).
Proof. exact obs_total_general_lemma. Qed.
Print Assumptions obs_total_general.

(* oracle side: the reduced-fraction twins the driver executes equal the spec, and the boolean
   checkers it runs on the implementation's outputs are sound *)
Theorem spec_twins : forall m b a o r3,
  veq (tau_step_r m b a o) (tau_step m b a o) /\ obs_prob_r m b a o == obs_prob m b a o /\
  veq (predict_r m b a) (predict m b a) /\ exp_reward3_r m r3 b a == exp_reward3 m r3 b a.
Proof. exact spec_twins_lemma. Qed.
Print Assumptions spec_twins.

Theorem checkers_sound : forall m b a o out outs,
  (check_unnorm m b a o out = true -> veq out (tau_step m b a o)) /\
  (check_nonneg out = true -> nonneg out) /\
  (check_sum m b a o out = true -> qsum out == obs_prob m b a o) /\
  (check_obs_total m b a outs = true -> veq (vsum (nS (pm m)) outs) (predict m b a)).
Proof. exact checkers_sound_lemma. Qed.
Print Assumptions checkers_sound.

(* the hypotheses are satisfiable on an asymmetric 3-state, 2-action, 2-observation POMDP with an
   s'-dependent reward; both the positive-probability and the zero-probability case occur *)
Example ex_hypotheses :
  wf_pomdp ex_m /\ repr ex_g ex_m /\ repr_rew ex_g ex_m /\
  simplex (nS (pm ex_m)) ex_b /\ simplex (nS (pm ex_m)) ex_corner /\
  0 < obs_prob ex_m ex_b 0 1 /\ obs_prob ex_m ex_corner 0 1 == 0.
Proof.
  split; [exact ex_m_wf|]. split; [apply table_model_repr_ex|]. split; [apply table_model_repr_rew_ex|].
  split; [exact (proj1 ex_b_simplex)|]. split; [exact (proj2 ex_b_simplex)|]. exact ex_obs_pos.
Qed.

Example ex_values :
  veqb (unnormE ex_m ex_b 0 1) [0; 0; (3#4) * ((1#2)*(3#4) + (1#4)*(7#8))] = true /\
  veqb (unnormQ ex_g ex_b 0 1) (tau_step ex_m ex_b 0 1) = true.
Proof. split; vm_compute; reflexivity. Qed.

Example ex_sparse_safe : sparse_safe ex_m.
Proof. repeat split; repeat (constructor; try (apply safe_entry_big; (left; reflexivity) || (right; unfold Qle; cbn; lia))). Qed.

(* a history with a rejected call: a table with a row summing to 9/8 and a negative entry is refused and the
   state is unchanged; the valid table that follows is installed; the history meets [op_ok] *)
Definition ex_bad_O : list mat := [ [[1#2; 1#2]; [7#8; 1#4]; [5#4; -1#4]]; [[1; 0]; [1; 0]; [1; 0]] ].
Definition ex_new_O : list mat := [ [[0; 1]; [1#2; 1#2]; [1; 0]]; [[1#4; 3#4]; [0; 1]; [1#2; 1#2]] ].
Example ex_history :
  Forall (op_ok (nS (pm ex_m)) (nA (pm ex_m)) (nO ex_m)) [OpSetObs ex_bad_O; OpSetR3 ex_R3; OpSetObs ex_new_O] /\
  step ex_m (OpSetObs ex_bad_O) = (ex_m, false) /\
  Ob (run ex_m [OpSetObs ex_bad_O; OpSetR3 ex_R3; OpSetObs ex_new_O]) = ex_new_O.
Proof.
  split; [| split; vm_compute; reflexivity].
  repeat constructor; cbn [op_ok]; intros H; vm_compute in H |- *; congruence.
Qed.

Example ex_history_filter : hist_ok ex_m [(0, 0); (1, 1); (0, 1)]%nat /\ 0 < hist_prob ex_m ex_b [(0, 0); (1, 1); (0, 1)]%nat.
Proof. split; [repeat constructor| vm_compute; reflexivity]. Qed.
