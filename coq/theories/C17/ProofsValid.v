(* C17/ProofsValid.v — (a) the boolean validity checkers of Spec.v are sound w.r.t. the wf_*
   predicates; (b) the converse of the round trip: whatever token stream a reader accepts, the
   object it commits is well-formed (so, by the round-trip theorems, the accepted stream loads
   exactly the object that writing it back and reading again would load). *)
From Coq Require Import List Arith NArith QArith Bool Lia.
From AIT Require Import C17.Model C17.Spec C17.Proofs C17.ProofsSparse.
Import ListNotations.
Local Open Scope nat_scope.

(* ---------------- (a) checkers ---------------- *)
Lemma shape2b_sound : forall V r c (m : list (list V)), shape2b r c m = true -> shape2 r c m.
Proof.
  intros V r c m H. unfold shape2b in H. apply andb_true_iff in H. destruct H as [H1 H2].
  split; [apply Nat.eqb_eq; assumption|].
  rewrite forallb_forall in H2. apply Forall_forall. intros x Hx. apply Nat.eqb_eq. auto.
Qed.

Lemma shape3b_sound : forall V n r c (m : list (list (list V))), shape3b n r c m = true -> shape3 n r c m.
Proof.
  intros V n r c m H. unfold shape3b in H. apply andb_true_iff in H. destruct H as [H1 H2].
  split; [apply Nat.eqb_eq; assumption|].
  rewrite forallb_forall in H2. apply Forall_forall. intros x Hx. apply shape2b_sound. auto.
Qed.

Lemma all2_any : forall (m : list (list Q)), all2 anyQ m.
Proof. intros m. apply Forall_forall. intros r _. apply Forall_forall. intros q _. exact I. Qed.
Lemma all3_any : forall (m : list (list (list Q))), all3 anyQ m.
Proof. intros m. apply Forall_forall. intros r _. apply all2_any. Qed.

Lemma valid_model_b_sound : forall m, valid_model_b m = true -> wf_model anyQ m.
Proof.
  intros m H. unfold valid_model_b in H. rewrite !andb_true_iff in H. destruct H as [[[Hd Hp] Hs3] Hs2].
  repeat split; try (apply all3_any) ; try (apply all2_any); auto using shape3b_sound, shape2b_sound.
  all: try (apply shape3b_sound in Hs3; destruct Hs3; assumption).
  all: try (apply shape2b_sound in Hs2; destruct Hs2; assumption).
Qed.

Lemma valid_mdp_policy_b_sound : forall p, valid_mdp_policy_b p = true -> wf_mdp_policy anyQ p.
Proof.
  intros p H. unfold valid_mdp_policy_b in H. rewrite andb_true_iff in H. destruct H as [Hp Hs].
  split; [apply shape2b_sound; assumption|]. split; [apply all2_any | assumption].
Qed.

Lemma valid_ventry_b_sound : forall S A O prevn e,
  valid_ventry_b S A O prevn e = true -> wf_ventry anyQ anyN S A O prevn e.
Proof.
  intros S A O prevn e H. unfold valid_ventry_b in H. rewrite !andb_true_iff in H.
  destruct H as [[[H1 H2] H3] H4].
  repeat split.
  - apply Nat.eqb_eq; assumption.
  - apply Forall_forall; intros; exact I.
  - apply N.ltb_lt; assumption.
  - apply Nat.eqb_eq; assumption.
  - rewrite forallb_forall in H4. apply Forall_forall. intros o Ho. split; [apply N.ltb_lt; auto | exact I].
Qed.

Lemma valid_vlists_b_sound : forall S A O l prevn,
  valid_vlists_b S A O prevn l = true -> wf_vlists anyQ anyN S A O prevn l.
Proof.
  intros S A O. induction l as [|vl l IH]; intros prevn H; [exact I|].
  cbn [valid_vlists_b] in H. rewrite !andb_true_iff in H. destruct H as [[H1 H2] H3].
  cbn [wf_vlists]. repeat split.
  - intros E. subst vl. discriminate.
  - rewrite forallb_forall in H2. apply Forall_forall. intros e He. apply valid_ventry_b_sound; auto.
  - apply IH; assumption.
Qed.

Lemma forallb_zero_repeat : forall l, forallb q_is_zero_b l = true -> l = repeat 0%Q (length l).
Proof.
  induction l as [|q l IH]; intros H; [reflexivity|].
  cbn [forallb] in H. apply andb_true_iff in H. destruct H as [Hq Hl].
  cbn [length repeat]. rewrite <- IH by assumption. f_equal.
  unfold q_is_zero_b in Hq. apply andb_true_iff in Hq. destruct Hq as [Hn Hd].
  apply Z.eqb_eq in Hn. apply Pos.eqb_eq in Hd. destruct q as [qn qd]. cbn in *. subst. reflexivity.
Qed.

Lemma is_h0_b_sound : forall S vl, is_h0_b S vl = true -> vl = [h0_entry S].
Proof.
  intros S vl H. destruct vl as [|e [|e' vl]]; try discriminate. cbn [is_h0_b] in H.
  rewrite !andb_true_iff in H. destruct H as [[[Hl Hz] Ha] Ho].
  destruct e as [vs a ob]. cbn [vValues vAction vObs] in *. destruct ob; [|discriminate].
  apply Nat.eqb_eq in Hl. apply N.eqb_eq in Ha. apply forallb_zero_repeat in Hz. subst.
  unfold h0_entry. rewrite Hz at 1. reflexivity.
Qed.

Lemma valid_pomdp_policy_b_sound : forall p, valid_pomdp_policy_b p = true -> wf_pomdp_policy anyQ anyN p.
Proof.
  intros p H. unfold valid_pomdp_policy_b in H. destruct (ppVF p) as [|h0 rest] eqn:E; [discriminate|].
  rewrite !andb_true_iff in H. destruct H as [[H0 Hv] HH].
  exists rest. split; [rewrite E, (is_h0_b_sound _ _ H0); reflexivity|].
  split; [apply valid_vlists_b_sound; assumption | apply Nat.eqb_eq; assumption].
Qed.

(* ---------------- (b) what a reader accepts is well-formed ---------------- *)
Section Loaded.
  Variable token : Type.
  Variable read : token -> option (Q * option token).
  Variable readN : token -> option (N * option token).
  Variable split_at : token -> option (option token).
  Variable tsize : token -> nat.
  Variable dbl : Q -> Prop.
  Variable u64 : N -> Prop.
  (* the extractors only produce doubles / unsigned longs *)
  Hypothesis H_read_dbl : forall t q l, read t = Some (q, l) -> dbl q.
  Hypothesis H_readN_u64 : forall t n l, readN t = Some (n, l) -> u64 n.

  Notation get_num := (Model.get_num token read).
  Notation get_N := (Model.get_N token readN).

  Lemma get_num_dbl : forall is q r, get_num is = ROk q r -> dbl q.
  Proof.
    intros [|t rest] q r H; cbn [Model.get_num] in H; [discriminate|].
    destruct (read t) as [[q0 lo]|] eqn:E; inversion H; subst. eapply H_read_dbl; eassumption.
  Qed.
  Lemma get_N_u64 : forall is n r, get_N is = ROk n r -> u64 n.
  Proof.
    intros [|t rest] n r H; cbn [Model.get_N] in H; [discriminate|].
    destruct (readN t) as [[n0 lo]|] eqn:E; inversion H; subst. eapply H_readN_u64; eassumption.
  Qed.

  Lemma rep_inv : forall A (P : A -> Prop) (p : list token -> rres token A),
    (forall is a r, p is = ROk a r -> P a) ->
    forall n is l r, rep n p is = ROk l r -> length l = n /\ Forall P l.
  Proof.
    intros A P p Hp. induction n as [|n IH]; intros is l r H; cbn [rep] in H.
    - inversion H; subst. split; [reflexivity | constructor].
    - destruct (p is) as [a is1| | |] eqn:E1; cbn [bind] in H; try discriminate.
      destruct (rep n p is1) as [l1 is2| | |] eqn:E2; cbn [bind] in H; try discriminate.
      inversion H; subst. destruct (IH _ _ _ E2) as [Hl HF].
      split; [cbn [length]; congruence | constructor; [eapply Hp; eassumption | assumption]].
  Qed.

  Lemma rows_inv : forall A (P : A -> Prop) (p : list token -> rres token A),
    (forall is a r, p is = ROk a r -> P a) ->
    forall r c is m rest, rep r (rep c p) is = ROk m rest -> shape2 r c m /\ all2 P m.
  Proof.
    intros A P p Hp r c is m rest H.
    destruct (rep_inv _ (fun row => length row = c /\ Forall P row) (rep c p)
                (fun is a r0 Hr => rep_inv _ P p Hp c is a r0 Hr) r is m rest H) as [Hl HF].
    split; [split; [assumption|] |]; apply Forall_forall; intros row Hin;
      rewrite Forall_forall in HF; destruct (HF row Hin); assumption.
  Qed.

  Lemma parse_mat_inv : forall r c is m rest, parse_mat token read r c is = ROk m rest ->
    shape2 r c m /\ all2 dbl m.
  Proof. intros r c is m rest H. eapply rows_inv; [apply get_num_dbl | exact H]. Qed.
  Lemma parse_tab_inv : forall r c is m rest, parse_tab token readN r c is = ROk m rest ->
    shape2 r c m /\ all2 u64 m.
  Proof. intros r c is m rest H. eapply rows_inv; [apply get_N_u64 | exact H]. Qed.

  Lemma commit_ok_inv : forall A (r : rres token A) (d a : A) rest, snd (commit r d) = ROk a rest -> r = ROk a rest.
  Proof. intros A r d a rest H. rewrite commit_status in H. exact H. Qed.

  Lemma parse_mat3_inv : forall n r c is m rest, parse_mat3 token read n r c is = ROk m rest ->
    shape3 n r c m /\ all3 dbl m.
  Proof.
    intros n r c is m rest H. unfold parse_mat3 in H.
    destruct (rep_inv _ (fun x => shape2 r c x /\ all2 dbl x) _
               (fun is a r0 Hr => parse_mat_inv r c is a r0 (commit_ok_inv _ _ _ _ _ Hr)) n is m rest H) as [Hl HF].
    split; [split; [assumption|] |]; apply Forall_forall; intros x Hin;
      rewrite Forall_forall in HF; destruct (HF x Hin); assumption.
  Qed.
  Lemma parse_tab3_inv : forall n r c is m rest, parse_tab3 token readN n r c is = ROk m rest ->
    shape3 n r c m /\ all3 u64 m.
  Proof.
    intros n r c is m rest H. unfold parse_tab3 in H.
    destruct (rep_inv _ (fun x => shape2 r c x /\ all2 u64 x) _
               (fun is a r0 Hr => parse_tab_inv r c is a r0 (commit_ok_inv _ _ _ _ _ Hr)) n is m rest H) as [Hl HF].
    split; [split; [assumption|] |]; apply Forall_forall; intros x Hin;
      rewrite Forall_forall in HF; destruct (HF x Hin); assumption.
  Qed.

  (* ---- dense kinds ---- *)
  Lemma parse_model_inv : forall S A is x rest, parse_model token read S A is = ROk x rest ->
    wf_model dbl x /\ mS x = S /\ mA x = A.
  Proof.
    intros S A is x rest H. unfold parse_model in H.
    destruct (get_num is) as [d is1| | |] eqn:E1; cbn [bind] in H; try discriminate.
    destruct (discount_ok d) eqn:Ed; cbn [negb] in H; [|discriminate].
    destruct (parse_mat3 token read A S S is1) as [t is2| | |] eqn:E2; cbn [bind] in H; try discriminate.
    destruct (mat3_is_prob t) eqn:Ep; cbn [negb] in H; [|discriminate].
    destruct (parse_mat token read S A is2) as [r is3| | |] eqn:E3; cbn [bind] in H; try discriminate.
    inversion H; subst. cbn [mS mA].
    destruct (parse_mat3_inv _ _ _ _ _ _ E2) as [[? ?] ?]. destruct (parse_mat_inv _ _ _ _ _ E3) as [[? ?] ?].
    pose proof (get_num_dbl _ _ _ E1). unfold wf_model. cbn [mS mA mT mR mDisc]. repeat split; assumption.
  Qed.

  Lemma parse_experience_inv : forall S A is x rest, parse_experience token read readN S A is = ROk x rest ->
    wf_experience dbl u64 x /\ eS x = S /\ eA x = A.
  Proof.
    intros S A is x rest H. unfold parse_experience in H.
    destruct (get_N is) as [t is1| | |] eqn:E1; cbn [bind] in H; try discriminate.
    destruct (parse_tab3 token readN A S S is1) as [v is2| | |] eqn:E2; cbn [bind] in H; try discriminate.
    destruct (parse_mat token read S A is2) as [r is3| | |] eqn:E3; cbn [bind] in H; try discriminate.
    destruct (parse_mat token read S A is3) as [m2 is4| | |] eqn:E4; cbn [bind] in H; try discriminate.
    inversion H; subst.
    destruct (parse_tab3_inv _ _ _ _ _ _ E2) as [[? ?] ?]. destruct (parse_mat_inv _ _ _ _ _ E3) as [[? ?] ?]. destruct (parse_mat_inv _ _ _ _ _ E4) as [[? ?] ?].
    pose proof (get_N_u64 _ _ _ E1). unfold wf_experience. cbn. repeat split; assumption.
  Qed.

  Lemma parse_mdp_policy_inv : forall S A is x rest, parse_mdp_policy token read S A is = ROk x rest ->
    wf_mdp_policy dbl x /\ pS x = S /\ pA x = A.
  Proof.
    intros S A is x rest H. unfold parse_mdp_policy in H.
    destruct (parse_mat token read S A is) as [m is1| | |] eqn:E1; cbn [bind] in H; try discriminate.
    destruct (mat_is_prob m) eqn:Ep; cbn [negb] in H; [|discriminate].
    inversion H; subst. destruct (parse_mat_inv _ _ _ _ _ E1) as [[? ?] ?].
    unfold wf_mdp_policy. cbn. repeat split; assumption.
  Qed.

  Lemma parse_pomdp_model_inv : forall O S A is x rest, parse_pomdp_model token read O S A is = ROk x rest ->
    wf_pomdp_model dbl x /\ pmO x = O /\ mS (pmM x) = S /\ mA (pmM x) = A.
  Proof.
    intros O S A is x rest H. unfold parse_pomdp_model in H.
    destruct (parse_model token read S A is) as [m is1| | |] eqn:E1; cbn [bind] in H; try discriminate.
    destruct (parse_mat3 token read A S O is1) as [ob is2| | |] eqn:E2; cbn [bind] in H; try discriminate.
    destruct (mat3_is_prob ob) eqn:Ep; cbn [negb] in H; [|discriminate].
    inversion H; subst. destruct (parse_model_inv _ _ _ _ _ E1) as (Hm & HS & HA).
    destruct (parse_mat3_inv _ _ _ _ _ _ E2) as [[? ?] ?].
    unfold wf_pomdp_model. cbn [pmM pmO pmObs]. rewrite HS, HA.
    split; [split; [exact Hm | repeat split; assumption] | repeat split; reflexivity].
  Qed.

  Definition accepts {A} (rd : list token -> A -> A * rres token A) (good : A -> A -> Prop) : Prop :=
    forall toks dest x rest, snd (rd toks dest) = ROk x rest -> fst (rd toks dest) = x /\ good dest x.

  Lemma commit_fst_ok : forall A (r : rres token A) (d a : A) rest, r = ROk a rest -> fst (commit r d) = a.
  Proof. intros; subst; reflexivity. Qed.

  Lemma loaded_dense_lemma :
    accepts (read_model token read) (fun d x => wf_model dbl x /\ mS x = mS d /\ mA x = mA d) /\
    accepts (read_experience token read readN) (fun d x => wf_experience dbl u64 x /\ eS x = eS d /\ eA x = eA d) /\
    accepts (read_mdp_policy token read) (fun d x => wf_mdp_policy dbl x /\ pS x = pS d /\ pA x = pA d) /\
    accepts (read_pomdp_model token read)
      (fun d x => wf_pomdp_model dbl x /\ pmO x = pmO d /\ mS (pmM x) = mS (pmM d) /\ mA (pmM x) = mA (pmM d)).
  Proof.
    split; [|split; [|split]].
    - intros toks dest x rest H. unfold read_model in *. apply commit_ok_inv in H.
      split; [eapply commit_fst_ok; eassumption | eapply parse_model_inv; eassumption].
    - intros toks dest x rest H. unfold read_experience in *. apply commit_ok_inv in H.
      split; [eapply commit_fst_ok; eassumption | eapply parse_experience_inv; eassumption].
    - intros toks dest x rest H. unfold read_mdp_policy in *. apply commit_ok_inv in H.
      split; [eapply commit_fst_ok; eassumption | eapply parse_mdp_policy_inv; eassumption].
    - intros toks dest x rest H. unfold read_pomdp_model in *. apply commit_ok_inv in H.
      split; [eapply commit_fst_ok; eassumption | eapply parse_pomdp_model_inv; eassumption].
  Qed.
End Loaded.

(* ---------------- setFromTriplets always yields sorted, in-range storage ---------------- *)
Section InsertSorted.
  Variable V : Type.
  Variable add : V -> V -> V.

  Lemma key_eq_spec : forall a b : nat * nat, key_eq a b = true <-> (fst a = fst b /\ snd a = snd b).
  Proof. intros [a1 a2] [b1 b2]. unfold key_eq. cbn [fst snd]. rewrite andb_true_iff, !Nat.eqb_eq. tauto. Qed.

  Lemma key_trich : forall a b, key_eq a b = false -> key_lt a b = false -> key_lt b a = true.
  Proof.
    intros a b He Hl. apply key_lt_spec.
    assert (~ (fst a = fst b /\ snd a = snd b)) by (rewrite <- key_eq_spec; congruence).
    assert (~ (fst a < fst b \/ (fst a = fst b /\ snd a < snd b))) by (rewrite <- key_lt_spec; congruence).
    lia.
  Qed.

  Lemma insert_sorted : forall (t : nat * nat * V) l, sorted_keys l ->
    sorted_keys (insert_trip add t l) /\
    (forall x, hd_error (insert_trip add t l) = Some x ->
               fst x = fst t \/ exists e, hd_error l = Some e /\ fst x = fst e).
  Proof.
    intros t. induction l as [|e l IH]; intros Hs.
    - cbn. split; [tauto|]. intros x Hx. inversion Hx. auto.
    - cbn [insert_trip]. cbn [sorted_keys] in Hs. destruct Hs as [Hhd Htl].
      destruct (key_eq (fst t) (fst e)) eqn:Eq.
      + split.
        * cbn [sorted_keys fst]. split; [destruct l; [exact I | exact Hhd] | exact Htl].
        * intros x Hx. inversion Hx; subst. right. exists e. split; reflexivity.
      + destruct (key_lt (fst t) (fst e)) eqn:El.
        * split; [cbn [sorted_keys]; tauto|]. intros x Hx. inversion Hx. auto.
        * destruct (IH Htl) as [IHs IHh]. split.
          -- cbn [sorted_keys]. split; [|exact IHs].
             destruct (insert_trip add t l) as [|x rest] eqn:Ei; [exact I|].
             destruct (IHh x eq_refl) as [Hx | [e' [He' Hx]]].
             ++ rewrite Hx. apply key_trich; assumption.
             ++ destruct l as [|e'' l']; [discriminate|]. inversion He'; subst. rewrite Hx. exact Hhd.
          -- intros x Hx. inversion Hx; subst. right. exists x. split; reflexivity.
  Qed.

  Lemma insert_in_range : forall r c (t : nat * nat * V) l,
    fst (fst t) < r /\ snd (fst t) < c -> in_range r c l -> in_range r c (insert_trip add t l).
  Proof.
    intros r c t. induction l as [|e l IH]; intros Ht Hr.
    - repeat constructor; tauto.
    - inversion Hr; subst. cbn [insert_trip].
      destruct (key_eq (fst t) (fst e)); [constructor; assumption|].
      destruct (key_lt (fst t) (fst e)); [constructor; assumption|].
      constructor; [assumption | apply IH; assumption].
  Qed.

  Lemma set_from_triplets_wf : forall r c (l : list (nat * nat * V)), in_range r c l ->
    sorted_keys (set_from_triplets add l) /\ in_range r c (set_from_triplets add l).
  Proof.
    intros r c l Hr. unfold set_from_triplets.
    assert (G : forall l acc, in_range r c l -> sorted_keys acc -> in_range r c acc ->
                sorted_keys (fold_left (fun a t => insert_trip add t a) l acc) /\
                in_range r c (fold_left (fun a t => insert_trip add t a) l acc)).
    { clear. induction l as [|t l IH]; intros acc Hl Hs Ha; [split; assumption|].
      inversion Hl; subst. cbn [fold_left]. apply IH; [assumption | apply insert_sorted; assumption |
        apply insert_in_range; assumption]. }
    apply G; [assumption | exact I | constructor].
  Qed.
End InsertSorted.

(* ---------------- sparse kinds and POMDP::Policy ---------------- *)
Section LoadedMore.
  Variable token : Type.
  Variable read : token -> option (Q * option token).
  Variable readN : token -> option (N * option token).
  Variable split_at : token -> option (option token).
  Variable tsize : token -> nat.

  Notation get_N := (Model.get_N token readN).
  Notation rep_inv := (rep_inv token).

  Lemma trivial_forall : forall A (l : list A), Forall (fun _ => True) l.
  Proof. intros. apply Forall_forall. intros; exact I. Qed.

  Lemma get_trip_inv : forall V (getv : list token -> rres token V) rows cols is e r,
    get_trip token readN getv rows cols is = ROk e r -> fst (fst e) < rows /\ snd (fst e) < cols.
  Proof.
    intros V getv rows cols is e r H. unfold get_trip in H.
    destruct (get_N is) as [a is1| | |]; cbn [bind] in H; try discriminate.
    destruct (get_N is1) as [b is2| | |]; cbn [bind] in H; try discriminate.
    destruct (getv is2) as [v is3| | |]; cbn [bind] in H; try discriminate.
    destruct (N.of_nat rows <=? a)%N eqn:E1; [discriminate|].
    destruct (N.of_nat cols <=? b)%N eqn:E2; [discriminate|].
    inversion H; subst. cbn [fst snd]. apply N.leb_gt in E1. apply N.leb_gt in E2. lia.
  Qed.

  Lemma read_sparse_inv : forall V (add : V -> V -> V) getv rows cols is dest m r,
    snd (read_sparse token readN add getv rows cols is dest) = ROk m r ->
    wf_sparse anyN rows cols m.
  Proof.
    intros V add getv rows cols is dest m r H. unfold read_sparse in H.
    destruct (parse_sparse token readN getv rows cols is) as [l rest| | |] eqn:E; cbn [snd] in H; try discriminate.
    inversion H; subst. unfold parse_sparse in E.
    destruct (get_N is) as [n is1| | |]; cbn [bind] in E; try discriminate.
    destruct (N.of_nat (rows * cols) <? n)%N; [discriminate|].
    destruct (rep_inv _ (fun e => fst (fst e) < rows /\ snd (fst e) < cols) _
               (fun is0 a r0 Hr => get_trip_inv V getv rows cols is0 a r0 Hr) _ _ _ _ E) as [_ HF].
    destruct (set_from_triplets_wf V add rows cols l HF) as [Hs Hr].
    unfold wf_sparse, anyN. repeat split; try assumption. apply Forall_forall. intros; split; exact I.
  Qed.

  Lemma read_smat_inv : forall rows cols is dest m r,
    snd (read_smat token read readN rows cols is dest) = ROk m r -> wf_smat anyQ anyN rows cols m.
  Proof. intros. split; [eapply read_sparse_inv; eassumption | apply Forall_forall; intros; exact I]. Qed.
  Lemma read_stab_inv : forall rows cols is dest m r,
    snd (read_stab token readN rows cols is dest) = ROk m r -> wf_stab anyN rows cols m.
  Proof. intros. split; [eapply read_sparse_inv; eassumption | apply Forall_forall; intros; exact I]. Qed.

  Lemma parse_smat3_inv : forall n rows cols is m r, parse_smat3 token read readN n rows cols is = ROk m r ->
    length m = n /\ Forall (wf_smat anyQ anyN rows cols) m.
  Proof.
    intros n rows cols is m r H. unfold parse_smat3 in H.
    exact (rep_inv _ (wf_smat anyQ anyN rows cols) _ (fun is0 a r0 Hr => read_smat_inv rows cols is0 [] a r0 Hr) _ _ _ _ H).
  Qed.
  Lemma parse_stab3_inv : forall n rows cols is m r, parse_stab3 token readN n rows cols is = ROk m r ->
    length m = n /\ Forall (wf_stab anyN rows cols) m.
  Proof.
    intros n rows cols is m r H. unfold parse_stab3, parse_stab3_with in H.
    exact (rep_inv _ (wf_stab anyN rows cols) _ (fun is0 a r0 Hr => read_stab_inv rows cols is0 [] a r0 Hr) _ _ _ _ H).
  Qed.

  Lemma parse_smodel_inv : forall S A is x rest, parse_smodel token read readN S A is = ROk x rest ->
    wf_smodel anyQ anyN x /\ smS x = S /\ smA x = A.
  Proof.
    intros S A is x rest H. unfold parse_smodel in H.
    destruct (Model.get_num token read is) as [d is1| | |]; cbn [bind] in H; try discriminate.
    destruct (discount_ok d) eqn:Ed; cbn [negb] in H; [|discriminate].
    destruct (parse_smat3 token read readN A S S is1) as [t is2| | |] eqn:E2; cbn [bind] in H; try discriminate.
    destruct (smat3_is_prob S t) eqn:Ep; cbn [negb] in H; [|discriminate].
    destruct (snd (read_smat token read readN S A is2 [])) as [r is3| | |] eqn:E3; cbn [bind] in H; try discriminate.
    inversion H; subst. destruct (parse_smat3_inv _ _ _ _ _ _ E2) as [Hl HF].
    pose proof (read_smat_inv _ _ _ _ _ _ E3).
    unfold wf_smodel. cbn [smS smA smT smR smDisc].
    split; [split; [exact Hl | split; [exact HF | split; [assumption | split; [exact I | split; assumption]]]] | split; reflexivity].
  Qed.

  Lemma parse_sexperience_inv : forall S A is x rest, parse_sexperience token read readN S A is = ROk x rest ->
    wf_sexperience anyQ anyN x /\ seS x = S /\ seA x = A.
  Proof.
    intros S A is x rest H. unfold parse_sexperience, parse_sexperience_with in H.
    destruct (get_N is) as [t is1| | |]; cbn [bind] in H; try discriminate.
    fold (parse_stab3 token readN) in H.
    destruct (parse_stab3 token readN A S S is1) as [v is2| | |] eqn:E2; cbn [bind] in H; try discriminate.
    destruct (snd (read_smat token read readN S A is2 [])) as [r is3| | |] eqn:E3; cbn [bind] in H; try discriminate.
    destruct (snd (read_smat token read readN S A is3 [])) as [m2 is4| | |] eqn:E4; cbn [bind] in H; try discriminate.
    inversion H; subst. destruct (parse_stab3_inv _ _ _ _ _ _ E2) as [Hl HF].
    pose proof (read_smat_inv _ _ _ _ _ _ E3). pose proof (read_smat_inv _ _ _ _ _ _ E4).
    unfold wf_sexperience. cbn [seS seA seTime seVisits seRew seM2].
    split; [split; [exact Hl | split; [exact HF | split; [assumption | split; [assumption | exact I]]]] | split; reflexivity].
  Qed.

  Lemma parse_spomdp_model_inv : forall O S A is x rest, parse_spomdp_model token read readN O S A is = ROk x rest ->
    wf_spomdp_model anyQ anyN x /\ spmO x = O /\ smS (spmM x) = S /\ smA (spmM x) = A.
  Proof.
    intros O S A is x rest H. unfold parse_spomdp_model in H.
    destruct (parse_smodel token read readN S A is) as [m is1| | |] eqn:E1; cbn [bind] in H; try discriminate.
    destruct (parse_smat3 token read readN A S O is1) as [ob is2| | |] eqn:E2; cbn [bind] in H; try discriminate.
    destruct (smat3_is_prob S ob) eqn:Ep; cbn [negb] in H; [|discriminate].
    inversion H; subst. destruct (parse_smodel_inv _ _ _ _ _ E1) as (Hm & HS & HA).
    destruct (parse_smat3_inv _ _ _ _ _ _ E2) as [Hl HF].
    unfold wf_spomdp_model. cbn [spmM spmO spmObs]. rewrite HS, HA.
    split; [split; [exact Hm | split; [exact Hl | split; [exact HF | exact Ep]]] | repeat split; reflexivity].
  Qed.

  Lemma loaded_sparse_lemma :
    accepts token (read_smodel token read readN) (fun d x => wf_smodel anyQ anyN x /\ smS x = smS d /\ smA x = smA d) /\
    accepts token (read_sexperience token read readN)
      (fun d x => wf_sexperience anyQ anyN x /\ seS x = seS d /\ seA x = seA d) /\
    accepts token (read_spomdp_model token read readN)
      (fun d x => wf_spomdp_model anyQ anyN x /\ spmO x = spmO d /\
                  smS (spmM x) = smS (spmM d) /\ smA (spmM x) = smA (spmM d)).
  Proof.
    split; [|split].
    - intros toks dest x rest H. unfold read_smodel in *. apply commit_ok_inv in H.
      split; [eapply commit_fst_ok; eassumption | eapply parse_smodel_inv; eassumption].
    - intros toks dest x rest H. unfold read_sexperience in *. apply commit_ok_inv in H.
      split; [eapply commit_fst_ok; eassumption | eapply parse_sexperience_inv; eassumption].
    - intros toks dest x rest H. unfold read_spomdp_model in *. apply commit_ok_inv in H.
      split; [eapply commit_fst_ok; eassumption | eapply parse_spomdp_model_inv; eassumption].
  Qed.
End LoadedMore.
