From Coq Require Extraction.
From Coq Require Import ExtrOcamlBasic.
From AIT Require Import Base.Vio C17.Model C17.Spec.
Extraction "model.ml" vio_kit
  write_model read_model write_smodel read_smodel
  write_experience read_experience visits_sum write_sexperience read_sexperience read_sexperience_asis svisits_sum
  write_mdp_policy read_mdp_policy
  write_pomdp_model read_pomdp_model write_spomdp_model read_spomdp_model
  write_pomdp_policy_with write_pomdp_policy read_pomdp_policy
  status_of load_atomic_b truncation_ok_b h0_entry valid_model_b valid_mdp_policy_b valid_pomdp_policy_b.
