(* C17/ProofsValidPolicy.v — whatever POMDP::operator>>(Policy) accepts is a well-formed policy:
   horizon 0 is the makeValueFunction entry, every later horizon is non-empty, actions < A and
   every observation link points into the previous horizon. *)
From Coq Require Import List Arith NArith QArith Bool Lia.
From AIT Require Import C17.Model C17.Spec C17.Proofs C17.ProofsValid.
Import ListNotations.
Local Open Scope nat_scope.

Section LoadedPolicy.
  Variable token : Type.
  Variable read : token -> option (Q * option token).
  Variable readN : token -> option (N * option token).
  Variable split_at : token -> option (option token).
  Variable tsize : token -> nat.
  Variable dbl : Q -> Prop.
  Variable u64 : N -> Prop.
  Hypothesis H_read_dbl : forall t q l, read t = Some (q, l) -> dbl q.
  Hypothesis H_readN_u64 : forall t n l, readN t = Some (n, l) -> u64 n.
  Variables S A O : nat.

  Notation loop := (pp_loop token read readN split_at).
  Notation wfe := (wf_ventry dbl u64 S A O).
  Notation wfl := (wf_vlists dbl u64 S A O).

  Lemma get_obs_inv : forall oldH is o r, 1 <= oldH -> get_obs token readN oldH is = ROk o r ->
    (o < N.of_nat oldH)%N /\ u64 o.
  Proof.
    intros oldH is o r Hpos H. unfold get_obs in H.
    destruct (Model.get_N token readN is) as [n is1| | |] eqn:E; cbn [bind] in H; try discriminate.
    destruct ((N.of_nat oldH <=? n)%N && negb (oldH =? 0)) eqn:Ec; inversion H; subst.
    split; [|eapply get_N_u64; eassumption].
    apply andb_false_iff in Ec. destruct Ec as [Ec|Ec].
    - apply N.leb_gt in Ec. assumption.
    - apply negb_false_iff in Ec. apply Nat.eqb_eq in Ec. lia.
  Qed.

  Lemma parse_ventry_inv : forall oldH is e r, 1 <= oldH ->
    parse_ventry token read readN S A O oldH is = ROk e r -> wfe oldH e.
  Proof.
    intros oldH is e r Hpos H. unfold parse_ventry in H.
    destruct (rep S (Model.get_num token read) is) as [vs is1| | |] eqn:E1; cbn [bind] in H; try discriminate.
    destruct (Model.get_N token readN is1) as [a is2| | |] eqn:E2; cbn [bind] in H; try discriminate.
    destruct (N.of_nat A <=? a)%N eqn:Ea; [discriminate|].
    destruct (rep O (get_obs token readN oldH) is2) as [ob is3| | |] eqn:E3; cbn [bind] in H; try discriminate.
    inversion H; subst.
    destruct (rep_inv token _ dbl _ (get_num_dbl token read dbl H_read_dbl) _ _ _ _ E1) as [Hl1 HF1].
    destruct (rep_inv token _ (fun o => (o < N.of_nat oldH)%N /\ u64 o) _
               (fun is0 o r0 Hr => get_obs_inv oldH is0 o r0 Hpos Hr) _ _ _ _ E3) as [Hl3 HF3].
    unfold wf_ventry. cbn [vValues vAction vObs]. apply N.leb_gt in Ea.
    repeat split; try assumption. eapply get_N_u64; eassumption.
  Qed.

  (* the horizon a new list links into *)
  Definition lastn (p : nat) (rest : list vlist) : nat :=
    match rest with [] => p | _ => length (last rest []) end.

  Lemma wfl_snoc : forall rest p cur, wfl p rest -> cur <> [] -> Forall (wfe (lastn p rest)) cur ->
    wfl p (rest ++ [cur]).
  Proof.
    induction rest as [|vl rest IH]; intros p cur Hw Hne HF.
    - cbn. repeat split; assumption.
    - cbn [wf_vlists] in Hw. destruct Hw as (Hv & HFv & Hr). cbn [app wf_vlists].
      repeat split; try assumption. apply IH; [assumption | assumption|].
      destruct rest as [|vl' rest']; [exact HF | exact HF].
  Qed.

  Lemma wfl_last_nonempty : forall rest p, wfl p rest -> rest <> [] -> last rest [] <> [].
  Proof.
    induction rest as [|vl rest IH]; intros p Hw Hne; [congruence|].
    cbn [wf_vlists] in Hw. destruct Hw as (Hv & _ & Hr).
    destruct rest as [|vl' rest']; [exact Hv|]. apply (IH (length vl)); [assumption | discriminate].
  Qed.

  Definition good (vf : list vlist) : Prop := exists rest, vf = [h0_entry S] :: rest /\ wfl 1 rest.
  Definition lastlen (vf : list vlist) : nat := length (last vf []).

  Lemma good_lastlen : forall vf rest, vf = [h0_entry S] :: rest -> lastlen vf = lastn 1 rest.
  Proof. intros vf rest E. subst. unfold lastlen, lastn. destruct rest; reflexivity. Qed.

  Lemma good_lastlen_pos : forall vf, good vf -> 1 <= lastlen vf.
  Proof.
    intros vf (rest & E & Hw). rewrite (good_lastlen _ _ E). unfold lastn.
    destruct rest as [|vl rest']; [lia|].
    pose proof (wfl_last_nonempty _ _ Hw ltac:(discriminate)) as Hne.
    assert (Hlen : forall l : vlist, l <> [] -> 1 <= length l) by (intros [|? ?] ?; [congruence | cbn; lia]).
    apply Hlen. exact Hne.
  Qed.

  Lemma good_snoc : forall prev cur, good prev -> cur <> [] -> Forall (wfe (lastlen prev)) cur -> good (prev ++ [cur]).
  Proof.
    intros prev cur (rest & E & Hw) Hne HF. exists (rest ++ [cur]). split; [subst; reflexivity|].
    apply wfl_snoc; [assumption | assumption|]. rewrite <- (good_lastlen _ _ E). assumption.
  Qed.

  Definition inv (b : bool) (prev : list vlist) (cur : vlist) (oldH : nat) : Prop :=
    if b then good (prev ++ [cur])
    else good prev /\ oldH = lastlen prev /\ Forall (wfe oldH) cur.

  Lemma pp_loop_inv : forall fuel is prev cur oldH b vf r,
    loop fuel S A O is prev cur oldH b = ROk vf r -> inv b prev cur oldH -> good vf.
  Proof.
    induction fuel as [|f IH]; intros is prev cur oldH b vf r H Hinv; [discriminate|].
    cbn [pp_loop] in H.
    assert (Hstep : forall is0 prev0 cur0 oldH0, inv false prev0 cur0 oldH0 ->
      bind (parse_ventry token read readN S A O oldH0 is0)
           (fun e is3 => let '(b0, is4) := check_at token split_at is3 in
                         loop f S A O is4 prev0 (cur0 ++ [e]) oldH0 b0) = ROk vf r -> good vf).
    { intros is0 prev0 cur0 oldH0 (Hg & Ho & HF) Hb.
      destruct (parse_ventry token read readN S A O oldH0 is0) as [e is3| | |] eqn:Ep; cbn [bind] in Hb; try discriminate.
      assert (Hwe : wfe oldH0 e).
      { eapply parse_ventry_inv; [|eassumption]. subst oldH0. apply good_lastlen_pos; assumption. }
      destruct (check_at token split_at is3) as [b0 is4].
      apply (IH _ _ _ _ _ _ _ Hb). destruct b0; cbn [inv].
      - apply good_snoc; [assumption | destruct cur0; discriminate |].
        subst oldH0. apply Forall_app. split; [assumption | constructor; [assumption | constructor]].
      - split; [assumption|]. split; [assumption|].
        apply Forall_app. split; [assumption | constructor; [assumption | constructor]]. }
    destruct b; cbn [inv] in Hinv.
    - destruct (check_at token split_at is) as [bb is1]. destruct bb.
      + inversion H; subst. assumption.
      + apply (Hstep is1 (prev ++ [cur]) [] (length cur)); [|exact H].
        cbn [inv]. split; [assumption|]. split; [|constructor].
        unfold lastlen. rewrite last_last. reflexivity.
    - apply (Hstep is prev cur oldH); [exact Hinv | exact H].
  Qed.

  Lemma parse_pomdp_policy_inv : forall is x rest,
    parse_pomdp_policy token read readN split_at tsize S A O is = ROk x rest ->
    wf_pomdp_policy dbl u64 x /\ ppS x = S /\ ppA x = A /\ ppO x = O.
  Proof.
    intros is x rest H. unfold parse_pomdp_policy in H.
    destruct (loop (Datatypes.S (stream_size token tsize is)) S A O is [] [h0_entry S] 1 true) as [vf r| | |] eqn:E;
      cbn [bind] in H; try discriminate.
    inversion H; subst. cbn [ppS ppA ppO].
    assert (Hg : good vf).
    { eapply pp_loop_inv; [exact E|]. cbn [inv app]. exists []. split; [reflexivity | exact I]. }
    destruct Hg as (rest' & Ev & Hw). split; [|repeat split].
    exists rest'. cbn [ppVF ppS ppA ppO ppH]. subst vf. cbn [length].
    split; [reflexivity | split; [exact Hw | cbn [length]; rewrite Nat.sub_succ; apply Nat.sub_0_r]].
  Qed.
End LoadedPolicy.

Lemma loaded_pomdp_policy_lemma :
  forall (token : Type) (read : token -> option (Q * option token)) (readN : token -> option (N * option token))
         (split_at : token -> option (option token)) (tsize : token -> nat) (dbl : Q -> Prop) (u64 : N -> Prop),
  (forall t q l, read t = Some (q, l) -> dbl q) ->
  (forall t n l, readN t = Some (n, l) -> u64 n) ->
  accepts token (read_pomdp_policy token read readN split_at tsize)
    (fun d x => wf_pomdp_policy dbl u64 x /\ ppS x = ppS d /\ ppA x = ppA d /\ ppO x = ppO d).
Proof.
  intros token read readN split_at tsize dbl u64 H1 H2 toks dest x rest H.
  unfold read_pomdp_policy in *. apply commit_ok_inv in H.
  split; [eapply commit_fst_ok; eassumption | eapply parse_pomdp_policy_inv; eassumption].
Qed.

Lemma loaded_object_is_wf_lemma :
  forall (token : Type) (read : token -> option (Q * option token)) (readN : token -> option (N * option token))
         (split_at : token -> option (option token)) (tsize : token -> nat) (dbl : Q -> Prop) (u64 : N -> Prop),
  (forall t q l, read t = Some (q, l) -> dbl q) ->
  (forall t n l, readN t = Some (n, l) -> u64 n) ->
  (accepts token (read_model token read) (fun d x => wf_model dbl x /\ mS x = mS d /\ mA x = mA d) /\
   accepts token (read_experience token read readN) (fun d x => wf_experience dbl u64 x /\ eS x = eS d /\ eA x = eA d) /\
   accepts token (read_mdp_policy token read) (fun d x => wf_mdp_policy dbl x /\ pS x = pS d /\ pA x = pA d) /\
   accepts token (read_pomdp_model token read)
     (fun d x => wf_pomdp_model dbl x /\ pmO x = pmO d /\ mS (pmM x) = mS (pmM d) /\ mA (pmM x) = mA (pmM d))) /\
  accepts token (read_pomdp_policy token read readN split_at tsize)
    (fun d x => wf_pomdp_policy dbl u64 x /\ ppS x = ppS d /\ ppA x = ppA d /\ ppO x = ppO d).
Proof.
  intros token read readN split_at tsize dbl u64 H1 H2. split.
  - exact (loaded_dense_lemma token read readN dbl u64 H1 H2).
  - exact (loaded_pomdp_policy_lemma token read readN split_at tsize dbl u64 H1 H2).
Qed.

Lemma valid_checkers_sound_lemma :
  (forall m, valid_model_b m = true -> wf_model anyQ m) /\
  (forall p, valid_mdp_policy_b p = true -> wf_mdp_policy anyQ p) /\
  (forall p, valid_pomdp_policy_b p = true -> wf_pomdp_policy anyQ anyN p) /\
  (forall A (dest res : A) st same, (same = true -> res = dest) -> load_atomic_b st same = true -> load_atomic dest res st).
Proof.
  split; [exact valid_model_b_sound|]. split; [exact valid_mdp_policy_b_sound|].
  split; [exact valid_pomdp_policy_b_sound | exact load_atomic_b_sound].
Qed.
